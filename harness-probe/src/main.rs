//! saprobe: the fixed corpus of the C19 version probe through whatever back ends this build has.
//! One JSON line per corpus entry on stdout, preceded by a header line naming the arrow / arrow2 versions the
//! public API of serde_arrow is typed with (found by comparing `TypeId`s with the directly imported crates).
//! Uses the harness's own (arrow independent) wire forms and generators.
#![allow(dead_code)]
#[path = "../../harness/src/dedump.rs"]
mod dedump;
#[path = "../../harness/src/dump.rs"]
mod dump;
#[path = "../../harness/src/gen_backend.rs"]
mod gen_backend;
#[path = "../../harness/src/gen_schema.rs"]
mod gen_schema;
#[path = "../../harness/src/outcome.rs"]
mod outcome;
#[path = "../../harness/src/rng.rs"]
mod rng;
#[path = "../../harness/src/schema_dump.rs"]
mod schema_dump;
#[path = "../../harness/src/sval.rs"]
mod sval;

use dedump::Dump;
use dump::view_to_json;
use marrow::datatypes::Field;
use marrow::view::View;
use schema_dump::{field_from_json, field_to_json, meta_to_json};
use serde_json::{json, Value};
use sval::Rows;

fn keep<T, E: std::fmt::Display>(f: impl FnOnce() -> Result<T, E>) -> Result<T, Value> {
    let mut kept = None;
    let out = outcome::run(|| {
        kept = Some(f()?);
        Ok::<Value, E>(Value::Null)
    });
    match kept {
        Some(v) if outcome::is_ok(&out) => Ok(v),
        _ => Err(out),
    }
}

fn de_out(f: impl FnOnce() -> Result<Dump, serde_arrow::Error>) -> Value {
    outcome::run(|| f().map(|d| d.0))
}

fn run_marrow(fields: &[Field], rows: &[Value]) -> Value {
    match keep(|| serde_arrow::to_marrow(fields, &Rows(rows))) {
        Err(e) => json!({ "ser": e }),
        Ok(arrays) => {
            let views: Vec<View> = arrays.iter().map(|a| a.as_view()).collect();
            let dumps: Vec<Value> = views.iter().map(view_to_json).collect();
            json!({"ser": {"ok": dumps}, "de": de_out(|| serde_arrow::from_marrow::<Dump>(fields, &views))})
        }
    }
}

#[cfg(feature = "any-arrow")]
mod with_arrow {
    use super::*;
    use serde_arrow::_impl::arrow::array::{ArrayRef, RecordBatch};
    use serde_arrow::_impl::arrow::datatypes::{Field as AField, FieldRef};
    use std::any::TypeId;

    macro_rules! api_version {
        ($($feat:literal $krate:ident $n:literal),*) => {{
            #[allow(unused_mut)]
            let mut v: Vec<u32> = Vec::new();
            $( #[cfg(feature = $feat)] { if TypeId::of::<AField>() == TypeId::of::<$krate::Field>() { v.push($n); } } )*
            v
        }};
    }

    pub fn api() -> Vec<u32> {
        api_version!("arrow-55" arrow_schema_55 55, "arrow-54" arrow_schema_54 54, "arrow-53" arrow_schema_53 53, "arrow-52" arrow_schema_52 52,
            "arrow-51" arrow_schema_51 51, "arrow-50" arrow_schema_50 50, "arrow-49" arrow_schema_49 49, "arrow-48" arrow_schema_48 48,
            "arrow-47" arrow_schema_47 47, "arrow-46" arrow_schema_46 46, "arrow-45" arrow_schema_45 45, "arrow-44" arrow_schema_44 44,
            "arrow-43" arrow_schema_43 43, "arrow-42" arrow_schema_42 42, "arrow-41" arrow_schema_41 41, "arrow-40" arrow_schema_40 40,
            "arrow-39" arrow_schema_39 39, "arrow-38" arrow_schema_38 38, "arrow-37" arrow_schema_37 37)
    }

    fn views(arrays: &[ArrayRef]) -> Value {
        match keep(|| arrays.iter().map(|a| Ok::<Value, marrow::error::MarrowError>(view_to_json(&View::try_from(a.as_ref())?))).collect::<Result<Vec<Value>, _>>()) {
            Ok(v) => json!({ "ok": v }),
            Err(e) => json!({ "view_err": e }),
        }
    }

    fn batch_info(b: &RecordBatch) -> Value {
        let schema = b.schema();
        let fields: Vec<Value> = schema
            .fields()
            .iter()
            .map(|f| match keep(|| Field::try_from(f.as_ref())) {
                Ok(f) => field_to_json(&f),
                Err(e) => e,
            })
            .collect();
        json!({"fields": fields, "meta": meta_to_json(schema.metadata()), "rows": b.num_rows(), "cols": b.num_columns()})
    }

    pub fn run(fields: &[Field], rows: &[Value]) -> Value {
        let afs: Vec<FieldRef> = match keep(|| fields.iter().map(|f| Ok::<FieldRef, marrow::error::MarrowError>(std::sync::Arc::new(AField::try_from(f)?))).collect()) {
            Ok(v) => v,
            Err(e) => return json!({"ser": {"field_err": e}}),
        };
        let mut out = serde_json::Map::new();
        match keep(|| serde_arrow::to_arrow(&afs, &Rows(rows))) {
            Err(e) => {
                out.insert("ser".into(), e);
            }
            Ok(arrays) => {
                out.insert("ser".into(), views(&arrays));
                out.insert("de".into(), de_out(|| serde_arrow::from_arrow::<Dump, _>(&afs, &arrays)));
            }
        }
        match keep(|| serde_arrow::to_record_batch(&afs, &Rows(rows))) {
            Err(e) => {
                out.insert("batch_ser".into(), e);
            }
            Ok(b) => {
                out.insert("batch_ser".into(), views(b.columns()));
                out.insert("batch".into(), batch_info(&b));
                out.insert("batch_de".into(), de_out(|| serde_arrow::from_record_batch::<Dump>(&b)));
            }
        }
        Value::Object(out)
    }
}

#[cfg(feature = "any-arrow2")]
mod with_arrow2 {
    use super::*;
    use serde_arrow::_impl::arrow2::array::Array as A2Array;
    use serde_arrow::_impl::arrow2::datatypes::Field as A2Field;
    use std::any::TypeId;

    pub fn api() -> Vec<u32> {
        #[allow(unused_mut)]
        let mut v = Vec::new();
        #[cfg(feature = "arrow2-0-17")]
        if TypeId::of::<A2Field>() == TypeId::of::<arrow2_0_17::datatypes::Field>() {
            v.push(17);
        }
        #[cfg(feature = "arrow2-0-16")]
        if TypeId::of::<A2Field>() == TypeId::of::<arrow2_0_16::datatypes::Field>() {
            v.push(16);
        }
        v
    }

    pub fn run(fields: &[Field], rows: &[Value]) -> Value {
        let afs: Vec<A2Field> = match keep(|| fields.iter().map(A2Field::try_from).collect::<Result<Vec<_>, marrow::error::MarrowError>>()) {
            Ok(v) => v,
            Err(e) => return json!({"ser": {"field_err": e}}),
        };
        let mut out = serde_json::Map::new();
        match keep(|| serde_arrow::to_arrow2(&afs, &Rows(rows))) {
            Err(e) => {
                out.insert("ser".into(), e);
            }
            Ok(arrays) => {
                let arrays: Vec<Box<dyn A2Array>> = arrays;
                let v = match keep(|| arrays.iter().map(|a| Ok::<Value, marrow::error::MarrowError>(view_to_json(&View::try_from(a.as_ref())?))).collect::<Result<Vec<Value>, _>>()) {
                    Ok(v) => json!({ "ok": v }),
                    Err(e) => json!({ "view_err": e }),
                };
                out.insert("ser".into(), v);
                out.insert("de".into(), de_out(|| serde_arrow::from_arrow2::<Dump, _>(&afs, &arrays)));
            }
        }
        Value::Object(out)
    }
}

fn main() {
    outcome::install_panic_hook();
    #[allow(unused_mut)]
    let mut header = serde_json::Map::new();
    #[cfg(feature = "any-arrow")]
    header.insert("api_arrow".into(), json!(with_arrow::api()));
    #[cfg(feature = "any-arrow2")]
    header.insert("api_arrow2".into(), json!(with_arrow2::api()));
    println!("{}", json!({ "header": header }));
    for entry in gen_backend::probe_corpus() {
        let fields: Vec<Field> = entry["schema"].as_array().unwrap().iter().map(field_from_json).collect();
        let rows = entry["rows"].as_array().unwrap();
        #[allow(unused_mut)]
        let mut line = json!({"i": entry["i"], "schema": entry["schema"], "nrows": rows.len(), "marrow": run_marrow(&fields, rows)});
        #[cfg(feature = "any-arrow")]
        {
            line["arrow"] = with_arrow::run(&fields, rows);
        }
        #[cfg(feature = "any-arrow2")]
        {
            line["arrow2"] = with_arrow2::run(&fields, rows);
        }
        println!("{line}");
    }
}
