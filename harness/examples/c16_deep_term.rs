//! C16 replay: a `data_type` text / a `children` tree nested N levels deep handed to `SerdeArrowSchema::from_value`.
//! usage: c16_deep_term <term|children> <depth>
use serde_arrow::schema::{SchemaLike, SerdeArrowSchema};
use serde_json::json;

fn main() {
    let args: Vec<String> = std::env::args().collect();
    let kind = args.get(1).map(|s| s.as_str()).unwrap_or("term");
    let depth: usize = args.get(2).and_then(|s| s.parse().ok()).unwrap_or(100_000);
    let res = match kind {
        "term" => {
            let text = format!("{}I8{}", "A(".repeat(depth), ")".repeat(depth));
            let v = json!([{"name": "a", "data_type": text}]);
            SerdeArrowSchema::from_value(&v).map(|_| ())
        }
        _ => {
            let mut v = json!({"name": "x", "data_type": "I8"});
            for _ in 0..depth {
                v = json!({"name": "x", "data_type": "List", "children": [v]});
            }
            let r = SerdeArrowSchema::from_value(&json!([v.clone()])).map(|_| ());
            std::mem::forget(v);
            r
        }
    };
    match res {
        Ok(()) => println!("ok"),
        Err(e) => println!("err: {}", e.to_string().chars().take(120).collect::<String>()),
    }
}
