//! A logical column (Field wire form + LVal JSON rows, see lgen.rs) materialised with arrow-rs (and, for a
//! subset of types, arrow2), and an independent reading of arrow-rs arrays back into LVal JSON rows that
//! uses only arrow-rs accessors (`arrow_oracle`).
//!
//! Physical layout chosen by `build_arrow` (deterministic in (field, rows); nothing random):
//!   * validity: a non-nullable field has no null buffer; a nullable field has one iff some row is null or
//!     the number of rows is even (so "nullable, no nulls" appears both with and without a buffer),
//!   * null slots carry garbage: primitives a non-zero value, (Large)Utf8/Binary a non-empty byte range for
//!     even row indices, FixedSizeBinary arbitrary bytes, List/LargeList/Map a child range of `i % 3`
//!     (Map: `i % 2`) garbage elements, FixedSizeList `n` garbage elements, Struct arbitrary child values,
//!     Dictionary an in-range key,
//!   * (Large)Utf8/Binary: for `len % 3 == 2` the data buffer starts with 2 unused bytes (offsets[0] == 2),
//!   * List/LargeList/Map: for odd `len` the child starts with one unused element (offsets[0] == 1); for
//!     `len % 3 == 0` the child ends with one unused element,
//!   * Dictionary: values = distinct row values in order of first appearance, preceded by one unused entry
//!     for odd `len`,
//!   * dense Union: child k holds the values of variant k in row order, preceded by one unused element when
//!     `(k + len)` is odd,
//!   * Struct / List / LargeList / FixedSizeList are assembled through `ArrayData` (full validation) and
//!     `make_array`, because the typed constructors reject non-nullable children with *logical* nulls
//!     (a non-nullable Union child whose selected variant value is null); all other types use the typed
//!     constructors; Utf8View/BinaryView use the builders (block size 32) and then re-attach validity.
#![allow(dead_code)]
use crate::sval::{hex, unhex};
use arrow_array::cast::AsArray;
use arrow_array::types::*;
use arrow_array::{Array, ArrayRef, ArrowPrimitiveType};
use arrow_buffer::{BooleanBuffer, Buffer, NullBuffer, OffsetBuffer, ScalarBuffer};
use arrow_schema::{DataType, Field, TimeUnit, UnionFields, UnionMode};
use serde_json::{json, Value};
use std::sync::Arc;

type R<T> = Result<T, String>;

fn es<E: std::fmt::Display>(e: E) -> String {
    e.to_string()
}

// ================================================================================================ schema

fn unit(v: &Value) -> TimeUnit {
    match v["unit"].as_str().unwrap() {
        "Second" => TimeUnit::Second,
        "Millisecond" => TimeUnit::Millisecond,
        "Microsecond" => TimeUnit::Microsecond,
        "Nanosecond" => TimeUnit::Nanosecond,
        other => panic!("bad unit {other}"),
    }
}

pub fn arrow_dt(dt: &Value) -> DataType {
    use DataType as D;
    match dt["t"].as_str().unwrap() {
        "Null" => D::Null,
        "Boolean" => D::Boolean,
        "Int8" => D::Int8,
        "Int16" => D::Int16,
        "Int32" => D::Int32,
        "Int64" => D::Int64,
        "UInt8" => D::UInt8,
        "UInt16" => D::UInt16,
        "UInt32" => D::UInt32,
        "UInt64" => D::UInt64,
        "Float16" => D::Float16,
        "Float32" => D::Float32,
        "Float64" => D::Float64,
        "Date32" => D::Date32,
        "Date64" => D::Date64,
        "Time32" => D::Time32(unit(dt)),
        "Time64" => D::Time64(unit(dt)),
        "Timestamp" => D::Timestamp(unit(dt), dt["tz"].as_str().map(|s| s.into())),
        "Duration" => D::Duration(unit(dt)),
        "Decimal128" => D::Decimal128(dt["p"].as_u64().unwrap() as u8, dt["s"].as_i64().unwrap() as i8),
        "Utf8" => D::Utf8,
        "LargeUtf8" => D::LargeUtf8,
        "Utf8View" => D::Utf8View,
        "Binary" => D::Binary,
        "LargeBinary" => D::LargeBinary,
        "BinaryView" => D::BinaryView,
        "FixedSizeBinary" => D::FixedSizeBinary(dt["n"].as_i64().unwrap() as i32),
        "Struct" => D::Struct(dt["fields"].as_array().unwrap().iter().map(arrow_field).collect::<Vec<_>>().into()),
        "List" => D::List(Arc::new(arrow_field(&dt["child"]))),
        "LargeList" => D::LargeList(Arc::new(arrow_field(&dt["child"]))),
        "FixedSizeList" => D::FixedSizeList(Arc::new(arrow_field(&dt["child"])), dt["n"].as_i64().unwrap() as i32),
        "Map" => D::Map(Arc::new(arrow_field(&dt["entries"])), dt["sorted"].as_bool().unwrap()),
        "Dictionary" => D::Dictionary(Box::new(arrow_dt(&dt["key"])), Box::new(arrow_dt(&dt["value"]))),
        "Union" => {
            let fs = dt["fields"].as_array().unwrap();
            let ids: Vec<i8> = fs.iter().map(|e| e[0].as_i64().unwrap() as i8).collect();
            let fields: Vec<Field> = fs.iter().map(|e| arrow_field(&e[1])).collect();
            let mode = if dt["mode"].as_str() == Some("Sparse") { UnionMode::Sparse } else { UnionMode::Dense };
            D::Union(UnionFields::new(ids, fields), mode)
        }
        other => panic!("arrowsrc: unknown data type {other}"),
    }
}

pub fn arrow_field(field: &Value) -> Field {
    let mut f = Field::new(field["name"].as_str().unwrap(), arrow_dt(&field["dt"]), field["nullable"].as_bool().unwrap());
    if let Some(meta) = field["meta"].as_array() {
        if !meta.is_empty() {
            f = f.with_metadata(meta.iter().map(|kv| (kv[0].as_str().unwrap().to_string(), kv[1].as_str().unwrap().to_string())).collect());
        }
    }
    f
}

// ================================================================================================ LVal access

fn lv_int(v: &Value) -> R<i128> {
    v["int"].as_str().ok_or_else(|| format!("expected {{\"int\":…}}, got {v}"))?.parse::<i128>().map_err(es)
}

fn lv_float(v: &Value) -> R<u64> {
    v["float"].as_str().ok_or_else(|| format!("expected {{\"float\":…}}, got {v}"))?.parse::<u64>().map_err(es)
}

fn lv_bool(v: &Value) -> R<bool> {
    v["bool"].as_bool().ok_or_else(|| format!("expected {{\"bool\":…}}, got {v}"))
}

fn lv_bytes(v: &Value, key: &str) -> R<Vec<u8>> {
    Ok(unhex(v[key].as_str().ok_or_else(|| format!("expected {{\"{key}\":…}}, got {v}"))?))
}

fn lv_list<'a>(v: &'a Value, key: &str) -> R<&'a Vec<Value>> {
    v[key].as_array().ok_or_else(|| format!("expected {{\"{key}\":[…]}}, got {v}"))
}

fn int_lv(v: i128) -> Value {
    json!({ "int": v.to_string() })
}

// ================================================================================================ garbage

/// deterministic filler for slots hidden under a null parent: a valid slot of `field` (may be null if nullable)
fn garbage(field: &Value, k: usize) -> Value {
    if field["dt"]["t"] == "Null" {
        return Value::Null;
    }
    if field["nullable"].as_bool().unwrap() && k % 3 == 1 {
        return Value::Null;
    }
    garbage_nn(&field["dt"], k)
}

/// deterministic non-null filler value of a data type
fn garbage_nn(dt: &Value, k: usize) -> Value {
    match dt["t"].as_str().unwrap() {
        "Null" => Value::Null,
        "Boolean" => json!({ "bool": k % 2 == 0 }),
        "Int8" | "Int16" | "Int32" | "Int64" | "UInt8" | "UInt16" | "UInt32" | "UInt64" | "Date32" | "Date64" | "Time32" | "Time64"
        | "Timestamp" | "Duration" => int_lv((k % 100) as i128 + 1),
        "Decimal128" => int_lv((k % 9) as i128 + 1),
        "Float16" | "Float32" | "Float64" => json!({ "float": ((k % 1000) as u64 + 1).to_string() }),
        "Utf8" | "LargeUtf8" | "Utf8View" => json!({ "str": hex(format!("~g{}", k % 10).as_bytes()) }),
        "Binary" | "LargeBinary" | "BinaryView" => json!({ "bin": hex(&[0xEE, k as u8]) }),
        "FixedSizeBinary" => {
            let n = dt["n"].as_u64().unwrap() as usize;
            json!({ "bin": hex(&vec![0xA0u8.wrapping_add(k as u8); n]) })
        }
        "Dictionary" => json!({ "str": hex(b"~gd") }),
        "Struct" => {
            let fs = dt["fields"].as_array().unwrap();
            json!({ "struct": fs.iter().enumerate().map(|(j, f)| json!([f["name"], garbage(f, k + j + 1)])).collect::<Vec<_>>() })
        }
        "List" | "LargeList" => json!({ "list": (0..k % 3).map(|e| garbage(&dt["child"], k + e)).collect::<Vec<_>>() }),
        "FixedSizeList" => {
            let n = dt["n"].as_u64().unwrap() as usize;
            json!({ "list": (0..n).map(|e| garbage(&dt["child"], k + e)).collect::<Vec<_>>() })
        }
        "Map" => {
            let fs = dt["entries"]["dt"]["fields"].as_array().unwrap();
            json!({ "map": (0..k % 2).map(|e| json!([garbage_nn(&fs[0]["dt"], k + e), garbage(&fs[1], k + e)])).collect::<Vec<_>>() })
        }
        "Union" => {
            let fs = dt["fields"].as_array().unwrap();
            let v = k % fs.len();
            json!({ "union": [fs[v][0].as_i64().unwrap().to_string(), garbage(&fs[v][1], k)] })
        }
        other => panic!("arrowsrc: unknown data type {other}"),
    }
}

// ================================================================================================ layouts (shared by both backends)

/// validity bools of a column, `None` when no null buffer is to be attached
fn validity_bools(field: &Value, rows: &[Value]) -> R<Option<Vec<bool>>> {
    let nullable = field["nullable"].as_bool().unwrap();
    let any_null = rows.iter().any(|r| r.is_null());
    if !nullable {
        if any_null {
            return Err(format!("null row in non-nullable field {:?}", field["name"].as_str().unwrap_or("")));
        }
        return Ok(None);
    }
    if any_null || rows.len() % 2 == 0 {
        Ok(Some(rows.iter().map(|r| !r.is_null()).collect()))
    } else {
        Ok(None)
    }
}

/// offsets + data of a variable-size bytes column
fn bytes_layout(rows: &[Value], key: &str) -> R<(Vec<i64>, Vec<u8>)> {
    let mut data: Vec<u8> = Vec::new();
    if rows.len() % 3 == 2 {
        data.extend_from_slice(b"^^");
    }
    let mut offsets = vec![data.len() as i64];
    for (i, r) in rows.iter().enumerate() {
        if r.is_null() {
            if i % 2 == 0 {
                data.extend_from_slice(b"~g");
            }
        } else {
            data.extend_from_slice(&lv_bytes(r, key)?);
        }
        offsets.push(data.len() as i64);
    }
    Ok((offsets, data))
}

fn fixed_bytes_layout(rows: &[Value], n: usize) -> R<Vec<u8>> {
    let mut data = Vec::new();
    for (i, r) in rows.iter().enumerate() {
        if r.is_null() {
            data.extend(std::iter::repeat(0xA0u8.wrapping_add(i as u8)).take(n));
        } else {
            let b = lv_bytes(r, "bin")?;
            if b.len() != n {
                return Err(format!("FixedSizeBinary({n}) row of {} bytes", b.len()));
            }
            data.extend_from_slice(&b);
        }
    }
    Ok(data)
}

/// child rows per struct field
fn struct_layout(dt: &Value, rows: &[Value]) -> R<Vec<Vec<Value>>> {
    let fs = dt["fields"].as_array().unwrap();
    let mut cols: Vec<Vec<Value>> = vec![Vec::with_capacity(rows.len()); fs.len()];
    for (i, r) in rows.iter().enumerate() {
        if r.is_null() {
            for (j, f) in fs.iter().enumerate() {
                cols[j].push(garbage(f, i + j));
            }
        } else {
            let vs = lv_list(r, "struct")?;
            if vs.len() != fs.len() {
                return Err(format!("struct row with {} of {} fields", vs.len(), fs.len()));
            }
            for (j, f) in fs.iter().enumerate() {
                if vs[j][0] != f["name"] {
                    return Err(format!("struct row field {} is {} instead of {}", j, vs[j][0], f["name"]));
                }
                cols[j].push(vs[j][1].clone());
            }
        }
    }
    Ok(cols)
}

/// offsets + child rows of a List / LargeList
fn list_layout(dt: &Value, rows: &[Value]) -> R<(Vec<i64>, Vec<Value>)> {
    let child = &dt["child"];
    let mut out: Vec<Value> = Vec::new();
    if rows.len() % 2 == 1 {
        out.push(garbage(child, 5));
    }
    let mut offsets = vec![out.len() as i64];
    for (i, r) in rows.iter().enumerate() {
        if r.is_null() {
            for e in 0..i % 3 {
                out.push(garbage(child, i + e));
            }
        } else {
            out.extend(lv_list(r, "list")?.iter().cloned());
        }
        offsets.push(out.len() as i64);
    }
    if rows.len() % 3 == 0 {
        out.push(garbage(child, 7));
    }
    Ok((offsets, out))
}

fn fixed_list_layout(dt: &Value, rows: &[Value]) -> R<Vec<Value>> {
    let child = &dt["child"];
    let n = dt["n"].as_u64().unwrap() as usize;
    let mut out: Vec<Value> = Vec::new();
    for (i, r) in rows.iter().enumerate() {
        if r.is_null() {
            for e in 0..n {
                out.push(garbage(child, i + e));
            }
        } else {
            let vs = lv_list(r, "list")?;
            if vs.len() != n {
                return Err(format!("FixedSizeList({n}) row of {} elements", vs.len()));
            }
            out.extend(vs.iter().cloned());
        }
    }
    Ok(out)
}

/// offsets + key rows + value rows of a Map
fn map_layout(dt: &Value, rows: &[Value]) -> R<(Vec<i64>, Vec<Value>, Vec<Value>)> {
    let fs = dt["entries"]["dt"]["fields"].as_array().unwrap();
    let (kf, vf) = (&fs[0], &fs[1]);
    let (mut ks, mut vs): (Vec<Value>, Vec<Value>) = (Vec::new(), Vec::new());
    if rows.len() % 2 == 1 {
        ks.push(garbage_nn(&kf["dt"], 5));
        vs.push(garbage(vf, 5));
    }
    let mut offsets = vec![ks.len() as i64];
    for (i, r) in rows.iter().enumerate() {
        if r.is_null() {
            for e in 0..i % 2 {
                ks.push(garbage_nn(&kf["dt"], i + e));
                vs.push(garbage(vf, i + e));
            }
        } else {
            for kv in lv_list(r, "map")? {
                ks.push(kv[0].clone());
                vs.push(kv[1].clone());
            }
        }
        offsets.push(ks.len() as i64);
    }
    if rows.len() % 3 == 0 {
        ks.push(garbage_nn(&kf["dt"], 7));
        vs.push(garbage(vf, 7));
    }
    Ok((offsets, ks, vs))
}

/// keys + distinct values of a Dictionary column
fn dict_layout(rows: &[Value]) -> R<(Vec<usize>, Vec<Vec<u8>>)> {
    let mut values: Vec<Vec<u8>> = Vec::new();
    if rows.len() % 2 == 1 {
        values.push(b"~unused".to_vec());
    }
    let mut keys = Vec::new();
    for r in rows {
        if r.is_null() {
            keys.push(usize::MAX);
            continue;
        }
        let b = lv_bytes(r, "str")?;
        let k = match values.iter().position(|v| *v == b) {
            Some(k) => k,
            None => {
                values.push(b);
                values.len() - 1
            }
        };
        keys.push(k);
    }
    for (i, k) in keys.iter_mut().enumerate() {
        if *k == usize::MAX {
            *k = if values.is_empty() { 0 } else { (i + 1) % values.len() };
        }
    }
    Ok((keys, values))
}

/// type ids + offsets + child rows per variant of a dense Union
fn union_layout(dt: &Value, rows: &[Value]) -> R<(Vec<i8>, Vec<i32>, Vec<Vec<Value>>)> {
    let fs = dt["fields"].as_array().unwrap();
    let ids: Vec<i64> = fs.iter().map(|e| e[0].as_i64().unwrap()).collect();
    let mut children: Vec<Vec<Value>> = vec![Vec::new(); fs.len()];
    for (k, c) in children.iter_mut().enumerate() {
        if (k + rows.len()) % 2 == 1 {
            c.push(garbage(&fs[k][1], k + 3));
        }
    }
    let (mut types, mut offsets) = (Vec::new(), Vec::new());
    for r in rows {
        let u = lv_list(r, "union")?;
        let tid: i64 = u[0].as_str().ok_or("union type id")?.parse().map_err(es)?;
        let k = ids.iter().position(|x| *x == tid).ok_or_else(|| format!("unknown union type id {tid}"))?;
        types.push(tid as i8);
        offsets.push(children[k].len() as i32);
        children[k].push(u[1].clone());
    }
    Ok((types, offsets, children))
}

// ================================================================================================ arrow-rs

fn nulls_of(field: &Value, rows: &[Value]) -> R<Option<NullBuffer>> {
    Ok(validity_bools(field, rows)?.map(NullBuffer::from))
}

fn prim_int<T>(dt: DataType, rows: &[Value], nulls: Option<NullBuffer>) -> R<ArrayRef>
where
    T: ArrowPrimitiveType,
    T::Native: TryFrom<i128>,
{
    let mut vals: Vec<T::Native> = Vec::with_capacity(rows.len());
    for (i, r) in rows.iter().enumerate() {
        let v = if r.is_null() { (i % 100) as i128 + 1 } else { lv_int(r)? };
        vals.push(T::Native::try_from(v).map_err(|_| format!("{v} out of range for {dt}"))?);
    }
    let arr = arrow_array::PrimitiveArray::<T>::try_new(ScalarBuffer::from(vals), nulls).map_err(es)?;
    Ok(Arc::new(arr.with_data_type(dt)))
}

fn float_bits(rows: &[Value]) -> R<Vec<u64>> {
    rows.iter().enumerate().map(|(i, r)| if r.is_null() { Ok((i % 1000) as u64 + 1) } else { lv_float(r) }).collect()
}

fn bytes_arr<T: ByteArrayType>(rows: &[Value], key: &str, nulls: Option<NullBuffer>) -> R<ArrayRef>
where
    T::Offset: TryFrom<i64>,
{
    let (offsets, data) = bytes_layout(rows, key)?;
    let offsets: Vec<T::Offset> = offsets.iter().map(|o| T::Offset::try_from(*o).map_err(|_| "offset".to_string())).collect::<R<_>>()?;
    let arr = arrow_array::GenericByteArray::<T>::try_new(OffsetBuffer::new(ScalarBuffer::from(offsets)), Buffer::from_vec(data), nulls).map_err(es)?;
    Ok(Arc::new(arr))
}

fn list_arr(dt: DataType, large: bool, len: usize, offsets: &[i64], child: ArrayRef, nulls: Option<NullBuffer>) -> R<ArrayRef> {
    let buf = if large {
        ScalarBuffer::<i64>::from(offsets.to_vec()).into_inner()
    } else {
        ScalarBuffer::<i32>::from(offsets.iter().map(|o| *o as i32).collect::<Vec<_>>()).into_inner()
    };
    let data = arrow_data::ArrayData::builder(dt).len(len).nulls(nulls).add_buffer(buf).add_child_data(child.to_data()).build().map_err(es)?;
    Ok(arrow_array::make_array(data))
}

fn struct_arr(dt: DataType, len: usize, children: &[ArrayRef], nulls: Option<NullBuffer>) -> R<ArrayRef> {
    let mut b = arrow_data::ArrayData::builder(dt).len(len).nulls(nulls);
    for c in children {
        b = b.add_child_data(c.to_data());
    }
    Ok(arrow_array::make_array(b.build().map_err(es)?))
}

fn dict_arr<K>(keys: &[usize], values: ArrayRef, nulls: Option<NullBuffer>) -> R<ArrayRef>
where
    K: ArrowDictionaryKeyType,
    K::Native: TryFrom<usize>,
{
    let ks: Vec<K::Native> = keys.iter().map(|k| K::Native::try_from(*k).map_err(|_| format!("dictionary key {k} out of range"))).collect::<R<_>>()?;
    let keys = arrow_array::PrimitiveArray::<K>::try_new(ScalarBuffer::from(ks), nulls).map_err(es)?;
    Ok(Arc::new(arrow_array::DictionaryArray::<K>::try_new(keys, values).map_err(es)?))
}

pub fn build_arrow(field: &Value, rows: &[Value]) -> R<ArrayRef> {
    use arrow_array as aa;
    let dtj = &field["dt"];
    let dt = arrow_dt(dtj);
    let ty = dtj["t"].as_str().unwrap();
    if ty == "Null" {
        if rows.iter().any(|r| !r.is_null()) {
            return Err("non-null row in a Null column".into());
        }
        return Ok(Arc::new(aa::NullArray::new(rows.len())));
    }
    if ty == "Union" && rows.iter().any(|r| r.is_null()) {
        return Err("null row in a Union column".into());
    }
    let nulls = if ty == "Union" { None } else { nulls_of(field, rows)? };
    let n = rows.len();
    match ty {
        "Boolean" => {
            let vals: Vec<bool> = rows.iter().enumerate().map(|(i, r)| if r.is_null() { Ok(i % 2 == 0) } else { lv_bool(r) }).collect::<R<_>>()?;
            Ok(Arc::new(aa::BooleanArray::new(BooleanBuffer::from(vals), nulls)))
        }
        "Int8" => prim_int::<Int8Type>(dt, rows, nulls),
        "Int16" => prim_int::<Int16Type>(dt, rows, nulls),
        "Int32" => prim_int::<Int32Type>(dt, rows, nulls),
        "Int64" => prim_int::<Int64Type>(dt, rows, nulls),
        "UInt8" => prim_int::<UInt8Type>(dt, rows, nulls),
        "UInt16" => prim_int::<UInt16Type>(dt, rows, nulls),
        "UInt32" => prim_int::<UInt32Type>(dt, rows, nulls),
        "UInt64" => prim_int::<UInt64Type>(dt, rows, nulls),
        "Date32" => prim_int::<Date32Type>(dt, rows, nulls),
        "Date64" => prim_int::<Date64Type>(dt, rows, nulls),
        "Time32" => match unit(dtj) {
            TimeUnit::Second => prim_int::<Time32SecondType>(dt, rows, nulls),
            TimeUnit::Millisecond => prim_int::<Time32MillisecondType>(dt, rows, nulls),
            u => Err(format!("Time32({u:?}) is not an Arrow type")),
        },
        "Time64" => match unit(dtj) {
            TimeUnit::Microsecond => prim_int::<Time64MicrosecondType>(dt, rows, nulls),
            TimeUnit::Nanosecond => prim_int::<Time64NanosecondType>(dt, rows, nulls),
            u => Err(format!("Time64({u:?}) is not an Arrow type")),
        },
        "Timestamp" => match unit(dtj) {
            TimeUnit::Second => prim_int::<TimestampSecondType>(dt, rows, nulls),
            TimeUnit::Millisecond => prim_int::<TimestampMillisecondType>(dt, rows, nulls),
            TimeUnit::Microsecond => prim_int::<TimestampMicrosecondType>(dt, rows, nulls),
            TimeUnit::Nanosecond => prim_int::<TimestampNanosecondType>(dt, rows, nulls),
        },
        "Duration" => match unit(dtj) {
            TimeUnit::Second => prim_int::<DurationSecondType>(dt, rows, nulls),
            TimeUnit::Millisecond => prim_int::<DurationMillisecondType>(dt, rows, nulls),
            TimeUnit::Microsecond => prim_int::<DurationMicrosecondType>(dt, rows, nulls),
            TimeUnit::Nanosecond => prim_int::<DurationNanosecondType>(dt, rows, nulls),
        },
        "Decimal128" => prim_int::<Decimal128Type>(dt, rows, nulls),
        "Float16" => {
            let vals: Vec<half::f16> = float_bits(rows)?.iter().map(|b| half::f16::from_bits(*b as u16)).collect();
            Ok(Arc::new(aa::Float16Array::try_new(ScalarBuffer::from(vals), nulls).map_err(es)?))
        }
        "Float32" => {
            let vals: Vec<f32> = float_bits(rows)?.iter().map(|b| f32::from_bits(*b as u32)).collect();
            Ok(Arc::new(aa::Float32Array::try_new(ScalarBuffer::from(vals), nulls).map_err(es)?))
        }
        "Float64" => {
            let vals: Vec<f64> = float_bits(rows)?.iter().map(|b| f64::from_bits(*b)).collect();
            Ok(Arc::new(aa::Float64Array::try_new(ScalarBuffer::from(vals), nulls).map_err(es)?))
        }
        "Utf8" => bytes_arr::<Utf8Type>(rows, "str", nulls),
        "LargeUtf8" => bytes_arr::<LargeUtf8Type>(rows, "str", nulls),
        "Binary" => bytes_arr::<BinaryType>(rows, "bin", nulls),
        "LargeBinary" => bytes_arr::<LargeBinaryType>(rows, "bin", nulls),
        "Utf8View" => {
            let mut b = aa::builder::StringViewBuilder::new().with_fixed_block_size(32);
            for r in rows {
                if r.is_null() {
                    b.append_null();
                } else {
                    b.append_value(String::from_utf8(lv_bytes(r, "str")?).map_err(es)?);
                }
            }
            let (views, buffers, _) = b.finish().into_parts();
            Ok(Arc::new(aa::StringViewArray::try_new(views, buffers, nulls).map_err(es)?))
        }
        "BinaryView" => {
            let mut b = aa::builder::BinaryViewBuilder::new().with_fixed_block_size(32);
            for r in rows {
                if r.is_null() {
                    b.append_null();
                } else {
                    b.append_value(lv_bytes(r, "bin")?);
                }
            }
            let (views, buffers, _) = b.finish().into_parts();
            Ok(Arc::new(aa::BinaryViewArray::try_new(views, buffers, nulls).map_err(es)?))
        }
        "FixedSizeBinary" => {
            let w = dtj["n"].as_u64().unwrap() as usize;
            let data = fixed_bytes_layout(rows, w)?;
            Ok(Arc::new(aa::FixedSizeBinaryArray::try_new(w as i32, Buffer::from_vec(data), nulls).map_err(es)?))
        }
        "Dictionary" => {
            let (keys, values) = dict_layout(rows)?;
            let vrows: Vec<Value> = values.iter().map(|v| json!({ "str": hex(v) })).collect();
            let vfield = json!({"name": "values", "nullable": false, "meta": [], "dt": dtj["value"]});
            let values = build_arrow(&vfield, &vrows)?;
            match dtj["key"]["t"].as_str().unwrap() {
                "Int8" => dict_arr::<Int8Type>(&keys, values, nulls),
                "Int16" => dict_arr::<Int16Type>(&keys, values, nulls),
                "Int32" => dict_arr::<Int32Type>(&keys, values, nulls),
                "Int64" => dict_arr::<Int64Type>(&keys, values, nulls),
                "UInt8" => dict_arr::<UInt8Type>(&keys, values, nulls),
                "UInt16" => dict_arr::<UInt16Type>(&keys, values, nulls),
                "UInt32" => dict_arr::<UInt32Type>(&keys, values, nulls),
                "UInt64" => dict_arr::<UInt64Type>(&keys, values, nulls),
                other => Err(format!("unsupported dictionary key type {other}")),
            }
        }
        "Struct" => {
            let fs = dtj["fields"].as_array().unwrap();
            let cols = struct_layout(dtj, rows)?;
            let children: Vec<ArrayRef> = fs.iter().zip(&cols).map(|(f, c)| build_arrow(f, c)).collect::<R<_>>()?;
            struct_arr(dt, n, &children, nulls)
        }
        "List" | "LargeList" => {
            let (offsets, crow) = list_layout(dtj, rows)?;
            let child = build_arrow(&dtj["child"], &crow)?;
            list_arr(dt, ty == "LargeList", n, &offsets, child, nulls)
        }
        "FixedSizeList" => {
            let crow = fixed_list_layout(dtj, rows)?;
            let child = build_arrow(&dtj["child"], &crow)?;
            let data = arrow_data::ArrayData::builder(dt).len(n).nulls(nulls).add_child_data(child.to_data()).build().map_err(es)?;
            Ok(arrow_array::make_array(data))
        }
        "Map" => {
            let (offsets, ks, vs) = map_layout(dtj, rows)?;
            let entries_field = arrow_field(&dtj["entries"]);
            let fs = dtj["entries"]["dt"]["fields"].as_array().unwrap();
            let keys = build_arrow(&fs[0], &ks)?;
            let values = build_arrow(&fs[1], &vs)?;
            let entries = struct_arr(entries_field.data_type().clone(), ks.len(), &[keys, values], None)?;
            let entries = entries.as_struct().clone();
            let offsets = OffsetBuffer::new(ScalarBuffer::from(offsets.iter().map(|o| *o as i32).collect::<Vec<_>>()));
            let arr = aa::MapArray::try_new(Arc::new(entries_field), offsets, entries, nulls, dtj["sorted"].as_bool().unwrap()).map_err(es)?;
            Ok(Arc::new(arr))
        }
        "Union" => {
            if dtj["mode"].as_str() == Some("Sparse") {
                return Err("sparse unions are not built".into());
            }
            let DataType::Union(ufields, _) = dt else { unreachable!() };
            let (types, offsets, crow) = union_layout(dtj, rows)?;
            let fs = dtj["fields"].as_array().unwrap();
            let children: Vec<ArrayRef> = fs.iter().zip(&crow).map(|(f, c)| build_arrow(&f[1], c)).collect::<R<_>>()?;
            let arr = aa::UnionArray::try_new(ufields, ScalarBuffer::from(types), Some(ScalarBuffer::from(offsets)), children).map_err(es)?;
            Ok(Arc::new(arr))
        }
        other => Err(format!("build_arrow: unsupported type {other}")),
    }
}

// ================================================================================================ oracle

fn prim_at<T>(arr: &dyn Array, i: usize) -> Value
where
    T: ArrowPrimitiveType,
    T::Native: Into<i128>,
{
    int_lv(arr.as_primitive::<T>().value(i).into())
}

/// row `i` of `arr` as LVal JSON, read through arrow-rs accessors only
pub fn oracle_at(arr: &dyn Array, i: usize) -> Value {
    use DataType as D;
    assert!(i < arr.len(), "oracle_at: index {i} out of bounds for array of length {}", arr.len());
    let dt = arr.data_type();
    if matches!(dt, D::Null) {
        return Value::Null;
    }
    if arr.is_null(i) {
        return Value::Null;
    }
    match dt {
        D::Boolean => json!({ "bool": arr.as_boolean().value(i) }),
        D::Int8 => prim_at::<Int8Type>(arr, i),
        D::Int16 => prim_at::<Int16Type>(arr, i),
        D::Int32 => prim_at::<Int32Type>(arr, i),
        D::Int64 => prim_at::<Int64Type>(arr, i),
        D::UInt8 => prim_at::<UInt8Type>(arr, i),
        D::UInt16 => prim_at::<UInt16Type>(arr, i),
        D::UInt32 => prim_at::<UInt32Type>(arr, i),
        D::UInt64 => prim_at::<UInt64Type>(arr, i),
        D::Date32 => prim_at::<Date32Type>(arr, i),
        D::Date64 => prim_at::<Date64Type>(arr, i),
        D::Time32(TimeUnit::Second) => prim_at::<Time32SecondType>(arr, i),
        D::Time32(_) => prim_at::<Time32MillisecondType>(arr, i),
        D::Time64(TimeUnit::Microsecond) => prim_at::<Time64MicrosecondType>(arr, i),
        D::Time64(_) => prim_at::<Time64NanosecondType>(arr, i),
        D::Timestamp(TimeUnit::Second, _) => prim_at::<TimestampSecondType>(arr, i),
        D::Timestamp(TimeUnit::Millisecond, _) => prim_at::<TimestampMillisecondType>(arr, i),
        D::Timestamp(TimeUnit::Microsecond, _) => prim_at::<TimestampMicrosecondType>(arr, i),
        D::Timestamp(TimeUnit::Nanosecond, _) => prim_at::<TimestampNanosecondType>(arr, i),
        D::Duration(TimeUnit::Second) => prim_at::<DurationSecondType>(arr, i),
        D::Duration(TimeUnit::Millisecond) => prim_at::<DurationMillisecondType>(arr, i),
        D::Duration(TimeUnit::Microsecond) => prim_at::<DurationMicrosecondType>(arr, i),
        D::Duration(TimeUnit::Nanosecond) => prim_at::<DurationNanosecondType>(arr, i),
        D::Decimal128(_, _) => prim_at::<Decimal128Type>(arr, i),
        D::Float16 => json!({ "float": (arr.as_primitive::<Float16Type>().value(i).to_bits() as u64).to_string() }),
        D::Float32 => json!({ "float": (arr.as_primitive::<Float32Type>().value(i).to_bits() as u64).to_string() }),
        D::Float64 => json!({ "float": arr.as_primitive::<Float64Type>().value(i).to_bits().to_string() }),
        D::Utf8 => json!({ "str": hex(arr.as_string::<i32>().value(i).as_bytes()) }),
        D::LargeUtf8 => json!({ "str": hex(arr.as_string::<i64>().value(i).as_bytes()) }),
        D::Utf8View => json!({ "str": hex(arr.as_string_view().value(i).as_bytes()) }),
        D::Binary => json!({ "bin": hex(arr.as_binary::<i32>().value(i)) }),
        D::LargeBinary => json!({ "bin": hex(arr.as_binary::<i64>().value(i)) }),
        D::BinaryView => json!({ "bin": hex(arr.as_binary_view().value(i)) }),
        D::FixedSizeBinary(_) => json!({ "bin": hex(arr.as_fixed_size_binary().value(i)) }),
        D::Struct(fields) => {
            let s = arr.as_struct();
            json!({ "struct": fields.iter().enumerate().map(|(j, f)| json!([f.name(), oracle_at(s.column(j).as_ref(), i)])).collect::<Vec<_>>() })
        }
        D::List(_) => {
            let l = arr.as_list::<i32>();
            let o = l.value_offsets();
            json!({ "list": (o[i] as usize..o[i + 1] as usize).map(|k| oracle_at(l.values().as_ref(), k)).collect::<Vec<_>>() })
        }
        D::LargeList(_) => {
            let l = arr.as_list::<i64>();
            let o = l.value_offsets();
            json!({ "list": (o[i] as usize..o[i + 1] as usize).map(|k| oracle_at(l.values().as_ref(), k)).collect::<Vec<_>>() })
        }
        D::FixedSizeList(_, n) => {
            let l = arr.as_fixed_size_list();
            let n = *n as usize;
            json!({ "list": (i * n..(i + 1) * n).map(|k| oracle_at(l.values().as_ref(), k)).collect::<Vec<_>>() })
        }
        D::Map(_, _) => {
            let m = arr.as_map();
            let o = m.value_offsets();
            json!({ "map": (o[i] as usize..o[i + 1] as usize).map(|k| json!([oracle_at(m.keys().as_ref(), k), oracle_at(m.values().as_ref(), k)])).collect::<Vec<_>>() })
        }
        D::Dictionary(_, _) => {
            let d = arr.as_any_dictionary();
            let k: usize = oracle_at(d.keys(), i)["int"].as_str().expect("dictionary key").parse().expect("dictionary key");
            oracle_at(d.values().as_ref(), k)
        }
        D::Union(_, _) => {
            let u = arr.as_union();
            let tid = u.type_id(i);
            json!({ "union": [tid.to_string(), oracle_at(u.child(tid).as_ref(), u.value_offset(i))] })
        }
        other => json!({ "unsupported": other.to_string() }),
    }
}

/// one LVal JSON per row, using only arrow-rs accessors
pub fn arrow_oracle(arr: &dyn Array) -> Vec<Value> {
    (0..arr.len()).map(|i| oracle_at(arr, i)).collect()
}

// ================================================================================================ arrow2

mod a2 {
    pub use arrow2::array::*;
    pub use arrow2::bitmap::Bitmap;
    pub use arrow2::datatypes::{DataType, Field, IntegerType, TimeUnit, UnionMode};
    pub use arrow2::offset::OffsetsBuffer;
}

fn unit2(v: &Value) -> a2::TimeUnit {
    match v["unit"].as_str().unwrap() {
        "Second" => a2::TimeUnit::Second,
        "Millisecond" => a2::TimeUnit::Millisecond,
        "Microsecond" => a2::TimeUnit::Microsecond,
        _ => a2::TimeUnit::Nanosecond,
    }
}

pub fn arrow2_dt(dt: &Value) -> R<a2::DataType> {
    use a2::DataType as D;
    Ok(match dt["t"].as_str().unwrap() {
        "Null" => D::Null,
        "Boolean" => D::Boolean,
        "Int8" => D::Int8,
        "Int16" => D::Int16,
        "Int32" => D::Int32,
        "Int64" => D::Int64,
        "UInt8" => D::UInt8,
        "UInt16" => D::UInt16,
        "UInt32" => D::UInt32,
        "UInt64" => D::UInt64,
        "Float16" => D::Float16,
        "Float32" => D::Float32,
        "Float64" => D::Float64,
        "Date32" => D::Date32,
        "Date64" => D::Date64,
        "Time32" => D::Time32(unit2(dt)),
        "Time64" => D::Time64(unit2(dt)),
        "Timestamp" => D::Timestamp(unit2(dt), dt["tz"].as_str().map(|s| s.to_string())),
        "Duration" => D::Duration(unit2(dt)),
        "Decimal128" => {
            let s = dt["s"].as_i64().unwrap();
            if s < 0 {
                return Err("unsupported".into());
            }
            D::Decimal(dt["p"].as_u64().unwrap() as usize, s as usize)
        }
        "Utf8" => D::Utf8,
        "LargeUtf8" => D::LargeUtf8,
        "Binary" => D::Binary,
        "LargeBinary" => D::LargeBinary,
        "FixedSizeBinary" => D::FixedSizeBinary(dt["n"].as_u64().unwrap() as usize),
        "Struct" => {
            let fs = dt["fields"].as_array().unwrap();
            if fs.is_empty() {
                return Err("unsupported".into());
            }
            D::Struct(fs.iter().map(arrow2_field).collect::<R<Vec<_>>>()?)
        }
        "List" => D::List(Box::new(arrow2_field(&dt["child"])?)),
        "LargeList" => D::LargeList(Box::new(arrow2_field(&dt["child"])?)),
        "FixedSizeList" => {
            let n = dt["n"].as_u64().unwrap() as usize;
            if n == 0 {
                return Err("unsupported".into());
            }
            D::FixedSizeList(Box::new(arrow2_field(&dt["child"])?), n)
        }
        "Map" => D::Map(Box::new(arrow2_field(&dt["entries"])?), dt["sorted"].as_bool().unwrap()),
        "Dictionary" => {
            let k = match dt["key"]["t"].as_str().unwrap() {
                "Int8" => a2::IntegerType::Int8,
                "Int16" => a2::IntegerType::Int16,
                "Int32" => a2::IntegerType::Int32,
                "Int64" => a2::IntegerType::Int64,
                "UInt8" => a2::IntegerType::UInt8,
                "UInt16" => a2::IntegerType::UInt16,
                "UInt32" => a2::IntegerType::UInt32,
                "UInt64" => a2::IntegerType::UInt64,
                _ => return Err("unsupported".into()),
            };
            D::Dictionary(k, Box::new(arrow2_dt(&dt["value"])?), false)
        }
        "Union" => {
            if dt["mode"].as_str() == Some("Sparse") {
                return Err("unsupported".into());
            }
            let fs = dt["fields"].as_array().unwrap();
            let ids: Vec<i32> = fs.iter().map(|e| e[0].as_i64().unwrap() as i32).collect();
            D::Union(fs.iter().map(|e| arrow2_field(&e[1])).collect::<R<Vec<_>>>()?, Some(ids), a2::UnionMode::Dense)
        }
        _ => return Err("unsupported".into()),
    })
}

pub fn arrow2_field(field: &Value) -> R<a2::Field> {
    let mut f = a2::Field::new(field["name"].as_str().unwrap(), arrow2_dt(&field["dt"])?, field["nullable"].as_bool().unwrap());
    if let Some(meta) = field["meta"].as_array() {
        for kv in meta {
            f.metadata.insert(kv[0].as_str().unwrap().to_string(), kv[1].as_str().unwrap().to_string());
        }
    }
    Ok(f)
}

/// does `build_arrow2` cover this field (recursively)?
pub fn arrow2_supported(field: &Value) -> bool {
    arrow2_field(field).is_ok()
}

fn prim2<T>(dt: a2::DataType, rows: &[Value], validity: Option<a2::Bitmap>) -> R<Box<dyn a2::Array>>
where
    T: arrow2::types::NativeType + TryFrom<i128>,
{
    let mut vals: Vec<T> = Vec::with_capacity(rows.len());
    for (i, r) in rows.iter().enumerate() {
        let v = if r.is_null() { (i % 100) as i128 + 1 } else { lv_int(r)? };
        vals.push(T::try_from(v).map_err(|_| format!("{v} out of range for {dt:?}"))?);
    }
    Ok(Box::new(a2::PrimitiveArray::<T>::try_new(dt, vals.into(), validity).map_err(es)?))
}

fn dict2<K>(dt: a2::DataType, kdt: a2::DataType, keys: &[usize], values: Box<dyn a2::Array>, validity: Option<a2::Bitmap>) -> R<Box<dyn a2::Array>>
where
    K: a2::DictionaryKey + TryFrom<usize>,
{
    let ks: Vec<K> = keys.iter().map(|k| K::try_from(*k).map_err(|_| format!("dictionary key {k} out of range"))).collect::<R<_>>()?;
    let keys = a2::PrimitiveArray::<K>::try_new(kdt, ks.into(), validity).map_err(es)?;
    Ok(Box::new(a2::DictionaryArray::<K>::try_new(dt, keys, values).map_err(es)?))
}

fn offsets2_i32(offsets: &[i64]) -> R<a2::OffsetsBuffer<i32>> {
    a2::OffsetsBuffer::<i32>::try_from(offsets.iter().map(|o| *o as i32).collect::<Vec<_>>()).map_err(es)
}

fn offsets2_i64(offsets: &[i64]) -> R<a2::OffsetsBuffer<i64>> {
    a2::OffsetsBuffer::<i64>::try_from(offsets.to_vec()).map_err(es)
}

/// the same logical column as an arrow2 array (same layout conventions as `build_arrow`);
/// `Err("unsupported")` for Utf8View / BinaryView / empty structs / FixedSizeList(0) / negative decimal scale
pub fn build_arrow2(field: &Value, rows: &[Value]) -> R<Box<dyn a2::Array>> {
    let dtj = &field["dt"];
    let dt = arrow2_dt(dtj)?;
    let ty = dtj["t"].as_str().unwrap();
    if ty == "Null" {
        if rows.iter().any(|r| !r.is_null()) {
            return Err("non-null row in a Null column".into());
        }
        return Ok(Box::new(a2::NullArray::try_new(dt, rows.len()).map_err(es)?));
    }
    if ty == "Union" && rows.iter().any(|r| r.is_null()) {
        return Err("null row in a Union column".into());
    }
    let validity: Option<a2::Bitmap> = if ty == "Union" { None } else { validity_bools(field, rows)?.map(a2::Bitmap::from) };
    match ty {
        "Boolean" => {
            let vals: Vec<bool> = rows.iter().enumerate().map(|(i, r)| if r.is_null() { Ok(i % 2 == 0) } else { lv_bool(r) }).collect::<R<_>>()?;
            Ok(Box::new(a2::BooleanArray::try_new(dt, a2::Bitmap::from(vals), validity).map_err(es)?))
        }
        "Int8" => prim2::<i8>(dt, rows, validity),
        "Int16" => prim2::<i16>(dt, rows, validity),
        "Int32" | "Date32" | "Time32" => prim2::<i32>(dt, rows, validity),
        "Int64" | "Date64" | "Time64" | "Timestamp" | "Duration" => prim2::<i64>(dt, rows, validity),
        "UInt8" => prim2::<u8>(dt, rows, validity),
        "UInt16" => prim2::<u16>(dt, rows, validity),
        "UInt32" => prim2::<u32>(dt, rows, validity),
        "UInt64" => prim2::<u64>(dt, rows, validity),
        "Decimal128" => prim2::<i128>(dt, rows, validity),
        "Float16" => {
            let vals: Vec<arrow2::types::f16> = float_bits(rows)?.iter().map(|b| arrow2::types::f16::from_bits(*b as u16)).collect();
            Ok(Box::new(a2::PrimitiveArray::try_new(dt, vals.into(), validity).map_err(es)?))
        }
        "Float32" => {
            let vals: Vec<f32> = float_bits(rows)?.iter().map(|b| f32::from_bits(*b as u32)).collect();
            Ok(Box::new(a2::PrimitiveArray::try_new(dt, vals.into(), validity).map_err(es)?))
        }
        "Float64" => {
            let vals: Vec<f64> = float_bits(rows)?.iter().map(|b| f64::from_bits(*b)).collect();
            Ok(Box::new(a2::PrimitiveArray::try_new(dt, vals.into(), validity).map_err(es)?))
        }
        "Utf8" => {
            let (o, d) = bytes_layout(rows, "str")?;
            Ok(Box::new(a2::Utf8Array::<i32>::try_new(dt, offsets2_i32(&o)?, d.into(), validity).map_err(es)?))
        }
        "LargeUtf8" => {
            let (o, d) = bytes_layout(rows, "str")?;
            Ok(Box::new(a2::Utf8Array::<i64>::try_new(dt, offsets2_i64(&o)?, d.into(), validity).map_err(es)?))
        }
        "Binary" => {
            let (o, d) = bytes_layout(rows, "bin")?;
            Ok(Box::new(a2::BinaryArray::<i32>::try_new(dt, offsets2_i32(&o)?, d.into(), validity).map_err(es)?))
        }
        "LargeBinary" => {
            let (o, d) = bytes_layout(rows, "bin")?;
            Ok(Box::new(a2::BinaryArray::<i64>::try_new(dt, offsets2_i64(&o)?, d.into(), validity).map_err(es)?))
        }
        "FixedSizeBinary" => {
            let w = dtj["n"].as_u64().unwrap() as usize;
            let d = fixed_bytes_layout(rows, w)?;
            Ok(Box::new(a2::FixedSizeBinaryArray::try_new(dt, d.into(), validity).map_err(es)?))
        }
        "Dictionary" => {
            let (keys, values) = dict_layout(rows)?;
            let vrows: Vec<Value> = values.iter().map(|v| json!({ "str": hex(v) })).collect();
            let vfield = json!({"name": "values", "nullable": false, "meta": [], "dt": dtj["value"]});
            let values = build_arrow2(&vfield, &vrows)?;
            let kdt = arrow2_dt(&dtj["key"])?;
            match dtj["key"]["t"].as_str().unwrap() {
                "Int8" => dict2::<i8>(dt, kdt, &keys, values, validity),
                "Int16" => dict2::<i16>(dt, kdt, &keys, values, validity),
                "Int32" => dict2::<i32>(dt, kdt, &keys, values, validity),
                "Int64" => dict2::<i64>(dt, kdt, &keys, values, validity),
                "UInt8" => dict2::<u8>(dt, kdt, &keys, values, validity),
                "UInt16" => dict2::<u16>(dt, kdt, &keys, values, validity),
                "UInt32" => dict2::<u32>(dt, kdt, &keys, values, validity),
                "UInt64" => dict2::<u64>(dt, kdt, &keys, values, validity),
                _ => Err("unsupported".into()),
            }
        }
        "Struct" => {
            let fs = dtj["fields"].as_array().unwrap();
            let cols = struct_layout(dtj, rows)?;
            let children: Vec<Box<dyn a2::Array>> = fs.iter().zip(&cols).map(|(f, c)| build_arrow2(f, c)).collect::<R<_>>()?;
            Ok(Box::new(a2::StructArray::try_new(dt, children, validity).map_err(es)?))
        }
        "List" => {
            let (o, crow) = list_layout(dtj, rows)?;
            let child = build_arrow2(&dtj["child"], &crow)?;
            Ok(Box::new(a2::ListArray::<i32>::try_new(dt, offsets2_i32(&o)?, child, validity).map_err(es)?))
        }
        "LargeList" => {
            let (o, crow) = list_layout(dtj, rows)?;
            let child = build_arrow2(&dtj["child"], &crow)?;
            Ok(Box::new(a2::ListArray::<i64>::try_new(dt, offsets2_i64(&o)?, child, validity).map_err(es)?))
        }
        "FixedSizeList" => {
            let crow = fixed_list_layout(dtj, rows)?;
            let child = build_arrow2(&dtj["child"], &crow)?;
            Ok(Box::new(a2::FixedSizeListArray::try_new(dt, child, validity).map_err(es)?))
        }
        "Map" => {
            let (o, ks, vs) = map_layout(dtj, rows)?;
            let fs = dtj["entries"]["dt"]["fields"].as_array().unwrap();
            let keys = build_arrow2(&fs[0], &ks)?;
            let values = build_arrow2(&fs[1], &vs)?;
            let entries = a2::StructArray::try_new(arrow2_dt(&dtj["entries"]["dt"])?, vec![keys, values], None).map_err(es)?;
            Ok(Box::new(a2::MapArray::try_new(dt, offsets2_i32(&o)?, Box::new(entries), validity).map_err(es)?))
        }
        "Union" => {
            let (types, offsets, crow) = union_layout(dtj, rows)?;
            let fs = dtj["fields"].as_array().unwrap();
            let children: Vec<Box<dyn a2::Array>> = fs.iter().zip(&crow).map(|(f, c)| build_arrow2(&f[1], c)).collect::<R<_>>()?;
            Ok(Box::new(a2::UnionArray::try_new(dt, types.into(), children, Some(offsets.into())).map_err(es)?))
        }
        _ => Err("unsupported".into()),
    }
}

// ================================================================================================ self checks

#[cfg(test)]
mod tests {
    use super::*;
    use crate::lgen;
    use crate::rng::Rng;

    fn check(field: &Value, rows: &[Value], rng: &mut Rng) {
        let arr = build_arrow(field, rows).unwrap_or_else(|e| panic!("build_arrow failed: {e}\nfield {field}\nrows {}", Value::Array(rows.to_vec())));
        assert_eq!(arr.len(), rows.len());
        assert_eq!(arr.data_type(), arrow_field(field).data_type());
        arr.to_data().validate_full().unwrap_or_else(|e| panic!("invalid array: {e}\nfield {field}"));
        let got = arrow_oracle(arr.as_ref());
        assert_eq!(Value::Array(got), Value::Array(rows.to_vec()), "whole, field {field}");
        // slices, and slices of slices
        let mut cur = arr.clone();
        let mut lo = 0usize;
        for _ in 0..3 {
            let o = rng.usize(cur.len() + 1);
            let l = rng.usize(cur.len() - o + 1);
            cur = cur.slice(o, l);
            lo += o;
            let got = arrow_oracle(cur.as_ref());
            assert_eq!(Value::Array(got), Value::Array(rows[lo..lo + l].to_vec()), "slice [{lo},{l}), field {field}");
        }
        // the arrow schema agrees with marrow's own translation of the same field
        let mf = crate::schema_dump::field_from_json(field);
        let via_marrow = arrow_schema::Field::try_from(&mf).expect("marrow field -> arrow field");
        assert_eq!(via_marrow, arrow_field(field), "field translation, {field}");
        if arrow2_supported(field) {
            let a2 = build_arrow2(field, rows).unwrap_or_else(|e| panic!("build_arrow2 failed: {e}\nfield {field}"));
            assert_eq!(a2.len(), rows.len());
            let via_marrow = arrow2::datatypes::Field::try_from(&mf).expect("marrow field -> arrow2 field");
            assert_eq!(via_marrow, arrow2_field(field).unwrap(), "arrow2 field translation, {field}");
        }
    }

    #[test]
    fn oracle_roundtrip_leaves() {
        let mut rng = Rng::new(11);
        for dt in lgen::all_leaf_types() {
            for nullable in [false, true] {
                if dt["t"] == "Null" && !nullable {
                    continue;
                }
                for n in [0usize, 1, 7, 8, 9, 16, 17, 33] {
                    let f = lgen::mk_field("c", nullable, dt.clone());
                    let rows = lgen::gen_rows(&mut rng, &f, n);
                    check(&f, &rows, &mut rng);
                }
            }
        }
    }

    #[test]
    fn oracle_roundtrip_random() {
        let mut rng = Rng::new(7);
        for c in 0..6000 {
            let mut r = rng.fork();
            let depth = r.usize(4);
            let f = lgen::gen_field(&mut r, "c", depth);
            let n = match r.below(6) {
                0 => 0,
                1 => 8,
                2 => 9,
                3 => 17,
                _ => r.usize(30),
            };
            let rows = lgen::gen_rows(&mut r, &f, n);
            for row in &rows {
                assert!(!row.is_null() || f["nullable"] == true, "case {c}: null row in non-nullable field");
            }
            check(&f, &rows, &mut r);
        }
    }
}
