//! `Dump`: a self-describing deserialization target.  It asks every deserializer for `deserialize_any` and
//! records exactly which visitor method was called with which value, as canonical JSON:
//!   ints with their width `{"i32": 5}` (128-bit as strings), floats as bit patterns `{"f32": bits}` /
//!   `{"f64": "bits"}`, `{"str": ..}`, `{"bytes": hex}`, `{"seq": [..]}`, `{"map": [[k, v] ..]}` (in the order
//!   delivered), `{"variant": [id, payload]}`, `null` for none, `{"some": ..}`, `{"unit": true}`,
//!   `{"newtype": ..}`.
//! Two deserializers that produce equal dumps are indistinguishable to every `Deserialize` impl that is driven
//! by `deserialize_any`.  Uses nothing but serde and serde_json (shared with harness-probe).
#![allow(dead_code)]
use serde::de::{Deserialize, DeserializeSeed, Deserializer, EnumAccess, MapAccess, SeqAccess, VariantAccess, Visitor};
use serde_json::{json, Value};

pub struct Dump(pub Value);

fn hex(b: &[u8]) -> String {
    b.iter().map(|x| format!("{x:02x}")).collect()
}

impl<'de> Deserialize<'de> for Dump {
    fn deserialize<D: Deserializer<'de>>(d: D) -> Result<Self, D::Error> {
        d.deserialize_any(DumpVisitor)
    }
}

struct DumpVisitor;

impl<'de> Visitor<'de> for DumpVisitor {
    type Value = Dump;

    fn expecting(&self, f: &mut std::fmt::Formatter) -> std::fmt::Result {
        write!(f, "anything")
    }
    fn visit_bool<E>(self, v: bool) -> Result<Dump, E> {
        Ok(Dump(json!({ "bool": v })))
    }
    fn visit_i8<E>(self, v: i8) -> Result<Dump, E> {
        Ok(Dump(json!({ "i8": v })))
    }
    fn visit_i16<E>(self, v: i16) -> Result<Dump, E> {
        Ok(Dump(json!({ "i16": v })))
    }
    fn visit_i32<E>(self, v: i32) -> Result<Dump, E> {
        Ok(Dump(json!({ "i32": v })))
    }
    fn visit_i64<E>(self, v: i64) -> Result<Dump, E> {
        Ok(Dump(json!({ "i64": v })))
    }
    fn visit_i128<E>(self, v: i128) -> Result<Dump, E> {
        Ok(Dump(json!({ "i128": v.to_string() })))
    }
    fn visit_u8<E>(self, v: u8) -> Result<Dump, E> {
        Ok(Dump(json!({ "u8": v })))
    }
    fn visit_u16<E>(self, v: u16) -> Result<Dump, E> {
        Ok(Dump(json!({ "u16": v })))
    }
    fn visit_u32<E>(self, v: u32) -> Result<Dump, E> {
        Ok(Dump(json!({ "u32": v })))
    }
    fn visit_u64<E>(self, v: u64) -> Result<Dump, E> {
        Ok(Dump(json!({ "u64": v.to_string() })))
    }
    fn visit_u128<E>(self, v: u128) -> Result<Dump, E> {
        Ok(Dump(json!({ "u128": v.to_string() })))
    }
    fn visit_f32<E>(self, v: f32) -> Result<Dump, E> {
        Ok(Dump(json!({ "f32": v.to_bits() })))
    }
    fn visit_f64<E>(self, v: f64) -> Result<Dump, E> {
        Ok(Dump(json!({ "f64": v.to_bits().to_string() })))
    }
    fn visit_char<E>(self, v: char) -> Result<Dump, E> {
        Ok(Dump(json!({ "char": v as u32 })))
    }
    fn visit_str<E>(self, v: &str) -> Result<Dump, E> {
        Ok(Dump(json!({ "str": v })))
    }
    fn visit_bytes<E>(self, v: &[u8]) -> Result<Dump, E> {
        Ok(Dump(json!({ "bytes": hex(v) })))
    }
    fn visit_none<E>(self) -> Result<Dump, E> {
        Ok(Dump(Value::Null))
    }
    fn visit_some<D: Deserializer<'de>>(self, d: D) -> Result<Dump, D::Error> {
        Ok(Dump(json!({ "some": Dump::deserialize(d)?.0 })))
    }
    fn visit_unit<E>(self) -> Result<Dump, E> {
        Ok(Dump(json!({ "unit": true })))
    }
    fn visit_newtype_struct<D: Deserializer<'de>>(self, d: D) -> Result<Dump, D::Error> {
        Ok(Dump(json!({ "newtype": Dump::deserialize(d)?.0 })))
    }
    fn visit_seq<A: SeqAccess<'de>>(self, mut a: A) -> Result<Dump, A::Error> {
        let mut out = Vec::new();
        while let Some(x) = a.next_element::<Dump>()? {
            out.push(x.0);
        }
        Ok(Dump(json!({ "seq": out })))
    }
    fn visit_map<A: MapAccess<'de>>(self, mut a: A) -> Result<Dump, A::Error> {
        let mut out = Vec::new();
        while let Some(k) = a.next_key::<Dump>()? {
            let v = a.next_value::<Dump>()?;
            out.push(json!([k.0, v.0]));
        }
        Ok(Dump(json!({ "map": out })))
    }
    fn visit_enum<A: EnumAccess<'de>>(self, a: A) -> Result<Dump, A::Error> {
        struct Seed;
        impl<'de> DeserializeSeed<'de> for Seed {
            type Value = Dump;
            fn deserialize<D: Deserializer<'de>>(self, d: D) -> Result<Dump, D::Error> {
                Dump::deserialize(d)
            }
        }
        let (id, variant) = a.variant_seed(Seed)?;
        let payload = variant.newtype_variant::<Dump>()?;
        Ok(Dump(json!({ "variant": [id.0, payload.0] })))
    }
}
