//! Wire form of marrow arrays / views (DESIGN.md Appendix A), mirrored by lean/Driver/ArrJson.lean and
//! lean/SaModel/Data/Arr.lean.  `view_to_json` dumps physically (nothing is interpreted);
//! `Owned::from_json` rebuilds storage from the wire form so that arbitrary (also inconsistent) views can be
//! handed to the real crate: `owned.view()`.
#![allow(dead_code)]
use crate::schema_dump::{meta_from_json, meta_to_json, unit_from, unit_str};
use crate::sval::{hex, unhex};
use marrow::array::Array;
use marrow::datatypes::{FieldMeta, MapMeta, TimeUnit};
use marrow::view::*;
use serde_json::{json, Value};

fn bits_json(b: &BitsWithOffset) -> Value {
    json!({"hex": hex(b.data), "off": b.offset})
}

fn validity_json(v: &Option<BitsWithOffset>) -> Value {
    match v {
        None => Value::Null,
        Some(b) => bits_json(b),
    }
}

pub fn fmeta_json(m: &FieldMeta) -> Value {
    json!({"name": m.name, "nullable": m.nullable, "meta": meta_to_json(&m.metadata)})
}

pub fn fmeta_from(v: &Value) -> FieldMeta {
    FieldMeta { name: v["name"].as_str().unwrap().to_string(), nullable: v["nullable"].as_bool().unwrap(), metadata: meta_from_json(&v["meta"]) }
}

fn ints<T: Copy + Into<i128>>(xs: &[T]) -> Value {
    Value::Array(
        xs.iter()
            .map(|x| {
                let v: i128 = (*x).into();
                if v >= i64::MIN as i128 && v <= i64::MAX as i128 {
                    json!(v as i64)
                } else {
                    json!(v.to_string())
                }
            })
            .collect(),
    )
}

fn prim<T: Copy + Into<i128>>(ty: &str, v: &PrimitiveView<T>) -> Value {
    json!({"a": "Primitive", "ty": ty, "validity": validity_json(&v.validity), "values": ints(v.values)})
}

pub fn array_to_json(a: &Array) -> Value {
    view_to_json(&a.as_view())
}

pub fn view_to_json(v: &View) -> Value {
    use View as V;
    match v {
        V::Null(x) => json!({"a": "Null", "len": x.len}),
        V::Boolean(x) => json!({"a": "Boolean", "len": x.len, "validity": validity_json(&x.validity), "values": bits_json(&x.values)}),
        V::Int8(x) => prim("Int8", x),
        V::Int16(x) => prim("Int16", x),
        V::Int32(x) => prim("Int32", x),
        V::Int64(x) => prim("Int64", x),
        V::UInt8(x) => prim("UInt8", x),
        V::UInt16(x) => prim("UInt16", x),
        V::UInt32(x) => prim("UInt32", x),
        V::UInt64(x) => prim("UInt64", x),
        V::Date32(x) => prim("Date32", x),
        V::Date64(x) => prim("Date64", x),
        V::Float16(x) => json!({"a": "Primitive", "ty": "Float16", "validity": validity_json(&x.validity),
            "values": x.values.iter().map(|f| f.to_bits() as u64).collect::<Vec<_>>()}),
        V::Float32(x) => json!({"a": "Primitive", "ty": "Float32", "validity": validity_json(&x.validity),
            "values": x.values.iter().map(|f| f.to_bits() as u64).collect::<Vec<_>>()}),
        V::Float64(x) => json!({"a": "Primitive", "ty": "Float64", "validity": validity_json(&x.validity),
            "values": x.values.iter().map(|f| f.to_bits().to_string()).collect::<Vec<_>>()}),
        V::Time32(x) => json!({"a": "Time", "ty": "Time32", "unit": unit_str(x.unit), "validity": validity_json(&x.validity), "values": ints(x.values)}),
        V::Time64(x) => json!({"a": "Time", "ty": "Time64", "unit": unit_str(x.unit), "validity": validity_json(&x.validity), "values": ints(x.values)}),
        V::Duration(x) => json!({"a": "Time", "ty": "Duration", "unit": unit_str(x.unit), "validity": validity_json(&x.validity), "values": ints(x.values)}),
        V::Timestamp(x) => json!({"a": "Timestamp", "unit": unit_str(x.unit), "tz": x.timezone, "validity": validity_json(&x.validity), "values": ints(x.values)}),
        V::Decimal128(x) => json!({"a": "Decimal128", "p": x.precision, "s": x.scale, "validity": validity_json(&x.validity),
            "values": x.values.iter().map(|v| v.to_string()).collect::<Vec<_>>()}),
        V::Utf8(x) => json!({"a": "Bytes", "ty": "Utf8", "validity": validity_json(&x.validity), "offsets": ints(x.offsets), "data": hex(x.data)}),
        V::LargeUtf8(x) => json!({"a": "Bytes", "ty": "LargeUtf8", "validity": validity_json(&x.validity), "offsets": ints(x.offsets), "data": hex(x.data)}),
        V::Binary(x) => json!({"a": "Bytes", "ty": "Binary", "validity": validity_json(&x.validity), "offsets": ints(x.offsets), "data": hex(x.data)}),
        V::LargeBinary(x) => json!({"a": "Bytes", "ty": "LargeBinary", "validity": validity_json(&x.validity), "offsets": ints(x.offsets), "data": hex(x.data)}),
        V::Utf8View(x) => json!({"a": "BytesView", "ty": "Utf8View", "validity": validity_json(&x.validity),
            "views": x.data.iter().map(|d| d.to_string()).collect::<Vec<_>>(), "buffers": x.buffers.iter().map(|b| hex(b)).collect::<Vec<_>>()}),
        V::BinaryView(x) => json!({"a": "BytesView", "ty": "BinaryView", "validity": validity_json(&x.validity),
            "views": x.data.iter().map(|d| d.to_string()).collect::<Vec<_>>(), "buffers": x.buffers.iter().map(|b| hex(b)).collect::<Vec<_>>()}),
        V::FixedSizeBinary(x) => json!({"a": "FixedSizeBinary", "n": x.n, "validity": validity_json(&x.validity), "data": hex(x.data)}),
        V::Struct(x) => json!({"a": "Struct", "len": x.len, "validity": validity_json(&x.validity),
            "fields": x.fields.iter().map(|(m, c)| json!([fmeta_json(m), view_to_json(c)])).collect::<Vec<_>>()}),
        V::List(x) => json!({"a": "List", "large": false, "validity": validity_json(&x.validity), "offsets": ints(x.offsets),
            "meta": fmeta_json(&x.meta), "elements": view_to_json(&x.elements)}),
        V::LargeList(x) => json!({"a": "List", "large": true, "validity": validity_json(&x.validity), "offsets": ints(x.offsets),
            "meta": fmeta_json(&x.meta), "elements": view_to_json(&x.elements)}),
        V::FixedSizeList(x) => json!({"a": "FixedSizeList", "len": x.len, "validity": validity_json(&x.validity), "n": x.n,
            "meta": fmeta_json(&x.meta), "elements": view_to_json(&x.elements)}),
        V::Map(x) => json!({"a": "Map", "validity": validity_json(&x.validity), "offsets": ints(x.offsets),
            "meta": {"entries_name": x.meta.entries_name, "sorted": x.meta.sorted, "keys": fmeta_json(&x.meta.keys), "values": fmeta_json(&x.meta.values)},
            "keys": view_to_json(&x.keys), "values": view_to_json(&x.values)}),
        V::Dictionary(x) => json!({"a": "Dictionary", "keys": view_to_json(&x.keys), "values": view_to_json(&x.values)}),
        V::Union(x) => json!({"a": "Union", "types": ints(x.types), "offsets": x.offsets.map(ints),
            "fields": x.fields.iter().map(|(i, m, c)| json!([i, fmeta_json(m), view_to_json(c)])).collect::<Vec<_>>()}),
        _ => json!({"a": "Unsupported"}),
    }
}

// ---------------------------------------------------------------- owned storage rebuilt from the wire form

#[derive(Debug, Clone)]
pub struct OBits {
    pub data: Vec<u8>,
    pub offset: usize,
}

impl OBits {
    fn from_json(v: &Value) -> Option<OBits> {
        if v.is_null() {
            None
        } else {
            Some(OBits { data: unhex(v["hex"].as_str().unwrap()), offset: v["off"].as_u64().unwrap_or(0) as usize })
        }
    }
    fn view(&self) -> BitsWithOffset<'_> {
        BitsWithOffset { offset: self.offset, data: &self.data }
    }
}

fn big(v: &Value) -> i128 {
    match v {
        Value::String(s) => s.parse().expect("integer string"),
        Value::Number(n) => n.as_i64().map(|x| x as i128).unwrap_or_else(|| n.as_u64().expect("integer") as i128),
        _ => panic!("not an integer: {v}"),
    }
}

fn big_list(v: &Value) -> Vec<i128> {
    v.as_array().unwrap().iter().map(big).collect()
}

#[derive(Debug, Clone)]
pub enum Owned {
    Null(usize),
    Boolean(usize, Option<OBits>, OBits),
    I8(Option<OBits>, Vec<i8>),
    I16(Option<OBits>, Vec<i16>),
    I32(Option<OBits>, Vec<i32>),
    I64(Option<OBits>, Vec<i64>),
    U8(Option<OBits>, Vec<u8>),
    U16(Option<OBits>, Vec<u16>),
    U32(Option<OBits>, Vec<u32>),
    U64(Option<OBits>, Vec<u64>),
    F16(Option<OBits>, Vec<half::f16>),
    F32(Option<OBits>, Vec<f32>),
    F64(Option<OBits>, Vec<f64>),
    Date32(Option<OBits>, Vec<i32>),
    Date64(Option<OBits>, Vec<i64>),
    Time32(TimeUnit, Option<OBits>, Vec<i32>),
    Time64(TimeUnit, Option<OBits>, Vec<i64>),
    Duration(TimeUnit, Option<OBits>, Vec<i64>),
    Timestamp(TimeUnit, Option<String>, Option<OBits>, Vec<i64>),
    Decimal128(u8, i8, Option<OBits>, Vec<i128>),
    Bytes32(&'static str, Option<OBits>, Vec<i32>, Vec<u8>),
    Bytes64(&'static str, Option<OBits>, Vec<i64>, Vec<u8>),
    BytesView(bool, Option<OBits>, Vec<u128>, Vec<Vec<u8>>),
    FixedSizeBinary(i32, Option<OBits>, Vec<u8>),
    Struct(usize, Option<OBits>, Vec<(FieldMeta, Owned)>),
    List(Option<OBits>, Vec<i32>, FieldMeta, Box<Owned>),
    LargeList(Option<OBits>, Vec<i64>, FieldMeta, Box<Owned>),
    FixedSizeList(usize, Option<OBits>, i32, FieldMeta, Box<Owned>),
    Map(Option<OBits>, Vec<i32>, MapMeta, Box<Owned>, Box<Owned>),
    Dictionary(Box<Owned>, Box<Owned>),
    Union(Vec<i8>, Option<Vec<i32>>, Vec<(i8, FieldMeta, Owned)>),
}

impl Owned {
    pub fn from_json(v: &Value) -> Owned {
        let val = || OBits::from_json(&v["validity"]);
        match v["a"].as_str().unwrap() {
            "Null" => Owned::Null(v["len"].as_u64().unwrap() as usize),
            "Boolean" => Owned::Boolean(v["len"].as_u64().unwrap() as usize, val(), OBits::from_json(&v["values"]).unwrap()),
            "Primitive" => {
                let xs = big_list(&v["values"]);
                match v["ty"].as_str().unwrap() {
                    "Int8" => Owned::I8(val(), xs.iter().map(|x| *x as i8).collect()),
                    "Int16" => Owned::I16(val(), xs.iter().map(|x| *x as i16).collect()),
                    "Int32" => Owned::I32(val(), xs.iter().map(|x| *x as i32).collect()),
                    "Int64" => Owned::I64(val(), xs.iter().map(|x| *x as i64).collect()),
                    "UInt8" => Owned::U8(val(), xs.iter().map(|x| *x as u8).collect()),
                    "UInt16" => Owned::U16(val(), xs.iter().map(|x| *x as u16).collect()),
                    "UInt32" => Owned::U32(val(), xs.iter().map(|x| *x as u32).collect()),
                    "UInt64" => Owned::U64(val(), xs.iter().map(|x| *x as u64).collect()),
                    "Float16" => Owned::F16(val(), xs.iter().map(|x| half::f16::from_bits(*x as u16)).collect()),
                    "Float32" => Owned::F32(val(), xs.iter().map(|x| f32::from_bits(*x as u32)).collect()),
                    "Float64" => Owned::F64(val(), xs.iter().map(|x| f64::from_bits(*x as u64)).collect()),
                    "Date32" => Owned::Date32(val(), xs.iter().map(|x| *x as i32).collect()),
                    "Date64" => Owned::Date64(val(), xs.iter().map(|x| *x as i64).collect()),
                    other => panic!("unknown primitive {other}"),
                }
            }
            "Time" => {
                let xs = big_list(&v["values"]);
                let u = unit_from(v["unit"].as_str().unwrap());
                match v["ty"].as_str().unwrap() {
                    "Time32" => Owned::Time32(u, val(), xs.iter().map(|x| *x as i32).collect()),
                    "Time64" => Owned::Time64(u, val(), xs.iter().map(|x| *x as i64).collect()),
                    _ => Owned::Duration(u, val(), xs.iter().map(|x| *x as i64).collect()),
                }
            }
            "Timestamp" => Owned::Timestamp(
                unit_from(v["unit"].as_str().unwrap()),
                v["tz"].as_str().map(|s| s.to_string()),
                val(),
                big_list(&v["values"]).iter().map(|x| *x as i64).collect(),
            ),
            "Decimal128" => Owned::Decimal128(v["p"].as_u64().unwrap() as u8, v["s"].as_i64().unwrap() as i8, val(), big_list(&v["values"])),
            "Bytes" => {
                let offs = big_list(&v["offsets"]);
                let data = unhex(v["data"].as_str().unwrap());
                match v["ty"].as_str().unwrap() {
                    "Utf8" => Owned::Bytes32("Utf8", val(), offs.iter().map(|x| *x as i32).collect(), data),
                    "Binary" => Owned::Bytes32("Binary", val(), offs.iter().map(|x| *x as i32).collect(), data),
                    "LargeUtf8" => Owned::Bytes64("LargeUtf8", val(), offs.iter().map(|x| *x as i64).collect(), data),
                    _ => Owned::Bytes64("LargeBinary", val(), offs.iter().map(|x| *x as i64).collect(), data),
                }
            }
            "BytesView" => Owned::BytesView(
                v["ty"].as_str() == Some("Utf8View"),
                val(),
                v["views"].as_array().unwrap().iter().map(|x| x.as_str().unwrap().parse::<u128>().unwrap()).collect(),
                v["buffers"].as_array().unwrap().iter().map(|b| unhex(b.as_str().unwrap())).collect(),
            ),
            "FixedSizeBinary" => Owned::FixedSizeBinary(v["n"].as_i64().unwrap() as i32, val(), unhex(v["data"].as_str().unwrap())),
            "Struct" => Owned::Struct(
                v["len"].as_u64().unwrap() as usize,
                val(),
                v["fields"].as_array().unwrap().iter().map(|e| (fmeta_from(&e[0]), Owned::from_json(&e[1]))).collect(),
            ),
            "List" => {
                let offs = big_list(&v["offsets"]);
                let m = fmeta_from(&v["meta"]);
                let el = Box::new(Owned::from_json(&v["elements"]));
                if v["large"].as_bool().unwrap() {
                    Owned::LargeList(val(), offs.iter().map(|x| *x as i64).collect(), m, el)
                } else {
                    Owned::List(val(), offs.iter().map(|x| *x as i32).collect(), m, el)
                }
            }
            "FixedSizeList" => Owned::FixedSizeList(
                v["len"].as_u64().unwrap() as usize,
                val(),
                v["n"].as_i64().unwrap() as i32,
                fmeta_from(&v["meta"]),
                Box::new(Owned::from_json(&v["elements"])),
            ),
            "Map" => Owned::Map(
                val(),
                big_list(&v["offsets"]).iter().map(|x| *x as i32).collect(),
                MapMeta {
                    entries_name: v["meta"]["entries_name"].as_str().unwrap().to_string(),
                    sorted: v["meta"]["sorted"].as_bool().unwrap(),
                    keys: fmeta_from(&v["meta"]["keys"]),
                    values: fmeta_from(&v["meta"]["values"]),
                },
                Box::new(Owned::from_json(&v["keys"])),
                Box::new(Owned::from_json(&v["values"])),
            ),
            "Dictionary" => Owned::Dictionary(Box::new(Owned::from_json(&v["keys"])), Box::new(Owned::from_json(&v["values"]))),
            "Union" => Owned::Union(
                big_list(&v["types"]).iter().map(|x| *x as i8).collect(),
                if v["offsets"].is_null() { None } else { Some(big_list(&v["offsets"]).iter().map(|x| *x as i32).collect()) },
                v["fields"].as_array().unwrap().iter().map(|e| (e[0].as_i64().unwrap() as i8, fmeta_from(&e[1]), Owned::from_json(&e[2]))).collect(),
            ),
            other => panic!("unknown array kind on the wire: {other}"),
        }
    }

    pub fn view(&self) -> View<'_> {
        fn val(v: &Option<OBits>) -> Option<BitsWithOffset<'_>> {
            v.as_ref().map(|b| b.view())
        }
        match self {
            Owned::Null(len) => View::Null(NullView { len: *len }),
            Owned::Boolean(len, v, vals) => View::Boolean(BooleanView { len: *len, validity: val(v), values: vals.view() }),
            Owned::I8(v, xs) => View::Int8(PrimitiveView { validity: val(v), values: xs }),
            Owned::I16(v, xs) => View::Int16(PrimitiveView { validity: val(v), values: xs }),
            Owned::I32(v, xs) => View::Int32(PrimitiveView { validity: val(v), values: xs }),
            Owned::I64(v, xs) => View::Int64(PrimitiveView { validity: val(v), values: xs }),
            Owned::U8(v, xs) => View::UInt8(PrimitiveView { validity: val(v), values: xs }),
            Owned::U16(v, xs) => View::UInt16(PrimitiveView { validity: val(v), values: xs }),
            Owned::U32(v, xs) => View::UInt32(PrimitiveView { validity: val(v), values: xs }),
            Owned::U64(v, xs) => View::UInt64(PrimitiveView { validity: val(v), values: xs }),
            Owned::F16(v, xs) => View::Float16(PrimitiveView { validity: val(v), values: xs }),
            Owned::F32(v, xs) => View::Float32(PrimitiveView { validity: val(v), values: xs }),
            Owned::F64(v, xs) => View::Float64(PrimitiveView { validity: val(v), values: xs }),
            Owned::Date32(v, xs) => View::Date32(PrimitiveView { validity: val(v), values: xs }),
            Owned::Date64(v, xs) => View::Date64(PrimitiveView { validity: val(v), values: xs }),
            Owned::Time32(u, v, xs) => View::Time32(TimeView { unit: *u, validity: val(v), values: xs }),
            Owned::Time64(u, v, xs) => View::Time64(TimeView { unit: *u, validity: val(v), values: xs }),
            Owned::Duration(u, v, xs) => View::Duration(TimeView { unit: *u, validity: val(v), values: xs }),
            Owned::Timestamp(u, tz, v, xs) => View::Timestamp(TimestampView { unit: *u, timezone: tz.clone(), validity: val(v), values: xs }),
            Owned::Decimal128(p, s, v, xs) => View::Decimal128(DecimalView { precision: *p, scale: *s, validity: val(v), values: xs }),
            Owned::Bytes32(ty, v, offs, data) => {
                let b = BytesView { validity: val(v), offsets: offs, data };
                if *ty == "Utf8" { View::Utf8(b) } else { View::Binary(b) }
            }
            Owned::Bytes64(ty, v, offs, data) => {
                let b = BytesView { validity: val(v), offsets: offs, data };
                if *ty == "LargeUtf8" { View::LargeUtf8(b) } else { View::LargeBinary(b) }
            }
            Owned::BytesView(utf8, v, views, buffers) => {
                let b = BytesViewView { validity: val(v), data: views, buffers: buffers.iter().map(|x| x.as_slice()).collect() };
                if *utf8 { View::Utf8View(b) } else { View::BinaryView(b) }
            }
            Owned::FixedSizeBinary(n, v, data) => View::FixedSizeBinary(FixedSizeBinaryView { n: *n, validity: val(v), data }),
            Owned::Struct(len, v, fs) => View::Struct(StructView { len: *len, validity: val(v), fields: fs.iter().map(|(m, c)| (m.clone(), c.view())).collect() }),
            Owned::List(v, offs, m, el) => View::List(ListView { validity: val(v), offsets: offs, meta: m.clone(), elements: Box::new(el.view()) }),
            Owned::LargeList(v, offs, m, el) => View::LargeList(ListView { validity: val(v), offsets: offs, meta: m.clone(), elements: Box::new(el.view()) }),
            Owned::FixedSizeList(len, v, n, m, el) => View::FixedSizeList(FixedSizeListView { len: *len, n: *n, validity: val(v), meta: m.clone(), elements: Box::new(el.view()) }),
            Owned::Map(v, offs, m, k, w) => View::Map(MapView { validity: val(v), offsets: offs, meta: m.clone(), keys: Box::new(k.view()), values: Box::new(w.view()) }),
            Owned::Dictionary(k, w) => View::Dictionary(DictionaryView { keys: Box::new(k.view()), values: Box::new(w.view()) }),
            Owned::Union(types, offs, fs) => View::Union(UnionView { types, offsets: offs.as_deref(), fields: fs.iter().map(|(i, m, c)| (*i, m.clone(), c.view())).collect() }),
        }
    }
}
