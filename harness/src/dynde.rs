//! Dynamic deserialization targets: `Target(ty)` is a `DeserializeSeed` that drives a `Deserializer` with exactly the
//! `deserialize_*` hints / visitor capabilities / accessor calls that the Rust type described by `ty` (std impl or
//! `#[derive(Deserialize)]`, serde 1.0.210) would use, and renders whatever arrives as canonical "DVal" JSON.
//!
//! Target descriptors (JSON):
//!   "any" "ignored" "unit" "unit_struct" "bool" "i8".."i64" "u8".."u64" "i128" "u128" "f32" "f64" "char"
//!   "string" (String) "str" (&'de str) "bytes" (&'de [u8]) "byte_buf" (serde_bytes::ByteBuf)
//!   {"option": T} {"newtype": T} {"seq": T} {"tuple": [T..]} {"tuple_struct": [T..]} {"map": [K, V]}
//!   {"struct": [[name, T]..]} {"enum": [[vname, K]..]} {"enum_idx": [[vname, K]..]}
//!   with K = "unit" | {"newtype": T} | {"tuple": [T..]} | {"struct": [[name, T]..]}
//!
//! DVal rendering:
//!   null (None) | "unit" | "ignored" | {"some": X} | {"bool": b} | {"int": [tag, "decimal"]} | {"f32": bits} | {"f64": "bits"}
//!   | {"char": cp} | {"str": [own, hex]} | {"bytes": [own, hex]} (own: b borrowed / t transient / o owned)
//!   | {"seq": [X..]} | {"map": [[K, V]..]} | {"enum": [KEY, PAYLOAD]} | {"newtype": X} (only from "any")
//!
//! A malformed descriptor is a harness bug and panics ("dynde: bad target ..."); it never becomes a serde error.
//! `self_check()` compares Target against real derived/std types call by call through the logging wrapper `LogDe`.
#![allow(dead_code)]
use crate::sval::{hex, intern};
use serde::de::{
    self, Deserialize, DeserializeSeed, Deserializer, EnumAccess, Error as _, IgnoredAny, MapAccess, SeqAccess, Unexpected,
    VariantAccess, Visitor,
};
use serde_json::{json, Value};
use std::cell::RefCell;
use std::collections::HashMap;
use std::fmt;
use std::marker::PhantomData;
use std::sync::Mutex;

// ------------------------------------------------------------------------------------------------------------------
// rendering
// ------------------------------------------------------------------------------------------------------------------
fn r_int(tag: &str, v: impl ToString) -> Value {
    json!({"int": [tag, v.to_string()]})
}
fn r_str(own: &str, s: &str) -> Value {
    json!({"str": [own, hex(s.as_bytes())]})
}
fn r_bytes(own: &str, b: &[u8]) -> Value {
    json!({"bytes": [own, hex(b)]})
}
fn r_bool(b: bool) -> Value {
    json!({"bool": b})
}
fn r_f32(x: f32) -> Value {
    json!({"f32": x.to_bits()})
}
fn r_f64(x: f64) -> Value {
    json!({"f64": x.to_bits().to_string()})
}
fn r_char(c: char) -> Value {
    json!({"char": c as u32})
}
fn r_name(s: &str) -> Value {
    r_str("t", s)
}
fn r_unit() -> Value {
    json!("unit")
}

// ------------------------------------------------------------------------------------------------------------------
// descriptor parsing
// ------------------------------------------------------------------------------------------------------------------
fn bad(what: &str, v: &Value) -> ! {
    panic!("dynde: bad target ({what}): {v}")
}

fn list<'t>(v: &'t Value, what: &str) -> &'t [Value] {
    match v.as_array() {
        Some(a) => a,
        None => bad(what, v),
    }
}

fn pairs<'t>(v: &'t Value, what: &str) -> Vec<(&'t str, &'t Value)> {
    list(v, what)
        .iter()
        .map(|p| match (p.get(0).and_then(Value::as_str), p.get(1)) {
            (Some(n), Some(t)) if p.as_array().map(Vec::len) == Some(2) => (n, t),
            _ => bad(what, v),
        })
        .collect()
}

/// the one (key, argument) of a composite descriptor
fn composite<'t>(v: &'t Value) -> (&'t str, &'t Value) {
    match v.as_object() {
        Some(o) if o.len() == 1 => {
            let (k, a) = o.iter().next().unwrap();
            (k.as_str(), a)
        }
        _ => bad("expected a name or a one-key object", v),
    }
}

/// `&'static [&'static str]` for FIELDS / VARIANTS: same names ⇒ same slice (like the const in derived code)
fn static_names(names: &[&str]) -> &'static [&'static str] {
    static CACHE: Mutex<Option<HashMap<Vec<String>, &'static [&'static str]>>> = Mutex::new(None);
    let key: Vec<String> = names.iter().map(|s| s.to_string()).collect();
    let mut g = CACHE.lock().unwrap();
    let m = g.get_or_insert_with(HashMap::new);
    if let Some(r) = m.get(&key) {
        return r;
    }
    let v: Vec<&'static str> = names.iter().map(|s| intern(s, 0)).collect();
    let leaked: &'static [&'static str] = Box::leak(v.into_boxed_slice());
    m.insert(key, leaked);
    leaked
}

// ------------------------------------------------------------------------------------------------------------------
// Target
// ------------------------------------------------------------------------------------------------------------------
/// deserialize one value from `de` as the Rust type described by `ty`, rendering the result as canonical JSON
#[derive(Clone, Copy)]
pub struct Target<'t>(pub &'t Value);

impl<'de, 't> DeserializeSeed<'de> for Target<'t> {
    type Value = Value;

    fn deserialize<D: Deserializer<'de>>(self, de: D) -> Result<Value, D::Error> {
        let ty = self.0;
        if let Some(s) = ty.as_str() {
            return match s {
                "any" => de.deserialize_any(AnyVisitor),
                "ignored" => IgnoredAny::deserialize(de).map(|_| json!("ignored")),
                "unit" => <()>::deserialize(de).map(|()| r_unit()),
                "unit_struct" => de.deserialize_unit_struct("U", UnitStructVisitor),
                "bool" => bool::deserialize(de).map(r_bool),
                "i8" => i8::deserialize(de).map(|v| r_int("i8", v)),
                "i16" => i16::deserialize(de).map(|v| r_int("i16", v)),
                "i32" => i32::deserialize(de).map(|v| r_int("i32", v)),
                "i64" => i64::deserialize(de).map(|v| r_int("i64", v)),
                "i128" => i128::deserialize(de).map(|v| r_int("i128", v)),
                "u8" => u8::deserialize(de).map(|v| r_int("u8", v)),
                "u16" => u16::deserialize(de).map(|v| r_int("u16", v)),
                "u32" => u32::deserialize(de).map(|v| r_int("u32", v)),
                "u64" => u64::deserialize(de).map(|v| r_int("u64", v)),
                "u128" => u128::deserialize(de).map(|v| r_int("u128", v)),
                "f32" => f32::deserialize(de).map(r_f32),
                "f64" => f64::deserialize(de).map(r_f64),
                "char" => char::deserialize(de).map(r_char),
                "string" => String::deserialize(de).map(|s| r_str("o", &s)),
                "str" => <&'de str>::deserialize(de).map(|s| r_str("b", s)),
                "bytes" => <&'de [u8]>::deserialize(de).map(|b| r_bytes("b", b)),
                "byte_buf" => de.deserialize_byte_buf(ByteBufVisitor),
                _ => bad("unknown name", ty),
            };
        }
        let (k, arg) = composite(ty);
        match k {
            "option" => de.deserialize_option(OptionVisitor(arg)),
            "newtype" => de.deserialize_newtype_struct("N", NewtypeVisitor(arg)),
            "seq" => de.deserialize_seq(SeqVisitor(arg)),
            "tuple" => {
                let tys = list(arg, "tuple");
                de.deserialize_tuple(tys.len(), TupleVisitor { tys, expect: format!("a tuple of size {}", tys.len()), exp_len: None })
            }
            "tuple_struct" => {
                let tys = list(arg, "tuple_struct");
                de.deserialize_tuple_struct("P", tys.len(), TupleVisitor::derived(tys, "tuple struct P".into()))
            }
            "map" => match list(arg, "map") {
                [k, v] => de.deserialize_map(MapVisitor(k, v)),
                _ => bad("map wants [K, V]", ty),
            },
            "struct" => {
                let v = StructVisitor::new(arg, "struct S".into());
                de.deserialize_struct("S", v.names, v)
            }
            "enum" | "enum_idx" => {
                let vs = pairs(arg, "enum");
                let names = static_names(&vs.iter().map(|p| p.0).collect::<Vec<_>>());
                let kinds = vs.iter().map(|p| p.1).collect();
                de.deserialize_enum("E", names, EnumVisitor { names, kinds, by_index: k == "enum_idx" })
            }
            _ => bad("unknown constructor", ty),
        }
    }
}

/// `Target(&"any")` without needing a `&Value`
#[derive(Clone, Copy)]
struct AnySeed;

impl<'de> DeserializeSeed<'de> for AnySeed {
    type Value = Value;
    fn deserialize<D: Deserializer<'de>>(self, de: D) -> Result<Value, D::Error> {
        de.deserialize_any(AnyVisitor)
    }
}

// ---- "any" ------------------------------------------------------------------------------------------------------
struct AnyVisitor;

macro_rules! any_ints {
    ($($m:ident $t:ident)*) => {$(
        fn $m<E: de::Error>(self, v: $t) -> Result<Value, E> {
            Ok(r_int(stringify!($t), v))
        }
    )*};
}

impl<'de> Visitor<'de> for AnyVisitor {
    type Value = Value;

    fn expecting(&self, f: &mut fmt::Formatter) -> fmt::Result {
        f.write_str("anything")
    }
    fn visit_bool<E: de::Error>(self, v: bool) -> Result<Value, E> {
        Ok(r_bool(v))
    }
    any_ints! { visit_i8 i8 visit_i16 i16 visit_i32 i32 visit_i64 i64 visit_i128 i128
    visit_u8 u8 visit_u16 u16 visit_u32 u32 visit_u64 u64 visit_u128 u128 }
    fn visit_f32<E: de::Error>(self, v: f32) -> Result<Value, E> {
        Ok(r_f32(v))
    }
    fn visit_f64<E: de::Error>(self, v: f64) -> Result<Value, E> {
        Ok(r_f64(v))
    }
    fn visit_char<E: de::Error>(self, v: char) -> Result<Value, E> {
        Ok(r_char(v))
    }
    fn visit_str<E: de::Error>(self, v: &str) -> Result<Value, E> {
        Ok(r_str("t", v))
    }
    fn visit_borrowed_str<E: de::Error>(self, v: &'de str) -> Result<Value, E> {
        Ok(r_str("b", v))
    }
    fn visit_string<E: de::Error>(self, v: String) -> Result<Value, E> {
        Ok(r_str("o", &v))
    }
    fn visit_bytes<E: de::Error>(self, v: &[u8]) -> Result<Value, E> {
        Ok(r_bytes("t", v))
    }
    fn visit_borrowed_bytes<E: de::Error>(self, v: &'de [u8]) -> Result<Value, E> {
        Ok(r_bytes("b", v))
    }
    fn visit_byte_buf<E: de::Error>(self, v: Vec<u8>) -> Result<Value, E> {
        Ok(r_bytes("o", &v))
    }
    fn visit_none<E: de::Error>(self) -> Result<Value, E> {
        Ok(Value::Null)
    }
    fn visit_some<D: Deserializer<'de>>(self, d: D) -> Result<Value, D::Error> {
        Ok(json!({"some": AnySeed.deserialize(d)?}))
    }
    fn visit_unit<E: de::Error>(self) -> Result<Value, E> {
        Ok(r_unit())
    }
    fn visit_newtype_struct<D: Deserializer<'de>>(self, d: D) -> Result<Value, D::Error> {
        Ok(json!({"newtype": AnySeed.deserialize(d)?}))
    }
    fn visit_seq<A: SeqAccess<'de>>(self, mut seq: A) -> Result<Value, A::Error> {
        let mut out = Vec::new();
        while let Some(v) = seq.next_element_seed(AnySeed)? {
            out.push(v);
        }
        Ok(json!({"seq": out}))
    }
    fn visit_map<A: MapAccess<'de>>(self, mut map: A) -> Result<Value, A::Error> {
        let mut out = Vec::new();
        while let Some(k) = map.next_key_seed(AnySeed)? {
            let v = map.next_value_seed(AnySeed)?;
            out.push(json!([k, v]));
        }
        Ok(json!({"map": out}))
    }
    fn visit_enum<A: EnumAccess<'de>>(self, data: A) -> Result<Value, A::Error> {
        let (key, variant) = data.variant_seed(AnySeed)?;
        let payload = variant.newtype_variant_seed(AnySeed)?;
        Ok(json!({"enum": [key, payload]}))
    }
}

// ---- unit struct (derive of `struct U;`) ------------------------------------------------------------------------
struct UnitStructVisitor;

impl<'de> Visitor<'de> for UnitStructVisitor {
    type Value = Value;
    fn expecting(&self, f: &mut fmt::Formatter) -> fmt::Result {
        f.write_str("unit struct U")
    }
    fn visit_unit<E: de::Error>(self) -> Result<Value, E> {
        Ok(r_unit())
    }
}

// ---- serde_bytes::ByteBuf ---------------------------------------------------------------------------------------
struct ByteBufVisitor;

impl<'de> Visitor<'de> for ByteBufVisitor {
    type Value = Value;
    fn expecting(&self, f: &mut fmt::Formatter) -> fmt::Result {
        f.write_str("byte array")
    }
    fn visit_seq<A: SeqAccess<'de>>(self, mut seq: A) -> Result<Value, A::Error> {
        // serde_bytes: Vec::with_capacity(min(size_hint, 4096))
        let len = std::cmp::min(seq.size_hint().unwrap_or(0), 4096);
        let mut bytes: Vec<u8> = Vec::with_capacity(len);
        while let Some(b) = seq.next_element::<u8>()? {
            bytes.push(b);
        }
        Ok(r_bytes("o", &bytes))
    }
    fn visit_bytes<E: de::Error>(self, v: &[u8]) -> Result<Value, E> {
        Ok(r_bytes("o", v))
    }
    fn visit_byte_buf<E: de::Error>(self, v: Vec<u8>) -> Result<Value, E> {
        Ok(r_bytes("o", &v))
    }
    fn visit_str<E: de::Error>(self, v: &str) -> Result<Value, E> {
        Ok(r_bytes("o", v.as_bytes()))
    }
    fn visit_string<E: de::Error>(self, v: String) -> Result<Value, E> {
        Ok(r_bytes("o", v.as_bytes()))
    }
}

// ---- Option<T> --------------------------------------------------------------------------------------------------
struct OptionVisitor<'t>(&'t Value);

impl<'de, 't> Visitor<'de> for OptionVisitor<'t> {
    type Value = Value;
    fn expecting(&self, f: &mut fmt::Formatter) -> fmt::Result {
        f.write_str("option")
    }
    fn visit_unit<E: de::Error>(self) -> Result<Value, E> {
        Ok(Value::Null)
    }
    fn visit_none<E: de::Error>(self) -> Result<Value, E> {
        Ok(Value::Null)
    }
    fn visit_some<D: Deserializer<'de>>(self, d: D) -> Result<Value, D::Error> {
        Ok(json!({"some": Target(self.0).deserialize(d)?}))
    }
}

// ---- derive of `struct N(T);` -----------------------------------------------------------------------------------
struct NewtypeVisitor<'t>(&'t Value);

impl<'de, 't> Visitor<'de> for NewtypeVisitor<'t> {
    type Value = Value;
    fn expecting(&self, f: &mut fmt::Formatter) -> fmt::Result {
        f.write_str("tuple struct N")
    }
    fn visit_newtype_struct<D: Deserializer<'de>>(self, d: D) -> Result<Value, D::Error> {
        Target(self.0).deserialize(d)
    }
    fn visit_seq<A: SeqAccess<'de>>(self, mut seq: A) -> Result<Value, A::Error> {
        match seq.next_element_seed(Target(self.0))? {
            Some(v) => Ok(v),
            None => Err(A::Error::invalid_length(0, &"tuple struct N with 1 element")),
        }
    }
}

// ---- Vec<T> -----------------------------------------------------------------------------------------------------
struct SeqVisitor<'t>(&'t Value);

impl<'de, 't> Visitor<'de> for SeqVisitor<'t> {
    type Value = Value;
    fn expecting(&self, f: &mut fmt::Formatter) -> fmt::Result {
        f.write_str("a sequence")
    }
    fn visit_seq<A: SeqAccess<'de>>(self, mut seq: A) -> Result<Value, A::Error> {
        // std: Vec::with_capacity(size_hint::cautious(seq.size_hint()))
        let cap = std::cmp::min(seq.size_hint().unwrap_or(0), 4096);
        let mut out = Vec::with_capacity(cap);
        while let Some(v) = seq.next_element_seed(Target(self.0))? {
            out.push(v);
        }
        Ok(json!({"seq": out}))
    }
}

// ---- tuples, tuple structs, tuple variants ----------------------------------------------------------------------
struct TupleVisitor<'t> {
    tys: &'t [Value],
    /// `expecting` of the visitor (std tuple: also used for invalid_length)
    expect: String,
    /// derive: invalid_length uses "<expect> with N element(s)" instead
    exp_len: Option<String>,
}

fn with_elements(what: &str, n: usize) -> String {
    if n == 1 {
        format!("{what} with 1 element")
    } else {
        format!("{what} with {n} elements")
    }
}

impl<'t> TupleVisitor<'t> {
    fn derived(tys: &'t [Value], what: String) -> Self {
        let exp_len = Some(with_elements(&what, tys.len()));
        TupleVisitor { tys, expect: what, exp_len }
    }
}

impl<'de, 't> Visitor<'de> for TupleVisitor<'t> {
    type Value = Value;
    fn expecting(&self, f: &mut fmt::Formatter) -> fmt::Result {
        f.write_str(&self.expect)
    }
    fn visit_seq<A: SeqAccess<'de>>(self, mut seq: A) -> Result<Value, A::Error> {
        let mut out = Vec::with_capacity(self.tys.len());
        for (i, ty) in self.tys.iter().enumerate() {
            match seq.next_element_seed(Target(ty))? {
                Some(v) => out.push(v),
                None => {
                    let exp: &str = self.exp_len.as_deref().unwrap_or(&self.expect);
                    return Err(A::Error::invalid_length(i, &exp));
                }
            }
        }
        Ok(json!({"seq": out}))
    }
}

// ---- order preserving BTreeMap<K, V> ----------------------------------------------------------------------------
struct MapVisitor<'t>(&'t Value, &'t Value);

impl<'de, 't> Visitor<'de> for MapVisitor<'t> {
    type Value = Value;
    fn expecting(&self, f: &mut fmt::Formatter) -> fmt::Result {
        f.write_str("a map")
    }
    fn visit_map<A: MapAccess<'de>>(self, mut map: A) -> Result<Value, A::Error> {
        // std maps call `next_entry()`; its default is next_key_seed followed by next_value_seed
        let mut out = Vec::new();
        while let Some((k, v)) = map.next_entry_seed(Target(self.0), Target(self.1))? {
            out.push(json!([k, v]));
        }
        Ok(json!({"map": out}))
    }
}

// ---- derive of `struct S { .. }` and of struct variants ---------------------------------------------------------
struct StructVisitor<'t> {
    names: &'static [&'static str],
    tys: Vec<&'t Value>,
    expect: String,
}

impl<'t> StructVisitor<'t> {
    fn new(arg: &'t Value, expect: String) -> Self {
        let fs = pairs(arg, "struct");
        let names = static_names(&fs.iter().map(|p| p.0).collect::<Vec<_>>());
        StructVisitor { names, tys: fs.iter().map(|p| p.1).collect(), expect }
    }
}

/// what derive's `__Field` identifier does: `Some(i)` = field i, `None` = `__ignore`
struct FieldIdent(&'static [&'static str]);

impl<'de> DeserializeSeed<'de> for FieldIdent {
    type Value = Option<usize>;
    fn deserialize<D: Deserializer<'de>>(self, de: D) -> Result<Option<usize>, D::Error> {
        de.deserialize_identifier(self)
    }
}

impl<'de> Visitor<'de> for FieldIdent {
    type Value = Option<usize>;
    fn expecting(&self, f: &mut fmt::Formatter) -> fmt::Result {
        f.write_str("field identifier")
    }
    fn visit_u64<E: de::Error>(self, v: u64) -> Result<Option<usize>, E> {
        Ok(if v < self.0.len() as u64 { Some(v as usize) } else { None })
    }
    fn visit_str<E: de::Error>(self, v: &str) -> Result<Option<usize>, E> {
        Ok(self.0.iter().position(|n| *n == v))
    }
    fn visit_bytes<E: de::Error>(self, v: &[u8]) -> Result<Option<usize>, E> {
        Ok(self.0.iter().position(|n| n.as_bytes() == v))
    }
}

/// serde::__private::de::missing_field: deserialize the field's type from a deserializer that answers
/// `deserialize_option` with `visit_none` and everything else with `Error::missing_field`
struct MissingFieldDeserializer<E>(&'static str, PhantomData<E>);

impl<'de, E: de::Error> Deserializer<'de> for MissingFieldDeserializer<E> {
    type Error = E;
    fn deserialize_any<V: Visitor<'de>>(self, _visitor: V) -> Result<V::Value, E> {
        Err(E::missing_field(self.0))
    }
    fn deserialize_option<V: Visitor<'de>>(self, visitor: V) -> Result<V::Value, E> {
        visitor.visit_none()
    }
    serde::forward_to_deserialize_any! {
        bool i8 i16 i32 i64 i128 u8 u16 u32 u64 u128 f32 f64 char str string
        bytes byte_buf unit unit_struct newtype_struct seq tuple
        tuple_struct map struct enum identifier ignored_any
    }
}

impl<'de, 't> Visitor<'de> for StructVisitor<'t> {
    type Value = Value;
    fn expecting(&self, f: &mut fmt::Formatter) -> fmt::Result {
        f.write_str(&self.expect)
    }
    fn visit_seq<A: SeqAccess<'de>>(self, mut seq: A) -> Result<Value, A::Error> {
        let mut out = Vec::with_capacity(self.tys.len());
        for (i, ty) in self.tys.iter().enumerate() {
            match seq.next_element_seed(Target(ty))? {
                Some(v) => out.push(json!([r_name(self.names[i]), v])),
                None => {
                    let exp = with_elements(&self.expect, self.tys.len());
                    return Err(A::Error::invalid_length(i, &exp.as_str()));
                }
            }
        }
        Ok(json!({"map": out}))
    }
    fn visit_map<A: MapAccess<'de>>(self, mut map: A) -> Result<Value, A::Error> {
        let n = self.tys.len();
        let mut slots: Vec<Option<Value>> = vec![None; n];
        while let Some(key) = map.next_key_seed(FieldIdent(self.names))? {
            match key {
                Some(i) => {
                    if slots[i].is_some() {
                        return Err(A::Error::duplicate_field(self.names[i]));
                    }
                    slots[i] = Some(map.next_value_seed(Target(self.tys[i]))?);
                }
                None => {
                    let _ = map.next_value::<IgnoredAny>()?;
                }
            }
        }
        let mut out = Vec::with_capacity(n);
        for (i, slot) in slots.into_iter().enumerate() {
            let v = match slot {
                Some(v) => v,
                None => Target(self.tys[i]).deserialize(MissingFieldDeserializer::<A::Error>(self.names[i], PhantomData))?,
            };
            out.push(json!([r_name(self.names[i]), v]));
        }
        Ok(json!({"map": out}))
    }
}

// ---- derive of `enum E { .. }` ----------------------------------------------------------------------------------
struct EnumVisitor<'t> {
    names: &'static [&'static str],
    kinds: Vec<&'t Value>,
    by_index: bool,
}

/// derive's variant `__Field` identifier (by_index: a hand-written one that asks for `deserialize_u64`)
struct VariantIdent {
    names: &'static [&'static str],
    by_index: bool,
}

impl<'de> DeserializeSeed<'de> for VariantIdent {
    type Value = usize;
    fn deserialize<D: Deserializer<'de>>(self, de: D) -> Result<usize, D::Error> {
        if self.by_index {
            de.deserialize_u64(VariantIndexVisitor(self.names))
        } else {
            de.deserialize_identifier(VariantIdentVisitor(self.names))
        }
    }
}

fn variant_index<E: de::Error>(names: &'static [&'static str], v: u64) -> Result<usize, E> {
    if v < names.len() as u64 {
        Ok(v as usize)
    } else {
        let exp = format!("variant index 0 <= i < {}", names.len());
        Err(E::invalid_value(Unexpected::Unsigned(v), &exp.as_str()))
    }
}

struct VariantIdentVisitor(&'static [&'static str]);

impl<'de> Visitor<'de> for VariantIdentVisitor {
    type Value = usize;
    fn expecting(&self, f: &mut fmt::Formatter) -> fmt::Result {
        f.write_str("variant identifier")
    }
    fn visit_u64<E: de::Error>(self, v: u64) -> Result<usize, E> {
        variant_index(self.0, v)
    }
    fn visit_str<E: de::Error>(self, v: &str) -> Result<usize, E> {
        match self.0.iter().position(|n| *n == v) {
            Some(i) => Ok(i),
            None => Err(E::unknown_variant(v, self.0)),
        }
    }
    fn visit_bytes<E: de::Error>(self, v: &[u8]) -> Result<usize, E> {
        match self.0.iter().position(|n| n.as_bytes() == v) {
            Some(i) => Ok(i),
            None => Err(E::unknown_variant(&String::from_utf8_lossy(v), self.0)),
        }
    }
}

struct VariantIndexVisitor(&'static [&'static str]);

impl<'de> Visitor<'de> for VariantIndexVisitor {
    type Value = usize;
    fn expecting(&self, f: &mut fmt::Formatter) -> fmt::Result {
        f.write_str("variant index")
    }
    fn visit_u64<E: de::Error>(self, v: u64) -> Result<usize, E> {
        variant_index(self.0, v)
    }
}

impl<'de, 't> Visitor<'de> for EnumVisitor<'t> {
    type Value = Value;
    fn expecting(&self, f: &mut fmt::Formatter) -> fmt::Result {
        f.write_str("enum E")
    }
    fn visit_enum<A: EnumAccess<'de>>(self, data: A) -> Result<Value, A::Error> {
        let (i, variant) = data.variant_seed(VariantIdent { names: self.names, by_index: self.by_index })?;
        let kind = self.kinds[i];
        let vname = self.names[i];
        let payload = if kind.as_str() == Some("unit") {
            variant.unit_variant()?;
            r_unit()
        } else {
            let (k, arg) = composite(kind);
            match k {
                "newtype" => variant.newtype_variant_seed(Target(arg))?,
                "tuple" => {
                    let tys = list(arg, "tuple variant");
                    variant.tuple_variant(tys.len(), TupleVisitor::derived(tys, format!("tuple variant E::{vname}")))?
                }
                "struct" => {
                    let v = StructVisitor::new(arg, format!("struct variant E::{vname}"));
                    variant.struct_variant(v.names, v)?
                }
                _ => bad("unknown variant kind", kind),
            }
        };
        Ok(json!({"enum": [r_name(vname), payload]}))
    }
}

// ------------------------------------------------------------------------------------------------------------------
// LogDe: a Deserializer wrapper that records every call made on it (and, through wrapped visitors / accessors /
// seeds, every call made on anything it hands out). Type names are logged as `_`.
// ------------------------------------------------------------------------------------------------------------------
thread_local! {
    static LOG: RefCell<Vec<String>> = const { RefCell::new(Vec::new()) };
}

fn log(s: impl Into<String>) {
    LOG.with(|l| l.borrow_mut().push(s.into()));
}

/// run `f` with an empty log; return what it logged
pub fn with_log<R>(f: impl FnOnce() -> R) -> (Vec<String>, R) {
    let saved = LOG.with(|l| std::mem::take(&mut *l.borrow_mut()));
    let r = f();
    let got = LOG.with(|l| std::mem::replace(&mut *l.borrow_mut(), saved));
    (got, r)
}

pub struct LogDe<D>(pub D);
struct LogVis<V>(V);
struct LogSeed<S>(S);
struct LogSeq<A>(A);
struct LogMap<A>(A);
struct LogEnum<A>(A);
struct LogVariant<A>(A);

macro_rules! log_de_plain {
    ($($m:ident)*) => {$(
        fn $m<V: Visitor<'de>>(self, v: V) -> Result<V::Value, D::Error> {
            log(stringify!($m));
            self.0.$m(LogVis(v))
        }
    )*};
}

impl<'de, D: Deserializer<'de>> Deserializer<'de> for LogDe<D> {
    type Error = D::Error;

    log_de_plain! {
        deserialize_any deserialize_bool deserialize_i8 deserialize_i16 deserialize_i32 deserialize_i64 deserialize_i128
        deserialize_u8 deserialize_u16 deserialize_u32 deserialize_u64 deserialize_u128 deserialize_f32 deserialize_f64
        deserialize_char deserialize_str deserialize_string deserialize_bytes deserialize_byte_buf deserialize_option
        deserialize_unit deserialize_seq deserialize_map deserialize_identifier deserialize_ignored_any
    }
    fn deserialize_unit_struct<V: Visitor<'de>>(self, name: &'static str, v: V) -> Result<V::Value, D::Error> {
        log("deserialize_unit_struct(_)");
        self.0.deserialize_unit_struct(name, LogVis(v))
    }
    fn deserialize_newtype_struct<V: Visitor<'de>>(self, name: &'static str, v: V) -> Result<V::Value, D::Error> {
        log("deserialize_newtype_struct(_)");
        self.0.deserialize_newtype_struct(name, LogVis(v))
    }
    fn deserialize_tuple<V: Visitor<'de>>(self, len: usize, v: V) -> Result<V::Value, D::Error> {
        log(format!("deserialize_tuple({len})"));
        self.0.deserialize_tuple(len, LogVis(v))
    }
    fn deserialize_tuple_struct<V: Visitor<'de>>(self, name: &'static str, len: usize, v: V) -> Result<V::Value, D::Error> {
        log(format!("deserialize_tuple_struct(_,{len})"));
        self.0.deserialize_tuple_struct(name, len, LogVis(v))
    }
    fn deserialize_struct<V: Visitor<'de>>(
        self,
        name: &'static str,
        fields: &'static [&'static str],
        v: V,
    ) -> Result<V::Value, D::Error> {
        log(format!("deserialize_struct(_,[{}])", fields.join(",")));
        self.0.deserialize_struct(name, fields, LogVis(v))
    }
    fn deserialize_enum<V: Visitor<'de>>(
        self,
        name: &'static str,
        variants: &'static [&'static str],
        v: V,
    ) -> Result<V::Value, D::Error> {
        log(format!("deserialize_enum(_,[{}])", variants.join(",")));
        self.0.deserialize_enum(name, variants, LogVis(v))
    }
    fn is_human_readable(&self) -> bool {
        log("is_human_readable");
        self.0.is_human_readable()
    }
}

macro_rules! log_visit_plain {
    ($($m:ident $t:ty,)*) => {$(
        fn $m<E: de::Error>(self, v: $t) -> Result<V::Value, E> {
            log(stringify!($m));
            self.0.$m(v)
        }
    )*};
}

impl<'de, V: Visitor<'de>> Visitor<'de> for LogVis<V> {
    type Value = V::Value;

    fn expecting(&self, f: &mut fmt::Formatter) -> fmt::Result {
        self.0.expecting(f)
    }
    log_visit_plain! {
        visit_bool bool, visit_i8 i8, visit_i16 i16, visit_i32 i32, visit_i64 i64, visit_i128 i128,
        visit_u8 u8, visit_u16 u16, visit_u32 u32, visit_u64 u64, visit_u128 u128, visit_f32 f32, visit_f64 f64,
        visit_char char, visit_str &str, visit_borrowed_str &'de str, visit_string String,
        visit_bytes &[u8], visit_borrowed_bytes &'de [u8], visit_byte_buf Vec<u8>,
    }
    fn visit_none<E: de::Error>(self) -> Result<V::Value, E> {
        log("visit_none");
        self.0.visit_none()
    }
    fn visit_unit<E: de::Error>(self) -> Result<V::Value, E> {
        log("visit_unit");
        self.0.visit_unit()
    }
    fn visit_some<D: Deserializer<'de>>(self, d: D) -> Result<V::Value, D::Error> {
        log("visit_some");
        self.0.visit_some(LogDe(d))
    }
    fn visit_newtype_struct<D: Deserializer<'de>>(self, d: D) -> Result<V::Value, D::Error> {
        log("visit_newtype_struct");
        self.0.visit_newtype_struct(LogDe(d))
    }
    fn visit_seq<A: SeqAccess<'de>>(self, a: A) -> Result<V::Value, A::Error> {
        log("visit_seq");
        self.0.visit_seq(LogSeq(a))
    }
    fn visit_map<A: MapAccess<'de>>(self, a: A) -> Result<V::Value, A::Error> {
        log("visit_map");
        self.0.visit_map(LogMap(a))
    }
    fn visit_enum<A: EnumAccess<'de>>(self, a: A) -> Result<V::Value, A::Error> {
        log("visit_enum");
        self.0.visit_enum(LogEnum(a))
    }
}

impl<'de, S: DeserializeSeed<'de>> DeserializeSeed<'de> for LogSeed<S> {
    type Value = S::Value;
    fn deserialize<D: Deserializer<'de>>(self, d: D) -> Result<S::Value, D::Error> {
        self.0.deserialize(LogDe(d))
    }
}

impl<'de, A: SeqAccess<'de>> SeqAccess<'de> for LogSeq<A> {
    type Error = A::Error;
    fn next_element_seed<T: DeserializeSeed<'de>>(&mut self, seed: T) -> Result<Option<T::Value>, A::Error> {
        log("next_element");
        self.0.next_element_seed(LogSeed(seed))
    }
    fn size_hint(&self) -> Option<usize> {
        log("seq.size_hint");
        self.0.size_hint()
    }
}

impl<'de, A: MapAccess<'de>> MapAccess<'de> for LogMap<A> {
    type Error = A::Error;
    fn next_key_seed<K: DeserializeSeed<'de>>(&mut self, seed: K) -> Result<Option<K::Value>, A::Error> {
        log("next_key");
        self.0.next_key_seed(LogSeed(seed))
    }
    fn next_value_seed<T: DeserializeSeed<'de>>(&mut self, seed: T) -> Result<T::Value, A::Error> {
        log("next_value");
        self.0.next_value_seed(LogSeed(seed))
    }
    fn next_entry_seed<K: DeserializeSeed<'de>, T: DeserializeSeed<'de>>(
        &mut self,
        k: K,
        v: T,
    ) -> Result<Option<(K::Value, T::Value)>, A::Error> {
        log("next_entry");
        self.0.next_entry_seed(LogSeed(k), LogSeed(v))
    }
    fn size_hint(&self) -> Option<usize> {
        log("map.size_hint");
        self.0.size_hint()
    }
}

impl<'de, A: EnumAccess<'de>> EnumAccess<'de> for LogEnum<A> {
    type Error = A::Error;
    type Variant = LogVariant<A::Variant>;
    fn variant_seed<T: DeserializeSeed<'de>>(self, seed: T) -> Result<(T::Value, Self::Variant), A::Error> {
        log("variant");
        let (v, va) = self.0.variant_seed(LogSeed(seed))?;
        Ok((v, LogVariant(va)))
    }
}

impl<'de, A: VariantAccess<'de>> VariantAccess<'de> for LogVariant<A> {
    type Error = A::Error;
    fn unit_variant(self) -> Result<(), A::Error> {
        log("unit_variant");
        self.0.unit_variant()
    }
    fn newtype_variant_seed<T: DeserializeSeed<'de>>(self, seed: T) -> Result<T::Value, A::Error> {
        log("newtype_variant");
        self.0.newtype_variant_seed(LogSeed(seed))
    }
    fn tuple_variant<V: Visitor<'de>>(self, len: usize, v: V) -> Result<V::Value, A::Error> {
        log(format!("tuple_variant({len})"));
        self.0.tuple_variant(len, LogVis(v))
    }
    fn struct_variant<V: Visitor<'de>>(self, fields: &'static [&'static str], v: V) -> Result<V::Value, A::Error> {
        log(format!("struct_variant([{}])", fields.join(",")));
        self.0.struct_variant(fields, LogVis(v))
    }
}

// ------------------------------------------------------------------------------------------------------------------
// self check: Target vs real types
// ------------------------------------------------------------------------------------------------------------------
mod zoo {
    use serde::Deserialize;
    use std::collections::BTreeMap;

    #[derive(Deserialize)]
    pub struct Z1 {
        pub a: i32,
        pub b: Option<String>,
        pub c: Vec<u8>,
    }
    #[derive(Deserialize)]
    pub struct Z2(pub i64, pub bool);
    #[derive(Deserialize)]
    pub struct Z3(pub f32);
    #[derive(Deserialize)]
    pub struct Z4;
    #[derive(Deserialize)]
    pub enum Z5 {
        A,
        B(u8),
        C(i8, i16),
        D { x: u16 },
    }
    #[derive(Deserialize)]
    pub struct Z6<'a> {
        #[serde(borrow)]
        pub s: &'a str,
        #[serde(borrow)]
        pub b: &'a [u8],
        pub t: (u8, char),
        pub m: BTreeMap<String, f64>,
        pub n: Z3,
        pub o: Option<Z5>,
    }
    /// nesting: options of options, units, newtype around a struct, seq of tuple structs, enum payloads with structs
    #[derive(Deserialize)]
    pub struct Z7 {
        pub u: (),
        pub v: Z4,
        pub oo: Option<Option<u32>>,
        pub w: Z8,
        pub l: Vec<Z2>,
        pub e: Vec<Z9>,
        pub i: serde::de::IgnoredAny,
        pub big: (i128, u128, u64, i16, f64),
    }
    #[derive(Deserialize)]
    pub struct Z8(pub Z1);
    #[derive(Deserialize)]
    pub struct Z10 {
        pub a: i32,
        pub b: Option<i32>,
    }
    #[derive(Deserialize)]
    pub enum Z9 {
        N(Z1),
        O(Option<bool>),
        T(Z3, Z4, ()),
        S { p: Option<u8>, q: Z2 },
        U,
    }
}

/// (call log, Ok(()) or Err(message))
type Outcome = (Vec<String>, Result<(), String>);

macro_rules! real {
    ($t:ty) => {
        |input: &str| -> Outcome {
            with_log(|| {
                let mut de = serde_json::Deserializer::from_str(input);
                let r = <$t>::deserialize(LogDe(&mut de)).map(|_| ());
                r.and_then(|()| de.end()).map_err(|e| e.to_string())
            })
        }
    };
}

/// Target(ty) on a serde_json input through LogDe: (call log, rendered value or error text)
pub fn via_target(ty: &Value, input: &str) -> (Vec<String>, Result<Value, String>) {
    with_log(|| {
        let mut de = serde_json::Deserializer::from_str(input);
        let r = Target(ty).deserialize(LogDe(&mut de));
        r.and_then(|v| de.end().map(|()| v)).map_err(|e| e.to_string())
    })
}

struct Case {
    name: &'static str,
    ty: Value,
    real: fn(&str) -> Outcome,
    inputs: Vec<&'static str>,
}

/// zoo type names → the names Target uses, so that error messages can be compared literally
fn normalize_msg(s: &str) -> String {
    let table = [
        ("Z1", "S"),
        ("Z2", "P"),
        ("Z3", "N"),
        ("Z4", "U"),
        ("Z5", "E"),
        ("Z6", "S"),
        ("Z7", "S"),
        ("Z8", "N"),
        ("Z9", "E"),
        ("S0", "S"), // Z10 after Z1 → S
    ];
    let mut out = s.to_string();
    for (a, b) in table {
        out = out.replace(a, b);
    }
    out
}

fn zoo_cases() -> Vec<Case> {
    let z1 = json!({"struct": [["a", "i32"], ["b", {"option": "string"}], ["c", {"seq": "u8"}]]});
    let z2 = json!({"tuple_struct": ["i64", "bool"]});
    let z3 = json!({"newtype": "f32"});
    let z4 = json!("unit_struct");
    let z5 = json!({"enum": [["A", "unit"], ["B", {"newtype": "u8"}], ["C", {"tuple": ["i8", "i16"]}], ["D", {"struct": [["x", "u16"]]}]]});
    let z6 = json!({"struct": [["s", "str"], ["b", "bytes"], ["t", {"tuple": ["u8", "char"]}], ["m", {"map": ["string", "f64"]}],
        ["n", z3.clone()], ["o", {"option": z5.clone()}]]});
    let z8 = json!({"newtype": z1.clone()});
    let z9 = json!({"enum": [["N", {"newtype": z1.clone()}], ["O", {"newtype": {"option": "bool"}}],
        ["T", {"tuple": [z3.clone(), z4.clone(), "unit"]}], ["S", {"struct": [["p", {"option": "u8"}], ["q", z2.clone()]]}], ["U", "unit"]]});
    let z7 = json!({"struct": [["u", "unit"], ["v", z4.clone()], ["oo", {"option": {"option": "u32"}}], ["w", z8.clone()],
        ["l", {"seq": z2.clone()}], ["e", {"seq": z9.clone()}], ["i", "ignored"], ["big", {"tuple": ["i128", "u128", "u64", "i16", "f64"]}]]});
    use zoo::*;
    vec![
        Case {
            name: "Z1",
            ty: z1,
            real: real!(Z1),
            inputs: vec![
                r#"{"a": 1, "b": "x", "c": [1, 2]}"#,
                r#"{"c": [], "b": null, "a": -7}"#,
                r#"{"a": 1, "c": [3]}"#,
                r#"{"b": "x", "c": [3]}"#,
                r#"{"a": 1, "b": "x"}"#,
                r#"{"a": 1, "a": 2, "c": []}"#,
                r#"{"a": 1, "c": [], "c": []}"#,
                r#"{"a": 1, "zz": {"k": [1, null, "s"]}, "c": [1], "b": "e\nsc"}"#,
                r#"{"a": "no", "c": []}"#,
                r#"{"a": 1.5, "c": []}"#,
                r#"{"a": 3000000000, "c": []}"#,
                r#"{"a": 1, "c": [300]}"#,
                r#"{"a": 1, "c": [-1]}"#,
                r#"{"a": 1, "c": "str"}"#,
                r#"{"a": 1, "b": 5, "c": []}"#,
                r#"[1, "x", [1]]"#,
                r#"[1, null, []]"#,
                r#"[1, "x"]"#,
                r#"[1]"#,
                r#"[]"#,
                r#"[1, "x", [1], 4]"#,
                r#"null"#,
                r#"5"#,
                r#""s""#,
                r#"{}"#,
                r#"{"a": 1, "b": "x", "c": [1, 2]} 1"#,
            ],
        },
        Case {
            name: "Z2",
            ty: z2,
            real: real!(Z2),
            inputs: vec![
                r#"[1, true]"#,
                r#"[-9223372036854775808, false]"#,
                r#"[1]"#,
                r#"[]"#,
                r#"[1, true, 3]"#,
                r#"[true, 1]"#,
                r#"[9223372036854775808, true]"#,
                r#"{"0": 1, "1": true}"#,
                r#"null"#,
                r#"7"#,
            ],
        },
        Case {
            name: "Z3",
            ty: z3,
            real: real!(Z3),
            inputs: vec![r#"1.5"#, r#"3"#, r#"-3"#, r#"1e300"#, r#"[1.5]"#, r#"[]"#, r#""x""#, r#"null"#, r#"{"0": 1.5}"#],
        },
        Case { name: "Z4", ty: z4, real: real!(Z4), inputs: vec![r#"null"#, r#"[]"#, r#"{}"#, r#"0"#, r#""x""#] },
        Case {
            name: "Z5",
            ty: z5,
            real: real!(Z5),
            inputs: vec![
                r#""A""#,
                r#"{"A": null}"#,
                r#"{"B": 7}"#,
                r#"{"C": [1, 2]}"#,
                r#"{"D": {"x": 9}}"#,
                r#"{"D": [9]}"#,
                r#"{"D": {"x": 9, "y": 1}}"#,
                r#"{"D": {}}"#,
                r#"{"D": {"x": 1, "x": 2}}"#,
                r#"{"C": [1]}"#,
                r#"{"C": [1, 2, 3]}"#,
                r#"{"C": [1000, 2]}"#,
                r#"{"B": 256}"#,
                r#"{"B": "x"}"#,
                r#""B""#,
                r#""C""#,
                r#""D""#,
                r#""Q""#,
                r#"{"Q": 1}"#,
                r#"{"A": 1}"#,
                r#"{"A": null, "B": 1}"#,
                r#"{}"#,
                r#"1"#,
                r#"null"#,
                r#"["A"]"#,
                r#""A""#,
            ],
        },
        Case {
            name: "Z6",
            ty: z6,
            real: real!(Z6),
            inputs: vec![
                r#"{"s": "abc", "b": "xyz", "t": [1, "c"], "m": {"k": 1.5, "j": 2}, "n": 0.5, "o": null}"#,
                r#"{"s": "abc", "b": "xyz", "t": [1, "c"], "m": {}, "n": 0.5, "o": "A"}"#,
                r#"{"s": "", "b": "", "t": [255, "é"], "m": {"k": -1}, "n": 1, "o": {"C": [1, 2]}}"#,
                r#"{"s": "abc", "b": "xyz", "t": [1, "c"], "m": {"k": 1.5}, "n": 0.5}"#,
                r#"{"s": "a\nb", "b": "xyz", "t": [1, "c"], "m": {}, "n": 0.5}"#,
                r#"{"s": "ab", "b": "x\ny", "t": [1, "c"], "m": {}, "n": 0.5}"#,
                r#"{"s": "ab", "b": [1, 2], "t": [1, "c"], "m": {}, "n": 0.5}"#,
                r#"{"s": "ab", "b": "x", "t": [1, "cc"], "m": {}, "n": 0.5}"#,
                r#"{"s": "ab", "b": "x", "t": [1, ""], "m": {}, "n": 0.5}"#,
                r#"{"s": "ab", "b": "x", "t": [1], "m": {}, "n": 0.5}"#,
                r#"{"s": "ab", "b": "x", "t": [1, "c", 3], "m": {}, "n": 0.5}"#,
                r#"{"s": "ab", "b": "x", "t": [1, "c"], "m": {"k": "v"}, "n": 0.5}"#,
                r#"{"s": "ab", "b": "x", "t": [1, "c"], "m": {"k": 1, "k": 2}, "n": 0.5}"#,
                r#"{"s": "ab", "b": "x", "t": [1, "c"], "m": [["k", 1]], "n": 0.5}"#,
                r#"{"s": "ab", "b": "x", "t": [1, "c"], "m": {}, "n": [0.5]}"#,
                r#"{"s": "ab", "b": "x", "t": [1, "c"], "m": {}, "n": 0.5, "o": {"Q": 1}}"#,
                r#"{"s": "ab", "b": "x", "t": [1, "c"], "m": {}, "n": 0.5, "o": {"D": {"x": 70000}}}"#,
                r#"{"s": 1, "b": "x", "t": [1, "c"], "m": {}, "n": 0.5}"#,
                r#"{"o": "A", "n": 1, "m": {}, "t": [0, "z"], "b": "b", "s": "s", "extra": [{}]}"#,
                r#"["s", "b", [1, "c"], {"k": 1}, 2.5, {"B": 3}]"#,
                r#"["s", "b", [1, "c"], {"k": 1}, 2.5]"#,
            ],
        },
        Case {
            name: "Z7",
            ty: z7,
            real: real!(Z7),
            inputs: vec![
                r#"{"u": null, "v": null, "oo": 5, "w": {"a": 1, "c": []}, "l": [[1, true], [2, false]],
                    "e": [{"N": {"a": 1, "c": [1]}}, {"O": null}, {"O": true}, {"T": [1.5, null, null]}, {"S": {"q": [1, true]}}, "U"],
                    "i": {"x": [1, {"y": null}]}, "big": [-170141183460469231731687303715884105728, 340282366920938463463374607431768211455, 18446744073709551615, -32768, 1e-7]}"#,
                r#"{"u": null, "v": null, "oo": null, "w": [1, "b", []], "l": [], "e": [], "i": 1, "big": [1, 2, 3, 4, 5]}"#,
                r#"{"u": null, "v": null, "w": {"a": 1, "c": []}, "l": [], "e": [], "i": "A", "big": [1, 2, 3, 4, 5]}"#,
                r#"{"v": null, "w": {"a": 1, "c": []}, "l": [], "e": [], "i": 1, "big": [1, 2, 3, 4, 5]}"#,
                r#"{"u": null, "w": {"a": 1, "c": []}, "l": [], "e": [], "i": 1, "big": [1, 2, 3, 4, 5]}"#,
                r#"{"u": null, "v": null, "w": {"a": 1, "c": []}, "l": [], "e": [], "big": [1, 2, 3, 4, 5]}"#,
                r#"{"u": null, "v": null, "w": {"a": 1, "c": []}, "l": [], "i": 1, "big": [1, 2, 3, 4, 5]}"#,
                r#"{"u": null, "v": null, "l": [], "e": [], "i": 1, "big": [1, 2, 3, 4, 5]}"#,
                r#"{"u": 1, "v": null, "w": {"a": 1, "c": []}, "l": [], "e": [], "i": 1, "big": [1, 2, 3, 4, 5]}"#,
                r#"{"u": null, "v": null, "w": {"a": 1, "c": []}, "l": [[1]], "e": [], "i": 1, "big": [1, 2, 3, 4, 5]}"#,
                r#"{"u": null, "v": null, "w": {"a": 1, "c": []}, "l": [], "e": [{"S": {"p": 1}}], "i": 1, "big": [1, 2, 3, 4, 5]}"#,
                r#"{"u": null, "v": null, "w": {"a": 1, "c": []}, "l": [], "e": [{"T": [1, null]}], "i": 1, "big": [1, 2, 3, 4, 5]}"#,
                r#"{"u": null, "v": null, "w": {"a": 1, "c": []}, "l": [], "e": [{"N": {"c": []}}], "i": 1, "big": [1, 2, 3, 4, 5]}"#,
                r#"{"u": null, "v": null, "w": {"a": 1, "c": []}, "l": [], "e": ["N"], "i": 1, "big": [1, 2, 3, 4, 5]}"#,
                r#"{"u": null, "v": null, "w": {"a": 1, "c": []}, "l": [], "e": ["O"], "i": 1, "big": [1, 2, 3, 4, 5]}"#,
                r#"{"u": null, "v": null, "w": {"a": 1, "c": []}, "l": [], "e": [], "i": 1, "big": [1, 2, 3, 4]}"#,
                r#"{"u": null, "v": null, "w": {"a": 1, "c": []}, "l": [], "e": [], "i": 1, "big": [1, -2, 3, 4, 5]}"#,
                r#"{"u": null, "v": null, "w": {"a": 1, "c": []}, "l": [], "e": [], "i": 1, "big": [1, 2, -3, 4, 5]}"#,
                r#"{"u": null, "v": null, "w": {"a": 1, "c": []}, "l": [], "e": [], "i": 1, "big": [1, 2, 3, 4, "x"]}"#,
            ],
        },
        Case {
            name: "Z8",
            ty: z8,
            real: real!(Z8),
            inputs: vec![r#"{"a": 1, "c": []}"#, r#"[1, null, []]"#, r#"[[1, null, []]]"#, r#"{"c": []}"#, r#"null"#],
        },
        // std / hand-written counterparts of the leaf targets
        Case { name: "unit", ty: json!("unit"), real: real!(()), inputs: vec!["null", "0", "[]"] },
        Case { name: "bool", ty: json!("bool"), real: real!(bool), inputs: vec!["true", "false", "0", "null", r#""true""#] },
        Case { name: "i8", ty: json!("i8"), real: real!(i8), inputs: vec!["0", "-128", "127", "128", "-129", "1.0", r#""1""#] },
        Case { name: "i16", ty: json!("i16"), real: real!(i16), inputs: vec!["-32768", "32768", "null"] },
        Case { name: "i32", ty: json!("i32"), real: real!(i32), inputs: vec!["-2147483648", "2147483648", "true"] },
        Case { name: "i64", ty: json!("i64"), real: real!(i64), inputs: vec!["9223372036854775807", "9223372036854775808", "-1"] },
        Case { name: "u8", ty: json!("u8"), real: real!(u8), inputs: vec!["0", "255", "256", "-1", "-0"] },
        Case { name: "u16", ty: json!("u16"), real: real!(u16), inputs: vec!["65535", "65536"] },
        Case { name: "u32", ty: json!("u32"), real: real!(u32), inputs: vec!["4294967295", "4294967296"] },
        Case { name: "u64", ty: json!("u64"), real: real!(u64), inputs: vec!["18446744073709551615", "18446744073709551616", "-1"] },
        Case { name: "i128", ty: json!("i128"), real: real!(i128), inputs: vec!["-170141183460469231731687303715884105728", "5", "1.5"] },
        Case { name: "u128", ty: json!("u128"), real: real!(u128), inputs: vec!["340282366920938463463374607431768211455", "-5", "5"] },
        Case { name: "f32", ty: json!("f32"), real: real!(f32), inputs: vec!["1.5", "1", "-1", "1e39", "null", r#""1""#] },
        Case { name: "f64", ty: json!("f64"), real: real!(f64), inputs: vec!["1.5", "1", "-1", "-0.0", "1e400", "null"] },
        Case { name: "char", ty: json!("char"), real: real!(char), inputs: vec![r#""a""#, r#""\n""#, r#""ab""#, r#""""#, "97", r#""😀""#] },
        Case { name: "string", ty: json!("string"), real: real!(String), inputs: vec![r#""abc""#, r#""a\tb""#, "1", "null", r#"["a"]"#] },
        Case { name: "str", ty: json!("str"), real: real!(&str), inputs: vec![r#""abc""#, r#""a\tb""#, "1", r#""""#] },
        Case { name: "bytes", ty: json!("bytes"), real: real!(&[u8]), inputs: vec![r#""abc""#, r#""a\tb""#, "[1, 2]", "1"] },
        // CString's visitor is the same as serde_bytes::ByteBuf's (apart from rejecting interior NULs afterwards)
        Case {
            name: "byte_buf",
            ty: json!("byte_buf"),
            real: real!(std::ffi::CString),
            inputs: vec![r#""abc""#, r#""a\tb""#, "[1, 2, 255]", "[1, 256]", "[1, \"x\"]", "[]", "1", "null", r#"{"a": 1}"#],
        },
        Case {
            name: "ignored",
            ty: json!("ignored"),
            real: real!(IgnoredAny),
            inputs: vec!["1", "null", r#"{"a": [1, {"b": null}], "c": "x"}"#, "[1, [2]]", r#"{"a": }"#],
        },
        Case {
            name: "option",
            ty: json!({"option": {"option": "i8"}}),
            real: real!(Option<Option<i8>>),
            inputs: vec!["null", "1", "300", r#""x""#],
        },
        Case {
            name: "seq",
            ty: json!({"seq": {"seq": "bool"}}),
            real: real!(Vec<Vec<bool>>),
            inputs: vec!["[]", "[[]]", "[[true], [false, true]]", "[[1]]", "[true]", "{}", "null"],
        },
        Case {
            name: "tuple1",
            ty: json!({"tuple": ["u8"]}),
            real: real!((u8,)),
            inputs: vec!["[1]", "[]", "[1, 2]", "1"],
        },
        Case {
            name: "tuple3",
            ty: json!({"tuple": ["u8", {"option": "string"}, {"tuple": ["bool", "unit"]}]}),
            real: real!((u8, Option<String>, (bool, ()))),
            inputs: vec![r#"[1, "s", [true, null]]"#, r#"[1, null, [true, null]]"#, r#"[1, null, [true]]"#, r#"[1, null]"#, r#"[1, null, [true, null], 4]"#],
        },
        Case {
            name: "map",
            ty: json!({"map": ["i32", {"seq": "string"}]}),
            real: real!(std::collections::BTreeMap<i32, Vec<String>>),
            inputs: vec![r#"{}"#, r#"{"1": ["a"], "-2": []}"#, r#"{"x": []}"#, r#"{"1": 1}"#, r#"[]"#, r#"{"1": [], "1": ["dup"]}"#],
        },
        Case {
            name: "map_char_unit",
            ty: json!({"map": ["char", "unit"]}),
            real: real!(std::collections::BTreeMap<char, ()>),
            inputs: vec![r#"{"a": null, "b": null}"#, r#"{"ab": null}"#, r#"{"a": 1}"#],
        },
    ]
}

/// things without a real-type counterpart: check the rendering against expected DVal JSON
fn render_cases() -> Vec<(Value, &'static str, Value)> {
    let s = |own: &str, x: &str| json!({"str": [own, hex(x.as_bytes())]});
    let i = |tag: &str, x: &str| json!({"int": [tag, x]});
    vec![
        (json!("any"), "null", json!("unit")),
        (json!("any"), "true", json!({"bool": true})),
        (json!("any"), "5", i("u64", "5")),
        (json!("any"), "-5", i("i64", "-5")),
        (json!("any"), "1.5", json!({"f64": 1.5f64.to_bits().to_string()})),
        (json!("any"), r#""ab""#, s("b", "ab")),
        (json!("any"), r#""a\nb""#, s("t", "a\nb")),
        (json!("any"), r#"[1, [], "x"]"#, json!({"seq": [i("u64", "1"), {"seq": []}, s("b", "x")]})),
        (json!("any"), r#"{"b": 1, "a": {"c": null}}"#, json!({"map": [[s("b", "b"), i("u64", "1")], [s("b", "a"), {"map": [[s("b", "c"), "unit"]]}]]})),
        (json!({"option": "any"}), "null", Value::Null),
        (json!({"option": "any"}), "1", json!({"some": i("u64", "1")})),
        (json!({"option": {"option": "unit"}}), "null", Value::Null),
        (json!("unit_struct"), "null", json!("unit")),
        (json!("ignored"), r#"{"a": [1]}"#, json!("ignored")),
        (json!("i8"), "-5", i("i8", "-5")),
        (json!("u64"), "18446744073709551615", i("u64", "18446744073709551615")),
        (json!("i128"), "-170141183460469231731687303715884105728", i("i128", "-170141183460469231731687303715884105728")),
        (json!("f32"), "1.5", json!({"f32": 1.5f32.to_bits()})),
        (json!("f64"), "-0.0", json!({"f64": (-0.0f64).to_bits().to_string()})),
        (json!("char"), r#""é""#, json!({"char": 233})),
        (json!("string"), r#""ab""#, s("o", "ab")),
        (json!("str"), r#""ab""#, s("b", "ab")),
        (json!("bytes"), r#""ab""#, json!({"bytes": ["b", "6162"]})),
        (json!("byte_buf"), r#""ab""#, json!({"bytes": ["o", "6162"]})),
        (json!("byte_buf"), "[0, 255]", json!({"bytes": ["o", "00ff"]})),
        (json!({"newtype": "u8"}), "7", i("u8", "7")),
        (json!({"seq": "bool"}), "[true, false]", json!({"seq": [{"bool": true}, {"bool": false}]})),
        (json!({"tuple": ["u8", "string"]}), r#"[1, "x"]"#, json!({"seq": [i("u8", "1"), s("o", "x")]})),
        (json!({"tuple_struct": ["u8", "unit"]}), "[1, null]", json!({"seq": [i("u8", "1"), "unit"]})),
        (json!({"map": ["str", "u8"]}), r#"{"z": 1, "a": 2}"#, json!({"map": [[s("b", "z"), i("u8", "1")], [s("b", "a"), i("u8", "2")]]})),
        (
            json!({"struct": [["a", "i32"], ["b", {"option": "string"}], ["c", {"seq": "u8"}]]}),
            r#"{"c": [1], "x": 0, "a": -1}"#,
            json!({"map": [[s("t", "a"), i("i32", "-1")], [s("t", "b"), null], [s("t", "c"), {"seq": [i("u8", "1")]}]]}),
        ),
        (
            json!({"struct": [["a", "i32"], ["b", {"option": "string"}]]}),
            r#"[4, "s"]"#,
            json!({"map": [[s("t", "a"), i("i32", "4")], [s("t", "b"), {"some": s("o", "s")}]]}),
        ),
        (json!({"enum": [["A", "unit"], ["B", {"newtype": "u8"}]]}), r#""A""#, json!({"enum": [s("t", "A"), "unit"]})),
        (json!({"enum": [["A", "unit"], ["B", {"newtype": "u8"}]]}), r#"{"B": 3}"#, json!({"enum": [s("t", "B"), i("u8", "3")]})),
        (
            json!({"enum": [["C", {"tuple": ["i8", "i16"]}], ["D", {"struct": [["x", "u16"]]}]]}),
            r#"{"C": [1, 2]}"#,
            json!({"enum": [s("t", "C"), {"seq": [i("i8", "1"), i("i16", "2")]}]}),
        ),
        (
            json!({"enum": [["C", {"tuple": ["i8", "i16"]}], ["D", {"struct": [["x", "u16"]]}]]}),
            r#"{"D": {"x": 5}}"#,
            json!({"enum": [s("t", "D"), {"map": [[s("t", "x"), i("u16", "5")]]}]}),
        ),
    ]
}

/// visits serde_json never makes: drive Target with serde's value deserializers
fn value_de_checks() -> Result<(), String> {
    use serde::de::value::{
        BorrowedBytesDeserializer, BytesDeserializer, CharDeserializer, Error as VErr, F32Deserializer, I8Deserializer,
        StringDeserializer, U32Deserializer, U64Deserializer, UnitDeserializer,
    };
    fn expect(what: &str, got: Result<Value, VErr>, want: Result<Value, ()>) -> Result<(), String> {
        match (&got, &want) {
            (Ok(g), Ok(w)) if g == w => Ok(()),
            (Err(_), Err(())) => Ok(()),
            _ => Err(format!("value check {what}: got {got:?}, want {want:?}")),
        }
    }
    let any = json!("any");
    expect("any/i8", Target(&any).deserialize(I8Deserializer::<VErr>::new(-3)), Ok(json!({"int": ["i8", "-3"]})))?;
    expect("any/u32", Target(&any).deserialize(U32Deserializer::<VErr>::new(3)), Ok(json!({"int": ["u32", "3"]})))?;
    expect("any/f32", Target(&any).deserialize(F32Deserializer::<VErr>::new(0.5)), Ok(json!({"f32": 0.5f32.to_bits()})))?;
    expect("any/char", Target(&any).deserialize(CharDeserializer::<VErr>::new('x')), Ok(json!({"char": 120})))?;
    expect("any/unit", Target(&any).deserialize(UnitDeserializer::<VErr>::new()), Ok(json!("unit")))?;
    expect("any/string", Target(&any).deserialize(StringDeserializer::<VErr>::new("ab".into())), Ok(json!({"str": ["o", "6162"]})))?;
    expect("any/bytes", Target(&any).deserialize(BytesDeserializer::<VErr>::new(b"ab")), Ok(json!({"bytes": ["t", "6162"]})))?;
    expect(
        "any/borrowed_bytes",
        Target(&any).deserialize(BorrowedBytesDeserializer::<VErr>::new(b"ab")),
        Ok(json!({"bytes": ["b", "6162"]})),
    )?;
    // std visitors: &str takes borrowed bytes, not transient ones; String takes both; i8 widens/narrows
    expect("str/borrowed_bytes", Target(&json!("str")).deserialize(BorrowedBytesDeserializer::<VErr>::new(b"ab")), Ok(json!({"str": ["b", "6162"]})))?;
    expect("str/bytes", Target(&json!("str")).deserialize(BytesDeserializer::<VErr>::new(b"ab")), Err(()))?;
    expect("str/string", Target(&json!("str")).deserialize(StringDeserializer::<VErr>::new("ab".into())), Err(()))?;
    expect("string/bytes", Target(&json!("string")).deserialize(BytesDeserializer::<VErr>::new(b"ab")), Ok(json!({"str": ["o", "6162"]})))?;
    expect("string/bad utf8", Target(&json!("string")).deserialize(BytesDeserializer::<VErr>::new(b"\xff")), Err(()))?;
    expect("byte_buf/bytes", Target(&json!("byte_buf")).deserialize(BorrowedBytesDeserializer::<VErr>::new(b"ab")), Ok(json!({"bytes": ["o", "6162"]})))?;
    expect("i8/u64", Target(&json!("i8")).deserialize(U64Deserializer::<VErr>::new(127)), Ok(json!({"int": ["i8", "127"]})))?;
    expect("i8/u64 overflow", Target(&json!("i8")).deserialize(U64Deserializer::<VErr>::new(128)), Err(()))?;
    expect("char/u32", Target(&json!("char")).deserialize(U32Deserializer::<VErr>::new(97)), Err(()))?;
    // identifiers by index (U32Deserializer is an EnumAccess whose variant is the number, unit variants only)
    let e = json!({"enum": [["A", "unit"], ["B", "unit"]]});
    let ei = json!({"enum_idx": [["A", "unit"], ["B", "unit"]]});
    let b = json!({"enum": [{"str": ["t", "42"]}, "unit"]});
    expect("enum/u32", Target(&e).deserialize(U32Deserializer::<VErr>::new(1)), Ok(b.clone()))?;
    expect("enum_idx/u32", Target(&ei).deserialize(U32Deserializer::<VErr>::new(1)), Ok(b))?;
    expect("enum/u32 range", Target(&e).deserialize(U32Deserializer::<VErr>::new(2)), Err(()))?;
    expect("enum_idx/u32 range", Target(&ei).deserialize(U32Deserializer::<VErr>::new(2)), Err(()))?;
    expect("enum_idx/str", Target(&ei).deserialize(StringDeserializer::<VErr>::new("A".into())), Err(()))?;
    expect("enum/str", Target(&e).deserialize(StringDeserializer::<VErr>::new("A".into())), Ok(json!({"enum": [{"str": ["t", "41"]}, "unit"]})))?;
    // derive paths serde_json never takes: newtype via visit_seq, identifiers via visit_u64 / visit_bytes
    use serde::de::value::{MapDeserializer, SeqDeserializer};
    let seq = |v: Vec<i32>| SeqDeserializer::<_, VErr>::new(v.into_iter());
    expect("newtype/seq", Target(&json!({"newtype": "u8"})).deserialize(seq(vec![7])), Ok(json!({"int": ["u8", "7"]})))?;
    expect("newtype/empty seq", Target(&json!({"newtype": "u8"})).deserialize(seq(vec![])), Err(()))?;
    let z10 = json!({"struct": [["a", "i32"], ["b", {"option": "i32"}]]});
    let z10_a5 = json!({"map": [[{"str": ["t", "61"]}, {"int": ["i32", "5"]}], [{"str": ["t", "62"]}, null]]});
    expect("struct/u64 keys", Target(&z10).deserialize(MapDeserializer::<_, VErr>::new(vec![(0u64, 5i32), (7u64, 1i32)].into_iter())), Ok(z10_a5.clone()))?;
    expect("struct/bytes keys", Target(&z10).deserialize(MapDeserializer::<_, VErr>::new(vec![(&b"zz"[..], 1i32), (&b"a"[..], 5i32)].into_iter())), Ok(z10_a5))?;
    use zoo::{Z10, Z3, Z5};
    for keys in [vec![0u64, 7], vec![0, 0], vec![7, 1], vec![1], vec![]] {
        same_on::<Z10, _>(&format!("Z10 on u64 keys {keys:?}"), &z10, || MapDeserializer::<_, VErr>::new(keys.clone().into_iter().map(|k| (k, 5i32))))?;
    }
    for keys in [vec!["a"], vec!["b", "a"], vec!["a", "zz", "a"], vec!["zz"]] {
        same_on::<Z10, _>(&format!("Z10 on bytes keys {keys:?}"), &z10, || {
            MapDeserializer::<_, VErr>::new(keys.clone().into_iter().map(|k| (k.as_bytes(), 5i32)))
        })?;
        same_on::<Z10, _>(&format!("Z10 on str keys {keys:?}"), &z10, || MapDeserializer::<_, VErr>::new(keys.clone().into_iter().map(|k| (k, 5i32))))?;
    }
    for n in 0..4 {
        same_on::<Z10, _>(&format!("Z10 on seq of {n}"), &z10, || seq(vec![5; n]))?;
        same_on::<Z3, _>(&format!("Z3 on seq of {n}"), &json!({"newtype": "f32"}), || seq(vec![5; n]))?;
        same_on::<(i8, u64), _>(&format!("(i8, u64) on seq of {n}"), &json!({"tuple": ["i8", "u64"]}), || seq(vec![5; n]))?;
        same_on::<Vec<i16>, _>(&format!("Vec<i16> on seq of {n}"), &json!({"seq": "i16"}), || seq(vec![5; n]))?;
        same_on::<std::ffi::CString, _>(&format!("byte_buf on seq of {n}"), &json!("byte_buf"), || seq(vec![5; n]))?;
    }
    let z5 = json!({"enum": [["A", "unit"], ["B", {"newtype": "u8"}], ["C", {"tuple": ["i8", "i16"]}], ["D", {"struct": [["x", "u16"]]}]]});
    for i in 0..6u32 {
        same_on::<Z5, _>(&format!("Z5 on variant index {i}"), &z5, || U32Deserializer::<VErr>::new(i))?;
    }
    for name in ["A", "B", "C", "D", "Q"] {
        same_on::<Z5, _>(&format!("Z5 on variant name {name}"), &z5, || StringDeserializer::<VErr>::new(name.to_string()))?;
        same_on::<Z5, _>(&format!("Z5 on variant map {name}"), &z5, || {
            serde::de::value::MapAccessDeserializer::new(MapDeserializer::<_, VErr>::new(vec![(name.as_bytes(), 1u64)].into_iter()))
        })?;
    }
    // "any" on an enum: key and newtype payload through "any"
    let m = serde::de::value::MapAccessDeserializer::new(serde::de::value::MapDeserializer::<_, VErr>::new(vec![("K", 7u8)].into_iter()));
    struct AsEnum<D>(D);
    impl<'de, D: Deserializer<'de>> Deserializer<'de> for AsEnum<D> {
        type Error = D::Error;
        fn deserialize_any<V: Visitor<'de>>(self, v: V) -> Result<V::Value, D::Error> {
            self.0.deserialize_enum("_", &[], v)
        }
        serde::forward_to_deserialize_any! {
            bool i8 i16 i32 i64 i128 u8 u16 u32 u64 u128 f32 f64 char str string bytes byte_buf option unit unit_struct
            newtype_struct seq tuple tuple_struct map struct enum identifier ignored_any
        }
    }
    expect(
        "any/enum",
        Target(&any).deserialize(AsEnum(m)),
        Ok(json!({"enum": [{"str": ["t", "4b"]}, {"int": ["u8", "7"]}]})),
    )?;
    Ok(())
}

fn compare(ctx: &str, real: &Outcome, target: &(Vec<String>, Result<Value, String>)) -> Result<(), String> {
    let (log_real, res_real) = real;
    let (log_dyn, res_dyn) = target;
    if log_real != log_dyn {
        let at = log_real.iter().zip(log_dyn.iter()).position(|(a, b)| a != b).unwrap_or(log_real.len().min(log_dyn.len()));
        return Err(format!(
            "{ctx}: call logs differ at #{at}: real {:?} vs target {:?}\n  real:   {}\n  target: {}",
            log_real.get(at),
            log_dyn.get(at),
            log_real.join(" "),
            log_dyn.join(" ")
        ));
    }
    match (res_real, res_dyn) {
        (Ok(()), Ok(_)) => Ok(()),
        (Err(a), Err(b)) if normalize_msg(a) == *b => Ok(()),
        (Err(a), Err(b)) => Err(format!("{ctx}: error text differs: real {a:?} vs target {b:?}")),
        _ => Err(format!("{ctx}: outcome differs: real {res_real:?} vs target {res_dyn:?}")),
    }
}

/// real type `T` vs `Target(ty)` on an arbitrary deserializer (made twice by `mk`)
fn same_on<'de, T: Deserialize<'de>, D: Deserializer<'de>>(ctx: &str, ty: &Value, mk: impl Fn() -> D) -> Result<(), String> {
    let real = with_log(|| T::deserialize(LogDe(mk())).map(|_| ()).map_err(|e| e.to_string()));
    let target = with_log(|| Target(ty).deserialize(LogDe(mk())).map_err(|e| e.to_string()));
    compare(ctx, &real, &target)
}

/// Target behaves like the real types: same call log, same ok/err class and (after renaming types) same error text
pub fn self_check() -> Result<(), String> {
    let mut n = 0usize;
    for case in zoo_cases() {
        for input in &case.inputs {
            n += 1;
            compare(&format!("{} on {input}", case.name), &(case.real)(input), &via_target(&case.ty, input))?;
        }
    }
    for (ty, input, want) in render_cases() {
        n += 1;
        let (_, got) = via_target(&ty, input);
        if got.as_ref() != Ok(&want) {
            return Err(format!("render {ty} on {input}: got {got:?}, want {want}"));
        }
    }
    value_de_checks()?;
    // the static name tables are stable (derived code passes the same const every time)
    let a = static_names(&["x", "y"]);
    let b = static_names(&["x", "y"]);
    if a.as_ptr() != b.as_ptr() || a[0].as_ptr() != b[0].as_ptr() {
        return Err("static_names is not stable".into());
    }
    let _ = n;
    Ok(())
}

pub fn self_check_or_panic() {
    if let Err(e) = self_check() {
        panic!("dynde self check failed: {e}");
    }
}

/// number of (type, input) comparisons `self_check` performs
pub fn self_check_size() -> (usize, usize) {
    (zoo_cases().iter().map(|c| c.inputs.len()).sum(), render_cases().len())
}
