//! Generator pieces of the `backend` suite that do not depend on any arrow crate (shared with harness-probe,
//! which is compiled against other arrow versions): metadata decoration, the grid of leaf types and positions.
#![allow(dead_code)]
use crate::gen_schema::{self, field, ValCfg};
use crate::rng::Rng;
use serde_json::{json, Value};

const META_KEYS: [&str; 6] = ["k", "origin", "", "é", "ARROW:extension:name", "x y"];
const META_VALS: [&str; 5] = ["v", "", "{\"a\": 1}", "my.ext", "日本"];

/// sprinkle metadata over the fields of a schema (top level and nested); keys stay sorted and unique
pub fn decorate(r: &mut Rng, f: &mut Value, p_num: u64, p_den: u64) {
    if r.chance(p_num, p_den) {
        let n = 1 + r.usize(2);
        let mut kv: Vec<(String, String)> = Vec::new();
        for _ in 0..n {
            let k = r.pick(&META_KEYS).to_string();
            if kv.iter().all(|(x, _)| *x != k) {
                kv.push((k, r.pick(&META_VALS).to_string()));
            }
        }
        kv.sort();
        f["meta"] = Value::Array(kv.into_iter().map(|(k, v)| json!([k, v])).collect());
    }
    let t = f["dt"]["t"].as_str().unwrap().to_string();
    match t.as_str() {
        "Struct" => {
            for c in f["dt"]["fields"].as_array_mut().unwrap() {
                decorate(r, c, p_num, p_den * 2);
            }
        }
        "List" | "LargeList" | "FixedSizeList" => decorate(r, &mut f["dt"]["child"], p_num, p_den * 2),
        "Map" => {
            // the entries field itself cannot carry metadata through arrow2 / marrow's MapMeta; its children can
            for c in f["dt"]["entries"]["dt"]["fields"].as_array_mut().unwrap() {
                decorate(r, c, p_num, p_den * 2);
            }
        }
        "Union" => {
            for c in f["dt"]["fields"].as_array_mut().unwrap() {
                decorate(r, &mut c[1], p_num, p_den * 2);
            }
        }
        _ => {}
    }
}

/// Map columns whose entries / key / value fields do not carry the default names (`entries`, `key`, `value`): Parquet- and
/// Spark-derived schemas say `key_value`.  Every back end must build an array of the field's own type (seeded c19h: the
/// builder always called the entries child `entries`, so `to_record_batch` refused what `to_arrow` / `to_marrow` accepted).
/// The generated values depend on positions only.
pub fn rename_map_children(r: &mut Rng, f: &mut Value, p_num: u64, p_den: u64) {
    let t = f["dt"]["t"].as_str().unwrap().to_string();
    match t.as_str() {
        "Struct" => {
            for c in f["dt"]["fields"].as_array_mut().unwrap() {
                rename_map_children(r, c, p_num, p_den);
            }
        }
        "List" | "LargeList" | "FixedSizeList" => rename_map_children(r, &mut f["dt"]["child"], p_num, p_den),
        "Map" => {
            let e = &mut f["dt"]["entries"];
            if r.chance(p_num, p_den) {
                e["name"] = json!(*r.pick(&["key_value", "kv", "é"]));
            }
            let cs = e["dt"]["fields"].as_array_mut().unwrap();
            if r.chance(p_num, 2 * p_den) {
                cs[0]["name"] = json!(*r.pick(&["k", "keys"]));
            }
            if r.chance(p_num, 2 * p_den) {
                cs[1]["name"] = json!(*r.pick(&["v", "values"]));
            }
            for c in cs.iter_mut() {
                rename_map_children(r, c, p_num, p_den);
            }
        }
        "Union" => {
            for c in f["dt"]["fields"].as_array_mut().unwrap() {
                rename_map_children(r, &mut c[1], p_num, p_den);
            }
        }
        _ => {}
    }
}

/// zero-sized fixed-size types and field-less structs break marrow's arrow / arrow2 conversions (recorded
/// findings); most schemas are rewritten to avoid them so that the rest of the case is not overshadowed
pub fn sanitize(f: &mut Value) {
    let t = f["dt"]["t"].as_str().unwrap().to_string();
    match t.as_str() {
        "FixedSizeBinary" if f["dt"]["n"] == 0 => f["dt"]["n"] = json!(2),
        "FixedSizeList" => {
            if f["dt"]["n"] == 0 {
                f["dt"]["n"] = json!(1);
            }
            sanitize(&mut f["dt"]["child"]);
        }
        "Struct" => {
            if f["dt"]["fields"].as_array().unwrap().is_empty() {
                f["dt"]["fields"] = json!([field("z", true, json!({"t": "Int8"}))]);
            }
            for c in f["dt"]["fields"].as_array_mut().unwrap() {
                sanitize(c);
            }
        }
        "List" | "LargeList" => sanitize(&mut f["dt"]["child"]),
        "Map" => sanitize(&mut f["dt"]["entries"]),
        "Union" => {
            for c in f["dt"]["fields"].as_array_mut().unwrap() {
                sanitize(&mut c[1]);
            }
        }
        _ => {}
    }
}

/// every leaf data type the builders know, with the parameters that matter for the back ends
pub fn grid_leaves() -> Vec<Value> {
    let mut out = vec![json!({"t": "Null"}), json!({"t": "Boolean"})];
    for t in gen_schema::INT_TYPES {
        out.push(json!({ "t": t }));
    }
    for t in ["Float16", "Float32", "Float64", "Utf8", "LargeUtf8", "Utf8View", "Binary", "LargeBinary", "BinaryView", "Date32", "Date64"] {
        out.push(json!({ "t": t }));
    }
    for n in [1, 3] {
        out.push(json!({"t": "FixedSizeBinary", "n": n}));
    }
    for u in ["Second", "Millisecond"] {
        out.push(json!({"t": "Time32", "unit": u}));
    }
    for u in ["Microsecond", "Nanosecond"] {
        out.push(json!({"t": "Time64", "unit": u}));
    }
    for u in gen_schema::UNITS {
        out.push(json!({"t": "Duration", "unit": u}));
        out.push(json!({"t": "Timestamp", "unit": u, "tz": Value::Null}));
        out.push(json!({"t": "Timestamp", "unit": u, "tz": "UTC"}));
    }
    out.push(json!({"t": "Decimal128", "p": 10, "s": 2}));
    out.push(json!({"t": "Decimal128", "p": 38, "s": 0}));
    out.push(json!({"t": "Decimal128", "p": 5, "s": -2}));
    for k in gen_schema::INT_TYPES {
        out.push(json!({"t": "Dictionary", "key": {"t": k}, "value": {"t": "Utf8"}}));
    }
    out.push(json!({"t": "Dictionary", "key": {"t": "Int32"}, "value": {"t": "LargeUtf8"}}));
    out
}

pub fn grid_position(pos: usize, leaf: Value, nullable: bool) -> Value {
    let t = leaf["t"].as_str().unwrap().to_string();
    let nullable = nullable || t == "Null" || t == "Decimal128";
    let inner = field("x", nullable, leaf);
    match pos {
        0 => inner,
        1 => field("x", false, json!({"t": "List", "child": {"name": "element", "nullable": nullable, "meta": [], "dt": inner["dt"]}})),
        2 => field("x", true, json!({"t": "LargeList", "child": {"name": "item", "nullable": nullable, "meta": [], "dt": inner["dt"]}})),
        3 => field("x", false, json!({"t": "FixedSizeList", "n": 2, "child": {"name": "element", "nullable": nullable, "meta": [], "dt": inner["dt"]}})),
        4 => field("x", true, json!({"t": "Struct", "fields": [field("a", false, json!({"t": "Int8"})), inner]})),
        5 => field(
            "x",
            false,
            json!({"t": "Map", "sorted": false, "entries": field("entries", false, json!({"t": "Struct", "fields": [
                field("key", false, json!({"t": "Utf8"})), {"name": "value", "nullable": nullable, "meta": [], "dt": inner["dt"]}]}))}),
        ),
        _ => field(
            "x",
            false,
            json!({"t": "Union", "mode": "Dense", "fields": [[0, field("A", true, json!({"t": "Null"}))], [1, {"name": "B", "nullable": nullable, "meta": [], "dt": inner["dt"]}]]}),
        ),
    }
}


/// the fixed corpus of the version probe: every leaf type at the top level and in two nested positions, plus
/// random nested schemas from fixed seeds; representable rows only.  Independent of VERIF_SEED on purpose.
pub fn probe_corpus() -> Vec<Value> {
    let mut out = Vec::new();
    let mut rng = Rng::new(0xC19_C0DE);
    let mut push = |schema: Vec<Value>, r: &mut Rng, nrows: usize| {
        let cfg = ValCfg::strict();
        let rows: Vec<Value> = (0..nrows).map(|_| gen_schema::gen_record(r, &schema, &cfg)).collect();
        let i = out.len();
        out.push(json!({"i": i, "schema": schema, "rows": rows}));
    };
    for (k, leaf) in grid_leaves().into_iter().enumerate() {
        let mut r = rng.fork();
        let mut f = grid_position([0, 4, 1][k % 3], leaf, k % 2 == 0);
        if k % 2 == 1 {
            f["meta"] = json!([["k", "v"], ["origin", "probe"]]);
        }
        push(vec![f], &mut r, 4);
    }
    for _ in 0..16 {
        let mut r = rng.fork();
        let mut schema = gen_schema::gen_schema(&mut r, 3);
        schema.iter_mut().for_each(sanitize);
        for f in schema.iter_mut() {
            decorate(&mut r, f, 1, 2);
        }
        push(schema, &mut r, 9);
    }
    out
}
