//! Generators shared by the build-side suites: random schemas (wire form of `Field`) over every data type
//! serde_arrow can build, and serde values for a field with a choice of presentations, mostly valid, with a
//! separate malformed stream.  Everything is wire-form JSON (schema_dump.rs / sval.rs).
#![allow(dead_code)]
use crate::rng::Rng;
use crate::sval;
use serde_json::{json, Value};

pub const UNITS: [&str; 4] = ["Second", "Millisecond", "Microsecond", "Nanosecond"];
pub const INT_TYPES: [&str; 8] = ["Int8", "Int16", "Int32", "Int64", "UInt8", "UInt16", "UInt32", "UInt64"];

pub fn field(name: &str, nullable: bool, dt: Value) -> Value {
    json!({"name": name, "nullable": nullable, "meta": [], "dt": dt})
}

pub fn field_meta(name: &str, nullable: bool, dt: Value, meta: Vec<(&str, &str)>) -> Value {
    let mut m: Vec<(&str, &str)> = meta;
    m.sort();
    json!({"name": name, "nullable": nullable, "meta": m.iter().map(|(k, v)| json!([k, v])).collect::<Vec<_>>(), "dt": dt})
}

pub fn int_range(t: &str) -> (i128, i128) {
    match t {
        "Int8" | "i8" => (i8::MIN as i128, i8::MAX as i128),
        "Int16" | "i16" => (i16::MIN as i128, i16::MAX as i128),
        "Int32" | "i32" => (i32::MIN as i128, i32::MAX as i128),
        "Int64" | "i64" => (i64::MIN as i128, i64::MAX as i128),
        "UInt8" | "u8" => (0, u8::MAX as i128),
        "UInt16" | "u16" => (0, u16::MAX as i128),
        "UInt32" | "u32" => (0, u32::MAX as i128),
        "UInt64" | "u64" => (0, u64::MAX as i128),
        _ => panic!("not an int type {t}"),
    }
}

const NAMES: [&str; 10] = ["a", "b", "c", "item", "", "é", "key", "x y", "a_raw", "key_raw"];

/// a random leaf data type
pub fn gen_leaf_dt(r: &mut Rng) -> Value {
    match r.below(30) {
        0 => json!({"t": "Null"}),
        1 | 2 => json!({"t": "Boolean"}),
        3..=8 => json!({"t": *r.pick(&INT_TYPES)}),
        9 => json!({"t": "Float16"}),
        10 => json!({"t": "Float32"}),
        11 => json!({"t": "Float64"}),
        12 | 13 => json!({"t": "Utf8"}),
        14 => json!({"t": "LargeUtf8"}),
        15 => json!({"t": "Utf8View"}),
        16 => json!({"t": "Binary"}),
        17 => json!({"t": "LargeBinary"}),
        18 => json!({"t": "BinaryView"}),
        19 => json!({"t": "FixedSizeBinary", "n": *r.pick(&[0, 1, 3])}),
        20 => json!({"t": "Date32"}),
        21 => json!({"t": "Date64"}),
        22 => json!({"t": "Time32", "unit": *r.pick(&["Second", "Millisecond"])}),
        23 => json!({"t": "Time64", "unit": *r.pick(&["Microsecond", "Nanosecond"])}),
        24 => json!({"t": "Duration", "unit": *r.pick(&UNITS)}),
        25 => json!({"t": "Timestamp", "unit": *r.pick(&UNITS), "tz": if r.bool() { json!("UTC") } else { Value::Null }}),
        26 => json!({"t": "Decimal128", "p": 1 + r.below(38), "s": r.range(-3, 6)}),
        27 | 28 => json!({"t": "Dictionary", "key": {"t": *r.pick(&INT_TYPES)}, "value": gen_dict_value_dt(r)}),
        _ => json!({"t": "Int32"}),
    }
}

/// the value type of a dictionary: `build_builder` accepts ANY type (the value builder receives the distinct strings
/// through `serialize_str`): mostly the string types, a third of the time one of the others
pub fn gen_dict_value_dt(r: &mut Rng) -> Value {
    if !r.chance(1, 3) {
        return json!({"t": *r.pick(&["Utf8", "LargeUtf8"])});
    }
    let all = dict_value_dts();
    all[r.usize(all.len())].clone()
}

/// value types of a dictionary other than Utf8 / LargeUtf8: every kind of value builder once (string view, the parsed
/// kinds, builders that refuse `serialize_str`)
pub fn dict_value_dts() -> Vec<Value> {
    vec![
        json!({"t": "Utf8View"}),
        json!({"t": "Date32"}),
        json!({"t": "Date64"}),
        json!({"t": "Time32", "unit": "Second"}),
        json!({"t": "Time64", "unit": "Microsecond"}),
        json!({"t": "Timestamp", "unit": "Millisecond", "tz": "UTC"}),
        json!({"t": "Timestamp", "unit": "Second", "tz": Value::Null}),
        json!({"t": "Duration", "unit": "Millisecond"}),
        json!({"t": "Decimal128", "p": 10, "s": 2}),
        json!({"t": "Binary"}),
        json!({"t": "LargeBinary"}),
        json!({"t": "BinaryView"}),
        json!({"t": "FixedSizeBinary", "n": 1}),
        json!({"t": "Int32"}),
        json!({"t": "Boolean"}),
        json!({"t": "Float64"}),
        json!({"t": "Null"}),
    ]
}

/// a scalar for a dictionary column whose value type is not Utf8 / LargeUtf8: drawn from a small pool of strings the
/// value type parses (so that entries repeat and the index is hit), sometimes a scalar forwarded through `to_string`
fn gen_dict_scalar(r: &mut Rng, vdt: &Value) -> Value {
    let t = vdt["t"].as_str().unwrap();
    let pool: &[&str] = match t {
        "Date32" | "Date64" => &["2020-01-01", "2020-01-02", "1969-12-31", "2020-1-1", ""],
        "Time32" | "Time64" => &["00:00:00", "12:34:56", "23:59:59.5", "12:34:56.000", ""],
        "Timestamp" => {
            if vdt["tz"].is_null() {
                &["2020-01-01T00:00:00", "1999-12-31T23:59:59.250", "2020-01-01T00:00:00Z", ""]
            } else {
                &["2020-01-01T00:00:00Z", "1999-12-31T23:59:59.250Z", "2020-01-01T00:00:00", ""]
            }
        }
        "Duration" => &["PT5S", "P1DT2H", "PT0S", "-PT0.5S", ""],
        "Decimal128" => &["1.0", "1.00", "5", "-2.5", "", "0"],
        _ => &["x", "y", "", "zz", "日本", "a"],
    };
    match r.below(8) {
        0 => sval::int("i32", r.below(10) as i128),
        1 => sval::unit_variant("E", r.below(3) as u32, *r.pick(&["A", "5", ""])),
        _ => sval::string(*r.pick(pool)),
    }
}

pub fn gen_dt(r: &mut Rng, depth: u32) -> Value {
    if depth == 0 || r.chance(2, 5) {
        return gen_leaf_dt(r);
    }
    match r.below(8) {
        0 | 1 => {
            let nf = r.usize(4);
            let mut names: Vec<&str> = NAMES.to_vec();
            r.shuffle(&mut names);
            let fs: Vec<Value> = (0..nf).map(|i| gen_field(r, names[i], depth - 1)).collect();
            json!({"t": "Struct", "fields": fs})
        }
        2 => json!({"t": "List", "child": gen_field(r, "element", depth - 1)}),
        3 => {
            let nm = *r.pick(&["element", "item", ""]);
            json!({"t": "LargeList", "child": gen_field(r, nm, depth - 1)})
        }
        4 => json!({"t": "FixedSizeList", "child": gen_field(r, "element", depth - 1), "n": *r.pick(&[0, 1, 2, 3])}),
        5 => {
            let key_dt = match r.below(3) {
                0 => json!({"t": "Utf8"}),
                1 => json!({"t": "LargeUtf8"}),
                _ => json!({"t": *r.pick(&INT_TYPES)}),
            };
            let entries = field("entries", false, json!({"t": "Struct", "fields": [field("key", false, key_dt), gen_field(r, "value", depth - 1)]}));
            json!({"t": "Map", "entries": entries, "sorted": false})
        }
        6 => {
            // enum-like dense union: variants of the four serde kinds
            let nv = 1 + r.usize(4);
            let mut fs = Vec::new();
            for i in 0..nv {
                let vname = format!("V{i}");
                let f = match r.below(4) {
                    0 => field(&vname, true, json!({"t": "Null"})),
                    1 => gen_field(r, &vname, depth - 1),
                    _ => {
                        let nf = 1 + r.usize(3);
                        let fsx: Vec<Value> = (0..nf).map(|k| gen_field(r, &format!("{k}"), depth - 1)).collect();
                        field(&vname, false, json!({"t": "Struct", "fields": fsx}))
                    }
                };
                fs.push(json!([i, f]));
            }
            json!({"t": "Union", "fields": fs, "mode": "Dense"})
        }
        _ => gen_leaf_dt(r),
    }
}

pub fn gen_field(r: &mut Rng, name: &str, depth: u32) -> Value {
    let dt = gen_dt(r, depth);
    let t = dt["t"].as_str().unwrap();
    let nullable = match t {
        "Null" | "Decimal128" => true,
        "Union" => false,
        _ => r.chance(1, 2),
    };
    field(name, nullable, dt)
}

pub fn gen_schema(r: &mut Rng, depth: u32) -> Vec<Value> {
    let nf = 1 + r.usize(4);
    let mut names: Vec<&str> = NAMES.to_vec();
    r.shuffle(&mut names);
    (0..nf).map(|i| gen_field(r, names[i], depth)).collect()
}

// ---------------------------------------------------------------- type variations (C03: type equality)

const VARY_META_KEYS: [&str; 6] = ["k", "origin", "", "é", "ARROW:extension:name", "x y"];
const VARY_META_VALS: [&str; 5] = ["v", "", "{\"a\": 1}", "my.ext", "日本"];

fn vary_set_meta(f: &mut Value, mut kv: Vec<(String, String)>) {
    kv.sort();
    kv.dedup_by(|a, b| a.0 == b.0);
    f["meta"] = Value::Array(kv.into_iter().map(|(k, v)| json!([k, v])).collect());
}

/// Decorate a generated field IN PLACE with everything that is part of a data type and that `gen_dt` never produces
/// (C03 compares the TYPE of every returned array with the field's): metadata at every level — arbitrary keys and the
/// `SERDE_ARROW:strategy` key with strategies that are valid for the position (UnknownVariant / InconsistentTypes on Null,
/// TupleAsStruct / MapAsStruct on Struct) —, sorted maps, maps whose entries / key / value fields have other names and
/// nullabilities (a nullable entries field must be refused; metadata on the entries field is the known finding
/// C03-map-entries-metadata), sparse unions (must be refused), nullable union children and union fields.
/// `in_union`: the field is a union variant.  The values generated afterwards only depend on positions and on the names
/// of struct / variant fields, which stay as they are.
pub fn vary_types(r: &mut Rng, f: &mut Value, in_union: bool) {
    let t = f["dt"]["t"].as_str().unwrap().to_string();
    let mut kv: Vec<(String, String)> = Vec::new();
    if r.chance(1, 3) {
        for _ in 0..1 + r.usize(2) {
            kv.push((r.pick(&VARY_META_KEYS).to_string(), r.pick(&VARY_META_VALS).to_string()));
        }
    }
    match t.as_str() {
        "Null" if r.chance(1, 4) => {
            let s = if in_union && r.chance(2, 3) { "UnknownVariant" } else { *r.pick(&["InconsistentTypes", "UnknownVariant", "TupleAsStruct", "MapAsStruct"]) };
            kv.push(("SERDE_ARROW:strategy".into(), s.into()));
        }
        "Struct" if r.chance(1, 6) => kv.push(("SERDE_ARROW:strategy".into(), r.pick(&["TupleAsStruct", "MapAsStruct"]).to_string())),
        _ => {}
    }
    if !kv.is_empty() {
        vary_set_meta(f, kv);
    }
    match t.as_str() {
        "Struct" => {
            for c in f["dt"]["fields"].as_array_mut().unwrap() {
                vary_types(r, c, false);
            }
        }
        "List" | "LargeList" | "FixedSizeList" => vary_types(r, &mut f["dt"]["child"], false),
        "Map" => {
            if r.chance(1, 3) {
                f["dt"]["sorted"] = json!(true);
            }
            let e = &mut f["dt"]["entries"];
            if r.chance(1, 3) {
                e["name"] = json!(*r.pick(&["kv", "", "key_value", "é"]));
            }
            if r.chance(1, 12) {
                e["nullable"] = json!(true);
            }
            if r.chance(1, 12) {
                vary_set_meta(e, vec![(r.pick(&VARY_META_KEYS).to_string(), r.pick(&VARY_META_VALS).to_string())]);
            }
            let cs = e["dt"]["fields"].as_array_mut().unwrap();
            if r.chance(1, 3) {
                cs[0]["name"] = json!(*r.pick(&["k", "keys", ""]));
            }
            if r.chance(1, 3) {
                cs[1]["name"] = json!(*r.pick(&["v", "values", "value_raw"]));
            }
            if r.chance(1, 8) && cs[0]["dt"]["t"] != "Null" {
                cs[0]["nullable"] = json!(true);
            }
            for c in cs.iter_mut() {
                vary_types(r, c, false);
            }
        }
        "Union" => {
            if r.chance(1, 10) {
                f["dt"]["mode"] = json!("Sparse");
            }
            if r.chance(1, 8) {
                f["nullable"] = json!(true);
            }
            for c in f["dt"]["fields"].as_array_mut().unwrap() {
                let ct = c[1]["dt"]["t"].as_str().unwrap().to_string();
                if ct != "Null" && ct != "Union" && r.chance(1, 3) {
                    c[1]["nullable"] = json!(true);
                }
                vary_types(r, &mut c[1], true);
            }
        }
        _ => {}
    }
}

// ---------------------------------------------------------------- values

fn boundary_int(r: &mut Rng, lo: i128, hi: i128) -> i128 {
    match r.below(8) {
        0 => lo,
        1 => hi,
        2 => 0.max(lo).min(hi),
        3 => 1.max(lo).min(hi),
        4 => (-1i128).max(lo).min(hi),
        _ => {
            let span = (hi - lo) as u128 + 1;
            lo + (((r.next_u64() as u128) << 64 | r.next_u64() as u128) % span) as i128
        }
    }
}

/// an integer `v` presented through some serde integer call that can carry it
fn int_call(r: &mut Rng, v: i128) -> Value {
    let mut cands: Vec<&str> = Vec::new();
    for t in ["i8", "i16", "i32", "i64", "u8", "u16", "u32", "u64"] {
        let (lo, hi) = int_range(t);
        if lo <= v && v <= hi {
            cands.push(t);
        }
    }
    let t = *r.pick(&cands);
    sval::int(t, v)
}

fn gen_string(r: &mut Rng) -> String {
    let n = match r.below(6) {
        0 => 0,
        1 => 12,
        2 => 13,
        3 => 30,
        _ => r.usize(8),
    };
    (0..n).map(|_| *r.pick(&['a', 'b', 'Z', '0', ' ', 'é', '日', '"', '\\', '😀'])).collect()
}

fn gen_bytes(r: &mut Rng) -> Vec<u8> {
    let n = match r.below(6) {
        0 => 0,
        1 => 12,
        2 => 13,
        3 => 40,
        _ => r.usize(6),
    };
    (0..n).map(|_| r.below(256) as u8).collect()
}

const F32S: [u32; 10] = [0, 0x8000_0000, 0x3f80_0000, 0xbf80_0000, 0x7f80_0000, 0xff80_0000, 0x7fc0_0000, 0x0000_0001, 0x7f7f_ffff, 0x3dcc_cccd];
const F64S: [u64; 12] = [
    0, 0x8000_0000_0000_0000, 0x3ff0_0000_0000_0000, 0xbff0_0000_0000_0000, 0x7ff0_0000_0000_0000, 0xfff0_0000_0000_0000,
    0x7ff8_0000_0000_0000, 0x0000_0000_0000_0001, 0x7fef_ffff_ffff_ffff, 0x3fb9_9999_9999_999a, 0x47ef_ffff_f000_0000, 0x37a1_6c26_2777_579c,
];

fn gen_f32(r: &mut Rng) -> Value {
    if r.bool() {
        json!({"k": "f32", "bits": *r.pick(&F32S)})
    } else {
        let mut b = r.next_u64() as u32;
        if f32::from_bits(b).is_nan() {
            b = 0x7fc0_0000;
        }
        json!({"k": "f32", "bits": b})
    }
}

fn gen_f64(r: &mut Rng) -> Value {
    if r.bool() {
        json!({"k": "f64", "bits": *r.pick(&F64S)})
    } else {
        let mut b = r.next_u64();
        if f64::from_bits(b).is_nan() {
            b = 0x7ff8_0000_0000_0000;
        }
        json!({"k": "f64", "bits": b})
    }
}

pub struct ValCfg {
    /// probability (in 1/1000) that a position is deliberately malformed
    pub malformed_permille: u64,
    /// only representable values and well-formed records (no boundary violations, wrong counts, duplicates …)
    pub strict: bool,
}

impl ValCfg {
    pub fn new(malformed_permille: u64) -> Self {
        ValCfg { malformed_permille, strict: false }
    }
    pub fn strict() -> Self {
        ValCfg { malformed_permille: 0, strict: true }
    }
}

/// every leaf data type the builders know (one representative per builder kind and parameter class)
pub fn all_leaf_dts() -> Vec<Value> {
    let mut v = vec![json!({"t": "Null"}), json!({"t": "Boolean"})];
    for t in INT_TYPES {
        v.push(json!({ "t": t }));
    }
    for t in ["Float16", "Float32", "Float64", "Utf8", "LargeUtf8", "Utf8View", "Binary", "LargeBinary", "BinaryView", "Date32", "Date64"] {
        v.push(json!({ "t": t }));
    }
    v.push(json!({"t": "FixedSizeBinary", "n": 3}));
    v.push(json!({"t": "Time32", "unit": "Second"}));
    v.push(json!({"t": "Time32", "unit": "Millisecond"}));
    v.push(json!({"t": "Time64", "unit": "Microsecond"}));
    v.push(json!({"t": "Time64", "unit": "Nanosecond"}));
    for u in UNITS {
        v.push(json!({"t": "Duration", "unit": u}));
    }
    v.push(json!({"t": "Timestamp", "unit": "Millisecond", "tz": "UTC"}));
    v.push(json!({"t": "Timestamp", "unit": "Second", "tz": Value::Null}));
    v.push(json!({"t": "Decimal128", "p": 10, "s": 2}));
    v.push(json!({"t": "Dictionary", "key": {"t": "Int8"}, "value": {"t": "Utf8"}}));
    v.push(json!({"t": "Dictionary", "key": {"t": "UInt32"}, "value": {"t": "LargeUtf8"}}));
    // dictionaries with every other kind of value builder (key types rotate)
    for (i, vdt) in dict_value_dts().into_iter().enumerate() {
        v.push(json!({"t": "Dictionary", "key": {"t": INT_TYPES[i % INT_TYPES.len()]}, "value": vdt}));
    }
    v
}

/// the offenders of the grid: values that are not representable at (almost) any position, null-likes first
pub fn offenders() -> Vec<Value> {
    vec![
        sval::none(),
        sval::unit(),
        sval::string("not-a-number"),
        sval::int("i64", i64::MAX as i128),
        sval::seq(vec![sval::boolean(true)]),
        sval::record("W", vec![("zz".into(), 0, sval::unit())]),
        sval::unit_variant("E", 9, "Nope"),
        sval::f64v(1.5),
        sval::bytes(&[1, 2, 3, 4, 5]),
        sval::map(vec![(sval::int("i32", 1), sval::int("i32", 2))]),
        // sequences that ANNOUNCE three elements (the size of the grid's FixedSizeBinary column) but carry two / four
        json!({"k": "seq", "hint": 3, "v": [sval::int("u8", 1), sval::int("u8", 2)]}),
        json!({"k": "tuple", "hint": 3, "v": [sval::int("u8", 1), sval::int("u8", 2), sval::int("u8", 3), sval::int("u8", 4)]}),
    ]
}

/// lying length hints: with probability 1/den per container node, announce another length than the node has (a
/// `Serialize` impl may pass any `len` to serialize_seq / tuple / struct / map; the builders must not trust it)
pub fn lie_hints(r: &mut Rng, v: &mut Value, den: u64) {
    match v {
        Value::Object(m) => {
            let k = m.get("k").and_then(|k| k.as_str()).unwrap_or("").to_string();
            let n = match k.as_str() {
                "seq" | "tuple" | "tuple_struct" => m.get("v").and_then(|x| x.as_array()).map(|a| a.len()),
                "struct" => m.get("f").and_then(|x| x.as_array()).map(|a| a.len()),
                "map" => m.get("e").and_then(|x| x.as_array()).map(|a| a.len()),
                _ => None,
            };
            if let Some(n) = n {
                if r.chance(1, den) {
                    let h = match r.below(6) {
                        0 => json!(n + 1),
                        1 => json!(n.saturating_sub(1)),
                        2 => json!(0),
                        3 if k == "seq" || k == "map" => Value::Null,
                        4 => json!(r.usize(5)),            // a small constant, whatever the node holds
                        _ => json!(n + 2 + r.usize(5)),
                    };
                    m.insert("hint".into(), h);
                }
            }
            for (_, x) in m.iter_mut() {
                lie_hints(r, x, den);
            }
        }
        Value::Array(a) => {
            for x in a.iter_mut() {
                lie_hints(r, x, den);
            }
        }
        _ => {}
    }
}

/// a value of the wrong shape for (almost) any column
fn wrong_value(r: &mut Rng) -> Value {
    match r.below(8) {
        0 => sval::string("not-a-number"),
        1 => sval::int("i64", i64::MAX as i128),
        2 => sval::seq(vec![sval::boolean(true)]),
        3 => sval::record("W", vec![("zz".into(), 0, sval::unit())]),
        4 => sval::unit_variant("E", 9, "Nope"),
        5 => sval::f64v(1.5),
        6 => sval::bytes(&[1, 2, 3, 4, 5]),
        _ => sval::map(vec![(sval::int("i32", 1), sval::int("i32", 2))]),
    }
}

pub fn gen_value(r: &mut Rng, f: &Value, cfg: &ValCfg) -> Value {
    if r.below(1000) < cfg.malformed_permille {
        return wrong_value(r);
    }
    let nullable = f["nullable"].as_bool().unwrap();
    let dt = &f["dt"];
    let t = dt["t"].as_str().unwrap();
    if nullable && t != "Null" && r.chance(1, 5) {
        return if r.chance(1, 6) { sval::unit() } else { sval::none() };
    }
    let v = gen_inner(r, dt, cfg);
    match r.below(10) {
        0 if nullable => sval::some(v),
        1 if nullable => sval::some(sval::some(v)),
        2 => sval::newtype_struct("N", v),
        3 | 4 | 5 if nullable => sval::some(v),
        _ => v,
    }
}

fn gen_seq_wrap(r: &mut Rng, items: Vec<Value>) -> Value {
    match r.below(6) {
        0 => sval::tuple(items),
        1 => sval::tuple_struct("T", items),
        _ => sval::seq(items),
    }
}

fn gen_inner(r: &mut Rng, dt: &Value, cfg: &ValCfg) -> Value {
    let t = dt["t"].as_str().unwrap();
    match t {
        "Null" => match r.below(3) {
            0 => sval::none(),
            1 => sval::unit(),
            _ => sval::unit_struct("U"),
        },
        "Boolean" => sval::boolean(r.bool()),
        "Int8" | "Int16" | "Int32" | "Int64" | "UInt8" | "UInt16" | "UInt32" | "UInt64" => {
            let (lo, hi) = int_range(t);
            match r.below(20) {
                0 => sval::boolean(r.bool()),
                1 => {
                    let c = *r.pick(&['a', 'é', '日', '😀', '\0']);
                    sval::chr(c)
                }
                2 if !cfg.strict => {
                    // just outside the range, through a wider call
                    let v = if r.bool() { hi + 1 } else { lo - 1 };
                    if v < i64::MIN as i128 || v > u64::MAX as i128 {
                        int_call(r, lo)
                    } else {
                        int_call(r, v)
                    }
                }
                _ => {
                    let v = boundary_int(r, lo, hi);
                    int_call(r, v)
                }
            }
        }
        "Float16" => {
            if r.bool() {
                gen_f32(r)
            } else {
                gen_f64(r)
            }
        }
        "Float32" | "Float64" => match r.below(4) {
            0 => gen_f32(r),
            1 => gen_f64(r),
            2 => {
                let v = boundary_int(r, i64::MIN as i128, u64::MAX as i128);
                int_call(r, v)
            }
            _ => {
                let v = boundary_int(r, -1000, 1000);
                int_call(r, v)
            }
        },
        "Utf8" | "LargeUtf8" | "Utf8View" => match r.below(14) {
            0 => sval::boolean(r.bool()),
            1 => {
                let v = boundary_int(r, i64::MIN as i128, u64::MAX as i128);
                int_call(r, v)
            }
            2 => sval::chr(*r.pick(&['a', 'é', '日', '😀'])),
            3 => sval::unit_variant("E", r.below(3) as u32, *r.pick(&["A", "Bee", ""])),
            4 => gen_f32(r),
            5 => gen_f64(r),
            _ => sval::string(&gen_string(r)),
        },
        "Binary" | "LargeBinary" | "BinaryView" => {
            let b = gen_bytes(r);
            match r.below(4) {
                0 => {
                    let items: Vec<Value> = b.iter().map(|x| int_call(r, *x as i128)).collect();
                    gen_seq_wrap(r, items)
                }
                1 => sval::seq(b.iter().map(|x| sval::int("u8", *x as i128)).collect()),
                _ => sval::bytes(&b),
            }
        }
        "FixedSizeBinary" => {
            let n = dt["n"].as_i64().unwrap() as usize;
            let len = match r.below(12) {
                0 if !cfg.strict => n + 1,
                1 if !cfg.strict => n.saturating_sub(1),
                _ => n,
            };
            let b: Vec<u8> = (0..len).map(|_| r.below(256) as u8).collect();
            if r.bool() {
                sval::bytes(&b)
            } else {
                gen_seq_wrap(r, b.iter().map(|x| sval::int("u8", *x as i128)).collect())
            }
        }
        "Date32" | "Date64" if r.chance(1, 4) => {
            sval::string(&format!("{:04}-{:02}-{:02}", 1900 + r.below(200), 1 + r.below(12), 1 + r.below(28)))
        }
        "Time32" | "Time64" if r.chance(1, 4) => {
            let frac = match r.below(3) {
                0 => String::new(),
                1 => format!(".{:03}", r.below(1000)),
                _ => format!(".{:09}", r.below(1_000_000_000)),
            };
            sval::string(&format!("{:02}:{:02}:{:02}{}", r.below(24), r.below(60), r.below(60), frac))
        }
        "Timestamp" if r.chance(1, 4) => {
            let base = format!("{:04}-{:02}-{:02}T{:02}:{:02}:{:02}", 1950 + r.below(100), 1 + r.below(12), 1 + r.below(28), r.below(24), r.below(60), r.below(60));
            let frac = if r.bool() { format!(".{:03}", r.below(1000)) } else { String::new() };
            if dt["tz"].is_null() {
                sval::string(&format!("{base}{frac}"))
            } else {
                sval::string(&format!("{base}{frac}Z"))
            }
        }
        "Duration" if r.chance(1, 6) => sval::string(*r.pick(&["PT5S", "P1DT2H", "-PT0.5S", "PT0S", "P2W", "PT1H30M"])),
        "Date32" | "Time32" => {
            let v = boundary_int(r, i32::MIN as i128, i32::MAX as i128);
            match r.below(4) {
                0 => sval::int("i64", v),
                1 if !cfg.strict => sval::int("i64", boundary_int(r, i64::MIN as i128, i64::MAX as i128)),
                _ => sval::int("i32", v),
            }
        }
        "Date64" | "Time64" => {
            if r.chance(1, 4) {
                sval::int("i32", boundary_int(r, i32::MIN as i128, i32::MAX as i128))
            } else {
                sval::int("i64", boundary_int(r, i64::MIN as i128, i64::MAX as i128))
            }
        }
        "Timestamp" => match r.below(8) {
            0 if !cfg.strict => sval::int("i32", 5),
            _ => sval::int("i64", boundary_int(r, i64::MIN as i128, i64::MAX as i128)),
        },
        "Duration" => {
            let v = boundary_int(r, i64::MIN as i128, if cfg.strict { i64::MAX as i128 } else { u64::MAX as i128 });
            int_call(r, v)
        }
        "Decimal128" => match r.below(5) {
            // the codec suite `decimal` covers the text grammar exhaustively; here decimals take part in nesting
            0 => sval::none(),
            1 | 2 => {
                let int = r.below(200);
                let frac = r.below(1000);
                let txt = match r.below(5) {
                    0 => format!("{int}"),
                    1 => format!("-{int}.{frac:03}"),
                    2 => format!("{int}."),
                    3 => format!(".{frac}"),
                    _ => format!("{int}.{frac}"),
                };
                sval::string(&txt)
            }
            3 => sval::f64v(*r.pick(&[0.0, 1.5, -2.25, 100.0, 0.001, 12345.678, -0.0])),
            _ => sval::f32v(*r.pick(&[0.0f32, 1.5, -2.25, 7.0])),
        },
        "Dictionary" if !matches!(dt["value"]["t"].as_str(), Some("Utf8") | Some("LargeUtf8")) => gen_dict_scalar(r, &dt["value"]),
        "Dictionary" => match r.below(5) {
            0 => sval::unit_variant("E", r.below(3) as u32, *r.pick(&["A", "Bee", ""])),
            _ => sval::string(*r.pick(&["x", "y", "", "zz", "日本", "a", "b", "c", "d"])),
        },
        "List" | "LargeList" => {
            let child = &dt["child"];
            let n = r.usize(4);
            if child["dt"]["t"] == "UInt8" && r.bool() {
                return sval::bytes(&gen_bytes(r));
            }
            let items: Vec<Value> = (0..n).map(|_| gen_value(r, child, cfg)).collect();
            gen_seq_wrap(r, items)
        }
        "FixedSizeList" => {
            let child = &dt["child"];
            let n = dt["n"].as_i64().unwrap() as usize;
            let len = match r.below(14) {
                0 if !cfg.strict => n + 1,
                1 if !cfg.strict => n.saturating_sub(1),
                _ => n,
            };
            let items: Vec<Value> = (0..len).map(|_| gen_value(r, child, cfg)).collect();
            gen_seq_wrap(r, items)
        }
        "Map" => {
            let fs = dt["entries"]["dt"]["fields"].as_array().unwrap();
            let n = r.usize(4);
            let es: Vec<(Value, Value)> = (0..n).map(|_| (gen_value(r, &fs[0], cfg), gen_value(r, &fs[1], cfg))).collect();
            if !cfg.strict && r.chance(1, 25) {
                // malformed call streams: value without key, key without value
                let mut ops = Vec::new();
                for (k, v) in es {
                    match r.below(4) {
                        0 => ops.push(json!({"val": v})),
                        1 => ops.push(json!({"key": k})),
                        _ => {
                            ops.push(json!({"key": k}));
                            ops.push(json!({"val": v}));
                        }
                    }
                }
                json!({"k": "map_raw", "ops": ops})
            } else {
                sval::map(es)
            }
        }
        "Struct" => gen_record(r, dt["fields"].as_array().unwrap(), cfg),
        "Union" => {
            let fs = dt["fields"].as_array().unwrap();
            let i = if !cfg.strict && r.chance(1, 30) { fs.len() + r.usize(3) } else { r.usize(fs.len()) };
            let Some(vf) = fs.get(i) else {
                return sval::unit_variant("E", i as u32, "Unknown");
            };
            let f = &vf[1];
            let vn = f["name"].as_str().unwrap();
            match f["dt"]["t"].as_str().unwrap() {
                "Null" => sval::unit_variant("E", i as u32, vn),
                "Struct" if r.chance(2, 3) => {
                    let cfs = f["dt"]["fields"].as_array().unwrap();
                    if r.bool() {
                        let mut fields: Vec<(String, u64, Value)> =
                            cfs.iter().map(|cf| (cf["name"].as_str().unwrap().to_string(), r.below(2), gen_value(r, cf, cfg))).collect();
                        r.shuffle(&mut fields);
                        sval::struct_variant("E", i as u32, vn, fields)
                    } else {
                        sval::tuple_variant("E", i as u32, vn, cfs.iter().map(|cf| gen_value(r, cf, cfg)).collect())
                    }
                }
                _ => sval::newtype_variant("E", i as u32, vn, gen_value(r, f, cfg)),
            }
        }
        other => panic!("gen_inner: unknown type {other}"),
    }
}

/// one record for a list of fields, in one of the presentations C11 talks about
pub fn gen_record(r: &mut Rng, fields: &[Value], cfg: &ValCfg) -> Value {
    let mut kv: Vec<(String, Value, bool)> = Vec::new();
    for f in fields {
        let name = f["name"].as_str().unwrap().to_string();
        let nullable = f["nullable"].as_bool().unwrap();
        // absent optional fields (and, rarely, absent required ones)
        let absent = (nullable && r.chance(1, 6)) || (!cfg.strict && r.chance(1, 80));
        kv.push((name, gen_value(r, f, cfg), absent));
    }
    match r.below(10) {
        0 | 1 => {
            // tuple in schema order (no field may be absent in the middle; sometimes longer / shorter)
            let mut items: Vec<Value> = kv.iter().map(|(_, v, _)| v.clone()).collect();
            match r.below(12) {
                0 => items.push(sval::int("i32", 7)),
                1 if !cfg.strict => {
                    items.pop();
                }
                _ => {}
            }
            if r.bool() {
                sval::tuple(items)
            } else {
                sval::tuple_struct("T", items)
            }
        }
        2 | 3 => {
            // map with string keys, any order, extras
            let mut es: Vec<(Value, Value)> = kv.iter().filter(|(_, _, a)| !a).map(|(k, v, _)| (sval::string(k), v.clone())).collect();
            if r.chance(1, 4) {
                es.push((sval::string("extra"), sval::int("i32", 1)));
            }
            if !cfg.strict && r.chance(1, 40) && !es.is_empty() {
                let d = es[0].clone();
                es.push(d);
            }
            if !cfg.strict && r.chance(1, 40) {
                es.push((sval::int("i32", 3), sval::int("i32", 1)));
            }
            r.shuffle(&mut es);
            if !cfg.strict && r.chance(1, 8) {
                // inconsistent call streams on a struct position: value without key (also right after a complete
                // entry, also as the very last call), key without value, two keys in a row
                let mut ops = Vec::new();
                for (k, v) in es {
                    match r.below(8) {
                        0 => ops.push(json!({"val": v})),
                        1 => ops.push(json!({"key": k})),
                        2 => {
                            ops.push(json!({"key": k}));
                            ops.push(json!({"val": v.clone()}));
                            ops.push(json!({"val": v}));
                        }
                        3 => {
                            ops.push(json!({"key": k.clone()}));
                            ops.push(json!({"key": k}));
                            ops.push(json!({"val": v}));
                        }
                        _ => {
                            ops.push(json!({"key": k}));
                            ops.push(json!({"val": v}));
                        }
                    }
                }
                if r.bool() {
                    ops.push(json!({"val": sval::int("i32", 1)}));
                }
                return json!({"k": "map_raw", "ops": ops});
            }
            sval::map(es)
        }
        _ => {
            let in_order = r.chance(2, 3);
            let mut fs: Vec<(String, u64, Value)> = kv.iter().filter(|(_, _, a)| !a).map(|(k, v, _)| (k.clone(), r.below(4), v.clone())).collect();
            if r.chance(1, 4) {
                let pos = r.usize(fs.len() + 1);
                fs.insert(pos, ("extra".into(), 0, sval::string("ignored")));
            }
            if !cfg.strict && r.chance(1, 40) && !fs.is_empty() {
                let d = fs[r.usize(fs.len())].clone();
                fs.push(d);
            }
            if !in_order {
                r.shuffle(&mut fs);
            }
            sval::record(*r.pick(&["R", "S"]), fs)
        }
    }
}

/// aux table: Rust's `to_string` of every float that occurs in the rows (an external function of the model)
pub fn float_strings(rows: &Value) -> Value {
    fn walk(v: &Value, f32s: &mut serde_json::Map<String, Value>, f64s: &mut serde_json::Map<String, Value>) {
        match v {
            Value::Object(m) => {
                match m.get("k").and_then(|k| k.as_str()) {
                    Some("f32") => {
                        let b = m["bits"].as_u64().unwrap() as u32;
                        f32s.insert(b.to_string(), json!(f32::from_bits(b).to_string()));
                    }
                    Some("f64") => {
                        let b = m["bits"].as_u64().unwrap();
                        f64s.insert(b.to_string(), json!(f64::from_bits(b).to_string()));
                    }
                    _ => {}
                }
                for (_, x) in m {
                    walk(x, f32s, f64s);
                }
            }
            Value::Array(a) => {
                for x in a {
                    walk(x, f32s, f64s);
                }
            }
            _ => {}
        }
    }
    let mut a = serde_json::Map::new();
    let mut b = serde_json::Map::new();
    walk(rows, &mut a, &mut b);
    json!({"f32_str": a, "f64_str": b})
}

// ---------------------------------------------------------------- re-presentation (C11)

fn peel<'a>(v: &'a Value, wrappers: &mut Vec<Value>) -> &'a Value {
    let mut cur = v;
    loop {
        match cur["k"].as_str() {
            Some("some") => {
                wrappers.push(json!({"k": "some"}));
                cur = &cur["v"];
            }
            Some("newtype_struct") => {
                wrappers.push(json!({"k": "newtype_struct", "n": cur["n"]}));
                cur = &cur["v"];
            }
            _ => return cur,
        }
    }
}

fn rewrap(mut v: Value, wrappers: Vec<Value>) -> Value {
    for w in wrappers.into_iter().rev() {
        let mut w = w;
        w["v"] = v;
        v = w;
    }
    v
}

/// the (name, value) pairs a struct-typed position receives from `v`, whatever its presentation
fn record_pairs(fields: &[Value], v: &Value) -> Option<Vec<(String, Value)>> {
    match v["k"].as_str()? {
        "struct" => Some(v["f"].as_array()?.iter().map(|f| (f[0].as_str().unwrap().to_string(), f[2].clone())).collect()),
        "map" => {
            let mut out = Vec::new();
            for e in v["e"].as_array()? {
                out.push((e[0]["v"].as_str()?.to_string(), e[1].clone()));
            }
            Some(out)
        }
        "tuple" | "tuple_struct" => {
            let items = v["v"].as_array()?;
            Some(fields.iter().zip(items.iter()).map(|(f, x)| (f["name"].as_str().unwrap().to_string(), x.clone())).collect())
        }
        _ => None,
    }
}

/// The same logical value in another presentation: struct ↔ map ↔ tuple records, other field orders, other
/// name addresses, extra fields, absent optional fields ↔ explicit None, seq ↔ tuple; recursively.
pub fn rerender(r: &mut Rng, f: &Value, v: &Value) -> Value {
    let mut wrappers = Vec::new();
    let core = peel(v, &mut wrappers);
    let dt = &f["dt"];
    let t = dt["t"].as_str().unwrap();
    let k = core["k"].as_str().unwrap_or("");
    let out = match t {
        "Struct" if matches!(k, "struct" | "map" | "tuple" | "tuple_struct") => {
            let fields = dt["fields"].as_array().unwrap();
            match record_pairs(fields, core) {
                Some(pairs) => rerender_record(r, fields, &pairs),
                None => core.clone(),
            }
        }
        "List" | "LargeList" | "FixedSizeList" if matches!(k, "seq" | "tuple" | "tuple_struct") => {
            let child = &dt["child"];
            let items: Vec<Value> = core["v"].as_array().unwrap().iter().map(|x| rerender(r, child, x)).collect();
            match r.below(3) {
                0 => sval::tuple(items),
                1 => sval::tuple_struct("T", items),
                _ => sval::seq(items),
            }
        }
        "Map" if k == "map" => {
            let fs = dt["entries"]["dt"]["fields"].as_array().unwrap();
            let es: Vec<(Value, Value)> = core["e"].as_array().unwrap().iter().map(|e| (e[0].clone(), rerender(r, &fs[1], &e[1]))).collect();
            sval::map(es)
        }
        "Union" => {
            let fs = dt["fields"].as_array().unwrap();
            let i = core["i"].as_u64().unwrap_or(0) as usize;
            match (k, fs.get(i)) {
                ("newtype_variant", Some(vf)) => sval::newtype_variant("E", i as u32, core["vn"].as_str().unwrap(), rerender(r, &vf[1], &core["v"])),
                ("struct_variant", Some(vf)) if vf[1]["dt"]["t"] == "Struct" => {
                    let cfs = vf[1]["dt"]["fields"].as_array().unwrap();
                    let mut fields: Vec<(String, u64, Value)> = core["f"]
                        .as_array()
                        .unwrap()
                        .iter()
                        .map(|x| {
                            let name = x[0].as_str().unwrap().to_string();
                            let cf = cfs.iter().find(|cf| cf["name"] == x[0]);
                            let val = match cf {
                                Some(cf) => rerender(r, cf, &x[2]),
                                None => x[2].clone(),
                            };
                            (name, r.below(4), val)
                        })
                        .collect();
                    r.shuffle(&mut fields);
                    sval::struct_variant("E", i as u32, core["vn"].as_str().unwrap(), fields)
                }
                _ => core.clone(),
            }
        }
        _ => core.clone(),
    };
    rewrap(out, wrappers)
}

pub fn rerender_record(r: &mut Rng, fields: &[Value], pairs: &[(String, Value)]) -> Value {
    // logical content: for each schema field the value given (None when absent); unknown names are dropped
    let mut logical: Vec<(String, Option<Value>, bool)> = Vec::new();
    for f in fields {
        let name = f["name"].as_str().unwrap();
        let given = pairs.iter().find(|(k, _)| k == name).map(|(_, v)| rerender(r, f, v));
        logical.push((name.to_string(), given, f["nullable"].as_bool().unwrap()));
    }
    let all_present_or_nullable = logical.iter().all(|(_, v, n)| v.is_some() || *n);
    match r.below(10) {
        0 | 1 if all_present_or_nullable => {
            // tuple in schema order: absent optional fields become explicit None (trailing ones may be dropped)
            let mut items: Vec<Value> = logical.iter().map(|(_, v, _)| v.clone().unwrap_or_else(sval::none)).collect();
            while r.chance(1, 3) && logical.len() == items.len() && items.last().map(|x| x["k"] == "none").unwrap_or(false) {
                items.pop();
            }
            if items.len() == logical.len() && r.chance(1, 6) {
                items.push(sval::string("surplus"));
            }
            if r.bool() {
                sval::tuple(items)
            } else {
                sval::tuple_struct("T", items)
            }
        }
        2 | 3 | 4 => {
            let mut es: Vec<(Value, Value)> = Vec::new();
            for (k, v, _) in &logical {
                match v {
                    Some(v) => es.push((sval::string(k), v.clone())),
                    None if r.bool() => es.push((sval::string(k), sval::none())),
                    None => {}
                }
            }
            if r.chance(1, 3) {
                es.push((sval::string("not in schema"), sval::int("i32", 1)));
            }
            r.shuffle(&mut es);
            sval::map(es)
        }
        _ => {
            let mut fs: Vec<(String, u64, Value)> = Vec::new();
            for (k, v, _) in &logical {
                match v {
                    Some(v) => fs.push((k.clone(), r.below(4), v.clone())),
                    None if r.bool() => fs.push((k.clone(), r.below(4), sval::none())),
                    None => {}
                }
            }
            if r.chance(1, 3) {
                let pos = r.usize(fs.len() + 1);
                fs.insert(pos, ("not in schema".into(), 0, sval::seq(vec![sval::unit()])));
            }
            if r.chance(2, 3) {
                r.shuffle(&mut fs);
            }
            sval::record(*r.pick(&["R", "S", "Other"]), fs)
        }
    }
}

fn decimal_scales(v: &Value, out: &mut Vec<i64>) {
    match v {
        Value::Object(m) => {
            if m.get("t").and_then(|t| t.as_str()) == Some("Decimal128") {
                if let Some(s) = m.get("s").and_then(|s| s.as_i64()) {
                    if !out.contains(&s) {
                        out.push(s);
                    }
                }
            }
            for (_, x) in m {
                decimal_scales(x, out);
            }
        }
        Value::Array(a) => {
            for x in a {
                decimal_scales(x, out);
            }
        }
        _ => {}
    }
}

/// aux table of a build-side case: float display strings and, for every float × every decimal scale of the
/// schema, the float product the decimal builder computes (`(v * 10^scale)`, finite?, `as i128`) — external
/// functions of the model.
pub fn aux_for(schema: &Value, rows: &Value) -> Value {
    let mut aux = float_strings(rows);
    let mut scales = Vec::new();
    decimal_scales(schema, &mut scales);
    let mut casts = serde_json::Map::new();
    if !scales.is_empty() {
        let f32s: Vec<u32> = aux["f32_str"].as_object().unwrap().keys().map(|k| k.parse().unwrap()).collect();
        let f64s: Vec<u64> = aux["f64_str"].as_object().unwrap().keys().map(|k| k.parse().unwrap()).collect();
        for s in &scales {
            for b in &f32s {
                let scaled = (f32::from_bits(*b) * (10.0_f32).powi(*s as i32)) as f64;
                casts.insert(format!("f32:{b}:{s}"), json!({"finite": scaled.is_finite(), "cast": (scaled as i128).to_string()}));
            }
            for b in &f64s {
                let scaled = f64::from_bits(*b) * (10.0_f64).powi(*s as i32);
                casts.insert(format!("f64:{b}:{s}"), json!({"finite": scaled.is_finite(), "cast": (scaled as i128).to_string()}));
            }
        }
    }
    aux["dec_cast"] = Value::Object(casts);
    aux
}
