//! Random *logical* columns: a marrow `Field` in wire form (schema_dump.rs) plus rows as "LVal JSON".
//!
//! LVal JSON (one row value of a column):
//!   null | {"bool":b} | {"int":"<decimal>"} | {"float":"<bit pattern, decimal, in the column's width>"}
//!   | {"str":"<hex of UTF-8>"} | {"bin":"<hex>"} | {"list":[V…]} | {"struct":[["name",V]…]}
//!   | {"map":[[K,V]…]} | {"union":["<type id>",V]}
//! A Dictionary column's row is the looked-up value ({"str":…}); a Null column's rows are all `null`.
//!
//! Invariants of what is generated here (relied on by arrowsrc.rs):
//!   * `null` appears only where the field is nullable; a field of type Null is always nullable;
//!     a field of type Union is never nullable,
//!   * Map: entries field "entries" (non-nullable struct of "key" (non-nullable, Utf8|Int32) and "value"),
//!   * dense Union with type ids 0,1,2… in field order,
//!   * Dictionary values come from a small pool, so every key type can index them.
#![allow(dead_code)]
use crate::rng::Rng;
use crate::sval::hex;
use serde_json::{json, Value};

const UNITS: [&str; 4] = ["Second", "Millisecond", "Microsecond", "Nanosecond"];
const INT_TYPES: [&str; 8] = ["Int8", "Int16", "Int32", "Int64", "UInt8", "UInt16", "UInt32", "UInt64"];

fn t(name: &str) -> Value {
    json!({ "t": name })
}

/// every leaf "dt" once (parameterised types: a representative spread of parameters)
pub fn all_leaf_types() -> Vec<Value> {
    let mut out = vec![t("Null"), t("Boolean")];
    for i in INT_TYPES {
        out.push(t(i));
    }
    for f in ["Float16", "Float32", "Float64", "Date32", "Date64"] {
        out.push(t(f));
    }
    out.push(json!({"t": "Time32", "unit": "Second"}));
    out.push(json!({"t": "Time32", "unit": "Millisecond"}));
    out.push(json!({"t": "Time64", "unit": "Microsecond"}));
    out.push(json!({"t": "Time64", "unit": "Nanosecond"}));
    for u in UNITS {
        out.push(json!({"t": "Timestamp", "unit": u, "tz": null}));
        out.push(json!({"t": "Timestamp", "unit": u, "tz": "UTC"}));
    }
    for u in UNITS {
        out.push(json!({"t": "Duration", "unit": u}));
    }
    for (p, s) in [(38, 0), (38, 10), (10, 2), (5, 5), (1, 0), (9, -2)] {
        out.push(json!({"t": "Decimal128", "p": p, "s": s}));
    }
    for s in ["Utf8", "LargeUtf8", "Utf8View", "Binary", "LargeBinary", "BinaryView"] {
        out.push(t(s));
    }
    for n in 1..=5 {
        out.push(json!({"t": "FixedSizeBinary", "n": n}));
    }
    for k in INT_TYPES {
        for v in ["Utf8", "LargeUtf8"] {
            out.push(json!({"t": "Dictionary", "key": t(k), "value": t(v)}));
        }
    }
    out
}

pub fn mk_field(name: &str, nullable: bool, dt: Value) -> Value {
    json!({"name": name, "nullable": nullable, "meta": [], "dt": dt})
}

fn gen_leaf_dt(rng: &mut Rng) -> Value {
    match rng.below(26) {
        0 => t("Null"),
        1 => t("Boolean"),
        2..=5 => t(*rng.pick(&INT_TYPES)),
        6 => t(*rng.pick(&["Float16", "Float32", "Float64"])),
        7 => t("Float64"),
        8 => t("Date32"),
        9 => t("Date64"),
        10 => json!({"t": "Time32", "unit": *rng.pick(&["Second", "Millisecond"])}),
        11 => json!({"t": "Time64", "unit": *rng.pick(&["Microsecond", "Nanosecond"])}),
        12 | 13 => {
            let tz = if rng.bool() { Value::Null } else { json!("UTC") };
            json!({"t": "Timestamp", "unit": *rng.pick(&UNITS), "tz": tz})
        }
        14 => json!({"t": "Duration", "unit": *rng.pick(&UNITS)}),
        15 => {
            let p = rng.range(1, 38);
            let s = if rng.chance(1, 10) { rng.range(-3, -1) } else { rng.range(0, p.min(6)) };
            json!({"t": "Decimal128", "p": p, "s": s})
        }
        16 | 17 => t("Utf8"),
        18 => t("LargeUtf8"),
        19 => t("Utf8View"),
        20 => t("Binary"),
        21 => t("LargeBinary"),
        22 => t("BinaryView"),
        23 => json!({"t": "FixedSizeBinary", "n": rng.range(1, 5)}),
        _ => json!({"t": "Dictionary", "key": t(*rng.pick(&INT_TYPES)), "value": t(*rng.pick(&["Utf8", "LargeUtf8"]))}),
    }
}

const NAMES: [&str; 8] = ["a", "b", "c", "x y", "ä", "value", "key", "f0"];

fn distinct_names(rng: &mut Rng, n: usize) -> Vec<String> {
    let mut out: Vec<String> = Vec::new();
    while out.len() < n {
        let cand = if rng.chance(1, 6) { String::new() } else { rng.pick(&NAMES).to_string() };
        if !out.contains(&cand) {
            out.push(cand);
        }
    }
    out
}

/// wire form of a list type over a given child field
pub fn list_dt(kind: &str, child: Value, n: i64) -> Value {
    if kind == "FixedSizeList" {
        json!({"t": kind, "child": child, "n": n})
    } else {
        json!({"t": kind, "child": child})
    }
}

pub fn map_dt(key_dt: Value, value_field: Value) -> Value {
    let entries = mk_field("entries", false, json!({"t": "Struct", "fields": [mk_field("key", false, key_dt), value_field]}));
    json!({"t": "Map", "entries": entries, "sorted": false})
}

pub fn union_dt(variants: Vec<Value>) -> Value {
    let fields: Vec<Value> = variants.into_iter().enumerate().map(|(i, f)| json!([i, f])).collect();
    json!({"t": "Union", "fields": fields, "mode": "Dense"})
}

fn gen_container_dt(rng: &mut Rng, depth: usize) -> Value {
    let d = depth.saturating_sub(1);
    match rng.below(9) {
        0 | 1 => {
            let n = rng.usize(4);
            let names = distinct_names(rng, n);
            let fields: Vec<Value> = names.iter().map(|nm| gen_field(rng, nm, d)).collect();
            json!({"t": "Struct", "fields": fields})
        }
        2 | 3 => {
            let nm = if rng.chance(1, 4) { "item" } else { "element" };
            list_dt("List", gen_field(rng, nm, d), 0)
        }
        4 => {
            let nm = if rng.chance(1, 4) { "item" } else { "element" };
            list_dt("LargeList", gen_field(rng, nm, d), 0)
        }
        5 => {
            let nm = if rng.chance(1, 4) { "item" } else { "element" };
            let n = rng.range(0, 3);
            list_dt("FixedSizeList", gen_field(rng, nm, d), n)
        }
        6 => {
            let key = if rng.bool() { t("Utf8") } else { t("Int32") };
            map_dt(key, gen_field(rng, "value", d))
        }
        _ => {
            let n = 1 + rng.usize(3);
            let names = distinct_names(rng, n);
            union_dt(names.iter().map(|nm| gen_field(rng, nm, d)).collect())
        }
    }
}

/// random nullability respecting the invariants (Null ⇒ nullable, Union ⇒ not nullable)
pub fn nullable_for(rng: &mut Rng, dt: &Value) -> bool {
    match dt["t"].as_str().unwrap() {
        "Null" => true,
        "Union" => false,
        _ => rng.bool(),
    }
}

/// Field wire form; `depth` = remaining nesting budget (0 ⇒ leaf)
pub fn gen_field(rng: &mut Rng, name: &str, depth: usize) -> Value {
    let dt = if depth == 0 || rng.chance(2, 5) { gen_leaf_dt(rng) } else { gen_container_dt(rng, depth) };
    let nullable = nullable_for(rng, &dt);
    mk_field(name, nullable, dt)
}

// ------------------------------------------------------------------------------------------------ values

fn int_lv(v: i128) -> Value {
    json!({ "int": v.to_string() })
}

fn gen_int(rng: &mut Rng, lo: i128, hi: i128) -> i128 {
    match rng.below(10) {
        0 => lo,
        1 => hi,
        2 => 0i128.clamp(lo, hi),
        3 => 1i128.clamp(lo, hi),
        4 => (-1i128).clamp(lo, hi),
        5 | 6 => {
            // small
            (rng.range(-100, 100) as i128).clamp(lo, hi)
        }
        _ => {
            // hi - lo can exceed i128::MAX (Decimal128(38, _)), never u128::MAX
            let span = (hi as u128).wrapping_sub(lo as u128).wrapping_add(1);
            let r = ((rng.next_u64() as u128) << 64 | rng.next_u64() as u128) % span;
            lo.wrapping_add(r as i128)
        }
    }
}

fn int_bounds(ty: &str) -> (i128, i128) {
    match ty {
        "Int8" => (i8::MIN as i128, i8::MAX as i128),
        "Int16" => (i16::MIN as i128, i16::MAX as i128),
        "Int32" | "Date32" | "Time32" => (i32::MIN as i128, i32::MAX as i128),
        "Int64" | "Date64" | "Time64" | "Timestamp" | "Duration" => (i64::MIN as i128, i64::MAX as i128),
        "UInt8" => (0, u8::MAX as i128),
        "UInt16" => (0, u16::MAX as i128),
        "UInt32" => (0, u32::MAX as i128),
        "UInt64" => (0, u64::MAX as i128),
        other => panic!("not an integer type: {other}"),
    }
}

fn gen_float_bits(rng: &mut Rng, ty: &str) -> u64 {
    // (exponent bits, mantissa bits)
    let (e, m, width) = match ty {
        "Float16" => (5u32, 10u32, 16u32),
        "Float32" => (8, 23, 32),
        _ => (11, 52, 64),
    };
    let sign = 1u64 << (width - 1);
    let exp_all = ((1u64 << e) - 1) << m;
    let mant_all = (1u64 << m) - 1;
    let quiet = 1u64 << (m - 1);
    if rng.chance(1, 3) {
        let specials = [
            0,                         // +0
            sign,                      // -0
            exp_all,                   // +inf
            sign | exp_all,            // -inf
            exp_all | quiet,           // canonical NaN
            sign | exp_all | quiet,    // negative NaN
            exp_all | 1,               // signalling NaN, small payload
            exp_all | quiet | 1,       // quiet NaN with payload
            1,                         // smallest subnormal
            sign | 1,
            mant_all,                  // largest subnormal
            1u64 << m,                 // smallest normal
            (exp_all - (1u64 << m)) | mant_all,        // max finite
            sign | (exp_all - (1u64 << m)) | mant_all, // min finite
            ((1u64 << (e - 1)) - 1) << m,              // 1.0
            sign | (((1u64 << (e - 1)) - 1) << m),     // -1.0
        ];
        return *rng.pick(&specials);
    }
    if rng.chance(1, 2) {
        // "ordinary" numbers: small integers / halves converted properly
        let x = rng.range(-2000, 2000) as f64 / 4.0;
        return match ty {
            "Float16" => half::f16::from_f64(x).to_bits() as u64,
            "Float32" => (x as f32).to_bits() as u64,
            _ => x.to_bits(),
        };
    }
    if width == 64 {
        rng.next_u64()
    } else {
        rng.next_u64() & ((1u64 << width) - 1)
    }
}

const STR_POOL: [&str; 14] = [
    "",
    "",
    "a",
    "abc",
    "hello world",
    "exactly12byt",
    "thirteen byte",
    "a string that is longer than twelve bytes",
    "ß",
    "äöü",
    "日本語",
    "😀",
    "mixed ä 日本 😀 text, well over twelve bytes",
    "\"quoted\" \\ \n\t",
];

fn gen_string(rng: &mut Rng) -> String {
    if rng.chance(2, 3) {
        return rng.pick(&STR_POOL).to_string();
    }
    let n = if rng.chance(1, 4) { 13 + rng.usize(20) } else { rng.usize(8) };
    let alphabet = ['a', 'b', 'z', '0', ' ', '"', 'ß', 'é', '語', '😀', '\u{0}', '\u{7f}'];
    (0..n).map(|_| *rng.pick(&alphabet)).collect()
}

fn gen_bytes(rng: &mut Rng) -> Vec<u8> {
    let n = match rng.below(6) {
        0 => 0,
        1 => 1,
        2 => 12,
        3 => 13 + rng.usize(20),
        _ => rng.usize(10),
    };
    (0..n)
        .map(|_| match rng.below(4) {
            0 => 0u8,
            1 => 0xff,
            _ => rng.below(256) as u8,
        })
        .collect()
}

const DICT_POOL: [&str; 7] = ["", "a", "b", "red", "ß-green", "a dictionary value of more than twelve bytes", "日本"];

fn pow10(p: u32) -> i128 {
    10i128.pow(p)
}

fn list_len(rng: &mut Rng) -> usize {
    match rng.below(8) {
        0 | 1 => 0,
        2 | 3 => 1,
        4 | 5 => 2,
        6 => 3,
        _ => 4,
    }
}

/// one non-null value of the given data type
fn gen_value(rng: &mut Rng, dt: &Value) -> Value {
    let ty = dt["t"].as_str().unwrap();
    match ty {
        "Null" => Value::Null,
        "Boolean" => json!({ "bool": rng.bool() }),
        "Int8" | "Int16" | "Int32" | "Int64" | "UInt8" | "UInt16" | "UInt32" | "UInt64" | "Date32" | "Date64" | "Timestamp"
        | "Duration" => {
            let (lo, hi) = int_bounds(ty);
            // temporal values: mostly in a range every formatter can handle
            if matches!(ty, "Date32" | "Date64" | "Timestamp" | "Duration") && rng.chance(3, 4) {
                let v = match ty {
                    "Date32" => rng.range(-40_000, 80_000) as i128,
                    "Date64" => rng.range(-40_000, 80_000) as i128 * 86_400_000 + if rng.chance(1, 4) { rng.range(0, 86_399_999) as i128 } else { 0 },
                    _ => rng.range(-4_000_000_000, 4_000_000_000) as i128 * if rng.bool() { 1 } else { 1000 },
                };
                return int_lv(v.clamp(lo, hi));
            }
            int_lv(gen_int(rng, lo, hi))
        }
        "Time32" | "Time64" => {
            let per_sec: i128 = match dt["unit"].as_str().unwrap() {
                "Second" => 1,
                "Millisecond" => 1_000,
                "Microsecond" => 1_000_000,
                _ => 1_000_000_000,
            };
            if rng.chance(1, 8) {
                let (lo, hi) = int_bounds(ty);
                int_lv(gen_int(rng, lo, hi))
            } else {
                int_lv(gen_int(rng, 0, 86_400 * per_sec - 1))
            }
        }
        "Decimal128" => {
            let p = dt["p"].as_u64().unwrap() as u32;
            let hi = pow10(p) - 1;
            int_lv(gen_int(rng, -hi, hi))
        }
        "Float16" | "Float32" | "Float64" => json!({ "float": gen_float_bits(rng, ty).to_string() }),
        "Utf8" | "LargeUtf8" | "Utf8View" => json!({ "str": hex(gen_string(rng).as_bytes()) }),
        "Binary" | "LargeBinary" | "BinaryView" => json!({ "bin": hex(&gen_bytes(rng)) }),
        "FixedSizeBinary" => {
            let n = dt["n"].as_u64().unwrap() as usize;
            let b: Vec<u8> = (0..n).map(|_| rng.below(256) as u8).collect();
            json!({ "bin": hex(&b) })
        }
        "Dictionary" => json!({ "str": hex(rng.pick(&DICT_POOL).as_bytes()) }),
        "Struct" => {
            let fields: Vec<Value> = dt["fields"].as_array().unwrap().iter().map(|f| json!([f["name"], gen_slot(rng, f)])).collect();
            json!({ "struct": fields })
        }
        "List" | "LargeList" => {
            let n = list_len(rng);
            let child = &dt["child"];
            json!({ "list": (0..n).map(|_| gen_slot(rng, child)).collect::<Vec<_>>() })
        }
        "FixedSizeList" => {
            let n = dt["n"].as_u64().unwrap() as usize;
            let child = &dt["child"];
            json!({ "list": (0..n).map(|_| gen_slot(rng, child)).collect::<Vec<_>>() })
        }
        "Map" => {
            let n = list_len(rng);
            let fs = dt["entries"]["dt"]["fields"].as_array().unwrap();
            let (kf, vf) = (&fs[0], &fs[1]);
            let entries: Vec<Value> = (0..n)
                .map(|_| {
                    let k = if kf["dt"]["t"] == "Int32" {
                        int_lv(rng.range(-3, 6) as i128)
                    } else {
                        json!({ "str": hex(rng.pick(&["", "k", "key", "ä", "a key longer than twelve bytes"]).as_bytes()) })
                    };
                    json!([k, gen_slot(rng, vf)])
                })
                .collect();
            json!({ "map": entries })
        }
        "Union" => {
            let fs = dt["fields"].as_array().unwrap();
            let k = rng.usize(fs.len());
            let tid = fs[k][0].as_i64().unwrap();
            json!({ "union": [tid.to_string(), gen_slot(rng, &fs[k][1])] })
        }
        other => panic!("lgen: unknown type {other}"),
    }
}

/// one slot of a field: `null` with probability ¼ if the field is nullable
fn gen_slot(rng: &mut Rng, field: &Value) -> Value {
    if field["dt"]["t"] == "Null" {
        return Value::Null;
    }
    if field["nullable"].as_bool().unwrap() && rng.chance(1, 4) {
        return Value::Null;
    }
    gen_value(rng, &field["dt"])
}

/// LVal JSON rows valid for that field
pub fn gen_rows(rng: &mut Rng, field: &Value, n: usize) -> Vec<Value> {
    (0..n).map(|_| gen_slot(rng, field)).collect()
}

// ------------------------------------------------------------------------------------------------ boundary values

/// chrono's `NaiveDate` range in days since the epoch: -262143-01-01 ..= +262142-12-31
pub const CHRONO_MIN_DAY: i128 = -96_465_293;
pub const CHRONO_MAX_DAY: i128 = 95_026_236;

/// Non-null values of a temporal / decimal / float leaf type at and around every boundary the string renderings and
/// the float conversions have: 0, ±1, the extremes of the physical type, the first and last value chrono can
/// represent and their outside neighbours, year 0 / -1 and year 9999 / 10000, sub-day and sub-second remainders of
/// negative values, seconds since midnight at and beyond 86 400, mantissas beyond the decimal precision; for floats
/// the values whose narrowing to f32 overflows, ties, is subnormal or loses a NaN payload.  (Empty for other types.)
pub fn boundary_values(dt: &Value) -> Vec<Value> {
    let ty = dt["t"].as_str().unwrap();
    let per_sec = |dt: &Value| -> i128 {
        match dt["unit"].as_str().unwrap() {
            "Second" => 1,
            "Millisecond" => 1_000,
            "Microsecond" => 1_000_000,
            _ => 1_000_000_000,
        }
    };
    let ints = |vs: Vec<i128>, lo: i128, hi: i128| -> Vec<Value> {
        let mut out: Vec<i128> = Vec::new();
        for v in vs {
            if v >= lo && v <= hi && !out.contains(&v) {
                out.push(v);
            }
        }
        out.into_iter().map(int_lv).collect()
    };
    const DAY_MS: i128 = 86_400_000;
    const YEAR0: i128 = -719_528; // 0000-01-01
    const Y9999: i128 = 2_932_896; // 9999-12-31
    match ty {
        "Date32" => {
            let (lo, hi) = int_bounds(ty);
            ints(
                vec![0, 1, -1, lo, hi, lo + 1, hi - 1, CHRONO_MAX_DAY, CHRONO_MAX_DAY + 1, CHRONO_MIN_DAY, CHRONO_MIN_DAY - 1, YEAR0, YEAR0 - 1,
                     YEAR0 + 366, Y9999, Y9999 + 1, 19_000, -5_000, 11_016, 365, -366],
                lo,
                hi,
            )
        }
        "Date64" => {
            let (lo, hi) = int_bounds(ty);
            ints(
                vec![0, 1, -1, lo, hi, DAY_MS - 1, DAY_MS, DAY_MS + 1, -DAY_MS, -DAY_MS - 1, -DAY_MS + 1, CHRONO_MAX_DAY * DAY_MS,
                     CHRONO_MAX_DAY * DAY_MS + DAY_MS - 1, (CHRONO_MAX_DAY + 1) * DAY_MS, CHRONO_MIN_DAY * DAY_MS, CHRONO_MIN_DAY * DAY_MS - 1,
                     CHRONO_MIN_DAY * DAY_MS + 1, YEAR0 * DAY_MS, YEAR0 * DAY_MS - 1, (Y9999 + 1) * DAY_MS - 1, (Y9999 + 1) * DAY_MS,
                     1_700_000_000_123, -1_234_567_890, 19_000 * DAY_MS, -5_000 * DAY_MS + 43_200_000],
                lo,
                hi,
            )
        }
        "Time32" | "Time64" => {
            let (lo, hi) = int_bounds(ty);
            let p = per_sec(dt);
            ints(
                vec![0, 1, -1, lo, hi, p - 1, p, p + 1, -p, 86_400 * p - 1, 86_400 * p, 86_400 * p + 1, 86_399 * p, 86_401 * p, 43_200 * p, 3_661 * p + p / 2,
                     (1i128 << 32) * p, (1i128 << 32) * p - 1, (1i128 << 31) * p, 172_800 * p, 59 * p + p - 1, 60 * p],
                lo,
                hi,
            )
        }
        "Timestamp" => {
            let (lo, hi) = int_bounds(ty);
            let p = per_sec(dt);
            let max_s = (CHRONO_MAX_DAY + 1) * 86_400 - 1;
            let min_s = CHRONO_MIN_DAY * 86_400;
            ints(
                vec![0, 1, -1, lo, hi, lo + 1, hi - 1, p, -p, p - 1, -p + 1, -p - 1, 1_700_000_000 * p + p / 3, -1_000_000_000 * p - 1,
                     max_s * p, max_s * p + p - 1, (max_s + 1) * p, min_s * p, min_s * p - 1, min_s * p + 1, YEAR0 * 86_400 * p, YEAR0 * 86_400 * p - 1,
                     (Y9999 + 1) * 86_400 * p - 1, (Y9999 + 1) * 86_400 * p, 951_782_400 * p, 68_169_600 * p + 86_399 * p],
                lo,
                hi,
            )
        }
        "Duration" => {
            let (lo, hi) = int_bounds(ty);
            let p = per_sec(dt);
            ints(vec![0, 1, -1, lo, hi, lo + 1, hi - 1, p, -p, p - 1, -p - 1, 86_400 * p, -86_400 * p + 1, 3_661 * p + p / 2, 1_000, -1_000, 999, 1_000_000_007], lo, hi)
        }
        "Decimal128" => {
            let p = dt["p"].as_u64().unwrap() as u32;
            let s = dt["s"].as_i64().unwrap();
            let top = pow10(p) - 1;
            let mut vs = vec![0, 1, -1, i128::MIN, i128::MAX, i128::MIN + 1, top, -top, top + 1, -top - 1, 10, -10, 12_345, -12_345, 100, 5, -5, 99, -99,
                              123_456_789_012_345_678_901_234_567_890_123_456_789, -170_141_183_460_469_231_731_687_303_715_884_105_727];
            if s > 0 {
                let u = pow10(s as u32);
                vs.extend([u, -u, u - 1, -u + 1, u + 1, -u - 1, u / 10, -(u / 10), 10 * u + u / 2]);
            }
            ints(vs, i128::MIN, i128::MAX)
        }
        "Float64" => {
            let f32_max = f32::MAX as f64; // 2^128 - 2^104
            let half_ulp_at_max = 2f64.powi(103);
            let sub = 2f64.powi(-149); // smallest f32 subnormal
            let xs: Vec<f64> = vec![
                0.0, -0.0, 1.0, -1.0, 0.1, -0.3, 1.5, 16_777_216.0, 16_777_217.0, 16_777_219.0, // 2^24+1: tie → even, 2^24+3: tie → even (up)
                f32_max, -f32_max, f32_max + half_ulp_at_max, -(f32_max + half_ulp_at_max), // tie at the top: rounds to ±inf
                f64::from_bits((f32_max + half_ulp_at_max).to_bits() - 1), // just below the tie: stays f32::MAX
                2f64.powi(128), 1e39, -1e39, 1e300, f64::MAX, f64::MIN, f64::INFINITY, f64::NEG_INFINITY,
                1.0 + 2f64.powi(-24), 1.0 + 3.0 * 2f64.powi(-24), 1.0 + 2f64.powi(-24) + 2f64.powi(-52), 1.0 + 2f64.powi(-24) - 2f64.powi(-53), 1.0 + 2f64.powi(-23),
                f32::MIN_POSITIVE as f64, (f32::MIN_POSITIVE as f64) * (1.0 - 2f64.powi(-25)), (f32::MIN_POSITIVE as f64) * (1.0 - 2f64.powi(-24)), // rounds up to normal / tie
                1e-40, -1e-40, 1e-45, sub, -sub, sub / 2.0, -sub / 2.0, f64::from_bits((sub / 2.0).to_bits() + 1), sub * 1.5, sub * 2.5, sub / 4.0, 1e-50,
                f64::MIN_POSITIVE, f64::from_bits(1), -f64::from_bits(1), 1e-310,
            ];
            let mut out: Vec<Value> = xs.iter().map(|x| json!({ "float": x.to_bits().to_string() })).collect();
            // NaNs: canonical, negative, signalling with a payload only in the bits f32 drops, payload in the kept bits, all ones
            for b in [0x7FF8_0000_0000_0000u64, 0xFFF8_0000_0000_0000, 0x7FF0_0000_0000_0001, 0x7FF0_0000_1000_0000, 0x7FF4_0000_0000_0000, 0x7FF8_0000_2000_0001, 0x7FFF_FFFF_FFFF_FFFF, 0xFFF0_0000_0000_0001] {
                out.push(json!({ "float": b.to_string() }));
            }
            out
        }
        "Float32" => {
            let mut bits: Vec<u32> = vec![
                0, 0x8000_0000, 0x3F80_0000, 0xBF80_0000, 0x7F80_0000, 0xFF80_0000, 0x7F7F_FFFF, 0xFF7F_FFFF, 1, 0x8000_0001, 0x007F_FFFF, 0x0080_0000,
                0x7FC0_0000, 0xFFC0_0000, 0x7F80_0001, 0x7FA0_0000, 0x7FC0_0001, 0x7FFF_FFFF, 0xFF80_0001,
            ];
            for x in [0.1f32, -0.3, 1.5, 16_777_216.0, 3.4e38, 1e-40, 123_456.79] {
                bits.push(x.to_bits());
            }
            bits.into_iter().map(|b| json!({ "float": b.to_string() })).collect()
        }
        "Float16" => {
            let bits: Vec<u16> = vec![
                0, 0x8000, 0x3C00, 0xBC00, 0x7C00, 0xFC00, 0x7BFF, 0xFBFF, 1, 0x8001, 0x03FF, 0x0400, 0x7E00, 0xFE00, 0x7C01, 0x7D00, 0x7E01, 0x7FFF, 0xFC01,
                0x2E66, 0x3555, 0x4248, 0x6400, 0x0200,
            ];
            bits.into_iter().map(|b| json!({ "float": b.to_string() })).collect()
        }
        _ => Vec::new(),
    }
}

/// rows for `field` in which about three quarters of the non-null slots come from `specials` (each used once before
/// any repeats, in a random order), the rest from the ordinary value generator
pub fn gen_rows_with(rng: &mut Rng, field: &Value, n: usize, specials: &[Value]) -> Vec<Value> {
    let mut order: Vec<usize> = (0..specials.len()).collect();
    rng.shuffle(&mut order);
    let mut next = 0usize;
    let nullable = field["nullable"].as_bool().unwrap_or(false);
    (0..n)
        .map(|_| {
            if nullable && rng.chance(1, 6) {
                return Value::Null;
            }
            if !specials.is_empty() && rng.chance(3, 4) {
                let v = specials[order[next % order.len()]].clone();
                next += 1;
                v
            } else {
                gen_value(rng, &field["dt"])
            }
        })
        .collect()
}

/// `n` distinct field names; `one_char`: every name is a single character (of 1 to 4 bytes)
pub fn field_names(rng: &mut Rng, n: usize, one_char: bool) -> Vec<String> {
    if !one_char {
        return distinct_names(rng, n);
    }
    let pool = ["a", "b", "c", "x", "ä", "語", "😀", " ", "0"];
    let mut out: Vec<String> = Vec::new();
    while out.len() < n {
        let cand = rng.pick(&pool).to_string();
        if !out.contains(&cand) {
            out.push(cand);
        }
    }
    out
}
