//! Correspondence harness: runs the *current working tree* of /repo/serde_arrow in-process on
//! generated inputs and writes one JSON case line per input (inputs + what the implementation did).
//!
//!   saharness <suite> gen  --tier quick|thorough --seed N      inputs only, one per line
//!   saharness <suite> exec                                      stdin: input lines → stdout: case lines
//!   saharness <suite> run  --tier T --seed N                    gen | exec
mod outcome;
mod rng;
mod suites;

use serde_json::Value;
use std::io::{BufRead, Write};

pub struct Ctx {
    pub tier: String,
    pub seed: u64,
}

impl Ctx {
    pub fn thorough(&self) -> bool {
        self.tier == "thorough"
    }
}

type GenFn = fn(&Ctx) -> Vec<Value>;
type ExecFn = fn(&Value) -> Value;

fn suite(name: &str) -> Option<(GenFn, ExecFn)> {
    Some(match name {
        "access" => (suites::access::gen, suites::access::exec),
        _ => return None,
    })
}

fn exec_one(name: &str, exec: ExecFn, input: &Value) -> Value {
    let mut case = exec(input);
    if let Some(obj) = case.as_object_mut() {
        obj.insert("suite".into(), Value::String(name.into()));
    }
    case
}

fn main() {
    outcome::install_panic_hook();
    let args: Vec<String> = std::env::args().collect();
    if args.len() < 3 {
        eprintln!("usage: saharness <suite> gen|exec|run [--tier T] [--seed N]");
        std::process::exit(2);
    }
    let name = args[1].clone();
    let mode = args[2].clone();
    let mut tier = std::env::var("VERIF_TIER").unwrap_or_else(|_| "quick".into());
    let mut seed: u64 = std::env::var("VERIF_SEED").ok().and_then(|s| s.parse().ok()).unwrap_or(1);
    let mut i = 3;
    while i < args.len() {
        match args[i].as_str() {
            "--tier" => {
                tier = args[i + 1].clone();
                i += 2;
            }
            "--seed" => {
                seed = args[i + 1].parse().expect("seed");
                i += 2;
            }
            other => {
                eprintln!("unknown argument {other}");
                std::process::exit(2);
            }
        }
    }
    let Some((gen, exec)) = suite(&name) else {
        eprintln!("unknown suite {name}");
        std::process::exit(2);
    };
    let ctx = Ctx { tier, seed };
    let stdout = std::io::stdout();
    let mut out = std::io::BufWriter::new(stdout.lock());
    match mode.as_str() {
        "gen" => {
            for input in gen(&ctx) {
                writeln!(out, "{}", input).unwrap();
            }
        }
        "exec" => {
            let stdin = std::io::stdin();
            for line in stdin.lock().lines() {
                let line = line.unwrap();
                if line.trim().is_empty() {
                    continue;
                }
                let input: Value = serde_json::from_str(&line).expect("input line is JSON");
                writeln!(out, "{}", exec_one(&name, exec, &input)).unwrap();
            }
        }
        "run" => {
            for input in gen(&ctx) {
                writeln!(out, "{}", exec_one(&name, exec, &input)).unwrap();
            }
        }
        _ => {
            eprintln!("unknown mode {mode}");
            std::process::exit(2);
        }
    }
    out.flush().unwrap();
}
