//! Running the real crate under `catch_unwind` and rendering outcomes for the line protocol:
//! `{"ok":…}` | `{"err":{"msg":…,"ann":[[k,v]…]}}` | `{"panic":msg}`.
use serde_json::{json, Value};
use std::cell::RefCell;
use std::panic::{catch_unwind, AssertUnwindSafe};

thread_local! {
    static LAST_PANIC: RefCell<Option<String>> = const { RefCell::new(None) };
}

pub fn install_panic_hook() {
    std::panic::set_hook(Box::new(|info| {
        let msg = if let Some(s) = info.payload().downcast_ref::<&str>() {
            s.to_string()
        } else if let Some(s) = info.payload().downcast_ref::<String>() {
            s.clone()
        } else {
            "<non-string panic>".to_string()
        };
        let loc = info
            .location()
            .map(|l| format!("{}:{}", l.file(), l.line()))
            .unwrap_or_default();
        LAST_PANIC.with(|p| *p.borrow_mut() = Some(format!("{msg} @ {loc}")));
    }));
}

/// Split the Display form of a serde_arrow error into message and annotations.
/// Display is `Error: <msg> (k: "v", k2: "v2")` where values are `{:?}`-quoted.
pub fn parse_error(display: &str) -> Value {
    let s = display.strip_prefix("Error: ").unwrap_or(display);
    let mut ann: Vec<(String, String)> = Vec::new();
    let mut msg = s.to_string();
    if s.ends_with(')') {
        // find the last " (" such that the tail parses as annotations
        let mut search_end = s.len();
        while let Some(pos) = s[..search_end].rfind(" (") {
            let tail = &s[pos + 2..s.len() - 1];
            if let Some(parsed) = parse_annotations(tail) {
                ann = parsed;
                msg = s[..pos].to_string();
                break;
            }
            search_end = pos;
        }
    }
    json!({"msg": msg, "ann": ann.iter().map(|(k, v)| json!([k, v])).collect::<Vec<_>>()})
}

fn parse_annotations(tail: &str) -> Option<Vec<(String, String)>> {
    let b: Vec<char> = tail.chars().collect();
    let mut i = 0;
    let mut out = Vec::new();
    loop {
        let mut key = String::new();
        while i < b.len() && (b[i].is_ascii_alphanumeric() || b[i] == '_') {
            key.push(b[i]);
            i += 1;
        }
        if key.is_empty() || i + 2 >= b.len() || b[i] != ':' || b[i + 1] != ' ' || b[i + 2] != '"' {
            return None;
        }
        i += 3;
        let mut val = String::new();
        loop {
            if i >= b.len() {
                return None;
            }
            match b[i] {
                '\\' => {
                    if i + 1 >= b.len() {
                        return None;
                    }
                    match b[i + 1] {
                        'n' => val.push('\n'),
                        't' => val.push('\t'),
                        'r' => val.push('\r'),
                        '0' => val.push('\0'),
                        '\\' => val.push('\\'),
                        '"' => val.push('"'),
                        '\'' => val.push('\''),
                        'u' => {
                            // \u{..}
                            let mut j = i + 2;
                            if j >= b.len() || b[j] != '{' {
                                return None;
                            }
                            j += 1;
                            let mut hex = String::new();
                            while j < b.len() && b[j] != '}' {
                                hex.push(b[j]);
                                j += 1;
                            }
                            let c = u32::from_str_radix(&hex, 16).ok().and_then(char::from_u32)?;
                            val.push(c);
                            i = j - 1;
                        }
                        _ => return None,
                    }
                    i += 2;
                }
                '"' => {
                    i += 1;
                    break;
                }
                c => {
                    val.push(c);
                    i += 1;
                }
            }
        }
        out.push((key, val));
        if i == b.len() {
            return Some(out);
        }
        if i + 1 < b.len() && b[i] == ',' && b[i + 1] == ' ' {
            i += 2;
        } else {
            return None;
        }
    }
}

/// run `f`, catching unwinds; `Ok(v)` ↦ {"ok": v}
pub fn run<E: std::fmt::Display>(f: impl FnOnce() -> Result<Value, E>) -> Value {
    LAST_PANIC.with(|p| *p.borrow_mut() = None);
    match catch_unwind(AssertUnwindSafe(f)) {
        Ok(Ok(v)) => json!({ "ok": v }),
        Ok(Err(e)) => json!({ "err": parse_error(&e.to_string()) }),
        Err(_) => {
            let msg = LAST_PANIC.with(|p| p.borrow_mut().take()).unwrap_or_default();
            json!({ "panic": msg })
        }
    }
}

/// What the public accessors of a `serde_arrow::Error` say about it (API coverage: `Error::message`, `Display`, `Debug`,
/// `std::error::Error::source`); `debug` is cut after the part that must repeat the Display text.
pub fn error_accessors(e: &serde_arrow::Error) -> Value {
    let display = e.to_string();
    let debug: String = format!("{e:?}").chars().take(display.chars().count() + 12).collect();
    let source = std::error::Error::source(e).map(|s| s.to_string());
    json!({"message": e.message(), "display": display, "debug": debug, "source": source})
}

/// `run` for closures that fail with the crate's own error type: the error object additionally carries `acc`, the
/// accessor view of the same error (checked for agreement with the parsed Display text by the drivers that use it)
pub fn run_sa(f: impl FnOnce() -> Result<Value, serde_arrow::Error>) -> Value {
    LAST_PANIC.with(|p| *p.borrow_mut() = None);
    match catch_unwind(AssertUnwindSafe(f)) {
        Ok(Ok(v)) => json!({ "ok": v }),
        Ok(Err(e)) => {
            let mut o = parse_error(&e.to_string());
            o["acc"] = error_accessors(&e);
            json!({ "err": o })
        }
        Err(_) => {
            let msg = LAST_PANIC.with(|p| p.borrow_mut().take()).unwrap_or_default();
            json!({ "panic": msg })
        }
    }
}

/// message of the panic caught last (for callers that use catch_unwind themselves)
pub fn take_panic() -> String {
    LAST_PANIC.with(|p| p.borrow_mut().take()).unwrap_or_default()
}

pub fn is_ok(v: &Value) -> bool {
    v.get("ok").is_some()
}
