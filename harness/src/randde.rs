//! A RANDOM `serde::Deserializer`: `T::deserialize(RandDe::new(&mut rng))` yields an arbitrary inhabitant of any
//! `T: Deserialize` by answering the calls the (derived) impl makes, so the zoo needs no per-type generators.
//!
//!  * `deserialize_struct` → mostly a `MapAccess` presenting exactly the field names given (every field is set, in
//!    declaration or shuffled order, by name or by index), sometimes a `SeqAccess` of that many elements;
//!  * `deserialize_enum` → a uniformly random variant (by name or index), the payload is whatever the impl asks for
//!    (unit / newtype / tuple / struct);
//!  * `deserialize_option` → `None` one time in four; `deserialize_seq` / `deserialize_map` → 0–4 elements
//!    (fewer when nested deeply); `deserialize_tuple(n)` → n elements;
//!  * scalars are boundary-biased (min, max, 0, ±1, random); floats include ±0, ±inf, subnormals, never NaN
//!    (values are compared with `==`); chars from ASCII, Latin-1, CJK, emoji and the edges of the surrogate gap;
//!    strings include "", lengths 12 and 13 (inline limit of view arrays) and non-ASCII text.
//!  * borrowed targets (`&'de str`, `&'de [u8]`): the data is leaked so that it lives for any `'de`.
#![allow(dead_code)]
use crate::rng::Rng;
use serde::de::{self, DeserializeSeed, Deserializer, EnumAccess, MapAccess, SeqAccess, VariantAccess, Visitor};
use std::fmt;

#[derive(Debug)]
pub struct RandErr(pub String);

impl fmt::Display for RandErr {
    fn fmt(&self, f: &mut fmt::Formatter<'_>) -> fmt::Result {
        write!(f, "randde: {}", self.0)
    }
}
impl std::error::Error for RandErr {}
impl de::Error for RandErr {
    fn custom<T: fmt::Display>(msg: T) -> Self {
        RandErr(msg.to_string())
    }
}

pub struct RandDe<'r> {
    rng: &'r mut Rng,
    depth: u32,
}

impl<'r> RandDe<'r> {
    pub fn new(rng: &'r mut Rng) -> Self {
        RandDe { rng, depth: 0 }
    }
    fn child(&mut self) -> RandDe<'_> {
        RandDe { rng: &mut *self.rng, depth: self.depth + 1 }
    }
}

/// a random value of `T`
pub fn random<'de, T: de::Deserialize<'de>>(rng: &mut Rng) -> Result<T, RandErr> {
    T::deserialize(RandDe::new(rng))
}

pub fn rand_int(r: &mut Rng, lo: i128, hi: i128) -> i128 {
    match r.below(10) {
        0 => lo,
        1 => hi,
        2 => 0i128.clamp(lo, hi),
        3 => 1i128.clamp(lo, hi),
        4 => (-1i128).clamp(lo, hi),
        5 => (lo + 1).min(hi),
        6 => (hi - 1).max(lo),
        7 => (r.below(256) as i128 - 128).clamp(lo, hi),
        _ => {
            let span = (hi - lo + 1) as u128;
            let x = ((r.next_u64() as u128) << 64 | r.next_u64() as u128) % span;
            lo + x as i128
        }
    }
}

pub fn rand_f64(r: &mut Rng) -> f64 {
    match r.below(16) {
        0 => 0.0,
        1 => -0.0,
        2 => f64::INFINITY,
        3 => f64::NEG_INFINITY,
        4 => f64::MIN_POSITIVE,
        5 => f64::from_bits(1),                       // smallest subnormal
        6 => -f64::from_bits(0x000F_FFFF_FFFF_FFFF),  // largest subnormal, negative
        7 => f64::MAX,
        8 => f64::MIN,
        9 => 1.0,
        10 => -1.5,
        11 => 0.1,
        12 => (r.range(-1000, 1000) as f64) / 8.0,
        _ => loop {
            let x = f64::from_bits(r.next_u64());
            if !x.is_nan() {
                break x;
            }
        },
    }
}

pub fn rand_f32(r: &mut Rng) -> f32 {
    match r.below(16) {
        0 => 0.0,
        1 => -0.0,
        2 => f32::INFINITY,
        3 => f32::NEG_INFINITY,
        4 => f32::MIN_POSITIVE,
        5 => f32::from_bits(1),
        6 => -f32::from_bits(0x007F_FFFF),
        7 => f32::MAX,
        8 => f32::MIN,
        9 => 1.0,
        10 => -1.5,
        11 => 0.1,
        12 => (r.range(-1000, 1000) as f32) / 8.0,
        _ => loop {
            let x = f32::from_bits(r.next_u64() as u32);
            if !x.is_nan() {
                break x;
            }
        },
    }
}

pub fn rand_char(r: &mut Rng) -> char {
    match r.below(12) {
        0 => '\0',
        1 => 'a',
        2 => ' ',
        3 => '"',
        4 => 'ß',
        5 => 'é',
        6 => '中',
        7 => '🦀',
        8 => '\u{D7FF}',
        9 => '\u{E000}',
        10 => char::MAX,
        _ => loop {
            if let Some(c) = char::from_u32(r.below(0x11_0000) as u32) {
                break c;
            }
        },
    }
}

pub fn rand_string(r: &mut Rng) -> String {
    match r.below(12) {
        0 => String::new(),
        1 => "a".into(),
        2 => "twelve bytes".into(),      // 12: still inline in a view array
        3 => "thirteen byte".into(),     // 13: first out-of-line length
        4 => "ßüé中🦀".into(),
        5 => "true".into(),
        6 => "null".into(),
        7 => "0".into(),
        8 => "line\nbreak\ttab \"quoted\" \\".into(),
        9 => "\u{2028}\u{0}x".into(),
        _ => {
            let n = r.usize(20);
            (0..n).map(|_| if r.chance(3, 4) { (b'a' + r.below(26) as u8) as char } else { rand_char(r) }).collect()
        }
    }
}

pub fn rand_bytes(r: &mut Rng) -> Vec<u8> {
    match r.below(8) {
        0 => Vec::new(),
        1 => vec![0],
        2 => vec![255; 12],
        3 => vec![7; 13],
        4 => b"\xff\xfe\x00 not utf8".to_vec(),
        _ => {
            let n = r.usize(20);
            (0..n).map(|_| r.below(256) as u8).collect()
        }
    }
}

fn leak_str(s: String) -> &'static str {
    Box::leak(s.into_boxed_str())
}

fn leak_bytes(b: Vec<u8>) -> &'static [u8] {
    Box::leak(b.into_boxed_slice())
}

impl RandDe<'_> {
    fn len(&mut self) -> usize {
        // 0–4 at the top, shorter when nested deeply so that values stay small
        let max = if self.depth >= 6 { 1 } else if self.depth >= 3 { 2 } else { 4 };
        self.rng.usize(max + 1)
    }
}

macro_rules! de_int {
    ($method:ident, $visit:ident, $ty:ty) => {
        fn $method<V: Visitor<'de>>(self, visitor: V) -> Result<V::Value, RandErr> {
            visitor.$visit(rand_int(self.rng, <$ty>::MIN as i128, <$ty>::MAX as i128) as $ty)
        }
    };
}

impl<'de> Deserializer<'de> for RandDe<'_> {
    type Error = RandErr;

    fn deserialize_any<V: Visitor<'de>>(self, visitor: V) -> Result<V::Value, RandErr> {
        // a self-describing source would decide: pick one of the plain kinds
        match self.rng.below(6) {
            0 => visitor.visit_bool(self.rng.bool()),
            1 => visitor.visit_i64(rand_int(self.rng, i64::MIN as i128, i64::MAX as i128) as i64),
            2 => visitor.visit_u64(rand_int(self.rng, 0, u64::MAX as i128) as u64),
            3 => visitor.visit_f64(rand_f64(self.rng)),
            4 => visitor.visit_string(rand_string(self.rng)),
            _ => visitor.visit_unit(),
        }
    }
    fn deserialize_bool<V: Visitor<'de>>(self, visitor: V) -> Result<V::Value, RandErr> {
        visitor.visit_bool(self.rng.bool())
    }
    de_int!(deserialize_i8, visit_i8, i8);
    de_int!(deserialize_i16, visit_i16, i16);
    de_int!(deserialize_i32, visit_i32, i32);
    de_int!(deserialize_i64, visit_i64, i64);
    de_int!(deserialize_u8, visit_u8, u8);
    de_int!(deserialize_u16, visit_u16, u16);
    de_int!(deserialize_u32, visit_u32, u32);
    de_int!(deserialize_u64, visit_u64, u64);
    fn deserialize_f32<V: Visitor<'de>>(self, visitor: V) -> Result<V::Value, RandErr> {
        visitor.visit_f32(rand_f32(self.rng))
    }
    fn deserialize_f64<V: Visitor<'de>>(self, visitor: V) -> Result<V::Value, RandErr> {
        visitor.visit_f64(rand_f64(self.rng))
    }
    fn deserialize_char<V: Visitor<'de>>(self, visitor: V) -> Result<V::Value, RandErr> {
        visitor.visit_char(rand_char(self.rng))
    }
    fn deserialize_str<V: Visitor<'de>>(self, visitor: V) -> Result<V::Value, RandErr> {
        // `&'de str` targets accept borrowed data only
        visitor.visit_borrowed_str(leak_str(rand_string(self.rng)))
    }
    fn deserialize_string<V: Visitor<'de>>(self, visitor: V) -> Result<V::Value, RandErr> {
        visitor.visit_string(rand_string(self.rng))
    }
    fn deserialize_bytes<V: Visitor<'de>>(self, visitor: V) -> Result<V::Value, RandErr> {
        visitor.visit_borrowed_bytes(leak_bytes(rand_bytes(self.rng)))
    }
    fn deserialize_byte_buf<V: Visitor<'de>>(self, visitor: V) -> Result<V::Value, RandErr> {
        visitor.visit_byte_buf(rand_bytes(self.rng))
    }
    fn deserialize_option<V: Visitor<'de>>(mut self, visitor: V) -> Result<V::Value, RandErr> {
        if self.rng.chance(1, 4) {
            visitor.visit_none()
        } else {
            visitor.visit_some(self.child())
        }
    }
    fn deserialize_unit<V: Visitor<'de>>(self, visitor: V) -> Result<V::Value, RandErr> {
        visitor.visit_unit()
    }
    fn deserialize_unit_struct<V: Visitor<'de>>(self, _name: &'static str, visitor: V) -> Result<V::Value, RandErr> {
        visitor.visit_unit()
    }
    fn deserialize_newtype_struct<V: Visitor<'de>>(mut self, _name: &'static str, visitor: V) -> Result<V::Value, RandErr> {
        visitor.visit_newtype_struct(self.child())
    }
    fn deserialize_seq<V: Visitor<'de>>(mut self, visitor: V) -> Result<V::Value, RandErr> {
        let n = self.len();
        visitor.visit_seq(RandSeq { de: self.child(), left: n })
    }
    fn deserialize_tuple<V: Visitor<'de>>(mut self, len: usize, visitor: V) -> Result<V::Value, RandErr> {
        visitor.visit_seq(RandSeq { de: self.child(), left: len })
    }
    fn deserialize_tuple_struct<V: Visitor<'de>>(mut self, _name: &'static str, len: usize, visitor: V) -> Result<V::Value, RandErr> {
        visitor.visit_seq(RandSeq { de: self.child(), left: len })
    }
    fn deserialize_map<V: Visitor<'de>>(mut self, visitor: V) -> Result<V::Value, RandErr> {
        let n = self.len();
        visitor.visit_map(RandMap { de: self.child(), left: n })
    }
    fn deserialize_struct<V: Visitor<'de>>(
        mut self,
        _name: &'static str,
        fields: &'static [&'static str],
        visitor: V,
    ) -> Result<V::Value, RandErr> {
        if self.rng.chance(1, 4) {
            return visitor.visit_seq(RandSeq { de: self.child(), left: fields.len() });
        }
        let mut order: Vec<usize> = (0..fields.len()).collect();
        if self.rng.chance(1, 3) {
            self.rng.shuffle(&mut order);
        }
        let by_index = self.rng.chance(1, 4);
        visitor.visit_map(RandStruct { de: self.child(), fields, order, pos: 0, by_index })
    }
    fn deserialize_enum<V: Visitor<'de>>(
        mut self,
        name: &'static str,
        variants: &'static [&'static str],
        visitor: V,
    ) -> Result<V::Value, RandErr> {
        if variants.is_empty() {
            return Err(RandErr(format!("enum {name} has no variants")));
        }
        let idx = self.rng.usize(variants.len());
        let by_index = self.rng.chance(1, 3);
        visitor.visit_enum(RandEnum { de: self.child(), idx, name: variants[idx], by_index })
    }
    fn deserialize_identifier<V: Visitor<'de>>(self, visitor: V) -> Result<V::Value, RandErr> {
        // identifiers are answered by `Ident`; a bare request has no offered names
        visitor.visit_string(rand_string(self.rng))
    }
    fn deserialize_ignored_any<V: Visitor<'de>>(self, visitor: V) -> Result<V::Value, RandErr> {
        visitor.visit_unit()
    }
    fn is_human_readable(&self) -> bool {
        true
    }
}

struct RandSeq<'r> {
    de: RandDe<'r>,
    left: usize,
}

impl<'de> SeqAccess<'de> for RandSeq<'_> {
    type Error = RandErr;
    fn next_element_seed<T: DeserializeSeed<'de>>(&mut self, seed: T) -> Result<Option<T::Value>, RandErr> {
        if self.left == 0 {
            return Ok(None);
        }
        self.left -= 1;
        seed.deserialize(self.de.child()).map(Some)
    }
    fn size_hint(&self) -> Option<usize> {
        Some(self.left)
    }
}

struct RandMap<'r> {
    de: RandDe<'r>,
    left: usize,
}

impl<'de> MapAccess<'de> for RandMap<'_> {
    type Error = RandErr;
    fn next_key_seed<K: DeserializeSeed<'de>>(&mut self, seed: K) -> Result<Option<K::Value>, RandErr> {
        if self.left == 0 {
            return Ok(None);
        }
        self.left -= 1;
        seed.deserialize(self.de.child()).map(Some)
    }
    fn next_value_seed<V: DeserializeSeed<'de>>(&mut self, seed: V) -> Result<V::Value, RandErr> {
        seed.deserialize(self.de.child())
    }
    fn size_hint(&self) -> Option<usize> {
        Some(self.left)
    }
}

/// the identifier of a field or variant: by name or by index, as derive accepts both
struct Ident {
    idx: usize,
    name: &'static str,
    by_index: bool,
}

impl<'de> Deserializer<'de> for Ident {
    type Error = RandErr;
    fn deserialize_any<V: Visitor<'de>>(self, visitor: V) -> Result<V::Value, RandErr> {
        if self.by_index {
            visitor.visit_u64(self.idx as u64)
        } else {
            visitor.visit_str(self.name)
        }
    }
    serde::forward_to_deserialize_any! {
        bool i8 i16 i32 i64 i128 u8 u16 u32 u64 u128 f32 f64 char str string bytes byte_buf option unit unit_struct
        newtype_struct seq tuple tuple_struct map struct enum identifier ignored_any
    }
}

struct RandStruct<'r> {
    de: RandDe<'r>,
    fields: &'static [&'static str],
    order: Vec<usize>,
    pos: usize,
    by_index: bool,
}

impl<'de> MapAccess<'de> for RandStruct<'_> {
    type Error = RandErr;
    fn next_key_seed<K: DeserializeSeed<'de>>(&mut self, seed: K) -> Result<Option<K::Value>, RandErr> {
        if self.pos >= self.order.len() {
            return Ok(None);
        }
        let idx = self.order[self.pos];
        seed.deserialize(Ident { idx, name: self.fields[idx], by_index: self.by_index }).map(Some)
    }
    fn next_value_seed<V: DeserializeSeed<'de>>(&mut self, seed: V) -> Result<V::Value, RandErr> {
        self.pos += 1;
        seed.deserialize(self.de.child())
    }
    fn size_hint(&self) -> Option<usize> {
        Some(self.order.len() - self.pos)
    }
}

struct RandEnum<'r> {
    de: RandDe<'r>,
    idx: usize,
    name: &'static str,
    by_index: bool,
}

impl<'de, 'r> EnumAccess<'de> for RandEnum<'r> {
    type Error = RandErr;
    type Variant = RandDe<'r>;
    fn variant_seed<V: DeserializeSeed<'de>>(self, seed: V) -> Result<(V::Value, RandDe<'r>), RandErr> {
        let v = seed.deserialize(Ident { idx: self.idx, name: self.name, by_index: self.by_index })?;
        Ok((v, self.de))
    }
}

impl<'de> VariantAccess<'de> for RandDe<'_> {
    type Error = RandErr;
    fn unit_variant(self) -> Result<(), RandErr> {
        Ok(())
    }
    fn newtype_variant_seed<T: DeserializeSeed<'de>>(self, seed: T) -> Result<T::Value, RandErr> {
        seed.deserialize(self)
    }
    fn tuple_variant<V: Visitor<'de>>(self, len: usize, visitor: V) -> Result<V::Value, RandErr> {
        self.deserialize_tuple(len, visitor)
    }
    fn struct_variant<V: Visitor<'de>>(self, fields: &'static [&'static str], visitor: V) -> Result<V::Value, RandErr> {
        self.deserialize_struct("", fields, visitor)
    }
}
