//! Shared by the reader suites (read, corrupt): run a list of reads on one column view through the public API
//! `serde_arrow::Deserializer::from_marrow(&[field], &[view])` + `get(idx)` / bulk `Deserialize`, every call
//! under catch_unwind.  A read is `{"ty": <target, addressed to the record>, "idx": i}` or `{"bulk": <record target>}`.
#![allow(dead_code)]
use crate::dump::Owned;
use crate::dynde::Target;
use crate::outcome;
use crate::schema_dump::meta_from_json;
use marrow::datatypes::{DataType, Field};
use marrow::view::View;
use serde::de::DeserializeSeed;
use serde_json::{json, Value};
use std::panic::{catch_unwind, AssertUnwindSafe};

pub fn field_of(fm: &Value) -> Field {
    Field {
        name: fm["name"].as_str().unwrap_or("c").to_string(),
        data_type: DataType::Null,
        nullable: fm["nullable"].as_bool().unwrap_or(false),
        metadata: meta_from_json(&fm["meta"]),
    }
}

/// → (ctor outcome, one outcome per read)
pub fn run_reads_on_view(fields: &[Field], views: &[View], reads: &[Value]) -> (Value, Vec<Value>) {
    let made = catch_unwind(AssertUnwindSafe(|| serde_arrow::Deserializer::from_marrow(fields, views)));
    let de = match made {
        Err(_) => return (json!({"panic": outcome::take_panic()}), Vec::new()),
        Ok(Err(e)) => return (json!({"err": outcome::parse_error(&e.to_string())}), Vec::new()),
        Ok(Ok(de)) => de,
    };
    let ctor = json!({"ok": de.len()});
    let mut outs = Vec::new();
    for r in reads {
        if let Some(ty) = r.get("bulk") {
            let seq = json!({"seq": ty});
            let out = outcome::run(|| {
                let d = serde_arrow::Deserializer::from_marrow(fields, views)?;
                Target(&seq).deserialize(d)
            });
            outs.push(out);
            continue;
        }
        let idx = r["idx"].as_u64().unwrap() as usize;
        let ty = &r["ty"];
        let got = catch_unwind(AssertUnwindSafe(|| de.get(idx).is_some()));
        match got {
            Err(_) => outs.push(json!({"panic": outcome::take_panic()})),
            Ok(false) => outs.push(json!({"none_item": true})),
            Ok(true) => outs.push(outcome::run(|| Target(ty).deserialize(de.get(idx).unwrap()))),
        }
    }
    (ctor, outs)
}

pub fn run_reads(view_json: &Value, fm: &Value, reads: &[Value]) -> (Value, Vec<Value>) {
    let owned = Owned::from_json(view_json);
    let view = owned.view();
    let fields = vec![field_of(fm)];
    run_reads_on_view(&fields, &[view], reads)
}
