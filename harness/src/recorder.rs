//! Recording `serde::Serializer`: turns any `T: Serialize` into the wire-form SVal JSON of `sval.rs`
//! (exactly one object per serializer call).  It is the inverse of `SVal(&json): Serialize`:
//!   record(&SVal(&j)) == j            for every wire-form value j (sval.rs issues the calls the wire form names)
//!   record(&SVal(&record(&v))) == record(&v)   for every real derived value v   (checked on every run of the
//!                                               `roundtrip` suite: DESIGN.md 2.3, "harness fidelity")
//! The second equation is what validates `sval.rs` against real `#[derive(Serialize)]` impls: the call stream a
//! derive produces is reproduced call for call by the dynamic value.
#![allow(dead_code)]
use crate::sval;
use serde::ser::{self, Serialize};
use serde_json::{json, Value};
use std::fmt;

#[derive(Debug)]
pub struct RecErr(pub String);

impl fmt::Display for RecErr {
    fn fmt(&self, f: &mut fmt::Formatter<'_>) -> fmt::Result {
        write!(f, "recorder: {}", self.0)
    }
}
impl std::error::Error for RecErr {}
impl ser::Error for RecErr {
    fn custom<T: fmt::Display>(msg: T) -> Self {
        RecErr(msg.to_string())
    }
}

pub fn record<T: Serialize + ?Sized>(v: &T) -> Result<Value, RecErr> {
    v.serialize(Recorder)
}

/// a sequence of values as the list of their recordings
pub fn record_all<T: Serialize>(vs: &[T]) -> Result<Vec<Value>, RecErr> {
    vs.iter().map(record).collect()
}

pub struct Recorder;

pub struct RecSeq {
    kind: &'static str,
    name: Option<&'static str>,
    variant: Option<(u32, &'static str)>,
    items: Vec<Value>,
}

pub struct RecFields {
    kind: &'static str,
    name: &'static str,
    variant: Option<(u32, &'static str)>,
    fields: Vec<Value>,
}

pub struct RecMap {
    entries: Vec<Value>,
    key: Option<Value>,
}

impl RecSeq {
    fn finish(self) -> Value {
        let mut o = serde_json::Map::new();
        o.insert("k".into(), json!(self.kind));
        if let Some(n) = self.name {
            o.insert("n".into(), json!(n));
        }
        if let Some((i, vn)) = self.variant {
            o.insert("i".into(), json!(i));
            o.insert("vn".into(), json!(vn));
        }
        o.insert("v".into(), Value::Array(self.items));
        Value::Object(o)
    }
}

impl RecFields {
    fn finish(self) -> Value {
        let mut o = serde_json::Map::new();
        o.insert("k".into(), json!(self.kind));
        o.insert("n".into(), json!(self.name));
        if let Some((i, vn)) = self.variant {
            o.insert("i".into(), json!(i));
            o.insert("vn".into(), json!(vn));
        }
        o.insert("f".into(), Value::Array(self.fields));
        Value::Object(o)
    }
}

impl ser::Serializer for Recorder {
    type Ok = Value;
    type Error = RecErr;
    type SerializeSeq = RecSeq;
    type SerializeTuple = RecSeq;
    type SerializeTupleStruct = RecSeq;
    type SerializeTupleVariant = RecSeq;
    type SerializeMap = RecMap;
    type SerializeStruct = RecFields;
    type SerializeStructVariant = RecFields;

    fn serialize_bool(self, v: bool) -> Result<Value, RecErr> {
        Ok(sval::boolean(v))
    }
    fn serialize_i8(self, v: i8) -> Result<Value, RecErr> {
        Ok(sval::int("i8", v as i128))
    }
    fn serialize_i16(self, v: i16) -> Result<Value, RecErr> {
        Ok(sval::int("i16", v as i128))
    }
    fn serialize_i32(self, v: i32) -> Result<Value, RecErr> {
        Ok(sval::int("i32", v as i128))
    }
    fn serialize_i64(self, v: i64) -> Result<Value, RecErr> {
        Ok(sval::int("i64", v as i128))
    }
    fn serialize_u8(self, v: u8) -> Result<Value, RecErr> {
        Ok(sval::int("u8", v as i128))
    }
    fn serialize_u16(self, v: u16) -> Result<Value, RecErr> {
        Ok(sval::int("u16", v as i128))
    }
    fn serialize_u32(self, v: u32) -> Result<Value, RecErr> {
        Ok(sval::int("u32", v as i128))
    }
    fn serialize_u64(self, v: u64) -> Result<Value, RecErr> {
        Ok(sval::int("u64", v as i128))
    }
    fn serialize_f32(self, v: f32) -> Result<Value, RecErr> {
        Ok(sval::f32v(v))
    }
    fn serialize_f64(self, v: f64) -> Result<Value, RecErr> {
        Ok(sval::f64v(v))
    }
    fn serialize_char(self, v: char) -> Result<Value, RecErr> {
        Ok(sval::chr(v))
    }
    fn serialize_str(self, v: &str) -> Result<Value, RecErr> {
        Ok(sval::string(v))
    }
    fn serialize_bytes(self, v: &[u8]) -> Result<Value, RecErr> {
        Ok(sval::bytes(v))
    }
    fn serialize_none(self) -> Result<Value, RecErr> {
        Ok(sval::none())
    }
    fn serialize_some<T: Serialize + ?Sized>(self, v: &T) -> Result<Value, RecErr> {
        Ok(sval::some(v.serialize(Recorder)?))
    }
    fn serialize_unit(self) -> Result<Value, RecErr> {
        Ok(sval::unit())
    }
    fn serialize_unit_struct(self, name: &'static str) -> Result<Value, RecErr> {
        Ok(sval::unit_struct(name))
    }
    fn serialize_unit_variant(self, name: &'static str, idx: u32, variant: &'static str) -> Result<Value, RecErr> {
        Ok(sval::unit_variant(name, idx, variant))
    }
    fn serialize_newtype_struct<T: Serialize + ?Sized>(self, name: &'static str, v: &T) -> Result<Value, RecErr> {
        Ok(sval::newtype_struct(name, v.serialize(Recorder)?))
    }
    fn serialize_newtype_variant<T: Serialize + ?Sized>(
        self,
        name: &'static str,
        idx: u32,
        variant: &'static str,
        v: &T,
    ) -> Result<Value, RecErr> {
        Ok(sval::newtype_variant(name, idx, variant, v.serialize(Recorder)?))
    }
    fn serialize_seq(self, _len: Option<usize>) -> Result<RecSeq, RecErr> {
        Ok(RecSeq { kind: "seq", name: None, variant: None, items: Vec::new() })
    }
    fn serialize_tuple(self, _len: usize) -> Result<RecSeq, RecErr> {
        Ok(RecSeq { kind: "tuple", name: None, variant: None, items: Vec::new() })
    }
    fn serialize_tuple_struct(self, name: &'static str, _len: usize) -> Result<RecSeq, RecErr> {
        Ok(RecSeq { kind: "tuple_struct", name: Some(name), variant: None, items: Vec::new() })
    }
    fn serialize_tuple_variant(self, name: &'static str, idx: u32, variant: &'static str, _len: usize) -> Result<RecSeq, RecErr> {
        Ok(RecSeq { kind: "tuple_variant", name: Some(name), variant: Some((idx, variant)), items: Vec::new() })
    }
    fn serialize_map(self, _len: Option<usize>) -> Result<RecMap, RecErr> {
        Ok(RecMap { entries: Vec::new(), key: None })
    }
    fn serialize_struct(self, name: &'static str, _len: usize) -> Result<RecFields, RecErr> {
        Ok(RecFields { kind: "struct", name, variant: None, fields: Vec::new() })
    }
    fn serialize_struct_variant(self, name: &'static str, idx: u32, variant: &'static str, _len: usize) -> Result<RecFields, RecErr> {
        Ok(RecFields { kind: "struct_variant", name, variant: Some((idx, variant)), fields: Vec::new() })
    }
    fn is_human_readable(&self) -> bool {
        // serde_arrow's serializers keep the default (true)
        true
    }
}

impl ser::SerializeSeq for RecSeq {
    type Ok = Value;
    type Error = RecErr;
    fn serialize_element<T: Serialize + ?Sized>(&mut self, v: &T) -> Result<(), RecErr> {
        self.items.push(v.serialize(Recorder)?);
        Ok(())
    }
    fn end(self) -> Result<Value, RecErr> {
        Ok(self.finish())
    }
}
impl ser::SerializeTuple for RecSeq {
    type Ok = Value;
    type Error = RecErr;
    fn serialize_element<T: Serialize + ?Sized>(&mut self, v: &T) -> Result<(), RecErr> {
        self.items.push(v.serialize(Recorder)?);
        Ok(())
    }
    fn end(self) -> Result<Value, RecErr> {
        Ok(self.finish())
    }
}
impl ser::SerializeTupleStruct for RecSeq {
    type Ok = Value;
    type Error = RecErr;
    fn serialize_field<T: Serialize + ?Sized>(&mut self, v: &T) -> Result<(), RecErr> {
        self.items.push(v.serialize(Recorder)?);
        Ok(())
    }
    fn end(self) -> Result<Value, RecErr> {
        Ok(self.finish())
    }
}
impl ser::SerializeTupleVariant for RecSeq {
    type Ok = Value;
    type Error = RecErr;
    fn serialize_field<T: Serialize + ?Sized>(&mut self, v: &T) -> Result<(), RecErr> {
        self.items.push(v.serialize(Recorder)?);
        Ok(())
    }
    fn end(self) -> Result<Value, RecErr> {
        Ok(self.finish())
    }
}
impl ser::SerializeStruct for RecFields {
    type Ok = Value;
    type Error = RecErr;
    fn serialize_field<T: Serialize + ?Sized>(&mut self, key: &'static str, v: &T) -> Result<(), RecErr> {
        self.fields.push(json!([key, 0, v.serialize(Recorder)?]));
        Ok(())
    }
    fn end(self) -> Result<Value, RecErr> {
        Ok(self.finish())
    }
}
impl ser::SerializeStructVariant for RecFields {
    type Ok = Value;
    type Error = RecErr;
    fn serialize_field<T: Serialize + ?Sized>(&mut self, key: &'static str, v: &T) -> Result<(), RecErr> {
        self.fields.push(json!([key, 0, v.serialize(Recorder)?]));
        Ok(())
    }
    fn end(self) -> Result<Value, RecErr> {
        Ok(self.finish())
    }
}
impl ser::SerializeMap for RecMap {
    type Ok = Value;
    type Error = RecErr;
    fn serialize_key<T: Serialize + ?Sized>(&mut self, k: &T) -> Result<(), RecErr> {
        if self.key.is_some() {
            return Err(RecErr("serialize_key twice in a row (the wire form `map` has pairs only)".into()));
        }
        self.key = Some(k.serialize(Recorder)?);
        Ok(())
    }
    fn serialize_value<T: Serialize + ?Sized>(&mut self, v: &T) -> Result<(), RecErr> {
        let Some(k) = self.key.take() else {
            return Err(RecErr("serialize_value without a key (the wire form `map` has pairs only)".into()));
        };
        self.entries.push(json!([k, v.serialize(Recorder)?]));
        Ok(())
    }
    fn end(self) -> Result<Value, RecErr> {
        if self.key.is_some() {
            return Err(RecErr("map ended after a key".into()));
        }
        Ok(json!({"k": "map", "e": self.entries}))
    }
}

/// recorder ∘ sval = id on one wire-form value (the fidelity equation)
pub fn fidelity_ok(j: &Value) -> bool {
    match record(&sval::SVal(j)) {
        Ok(j2) => &j2 == j,
        Err(_) => false,
    }
}
