//! SplitMix64: every random choice of the harness derives from VERIF_SEED through this.
#[derive(Clone, Debug)]
pub struct Rng(pub u64);

impl Rng {
    pub fn new(seed: u64) -> Self {
        Rng(seed ^ 0x9E37_79B9_7F4A_7C15)
    }
    pub fn next_u64(&mut self) -> u64 {
        self.0 = self.0.wrapping_add(0x9E37_79B9_7F4A_7C15);
        let mut z = self.0;
        z = (z ^ (z >> 30)).wrapping_mul(0xBF58_476D_1CE4_E5B9);
        z = (z ^ (z >> 27)).wrapping_mul(0x94D0_49BB_1331_11EB);
        z ^ (z >> 31)
    }
    /// independent sub-stream (recorded per case so that one case replays exactly)
    pub fn fork(&mut self) -> Rng {
        Rng(self.next_u64())
    }
    pub fn below(&mut self, n: u64) -> u64 {
        if n == 0 {
            0
        } else {
            self.next_u64() % n
        }
    }
    pub fn range(&mut self, lo: i64, hi: i64) -> i64 {
        // inclusive
        let span = (hi as i128 - lo as i128 + 1) as u128;
        (lo as i128 + (self.next_u64() as u128 % span) as i128) as i64
    }
    pub fn usize(&mut self, n: usize) -> usize {
        self.below(n as u64) as usize
    }
    pub fn bool(&mut self) -> bool {
        self.next_u64() & 1 == 1
    }
    pub fn chance(&mut self, num: u64, den: u64) -> bool {
        self.below(den) < num
    }
    pub fn pick<'a, T>(&mut self, xs: &'a [T]) -> &'a T {
        &xs[self.usize(xs.len())]
    }
    pub fn shuffle<T>(&mut self, xs: &mut [T]) {
        for i in (1..xs.len()).rev() {
            let j = self.usize(i + 1);
            xs.swap(i, j);
        }
    }
}
