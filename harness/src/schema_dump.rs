//! Wire form of marrow `Field` / `DataType` (DESIGN.md Appendix A); mirrored by lean/Driver/SchemaJson.lean.
//!   {"name":…,"nullable":…,"meta":[[k,v]… sorted],"dt":{"t":"Int32", …parameters…}}
#![allow(dead_code)]
use marrow::datatypes::{DataType, Field, IntervalUnit, TimeUnit, UnionMode};
use serde_json::{json, Value};
use std::collections::HashMap;

pub fn meta_to_json(m: &HashMap<String, String>) -> Value {
    let mut kv: Vec<(&String, &String)> = m.iter().collect();
    kv.sort();
    Value::Array(kv.into_iter().map(|(k, v)| json!([k, v])).collect())
}

pub fn unit_str(u: TimeUnit) -> &'static str {
    match u {
        TimeUnit::Second => "Second",
        TimeUnit::Millisecond => "Millisecond",
        TimeUnit::Microsecond => "Microsecond",
        TimeUnit::Nanosecond => "Nanosecond",
    }
}

pub fn unit_from(s: &str) -> TimeUnit {
    match s {
        "Second" => TimeUnit::Second,
        "Millisecond" => TimeUnit::Millisecond,
        "Microsecond" => TimeUnit::Microsecond,
        "Nanosecond" => TimeUnit::Nanosecond,
        _ => panic!("bad unit {s}"),
    }
}

pub fn dt_to_json(dt: &DataType) -> Value {
    use DataType as T;
    match dt {
        T::Null => json!({"t": "Null"}),
        T::Boolean => json!({"t": "Boolean"}),
        T::Int8 => json!({"t": "Int8"}),
        T::Int16 => json!({"t": "Int16"}),
        T::Int32 => json!({"t": "Int32"}),
        T::Int64 => json!({"t": "Int64"}),
        T::UInt8 => json!({"t": "UInt8"}),
        T::UInt16 => json!({"t": "UInt16"}),
        T::UInt32 => json!({"t": "UInt32"}),
        T::UInt64 => json!({"t": "UInt64"}),
        T::Float16 => json!({"t": "Float16"}),
        T::Float32 => json!({"t": "Float32"}),
        T::Float64 => json!({"t": "Float64"}),
        T::Utf8 => json!({"t": "Utf8"}),
        T::LargeUtf8 => json!({"t": "LargeUtf8"}),
        T::Utf8View => json!({"t": "Utf8View"}),
        T::Binary => json!({"t": "Binary"}),
        T::LargeBinary => json!({"t": "LargeBinary"}),
        T::BinaryView => json!({"t": "BinaryView"}),
        T::FixedSizeBinary(n) => json!({"t": "FixedSizeBinary", "n": n}),
        T::Date32 => json!({"t": "Date32"}),
        T::Date64 => json!({"t": "Date64"}),
        T::Timestamp(u, tz) => json!({"t": "Timestamp", "unit": unit_str(*u), "tz": tz}),
        T::Time32(u) => json!({"t": "Time32", "unit": unit_str(*u)}),
        T::Time64(u) => json!({"t": "Time64", "unit": unit_str(*u)}),
        T::Duration(u) => json!({"t": "Duration", "unit": unit_str(*u)}),
        T::Interval(u) => json!({"t": "Interval", "unit": match u {
            IntervalUnit::YearMonth => "YearMonth",
            IntervalUnit::DayTime => "DayTime",
            IntervalUnit::MonthDayNano => "MonthDayNano",
        }}),
        T::Decimal128(p, s) => json!({"t": "Decimal128", "p": p, "s": s}),
        T::Struct(fs) => json!({"t": "Struct", "fields": fs.iter().map(field_to_json).collect::<Vec<_>>()}),
        T::List(f) => json!({"t": "List", "child": field_to_json(f)}),
        T::LargeList(f) => json!({"t": "LargeList", "child": field_to_json(f)}),
        T::FixedSizeList(f, n) => json!({"t": "FixedSizeList", "child": field_to_json(f), "n": n}),
        T::Map(f, sorted) => json!({"t": "Map", "entries": field_to_json(f), "sorted": sorted}),
        T::Dictionary(k, v) => json!({"t": "Dictionary", "key": dt_to_json(k), "value": dt_to_json(v)}),
        T::RunEndEncoded(a, b) => json!({"t": "RunEndEncoded", "run_ends": field_to_json(a), "values": field_to_json(b)}),
        T::Union(fs, mode) => json!({"t": "Union",
            "fields": fs.iter().map(|(i, f)| json!([i, field_to_json(f)])).collect::<Vec<_>>(),
            "mode": match mode { UnionMode::Dense => "Dense", UnionMode::Sparse => "Sparse" }}),
        other => json!({"t": format!("Unsupported:{other:?}")}),
    }
}

pub fn field_to_json(f: &Field) -> Value {
    json!({"name": f.name, "nullable": f.nullable, "meta": meta_to_json(&f.metadata), "dt": dt_to_json(&f.data_type)})
}

pub fn meta_from_json(v: &Value) -> HashMap<String, String> {
    v.as_array()
        .map(|a| {
            a.iter()
                .map(|kv| (kv[0].as_str().unwrap().to_string(), kv[1].as_str().unwrap().to_string()))
                .collect()
        })
        .unwrap_or_default()
}

pub fn dt_from_json(v: &Value) -> DataType {
    use DataType as T;
    let unit = || unit_from(v["unit"].as_str().unwrap());
    match v["t"].as_str().unwrap() {
        "Null" => T::Null,
        "Boolean" => T::Boolean,
        "Int8" => T::Int8,
        "Int16" => T::Int16,
        "Int32" => T::Int32,
        "Int64" => T::Int64,
        "UInt8" => T::UInt8,
        "UInt16" => T::UInt16,
        "UInt32" => T::UInt32,
        "UInt64" => T::UInt64,
        "Float16" => T::Float16,
        "Float32" => T::Float32,
        "Float64" => T::Float64,
        "Utf8" => T::Utf8,
        "LargeUtf8" => T::LargeUtf8,
        "Utf8View" => T::Utf8View,
        "Binary" => T::Binary,
        "LargeBinary" => T::LargeBinary,
        "BinaryView" => T::BinaryView,
        "FixedSizeBinary" => T::FixedSizeBinary(v["n"].as_i64().unwrap() as i32),
        "Date32" => T::Date32,
        "Date64" => T::Date64,
        "Timestamp" => T::Timestamp(unit(), v["tz"].as_str().map(|s| s.to_string())),
        "Time32" => T::Time32(unit()),
        "Time64" => T::Time64(unit()),
        "Duration" => T::Duration(unit()),
        "Interval" => T::Interval(match v["unit"].as_str().unwrap() {
            "YearMonth" => IntervalUnit::YearMonth,
            "DayTime" => IntervalUnit::DayTime,
            _ => IntervalUnit::MonthDayNano,
        }),
        "Decimal128" => T::Decimal128(v["p"].as_u64().unwrap() as u8, v["s"].as_i64().unwrap() as i8),
        "Struct" => T::Struct(v["fields"].as_array().unwrap().iter().map(field_from_json).collect()),
        "List" => T::List(Box::new(field_from_json(&v["child"]))),
        "LargeList" => T::LargeList(Box::new(field_from_json(&v["child"]))),
        "FixedSizeList" => T::FixedSizeList(Box::new(field_from_json(&v["child"])), v["n"].as_i64().unwrap() as i32),
        "Map" => T::Map(Box::new(field_from_json(&v["entries"])), v["sorted"].as_bool().unwrap()),
        "Dictionary" => T::Dictionary(Box::new(dt_from_json(&v["key"])), Box::new(dt_from_json(&v["value"]))),
        "RunEndEncoded" => T::RunEndEncoded(Box::new(field_from_json(&v["run_ends"])), Box::new(field_from_json(&v["values"]))),
        "Union" => T::Union(
            v["fields"].as_array().unwrap().iter().map(|e| (e[0].as_i64().unwrap() as i8, field_from_json(&e[1]))).collect(),
            if v["mode"].as_str() == Some("Sparse") { UnionMode::Sparse } else { UnionMode::Dense },
        ),
        other => panic!("unknown data type on the wire: {other}"),
    }
}

pub fn field_from_json(v: &Value) -> Field {
    Field {
        name: v["name"].as_str().unwrap().to_string(),
        nullable: v["nullable"].as_bool().unwrap(),
        metadata: meta_from_json(&v["meta"]),
        data_type: dt_from_json(&v["dt"]),
    }
}
