//! suite `access` (C13): access histories over the real `serde_arrow::Deserializer`
//! (len / is_empty / get / iter / next / size_hint / bulk reads), on hand-assembled marrow views
//! whose logical rows the generator knows.
//!
//! API coverage (notes/api_coverage.md): `iter_last` (provided `Iterator::last`), `collect_rev` (all items of a fresh
//! iterator collected first and deserialized afterwards in REVERSE order: a `DeserializerItem` is a stand-alone handle),
//! and `top` — the `Deserializer` itself driven through every `serde::Deserializer` method: `seq`, `tuple`,
//! `tuple_struct`, `any`, `newtype` (documented to give the sequence of records), `ignored`, and the methods that must
//! refuse with an error (all 25: the integers and floats, `bool`, `char`, `str`, `string`, `bytes`, `byte_buf`, `option`,
//! `unit`, `unit_struct`, `map`, `struct`, `enum`, `identifier`).
use crate::outcome;
use crate::rng::Rng;
use crate::Ctx;
use marrow::array::{Array, BooleanArray, BytesArray, PrimitiveArray};
use marrow::datatypes::{DataType, Field};
use serde::Deserialize;
use serde_json::{json, Map, Value};

fn pack_bits(bits: &[bool]) -> Vec<u8> {
    let mut out = vec![0u8; (bits.len() + 7) / 8];
    for (i, b) in bits.iter().enumerate() {
        if *b {
            out[i / 8] |= 1 << (i % 8);
        }
    }
    out
}

fn gen_col(rng: &mut Rng, idx: usize, len: usize) -> Value {
    let ty = *rng.pick(&["Int32", "Int64", "Utf8", "Boolean"]);
    let nullable = rng.bool();
    let mut values = Vec::new();
    for _ in 0..len {
        if nullable && rng.chance(1, 4) {
            values.push(Value::Null);
            continue;
        }
        values.push(match ty {
            "Int32" => json!(rng.range(i32::MIN as i64, i32::MAX as i64)),
            "Int64" => json!(rng.range(-1_000_000_000_000, 1_000_000_000_000)),
            "Utf8" => {
                let n = rng.usize(5);
                let s: String = (0..n).map(|_| *rng.pick(&['a', 'b', 'ß', '0', ' ', '"'])).collect();
                json!(s)
            }
            _ => json!(rng.bool()),
        });
    }
    json!({"name": format!("c{idx}"), "ty": ty, "nullable": nullable, "values": values})
}

fn gen_ops(rng: &mut Rng, len: usize, n: usize) -> Vec<Value> {
    let mut ops = Vec::new();
    let mut iters = 0usize;
    for _ in 0..n {
        let k = rng.below(100);
        let op = if k < 5 {
            json!({"op": "len"})
        } else if k < 8 {
            json!({"op": "is_empty"})
        } else if k < 38 {
            // indices around the boundary as well as inside
            let i = match rng.below(6) {
                0 => len,
                1 => len + 1,
                2 => len.saturating_sub(1),
                3 => len + rng.usize(1000),
                _ => rng.usize(len + 1),
            };
            json!({"op": "get", "i": i})
        } else if k < 48 || iters == 0 {
            iters += 1;
            json!({"op": "iter_new"})
        } else if k < 70 {
            json!({"op": "iter_next", "k": rng.usize(iters)})
        } else if k < 76 {
            // provided Iterator methods (defined through `next` unless overridden): nth around the remaining count
            let n = match rng.below(4) {
                0 => 0,
                1 => len,
                2 => len + 1 + rng.usize(3),
                _ => rng.usize(len + 1),
            };
            json!({"op": "iter_nth", "k": rng.usize(iters), "n": n})
        } else if k < 78 {
            json!({"op": "iter_count", "k": rng.usize(iters)})
        } else if k < 94 {
            json!({"op": "iter_hint", "k": rng.usize(iters)})
        } else {
            json!({"op": "bulk"})
        };
        ops.push(op);
    }
    ops
}

const TOP_SEQ: [&str; 5] = ["seq", "tuple", "tuple_struct", "any", "newtype"];
const TOP_REFUSED: [&str; 25] = [
    "bool", "i64", "u8", "f64", "char", "str", "string", "bytes", "byte_buf", "option", "unit", "unit_struct", "map", "struct", "enum",
    "identifier", "i128", "i8", "i16", "i32", "u16", "u32", "u64", "u128", "f32",
];

/// API coverage: a few more requests per case, drawn from a stream of their own and inserted at random positions
fn gen_api_ops(x: &mut Rng, ops: &mut Vec<Value>) {
    let iters = ops.iter().filter(|o| o["op"] == "iter_new").count();
    let n = 1 + x.usize(3);
    for _ in 0..n {
        let op = match x.below(8) {
            0 | 1 if iters > 0 => json!({"op": "iter_last", "k": x.usize(iters)}),
            2 | 3 => json!({"op": "collect_rev"}),
            4 | 5 => json!({"op": "top", "how": *x.pick(&TOP_SEQ)}),
            6 => json!({"op": "top", "how": "ignored"}),
            _ => json!({"op": "top", "how": *x.pick(&TOP_REFUSED)}),
        };
        // an iterator request must come after the creation of its iterator: insert behind the last `iter_new`
        let lo = if op["op"] == "iter_last" { ops.iter().rposition(|o| o["op"] == "iter_new").map(|p| p + 1).unwrap_or(ops.len()) } else { 0 };
        let at = lo + x.usize(ops.len() - lo + 1);
        ops.insert(at, op);
    }
}

pub fn gen(ctx: &Ctx) -> Vec<Value> {
    let mut rng = Rng::new(ctx.seed);
    let n = if ctx.thorough() { 20000 } else { 1500 };
    let mut out = Vec::new();
    for c in 0..n {
        let mut r = rng.fork();
        let sub = r.0;
        let ncols = 1 + r.usize(3);
        let len = match r.below(8) {
            0 => 0,
            1 => 1,
            2 => 8,
            3 => 9,
            _ => r.usize(20),
        };
        let mut cols = Vec::new();
        for i in 0..ncols {
            // malformed stream: one column of another length (≈6 %)
            let l = if r.chance(1, 16) { if r.bool() { len + 1 } else { len.saturating_sub(1) } } else { len };
            cols.push(gen_col(&mut r, i, l));
        }
        // malformed stream: field/array count mismatch (≈8 %), also with zero arrays
        let nfields = match r.below(25) {
            0 => ncols + 1,
            1 => ncols - 1,
            _ => ncols,
        };
        if r.chance(1, 40) {
            cols.clear();
        }
        let nops = if ctx.thorough() { 5 + r.usize(60) } else { 5 + r.usize(30) };
        let mut ops = gen_ops(&mut r, len, nops);
        gen_api_ops(&mut Rng::new(sub ^ 0xA91_C07E), &mut ops);
        out.push(json!({"id": format!("access-{c:06}"), "seed": sub, "cols": cols, "nfields": nfields, "ops": ops}));
    }
    out
}

fn build_array(col: &Value) -> (Field, Array, usize) {
    let name = col["name"].as_str().unwrap().to_string();
    let ty = col["ty"].as_str().unwrap();
    let nullable = col["nullable"].as_bool().unwrap();
    let values = col["values"].as_array().unwrap();
    let validity = if nullable {
        Some(pack_bits(&values.iter().map(|v| !v.is_null()).collect::<Vec<_>>()))
    } else {
        None
    };
    let (dt, arr) = match ty {
        "Int32" => (
            DataType::Int32,
            Array::Int32(PrimitiveArray { validity, values: values.iter().map(|v| v.as_i64().unwrap_or(7) as i32).collect() }),
        ),
        "Int64" => (
            DataType::Int64,
            Array::Int64(PrimitiveArray { validity, values: values.iter().map(|v| v.as_i64().unwrap_or(7)).collect() }),
        ),
        "Utf8" => {
            let mut offsets = vec![0i32];
            let mut data = Vec::new();
            for v in values {
                data.extend_from_slice(v.as_str().unwrap_or("hidden").as_bytes());
                offsets.push(data.len() as i32);
            }
            (DataType::Utf8, Array::Utf8(BytesArray { validity, offsets, data }))
        }
        _ => (
            DataType::Boolean,
            Array::Boolean(BooleanArray {
                len: values.len(),
                validity,
                values: pack_bits(&values.iter().map(|v| v.as_bool().unwrap_or(true)).collect::<Vec<_>>()),
            }),
        ),
    };
    (Field { name, data_type: dt, nullable, metadata: Default::default() }, arr, values.len())
}

/// collects the records a `serde::Deserializer` presents as a sequence (through a newtype wrapper as well)
struct Records;

impl<'de> serde::de::Visitor<'de> for Records {
    type Value = Vec<Value>;
    fn expecting(&self, f: &mut std::fmt::Formatter<'_>) -> std::fmt::Result {
        write!(f, "a sequence of records")
    }
    fn visit_seq<A: serde::de::SeqAccess<'de>>(self, mut seq: A) -> Result<Vec<Value>, A::Error> {
        let mut out = Vec::new();
        while let Some(v) = seq.next_element::<Value>()? {
            out.push(v);
        }
        Ok(out)
    }
    fn visit_newtype_struct<D: serde::Deserializer<'de>>(self, d: D) -> Result<Vec<Value>, D::Error> {
        d.deserialize_seq(Records)
    }
}

/// the `Deserializer` itself through one method of `serde::Deserializer`:
/// `{"items": [..]}` | `{"unit": true}` (ignored) | `{"b": false}` (a method that must refuse returned a value)
fn top_level(d: serde_arrow::Deserializer<'_>, how: &str) -> Result<Value, serde_arrow::Error> {
    use serde::Deserializer as _;
    let items = |r: Result<Vec<Value>, serde_arrow::Error>| r.map(|v| json!({ "items": v }));
    let refused = |r: Result<Vec<Value>, serde_arrow::Error>| r.map(|_| json!({"b": false}));
    match how {
        "seq" => items(d.deserialize_seq(Records)),
        "tuple" => items(d.deserialize_tuple(2, Records)),
        "tuple_struct" => items(d.deserialize_tuple_struct("T", 2, Records)),
        "any" => items(d.deserialize_any(Records)),
        "newtype" => items(d.deserialize_newtype_struct("N", Records)),
        "ignored" => serde::de::IgnoredAny::deserialize(d).map(|_| json!({"unit": true})),
        "bool" => refused(d.deserialize_bool(Records)),
        "i64" => refused(d.deserialize_i64(Records)),
        "u8" => refused(d.deserialize_u8(Records)),
        "f64" => refused(d.deserialize_f64(Records)),
        "char" => refused(d.deserialize_char(Records)),
        "str" => refused(d.deserialize_str(Records)),
        "string" => refused(d.deserialize_string(Records)),
        "bytes" => refused(d.deserialize_bytes(Records)),
        "byte_buf" => refused(d.deserialize_byte_buf(Records)),
        "option" => refused(d.deserialize_option(Records)),
        "unit" => refused(d.deserialize_unit(Records)),
        "unit_struct" => refused(d.deserialize_unit_struct("U", Records)),
        "map" => refused(d.deserialize_map(Records)),
        "struct" => refused(d.deserialize_struct("S", &["c0"], Records)),
        "enum" => refused(d.deserialize_enum("E", &["A"], Records)),
        "identifier" => refused(d.deserialize_identifier(Records)),
        "i128" => refused(d.deserialize_i128(Records)),
        "i8" => refused(d.deserialize_i8(Records)),
        "i16" => refused(d.deserialize_i16(Records)),
        "i32" => refused(d.deserialize_i32(Records)),
        "u16" => refused(d.deserialize_u16(Records)),
        "u32" => refused(d.deserialize_u32(Records)),
        "u64" => refused(d.deserialize_u64(Records)),
        "u128" => refused(d.deserialize_u128(Records)),
        "f32" => refused(d.deserialize_f32(Records)),
        other => panic!("harness: unknown top-level method {other}"),
    }
}

pub fn exec(input: &Value) -> Value {
    let cols = input["cols"].as_array().unwrap();
    let nfields = input["nfields"].as_u64().unwrap() as usize;
    let built: Vec<(Field, Array, usize)> = cols.iter().map(build_array).collect();
    let mut fields: Vec<Field> = built.iter().map(|b| b.0.clone()).collect();
    while fields.len() < nfields {
        fields.push(Field { name: format!("x{}", fields.len()), data_type: DataType::Int32, nullable: false, metadata: Default::default() });
    }
    fields.truncate(nfields);
    let views: Vec<marrow::view::View> = built.iter().map(|b| b.1.as_view()).collect();
    let view_lens: Vec<usize> = built.iter().map(|b| b.2).collect();

    // the generator's own rows: the oracle for "item i"
    let min_len = view_lens.iter().copied().min().unwrap_or(0);
    let mut rows = Vec::new();
    for i in 0..min_len {
        let mut m = Map::new();
        for c in cols.iter() {
            m.insert(c["name"].as_str().unwrap().to_string(), c["values"][i].clone());
        }
        rows.push(Value::Object(m));
    }

    let mut impl_outs: Vec<Value> = Vec::new();
    let ctor;
    {
        let made = std::panic::catch_unwind(std::panic::AssertUnwindSafe(|| serde_arrow::Deserializer::from_marrow(&fields, &views)));
        match made {
            Err(_) => ctor = json!({"panic": "Deserializer::from_marrow"}),
            Ok(Err(e)) => ctor = json!({"err": outcome::parse_error(&e.to_string())}),
            Ok(Ok(de)) => {
                ctor = json!({"ok": de.len()});
                let read_item = |item: serde_arrow::deserializer::DeserializerItem| -> Value {
                    let r = outcome::run(|| Value::deserialize(item));
                    match r.get("ok") {
                        Some(v) => v.clone(),
                        None => r,
                    }
                };
                let mut iters: Vec<serde_arrow::deserializer::DeserializerIterator> = Vec::new();
                for op in input["ops"].as_array().unwrap() {
                    // every operation runs under catch_unwind: an unwinding `size_hint` / `next` / `nth` is an output
                    // of the history (and ends it), not an abort of the harness process
                    let res = std::panic::catch_unwind(std::panic::AssertUnwindSafe(|| match op["op"].as_str().unwrap() {
                        "len" => json!({"n": de.len()}),
                        "is_empty" => json!({"b": de.is_empty()}),
                        "get" => {
                            let i = op["i"].as_u64().unwrap() as usize;
                            match de.get(i) {
                                None => json!({"item": null}),
                                Some(item) => json!({"item": read_item(item)}),
                            }
                        }
                        "iter_new" => {
                            // alternate between the two public ways of making an iterator
                            if iters.len() % 2 == 0 {
                                iters.push(de.iter());
                            } else {
                                iters.push((&de).into_iter());
                            }
                            json!({"unit": true})
                        }
                        "iter_next" => {
                            let k = op["k"].as_u64().unwrap() as usize;
                            match iters.get_mut(k) {
                                None => json!({"no_such_iter": true}),
                                Some(it) => match it.next() {
                                    None => json!({"item": null}),
                                    Some(item) => json!({"item": read_item(item)}),
                                },
                            }
                        }
                        "iter_nth" => {
                            let k = op["k"].as_u64().unwrap() as usize;
                            let n = op["n"].as_u64().unwrap() as usize;
                            match iters.get_mut(k) {
                                None => json!({"no_such_iter": true}),
                                Some(it) => match it.nth(n) {
                                    None => json!({"item": null}),
                                    Some(item) => json!({"item": read_item(item)}),
                                },
                            }
                        }
                        "iter_count" => {
                            let k = op["k"].as_u64().unwrap() as usize;
                            match iters.get_mut(k) {
                                None => json!({"no_such_iter": true}),
                                Some(it) => {
                                    // BY VALUE (`by_ref()` would go through `impl Iterator for &mut I`, which only forwards
                                    // next / nth / size_hint: an override of `count` would never run); the slot is refilled
                                    // with an iterator in the state the consumed one would be in: at the end
                                    let taken = std::mem::replace(it, de.iter());
                                    let n = taken.count();
                                    while it.next().is_some() {}
                                    json!({"n": n})
                                }
                            }
                        }
                        "iter_hint" => {
                            let k = op["k"].as_u64().unwrap() as usize;
                            match iters.get(k) {
                                None => json!({"no_such_iter": true}),
                                Some(it) => {
                                    let (lo, hi) = it.size_hint();
                                    json!({"hint": [lo, hi]})
                                }
                            }
                        }
                        "iter_last" => {
                            let k = op["k"].as_u64().unwrap() as usize;
                            match iters.get_mut(k) {
                                None => json!({"no_such_iter": true}),
                                Some(it) => {
                                    let taken = std::mem::replace(it, de.iter()); // by value, see iter_count
                                    let last = taken.last();
                                    while it.next().is_some() {}
                                    match last {
                                        None => json!({"item": null}),
                                        Some(item) => json!({"item": read_item(item)}),
                                    }
                                }
                            }
                        }
                        "collect_rev" => {
                            let items: Vec<serde_arrow::deserializer::DeserializerItem> = de.iter().collect();
                            json!({"items": items.into_iter().rev().map(&read_item).collect::<Vec<Value>>()})
                        }
                        "top" => {
                            let how = op["how"].as_str().unwrap();
                            let r = outcome::run(|| top_level(serde_arrow::Deserializer::from_marrow(&fields, &views)?, how));
                            match r.get("ok") {
                                Some(v) => v.clone(),
                                None if r.get("err").is_some() => json!({"b": true}),
                                None => r,
                            }
                        }
                        "bulk" => {
                            let r = outcome::run(|| {
                                let d = serde_arrow::Deserializer::from_marrow(&fields, &views)?;
                                Vec::<Value>::deserialize(d).map(Value::Array)
                            });
                            match r.get("ok") {
                                Some(v) => json!({"items": v}),
                                None => r,
                            }
                        }
                        other => json!({"bad_op": other}),
                    }));
                    match res {
                        Ok(out) => impl_outs.push(out),
                        Err(e) => {
                            let msg = e.downcast_ref::<String>().cloned().or_else(|| e.downcast_ref::<&str>().map(|s| s.to_string())).unwrap_or_default();
                            impl_outs.push(json!({"panic": msg}));
                            break;
                        }
                    }
                }
            }
        }
    }
    let mut case = input.clone();
    let obj = case.as_object_mut().unwrap();
    obj.insert("view_lens".into(), json!(view_lens));
    obj.insert("rows".into(), Value::Array(rows));
    obj.insert("ctor".into(), ctor);
    obj.insert("impl".into(), Value::Array(impl_outs));
    case
}
