//! suite `access` (C13): access histories over the real `serde_arrow::Deserializer` — len / is_empty / get / iter / next /
//! nth / count / last / size_hint / bulk reads — on batches of 0-3 columns from the nested generator of the read suite
//! (lgen.rs: every array kind, nested), materialised as hand-made wire views with every layout freedom (wiregen.rs: bit
//! offsets, non-zero first offsets, garbage under nulls), as arrow-rs arrays or as arrow2 arrays (arrowsrc.rs; optionally
//! SLICED), and handed to `Deserializer::from_marrow`, `from_arrow`, `from_record_batch` or `from_arrow2`.  Every item an
//! operation yields is deserialized into a typed target of the operation's own (dynde.rs), so one record is read several
//! times, through several access paths, in several orders, with several targets.
//!
//! input : {"id","seed","via":"marrow"|"arrow"|"record_batch"|"arrow2" (the constructor),"nfields":n,
//!          "cols":[{"field":FieldJson,"rows":[LVal…],"src":"wire"|"arrow"|"arrow2","view":wire view (src wire),
//!                   "slice":[o,l] (src arrow / arrow2)}…],
//!          "ops":[{"op":…,"ty":target}…]}
//! output: input + "views" (the marrow view of every column, wire form: what the driver's model reads), "ctor" (outcome
//!         of the constructor: {"ok":len}), "impl" (one output per operation), or "skip" (a column could not be built /
//!         converted: a harness limitation, never expected).
//!
//! Outputs: {"n":k} | {"b":bool} | {"unit":true} | {"no_such_iter":true} | {"hint":[lo,hi]} | {"item":null} |
//! {"item":outcome} | {"items":outcome of the sequence read} | {"each":[outcome…]} | {"panic":msg} (ends the history).
//!
//! API coverage (notes/api_coverage.md): `iter_last` (provided `Iterator::last`), `collect_rev` (all items of a fresh
//! iterator collected first and deserialized afterwards in REVERSE order: a `DeserializerItem` is a stand-alone handle),
//! and `top` — the `Deserializer` itself driven through every `serde::Deserializer` method: `seq`, `tuple`,
//! `tuple_struct`, `any`, `newtype` (documented to give the sequence of records), `ignored`, and the methods that must
//! refuse with an error (all 25).  `count` / `last` are called BY VALUE (an override would run), the slot is refilled
//! with an exhausted iterator.
use crate::arrowsrc;
use crate::dump::{view_to_json, Owned};
use crate::dynde::Target;
use crate::lgen;
use crate::outcome;
use crate::rng::Rng;
use crate::schema_dump::field_from_json;
use crate::wiregen;
use crate::Ctx;
use marrow::view::View;
use serde::de::DeserializeSeed;
use serde::Deserialize;
use serde_json::{json, Value};
use std::panic::{catch_unwind, AssertUnwindSafe};
use std::sync::Arc;

// ------------------------------------------------------------------------------------------------ gen

/// record targets for a batch: the natural ones, other shapes per column, shapes that fail on some rows
fn target_pool(r: &mut Rng, fields: &[Value]) -> Vec<Value> {
    let nat: Vec<Value> = fields.iter().map(wiregen::natural_target).collect();
    let names: Vec<Value> = fields.iter().map(|f| f["name"].clone()).collect();
    let named = |tys: &[Value]| -> Vec<Value> { names.iter().zip(tys).map(|(n, t)| json!([n, t])).collect() };
    let mut pool = vec![json!("any"), json!({"struct": named(&nat)}), json!({"tuple": nat.clone()})];
    // another shape for every column (widths, borrowed strings, tuple views of structs, …)
    let var: Vec<Value> = fields
        .iter()
        .zip(&nat)
        .map(|(f, n)| {
            let vs = wiregen::variant_targets(r, f);
            let v = r.pick(&vs).clone();
            if r.chance(1, 3) && n.get("option").is_some() {
                json!({ "option": v })
            } else {
                v
            }
        })
        .collect();
    pool.push(if r.bool() { json!({"struct": named(&var)}) } else { json!({"tuple": var}) });
    // without the outer Option layer: rows with a null fail
    let strict: Vec<Value> = nat.iter().map(wiregen::strip_option).collect();
    pool.push(if r.bool() { json!({"tuple_struct": strict}) } else { json!({"newtype": {"struct": named(&strict)}}) });
    // reordered, one column dropped, an optional extra
    let mut some = named(&nat);
    some.reverse();
    if some.len() > 1 && r.bool() {
        some.remove(0);
    }
    some.push(json!(["zz_opt", {"option": "i32"}]));
    pool.push(json!({ "struct": some }));
    pool.push(json!({"map": ["string", "any"]}));
    pool.push(json!({"map": ["any", "ignored"]}));
    pool.push(json!("ignored"));
    pool.push(json!({"seq": "any"}));
    pool
}

fn gen_ops(r: &mut Rng, len: usize, n: usize, pool: &[Value]) -> Vec<Value> {
    let mut ops = Vec::new();
    let mut iters = 0usize;
    // one record is read again and again (with whatever target the operation draws)
    let hot = if len > 0 { r.usize(len) } else { 0 };
    for _ in 0..n {
        let k = r.below(100);
        let ty = if r.chance(1, 4) { pool[0].clone() } else { r.pick(pool).clone() };
        let op = if k < 4 {
            json!({"op": "len"})
        } else if k < 6 {
            json!({"op": "is_empty"})
        } else if k < 38 {
            // indices around the boundary as well as inside
            let i = match r.below(14) {
                0 => len,
                1 => len + 1,
                2 => len.saturating_sub(1),
                3 => len + r.usize(1000),
                4..=7 => hot,
                _ => r.usize(len.max(1)),
            };
            json!({"op": "get", "i": i, "ty": ty})
        } else if k < 46 || iters == 0 {
            iters += 1;
            json!({"op": "iter_new"})
        } else if k < 70 {
            json!({"op": "iter_next", "k": r.usize(iters), "ty": ty})
        } else if k < 78 {
            // provided Iterator methods (defined through `next` unless overridden): nth around the remaining count
            let n = match r.below(5) {
                0 => 0,
                1 => len,
                2 => len + 1 + r.usize(3),
                3 => hot,
                _ => r.usize(len + 1),
            };
            json!({"op": "iter_nth", "k": r.usize(iters), "n": n, "ty": ty})
        } else if k < 80 {
            json!({"op": "iter_count", "k": r.usize(iters)})
        } else if k < 92 {
            json!({"op": "iter_hint", "k": r.usize(iters)})
        } else {
            json!({"op": "bulk", "ty": ty})
        };
        ops.push(op);
    }
    ops
}

const TOP_SEQ: [&str; 5] = ["seq", "tuple", "tuple_struct", "any", "newtype"];
const TOP_REFUSED: [&str; 25] = [
    "bool", "i64", "u8", "f64", "char", "str", "string", "bytes", "byte_buf", "option", "unit", "unit_struct", "map", "struct", "enum",
    "identifier", "i128", "i8", "i16", "i32", "u16", "u32", "u64", "u128", "f32",
];

/// API coverage: a few more requests per case, drawn from a stream of their own and inserted at random positions
fn gen_api_ops(x: &mut Rng, ops: &mut Vec<Value>, pool: &[Value]) {
    let iters = ops.iter().filter(|o| o["op"] == "iter_new").count();
    let n = 1 + x.usize(3);
    for _ in 0..n {
        let ty = x.pick(pool).clone();
        let op = match x.below(8) {
            0 | 1 if iters > 0 => json!({"op": "iter_last", "k": x.usize(iters), "ty": ty}),
            2 | 3 => json!({"op": "collect_rev", "ty": ty}),
            4 | 5 => json!({"op": "top", "how": *x.pick(&TOP_SEQ)}),
            6 => json!({"op": "top", "how": "ignored"}),
            _ => json!({"op": "top", "how": *x.pick(&TOP_REFUSED)}),
        };
        // an iterator request must come after the creation of its iterator: insert behind the last `iter_new`
        let lo = if op["op"] == "iter_last" { ops.iter().rposition(|o| o["op"] == "iter_new").map(|p| p + 1).unwrap_or(ops.len()) } else { 0 };
        let at = lo + x.usize(ops.len() - lo + 1);
        ops.insert(at, op);
    }
}

fn gen_field(r: &mut Rng, name: &str, ctor: &str, leafs: &[Value], thorough: bool) -> Value {
    for _ in 0..50 {
        let mut f = if r.chance(1, 3) {
            let dt = r.pick(leafs).clone();
            let nullable = lgen::nullable_for(r, &dt);
            lgen::mk_field(name, nullable, dt)
        } else {
            let depth = 1 + r.usize(if thorough { 3 } else { 2 });
            lgen::gen_field(r, name, depth)
        };
        if r.chance(1, 12) {
            f["meta"] = json!([["SERDE_ARROW:strategy", *r.pick(&["TupleAsStruct", "MapAsStruct", "InconsistentTypes"])]]);
        }
        if ctor != "arrow2" || arrowsrc::arrow2_supported(&f) {
            return f;
        }
    }
    lgen::mk_field(name, true, json!({"t": "Int32"}))
}

/// one column of `len` visible rows
fn gen_col(r: &mut Rng, field: Value, len: usize, ctor: &str) -> Value {
    let src = match ctor {
        "marrow" => match r.below(6) {
            0 | 1 => "arrow",
            2 if arrowsrc::arrow2_supported(&field) => "arrow2",
            _ => "wire",
        },
        "arrow2" => "arrow2",
        _ => "arrow",
    };
    let mut col = json!({"field": field, "src": src});
    if src == "wire" {
        let rows = lgen::gen_rows(r, &field, len);
        let free = r.chance(4, 5);
        col["view"] = wiregen::encode(r, &field, &rows, free);
        col["rows"] = Value::Array(rows);
    } else if r.chance(2, 5) {
        // a window of a longer array: offsets into the buffers, bit offsets in the bitmaps
        let pre = r.usize(10);
        let post = r.usize(4);
        col["rows"] = Value::Array(lgen::gen_rows(r, &field, pre + len + post));
        col["slice"] = json!([pre, len]);
    } else {
        col["rows"] = Value::Array(lgen::gen_rows(r, &field, len));
    }
    col
}

/// the lengths of the columns: one length, or (malformed, ≈ 9 %) unequal ones — also a zero-length array BEFORE a longer one
fn gen_lens(r: &mut Rng, ncols: usize, len: usize, allow_bad: bool) -> Vec<usize> {
    let mut lens = vec![len; ncols];
    if !allow_bad || ncols < 2 || !r.chance(1, 11) {
        return lens;
    }
    let other = len.max(1) + r.usize(3);
    match r.below(6) {
        0 => {
            // empty first, longer later
            lens = vec![other; ncols];
            lens[0] = 0;
        }
        1 => {
            // empty in the middle / at the end
            lens = vec![other; ncols];
            let k = 1 + r.usize(ncols - 1);
            lens[k] = 0;
        }
        2 => {
            // all empty but the last
            lens = vec![0; ncols];
            lens[ncols - 1] = other;
        }
        _ => {
            let k = r.usize(ncols);
            lens[k] = if r.bool() { len + 1 } else { len.saturating_sub(1) };
            if lens[k] == len {
                lens[k] = len + 2;
            }
        }
    }
    lens
}

fn gen_case(r: &mut Rng, id: String, ctor: &str, ncols: usize, lens: Option<Vec<usize>>, nfields_delta: i64, thorough: bool, leafs: &[Value]) -> Value {
    let sub = r.0;
    let len = match r.below(8) {
        0 => 0,
        1 => 1,
        2 => 8,
        3 => 9,
        _ => r.usize(14),
    };
    let lens = lens.unwrap_or_else(|| gen_lens(r, ncols, len, ctor != "record_batch"));
    let len = lens.first().copied().unwrap_or(0);
    let fields: Vec<Value> = (0..ncols).map(|j| gen_field(r, &format!("c{j}"), ctor, leafs, thorough)).collect();
    let cols: Vec<Value> = fields.iter().zip(&lens).map(|(f, l)| gen_col(r, f.clone(), *l, ctor)).collect();
    let nfields = (ncols as i64 + nfields_delta).max(0) as usize;
    let pool = target_pool(r, &fields);
    let nops = if thorough { 5 + r.usize(50) } else { 5 + r.usize(25) };
    let mut ops = gen_ops(r, len, nops, &pool);
    gen_api_ops(&mut Rng::new(sub ^ 0xA91_C07E), &mut ops, &pool);
    json!({"id": id, "seed": sub, "via": ctor, "cols": cols, "nfields": nfields, "ops": ops})
}

const CTORS: [&str; 10] = ["marrow", "marrow", "marrow", "marrow", "marrow", "arrow", "arrow", "record_batch", "arrow2", "marrow"];

pub fn gen(ctx: &Ctx) -> Vec<Value> {
    crate::dynde::self_check_or_panic();
    let mut rng = Rng::new(ctx.seed);
    let n = if ctx.thorough() { 20000 } else { 1800 };
    let leafs = lgen::all_leaf_types();
    let mut out = Vec::new();
    let mut c = 0usize;
    // the constructor grid: unequal lengths (a zero-length array before a longer one, after it, in the middle), count
    // mismatches in both directions, zero columns — through every constructor that can be handed such arguments
    let grid_lens: [&[usize]; 9] = [&[0, 3], &[3, 0], &[3, 0, 3], &[0, 0, 2], &[0, 3, 3], &[2, 3], &[3, 3, 4], &[0, 0], &[]];
    for ctor in ["marrow", "arrow", "arrow2"] {
        for lens in grid_lens {
            for delta in [0i64, 1, -1] {
                if delta != 0 && lens.len() > 2 {
                    continue;
                }
                let mut r = rng.fork();
                out.push(gen_case(&mut r, format!("access-{c:06}"), ctor, lens.len(), Some(lens.to_vec()), delta, ctx.thorough(), &leafs));
                c += 1;
            }
        }
    }
    for ncols in [0usize, 1, 2] {
        let mut r = rng.fork();
        out.push(gen_case(&mut r, format!("access-{c:06}"), "record_batch", ncols, None, 0, ctx.thorough(), &leafs));
        c += 1;
    }
    while c < n {
        let mut r = rng.fork();
        let ctor = CTORS[c % CTORS.len()];
        let ncols = if r.chance(1, 40) { 0 } else { 1 + r.usize(3) };
        // malformed stream: field/array count mismatch (≈ 8 %)
        let delta = if ctor == "record_batch" {
            0
        } else {
            match r.below(25) {
                0 => 1,
                1 => -1,
                _ => 0,
            }
        };
        out.push(gen_case(&mut r, format!("access-{c:06}"), ctor, ncols, None, delta, ctx.thorough(), &leafs));
        c += 1;
    }
    out
}

// ------------------------------------------------------------------------------------------------ exec

enum Col {
    Wire(Owned),
    Arrow(arrow_array::ArrayRef),
    Arrow2(Box<dyn arrow2::array::Array>),
}

fn build_col(col: &Value) -> Result<Col, String> {
    let field = &col["field"];
    let rows = col["rows"].as_array().ok_or("rows")?;
    let window = col.get("slice").and_then(|s| s.as_array()).map(|s| (s[0].as_u64().unwrap() as usize, s[1].as_u64().unwrap() as usize));
    match col["src"].as_str().unwrap_or("") {
        "wire" => Ok(Col::Wire(Owned::from_json(&col["view"]))),
        "arrow" => {
            let arr = arrowsrc::build_arrow(field, rows)?;
            Ok(Col::Arrow(match window {
                Some((o, l)) => arr.slice(o, l),
                None => arr,
            }))
        }
        "arrow2" => {
            let arr = arrowsrc::build_arrow2(field, rows)?;
            Ok(Col::Arrow2(match window {
                Some((o, l)) => arr.sliced(o, l),
                None => arr,
            }))
        }
        other => Err(format!("unknown column source {other}")),
    }
}

/// collects the records a `serde::Deserializer` presents as a sequence (through a newtype wrapper as well), every record
/// read through `deserialize_any`
struct Records;

impl<'de> serde::de::Visitor<'de> for Records {
    type Value = Vec<Value>;
    fn expecting(&self, f: &mut std::fmt::Formatter<'_>) -> std::fmt::Result {
        write!(f, "a sequence of records")
    }
    fn visit_seq<A: serde::de::SeqAccess<'de>>(self, mut seq: A) -> Result<Vec<Value>, A::Error> {
        let any = json!("any");
        let mut out = Vec::new();
        while let Some(v) = seq.next_element_seed(Target(&any))? {
            out.push(v);
        }
        Ok(out)
    }
    fn visit_newtype_struct<D: serde::Deserializer<'de>>(self, d: D) -> Result<Vec<Value>, D::Error> {
        d.deserialize_seq(Records)
    }
}

/// the `Deserializer` itself through one method of `serde::Deserializer`:
/// `{"seq": [..]}` | `"unit"` (ignored) | `"accepted"` (a method that must refuse returned a value)
fn top_level(d: serde_arrow::Deserializer<'_>, how: &str) -> Result<Value, serde_arrow::Error> {
    use serde::Deserializer as _;
    let items = |r: Result<Vec<Value>, serde_arrow::Error>| r.map(|v| json!({ "seq": v }));
    let refused = |r: Result<Vec<Value>, serde_arrow::Error>| r.map(|_| json!("accepted"));
    match how {
        "seq" => items(d.deserialize_seq(Records)),
        "tuple" => items(d.deserialize_tuple(2, Records)),
        "tuple_struct" => items(d.deserialize_tuple_struct("T", 2, Records)),
        "any" => items(d.deserialize_any(Records)),
        "newtype" => items(d.deserialize_newtype_struct("N", Records)),
        "ignored" => serde::de::IgnoredAny::deserialize(d).map(|_| json!("unit")),
        "bool" => refused(d.deserialize_bool(Records)),
        "i64" => refused(d.deserialize_i64(Records)),
        "u8" => refused(d.deserialize_u8(Records)),
        "f64" => refused(d.deserialize_f64(Records)),
        "char" => refused(d.deserialize_char(Records)),
        "str" => refused(d.deserialize_str(Records)),
        "string" => refused(d.deserialize_string(Records)),
        "bytes" => refused(d.deserialize_bytes(Records)),
        "byte_buf" => refused(d.deserialize_byte_buf(Records)),
        "option" => refused(d.deserialize_option(Records)),
        "unit" => refused(d.deserialize_unit(Records)),
        "unit_struct" => refused(d.deserialize_unit_struct("U", Records)),
        "map" => refused(d.deserialize_map(Records)),
        "struct" => refused(d.deserialize_struct("S", &["c0"], Records)),
        "enum" => refused(d.deserialize_enum("E", &["A"], Records)),
        "identifier" => refused(d.deserialize_identifier(Records)),
        "i128" => refused(d.deserialize_i128(Records)),
        "i8" => refused(d.deserialize_i8(Records)),
        "i16" => refused(d.deserialize_i16(Records)),
        "i32" => refused(d.deserialize_i32(Records)),
        "u16" => refused(d.deserialize_u16(Records)),
        "u32" => refused(d.deserialize_u32(Records)),
        "u64" => refused(d.deserialize_u64(Records)),
        "u128" => refused(d.deserialize_u128(Records)),
        "f32" => refused(d.deserialize_f32(Records)),
        other => panic!("harness: unknown top-level method {other}"),
    }
}

type Item<'a, 'de> = serde_arrow::deserializer::DeserializerItem<'a, 'de>;

fn read_item(item: Item<'_, '_>, ty: &Value) -> Value {
    outcome::run(|| Target(ty).deserialize(item))
}

fn item_out(item: Option<Item<'_, '_>>, ty: &Value) -> Value {
    match item {
        None => json!({ "item": null }),
        Some(item) => json!({ "item": read_item(item, ty) }),
    }
}

/// the history on a constructed deserializer; `make` builds another one the same way (bulk reads consume theirs)
fn run_ops<'de>(de: &serde_arrow::Deserializer<'de>, make: &dyn Fn() -> Result<serde_arrow::Deserializer<'de>, serde_arrow::Error>, ops: &[Value]) -> Vec<Value> {
    let mut outs: Vec<Value> = Vec::new();
    let mut iters: Vec<serde_arrow::deserializer::DeserializerIterator> = Vec::new();
    for op in ops {
        let ty = &op["ty"];
        // every operation runs under catch_unwind: an unwinding `size_hint` / `next` / `nth` is an output of the history
        // (and ends it), not an abort of the harness process
        let res = catch_unwind(AssertUnwindSafe(|| match op["op"].as_str().unwrap() {
            "len" => json!({"n": de.len()}),
            "is_empty" => json!({"b": de.is_empty()}),
            "get" => item_out(de.get(op["i"].as_u64().unwrap() as usize), ty),
            "iter_new" => {
                // alternate between the two public ways of making an iterator
                if iters.len() % 2 == 0 {
                    iters.push(de.iter());
                } else {
                    iters.push(de.into_iter());
                }
                json!({"unit": true})
            }
            "iter_next" => match iters.get_mut(op["k"].as_u64().unwrap() as usize) {
                None => json!({"no_such_iter": true}),
                Some(it) => item_out(it.next(), ty),
            },
            "iter_nth" => match iters.get_mut(op["k"].as_u64().unwrap() as usize) {
                None => json!({"no_such_iter": true}),
                Some(it) => item_out(it.nth(op["n"].as_u64().unwrap() as usize), ty),
            },
            "iter_count" => match iters.get_mut(op["k"].as_u64().unwrap() as usize) {
                None => json!({"no_such_iter": true}),
                Some(it) => {
                    // BY VALUE (`by_ref()` would go through `impl Iterator for &mut I`, which only forwards next / nth /
                    // size_hint: an override of `count` would never run); the slot is refilled with an iterator in the
                    // state the consumed one would be in: at the end
                    let taken = std::mem::replace(it, de.iter());
                    let n = taken.count();
                    while it.next().is_some() {}
                    json!({ "n": n })
                }
            },
            "iter_hint" => match iters.get(op["k"].as_u64().unwrap() as usize) {
                None => json!({"no_such_iter": true}),
                Some(it) => {
                    let (lo, hi) = it.size_hint();
                    json!({"hint": [lo, hi]})
                }
            },
            "iter_last" => match iters.get_mut(op["k"].as_u64().unwrap() as usize) {
                None => json!({"no_such_iter": true}),
                Some(it) => {
                    let taken = std::mem::replace(it, de.iter()); // by value, see iter_count
                    let last = taken.last();
                    while it.next().is_some() {}
                    item_out(last, ty)
                }
            },
            "collect_rev" => {
                let items: Vec<Item> = de.iter().collect();
                json!({"each": items.into_iter().rev().map(|it| read_item(it, ty)).collect::<Vec<Value>>()})
            }
            "top" => {
                let how = op["how"].as_str().unwrap();
                json!({"items": outcome::run(|| top_level(make()?, how))})
            }
            "bulk" => {
                let seq = json!({ "seq": ty });
                json!({"items": outcome::run(|| Target(&seq).deserialize(make()?))})
            }
            other => json!({ "bad_op": other }),
        }));
        match res {
            Ok(out) => outs.push(out),
            Err(e) => {
                let msg = e.downcast_ref::<String>().cloned().or_else(|| e.downcast_ref::<&str>().map(|s| s.to_string())).unwrap_or_default();
                outs.push(json!({ "panic": msg }));
                break;
            }
        }
    }
    outs
}

fn ctor_and_ops<'de>(make: &dyn Fn() -> Result<serde_arrow::Deserializer<'de>, serde_arrow::Error>, ops: &[Value]) -> (Value, Vec<Value>) {
    match catch_unwind(AssertUnwindSafe(make)) {
        Err(_) => (json!({"panic": outcome::take_panic()}), Vec::new()),
        Ok(Err(e)) => (json!({"err": outcome::parse_error(&e.to_string())}), Vec::new()),
        Ok(Ok(de)) => (json!({"ok": de.len()}), run_ops(&de, make, ops)),
    }
}

fn exec_inner(input: &Value) -> Result<(Vec<Value>, Value, Vec<Value>), String> {
    let cols = input["cols"].as_array().ok_or("cols")?;
    let nfields = input["nfields"].as_u64().ok_or("nfields")? as usize;
    let ctor = input["via"].as_str().unwrap_or("marrow");
    let ops = input["ops"].as_array().ok_or("ops")?;
    let built: Vec<Col> = cols.iter().map(build_col).collect::<Result<_, _>>()?;
    let mut views: Vec<View> = Vec::new();
    for b in &built {
        views.push(match b {
            Col::Wire(o) => o.view(),
            Col::Arrow(a) => View::try_from(a.as_ref()).map_err(|e| format!("marrow conversion: {e}"))?,
            Col::Arrow2(a) => View::try_from(a.as_ref()).map_err(|e| format!("marrow conversion: {e}"))?,
        });
    }
    let view_dumps: Vec<Value> = views.iter().map(view_to_json).collect();
    let (ctor_out, outs) = match ctor {
        "marrow" => {
            let mut fields: Vec<marrow::datatypes::Field> = cols.iter().map(|c| field_from_json(&c["field"])).collect();
            while fields.len() < nfields {
                fields.push(marrow::datatypes::Field { name: format!("x{}", fields.len()), data_type: marrow::datatypes::DataType::Int32, nullable: false, metadata: Default::default() });
            }
            fields.truncate(nfields);
            ctor_and_ops(&|| serde_arrow::Deserializer::from_marrow(&fields, &views), ops)
        }
        "arrow" | "record_batch" => {
            let arrays: Vec<arrow_array::ArrayRef> = built
                .iter()
                .map(|b| match b {
                    Col::Arrow(a) => Ok(a.clone()),
                    _ => Err("an arrow constructor needs arrow columns".to_string()),
                })
                .collect::<Result<_, _>>()?;
            let mut fields: Vec<arrow_schema::FieldRef> = cols.iter().map(|c| Arc::new(arrowsrc::arrow_field(&c["field"]))).collect();
            while fields.len() < nfields {
                fields.push(Arc::new(arrow_schema::Field::new(format!("x{}", fields.len()), arrow_schema::DataType::Int32, false)));
            }
            fields.truncate(nfields);
            if ctor == "arrow" {
                ctor_and_ops(&|| serde_arrow::Deserializer::from_arrow(&fields, &arrays), ops)
            } else {
                let rows = arrays.first().map(|a| arrow_array::Array::len(a.as_ref())).unwrap_or(0);
                let options = arrow_array::RecordBatchOptions::new().with_row_count(Some(rows));
                let batch = arrow_array::RecordBatch::try_new_with_options(Arc::new(arrow_schema::Schema::new(fields.clone())), arrays.clone(), &options)
                    .map_err(|e| format!("RecordBatch::try_new: {e}"))?;
                ctor_and_ops(&|| serde_arrow::Deserializer::from_record_batch(&batch), ops)
            }
        }
        "arrow2" => {
            let arrays: Vec<Box<dyn arrow2::array::Array>> = built
                .iter()
                .map(|b| match b {
                    Col::Arrow2(a) => Ok(a.clone()),
                    _ => Err("from_arrow2 needs arrow2 columns".to_string()),
                })
                .collect::<Result<_, _>>()?;
            let mut fields: Vec<arrow2::datatypes::Field> = cols.iter().map(|c| arrowsrc::arrow2_field(&c["field"])).collect::<Result<_, _>>()?;
            while fields.len() < nfields {
                fields.push(arrow2::datatypes::Field::new(format!("x{}", fields.len()), arrow2::datatypes::DataType::Int32, false));
            }
            fields.truncate(nfields);
            ctor_and_ops(&|| serde_arrow::Deserializer::from_arrow2(&fields, &arrays), ops)
        }
        other => return Err(format!("unknown constructor {other}")),
    };
    Ok((view_dumps, ctor_out, outs))
}

pub fn exec(input: &Value) -> Value {
    let mut case = input.clone();
    let res = match catch_unwind(AssertUnwindSafe(|| exec_inner(input))) {
        Ok(r) => r,
        Err(_) => Err(format!("panic while building the columns: {}", outcome::take_panic())),
    };
    let obj = case.as_object_mut().unwrap();
    match res {
        Err(e) => {
            obj.insert("skip".into(), json!(e));
        }
        Ok((views, ctor, outs)) => {
            obj.insert("views".into(), Value::Array(views));
            obj.insert("ctor".into(), ctor);
            obj.insert("impl".into(), Value::Array(outs));
        }
    }
    case
}
