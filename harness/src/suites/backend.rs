//! suite `backend` (C19): the same schema and records through EVERY entry point of the three array back ends
//! (marrow, arrow, arrow2): `to_marrow` / `to_arrow` / `to_record_batch` / `to_arrow2`, the `ArrayBuilder`
//! constructors and finishers (straight and crossed), `from_marrow` / `from_arrow` / `from_record_batch` /
//! `from_arrow2` and the `Deserializer` constructors.
//!
//! Every arrow / arrow2 array is converted back to a marrow view and dumped physically (`view_to_json`), every
//! deserialization goes into the self-describing `Dump`.  Beside what the crate did the case carries the
//! right-hand sides of the adapter equations evaluated with the public API only
//! (`to_marrow` then marrow's array conversion; the back end's arrays viewed and read with `from_marrow`), the
//! record batch's schema converted back to marrow fields, and the field round trips marrow → back end → marrow.
//! This is the validation of the hypotheses about marrow's conversions used in `SaModel/Props/C19.lean`.
//!
//! API coverage (notes/api_coverage.md): a third crossing creates the builder with `ArrayBuilder::new(schema)` from a
//! `SerdeArrowSchema` obtained with `TryFrom<&[arrow Field]>` / `TryFrom<&[FieldRef]>` / `TryFrom<&[arrow2 Field]>`
//! (`from` = `schema` / `schema_refs` / `schema2`); the record batch is also read as its parts
//! (`from_arrow(batch.schema().fields(), batch.columns())`, what `from_record_batch` is documented to be) and the arrow
//! arrays through a slice of REFERENCES (`A = &ArrayRef`: any `AsRef<dyn Array>` is accepted).  The `_impl` re-exports and
//! `serde_arrow::marrow` are pinned at compile time (`_reexports`).
//!
//! The TOP-LEVEL `items` value (`top`): beside the plain sequence every case presents the same rows in one other form a
//! `Serialize` impl can take (`TOP_FORMS`: sequence without / with a lying length hint, tuple, tuple struct, newtype struct,
//! newtype variant, tuple variant, `Some(seq)`, unit, map, struct, scalars …) to ALL one-shot entry points, to the
//! `Serializer` wrapper (borrowed and owned builder) and to `ArrayBuilder::extend` (`top_out`).
//!
//! USE AFTER A FAILED OPERATION (`fail_hist`): one builder per finisher, the rows pushed one by one with a record the
//! builder refuses half way in the middle (`bad`, `bad_at`), a build, another push, another build — the history does not
//! stop at a failing operation and every outcome is recorded.
use crate::dedump::Dump;
use crate::dump::view_to_json;
use crate::gen_backend::{decorate, grid_leaves, grid_position, rename_map_children, sanitize};
use crate::gen_schema::{self, ValCfg};
use crate::outcome;
use crate::rng::Rng;
use crate::schema_dump::{field_from_json, field_to_json, meta_to_json};
use crate::sval::{Rows, SVal};
use crate::Ctx;
use marrow::array::Array;
use marrow::datatypes::Field;
use marrow::view::View;
use serde::Deserialize;
use serde_json::{json, Value};

type AField = arrow_schema::Field;
type AFieldRef = arrow_schema::FieldRef;
type AArray = arrow_array::ArrayRef;
type A2Field = arrow2::datatypes::Field;
type A2Array = Box<dyn arrow2::array::Array>;

// ---------------------------------------------------------------- generator

fn crossings(r: &mut Rng) -> Vec<Value> {
    // two builder paths that cross the back ends: created from one family's fields, finished into another
    let froms = ["marrow", "arrow", "arrow2"];
    let tos = ["marrow", "arrow", "batch", "arrow2"];
    let mut out: Vec<Value> = (0..2).map(|_| json!({"from": *r.pick(&froms), "to": *r.pick(&tos), "how": *r.pick(&["extend", "push"])})).collect();
    // API coverage: ArrayBuilder::new(SerdeArrowSchema) (choices from a stream of their own)
    let mut x = Rng::new(r.0 ^ 0xA91_C07E);
    out.push(json!({"from": *x.pick(&["schema", "schema_refs", "schema2"]), "to": *x.pick(&tos), "how": *x.pick(&["extend", "push"])}));
    out
}

/// compile-time pins of the re-exports: with the features of this harness `_impl::arrow` is arrow 55, `_impl::arrow2` is
/// arrow2 0.17 and `serde_arrow::marrow` is the marrow this harness links (a different choice does not type-check)
#[allow(dead_code)]
fn _reexports(
    f: serde_arrow::_impl::arrow::datatypes::FieldRef,
    a: serde_arrow::_impl::arrow::array::ArrayRef,
    b: serde_arrow::_impl::arrow::array::RecordBatch,
    f2: serde_arrow::_impl::arrow2::datatypes::Field,
    m: serde_arrow::marrow::datatypes::Field,
) -> (AFieldRef, AArray, arrow_array::RecordBatch, A2Field, Field) {
    (f, a, b, f2, m)
}

/// every form the TOP-LEVEL `items` value of `to_marrow` / `to_arrow` / `to_record_batch` / `to_arrow2`, of
/// `ArrayBuilder::extend` and of the `Serializer` wrapper can take (`suites::hist::wrap`): the collections the strict
/// `Serializer` accepts, the ones only `OuterSequenceBuilder` (`extend`) accepts, and values that are no collection
pub const TOP_FORMS: &[&str] = &[
    "seq_nohint", "seq_lying", "tuple", "tuple_lying", "tuple_struct", "newtype_struct", "newtype_variant", "tuple_variant",
    "nested", "newtype_variant_tuple_variant", "some", "some_tuple", "some_some", "not:unit", "not:none", "not:unit_struct",
    "not:map", "not:map1", "not:struct", "not:row", "not:i32", "not:str", "not:bool", "not:bytes", "not:f64", "not:char",
    "not:unit_variant", "not:struct_variant", "not:some",
];

pub fn gen(ctx: &Ctx) -> Vec<Value> {
    let mut rng = Rng::new(ctx.seed ^ 0xBAC4_E2D);
    let mut out = Vec::new();
    let mut c = 0usize;
    let mut emit = |r: &mut Rng, sub: u64, schema: Vec<Value>, rows: Vec<Value>, strict: bool| {
        let how = *r.pick(&["extend", "push"]);
        // choices from a stream of their own (the cases above stay what they were)
        let mut y = Rng::new(sub ^ 0x70F0_0123);
        // the top-level form: the grid walks through all of them, the random part picks
        let top = if c < 728 { // (the grid has 714 cases: the first random cases walk the forms too)
            TOP_FORMS[c % TOP_FORMS.len()] } else { *y.pick(TOP_FORMS) };
        // a record the builder refuses half way, to be pushed in the middle of the rows of a history that goes on
        // afterwards (finding C10-use-after-failed-push); null: the rows as they are (non-strict rows fail on their own)
        let bad = if y.chance(2, 3) { crate::suites::hist::bad_record(&mut y, &schema) } else { Value::Null };
        let bad_at = y.usize(rows.len() + 1);
        out.push(json!({"id": format!("backend-{c:06}"), "seed": sub, "schema": schema, "rows": rows, "strict": strict,
            "how": how, "cross": crossings(r), "top": top, "bad": bad, "bad_at": bad_at}));
        c += 1;
    };
    // grid: every leaf type × nullability × position, a handful of representable rows, metadata on the column
    for leaf in grid_leaves() {
        for nullable in [false, true] {
            for pos in 0..7 {
                let mut r = rng.fork();
                let sub = r.0;
                let mut f = grid_position(pos, leaf.clone(), nullable);
                if pos % 2 == 0 {
                    f["meta"] = json!([["k", "v"]]);
                }
                if pos == 5 && nullable {
                    rename_map_children(&mut r, &mut f, 1, 1);
                }
                let schema = vec![f];
                let nrows = *r.pick(&[0usize, 1, 3, 9]);
                let cfg = ValCfg::strict();
                let rows: Vec<Value> = (0..nrows).map(|_| gen_schema::gen_record(&mut r, &schema, &cfg)).collect();
                emit(&mut r, sub, schema, rows, true);
            }
        }
    }
    // random structured
    let n = if ctx.thorough() { 30000 } else { 1500 };
    for _ in 0..n {
        let mut r = rng.fork();
        let sub = r.0;
        let depth = if ctx.thorough() { 1 + r.below(4) as u32 } else { 1 + r.below(3) as u32 };
        let mut schema = gen_schema::gen_schema(&mut r, depth);
        if r.chance(5, 6) {
            schema.iter_mut().for_each(sanitize);
        }
        if r.chance(3, 5) {
            for f in schema.iter_mut() {
                decorate(&mut r, f, 1, 2);
            }
        }
        if r.chance(1, 2) {
            for f in schema.iter_mut() {
                rename_map_children(&mut r, f, 1, 2);
            }
        }
        let nrows = match r.below(8) {
            0 => 0,
            1 => 1,
            2 => 8,
            3 => 9,
            4 => 17,
            _ => r.usize(10),
        };
        let strict = r.chance(3, 5);
        let cfg = if strict { ValCfg::strict() } else { ValCfg::new(if r.chance(1, 3) { 30 } else { 0 }) };
        let rows: Vec<Value> = (0..nrows).map(|_| gen_schema::gen_record(&mut r, &schema, &cfg)).collect();
        emit(&mut r, sub, schema, rows, strict);
    }
    out
}

// ---------------------------------------------------------------- running the crate

/// run `f` (the crate) for its value; the outcome object has `null` under "ok"
fn run_keep<T>(f: impl FnOnce() -> Result<T, serde_arrow::Error>) -> (Value, Option<T>) {
    let mut kept = None;
    let out = outcome::run(|| {
        kept = Some(f()?);
        Ok::<Value, serde_arrow::Error>(Value::Null)
    });
    if outcome::is_ok(&out) {
        (out, kept)
    } else {
        (out, None)
    }
}

/// third-party conversions (marrow ↔ back end) under their own catch_unwind:
/// Ok(v) | Err({"conv_err": msg}) | Err({"conv_panic": msg})
fn conv<T>(f: impl FnOnce() -> Result<T, marrow::error::MarrowError>) -> Result<T, Value> {
    let mut kept = None;
    let out = outcome::run(|| {
        kept = Some(f()?);
        Ok::<Value, marrow::error::MarrowError>(Value::Null)
    });
    match kept {
        Some(v) if outcome::is_ok(&out) => Ok(v),
        _ => Err(match out.get("panic") {
            Some(p) => json!({ "conv_panic": p }),
            None => json!({ "conv_err": out["err"]["msg"] }),
        }),
    }
}

fn arrow_fields(fields: &[Field]) -> Result<Vec<AFieldRef>, Value> {
    conv(|| fields.iter().map(|f| Ok(std::sync::Arc::new(AField::try_from(f)?))).collect())
}

fn arrow2_fields(fields: &[Field]) -> Result<Vec<A2Field>, Value> {
    conv(|| fields.iter().map(A2Field::try_from).collect())
}

fn dump_marrow(arrays: &[Array]) -> Value {
    Value::Array(arrays.iter().map(|a| view_to_json(&a.as_view())).collect())
}

fn dump_arrow(arrays: &[AArray]) -> Result<Value, Value> {
    conv(|| Ok(Value::Array(arrays.iter().map(|a| Ok(view_to_json(&View::try_from(a.as_ref())?))).collect::<Result<_, marrow::error::MarrowError>>()?)))
}

fn dump_arrow2(arrays: &[A2Array]) -> Result<Value, Value> {
    conv(|| Ok(Value::Array(arrays.iter().map(|a| Ok(view_to_json(&View::try_from(a.as_ref())?))).collect::<Result<_, marrow::error::MarrowError>>()?)))
}

/// outcome of a serialization path: {"ok": [view dumps]} | {"err"} | {"panic"} | {"field_err"} | {"view_err"}
fn ser_out(run: Value, views: Option<Result<Value, Value>>) -> Value {
    match views {
        Some(Ok(v)) => json!({ "ok": v }),
        Some(Err(e)) => json!({ "view_err": e }),
        None => run,
    }
}

fn batch_info(b: &arrow_array::RecordBatch) -> Value {
    let schema = b.schema();
    let fields: Vec<Value> = schema
        .fields()
        .iter()
        .map(|f| match conv(|| Field::try_from(f.as_ref())) {
            Ok(f) => field_to_json(&f),
            Err(e) => e,
        })
        .collect();
    json!({"fields": fields, "meta": meta_to_json(schema.metadata()), "rows": b.num_rows(), "cols": b.num_columns()})
}

enum Built {
    M(Vec<Array>),
    A(Vec<AArray>),
    B(arrow_array::RecordBatch),
    A2(Vec<A2Array>),
}

impl Built {
    fn views(&self) -> Result<Value, Value> {
        match self {
            Built::M(a) => Ok(dump_marrow(a)),
            Built::A(a) => dump_arrow(a),
            Built::B(b) => dump_arrow(b.columns()),
            Built::A2(a) => dump_arrow2(a),
        }
    }
}

struct Fields {
    m: Vec<Field>,
    a: Result<Vec<AFieldRef>, Value>,
    a2: Result<Vec<A2Field>, Value>,
}

/// `ArrayBuilder::from_<from>(fields)`, rows added with `extend` or `push`, `to_<to>()`
fn builder_path(fs: &Fields, rows: &[Value], from: &str, to: &str, how: &str) -> (Value, Option<Built>) {
    let field_err = match from {
        "arrow" | "schema" | "schema_refs" => fs.a.as_ref().err().cloned(),
        "arrow2" | "schema2" => fs.a2.as_ref().err().cloned(),
        _ => None,
    };
    if let Some(e) = field_err {
        return (json!({ "field_err": e }), None);
    }
    run_keep(|| {
        use serde_arrow::schema::SerdeArrowSchema;
        let mut b = match from {
            "marrow" => serde_arrow::ArrayBuilder::from_marrow(&fs.m)?,
            "arrow" => serde_arrow::ArrayBuilder::from_arrow(fs.a.as_ref().unwrap())?,
            "schema" => {
                let plain: Vec<AField> = fs.a.as_ref().unwrap().iter().map(|f| f.as_ref().clone()).collect();
                serde_arrow::ArrayBuilder::new(SerdeArrowSchema::try_from(&plain[..])?)?
            }
            "schema_refs" => serde_arrow::ArrayBuilder::new(SerdeArrowSchema::try_from(&fs.a.as_ref().unwrap()[..])?)?,
            "schema2" => serde_arrow::ArrayBuilder::new(SerdeArrowSchema::try_from(&fs.a2.as_ref().unwrap()[..])?)?,
            _ => serde_arrow::ArrayBuilder::from_arrow2(fs.a2.as_ref().unwrap())?,
        };
        if how == "push" {
            for r in rows {
                b.push(&SVal(r))?;
            }
        } else {
            b.extend(&Rows(rows))?;
        }
        Ok(match to {
            "marrow" => Built::M(b.to_marrow()?),
            "arrow" => Built::A(b.to_arrow()?),
            "batch" => Built::B(b.to_record_batch()?),
            _ => Built::A2(b.to_arrow2()?),
        })
    })
}

/// a REUSED builder: rows added, `to_<first>()`, the same rows added again, `to_<to>()` — the second build is returned
/// (it must be what a fresh builder gives for these rows: C10 through every back end, the batch schema included)
fn builder_path_again(fs: &Fields, rows: &[Value], from: &str, first: &str, to: &str, how: &str) -> (Value, Option<Built>) {
    let field_err = match from {
        "arrow" => fs.a.as_ref().err().cloned(),
        "arrow2" => fs.a2.as_ref().err().cloned(),
        _ => None,
    };
    if let Some(e) = field_err {
        return (json!({ "field_err": e }), None);
    }
    run_keep(|| {
        let mut b = match from {
            "marrow" => serde_arrow::ArrayBuilder::from_marrow(&fs.m)?,
            "arrow" => serde_arrow::ArrayBuilder::from_arrow(fs.a.as_ref().unwrap())?,
            _ => serde_arrow::ArrayBuilder::from_arrow2(fs.a2.as_ref().unwrap())?,
        };
        let mut last = None;
        for to in [first, to] {
            if how == "push" {
                for r in rows {
                    b.push(&SVal(r))?;
                }
            } else {
                b.extend(&Rows(rows))?;
            }
            last = Some(match to {
                "marrow" => Built::M(b.to_marrow()?),
                "arrow" => Built::A(b.to_arrow()?),
                "batch" => Built::B(b.to_record_batch()?),
                _ => Built::A2(b.to_arrow2()?),
            });
        }
        Ok(last.unwrap())
    })
}

fn built_out(run: Value, built: &Option<Built>) -> Value {
    ser_out(run, built.as_ref().map(|b| b.views()))
}

fn de_out(f: impl FnOnce() -> Result<Dump, serde_arrow::Error>) -> Value {
    outcome::run(|| f().map(|d| d.0))
}

pub fn exec(input: &Value) -> Value {
    let m: Vec<Field> = input["schema"].as_array().unwrap().iter().map(field_from_json).collect();
    let rows = input["rows"].as_array().unwrap();
    let how = input["how"].as_str().unwrap_or("extend");
    let fs = Fields { a: arrow_fields(&m), a2: arrow2_fields(&m), m };
    let ferr_a: Option<Value> = match &fs.a {
        Ok(_) => None,
        Err(e) => Some(json!({ "field_err": e })),
    };
    let ferr_a2: Option<Value> = match &fs.a2 {
        Ok(_) => None,
        Err(e) => Some(json!({ "field_err": e })),
    };

    // ---- one-shot entry points
    let (run_m, arr_m) = run_keep(|| serde_arrow::to_marrow(&fs.m, &Rows(rows)));
    let (run_a, arr_a) = match &fs.a {
        Ok(a) => run_keep(|| serde_arrow::to_arrow(a, &Rows(rows))),
        Err(_) => (ferr_a.clone().unwrap(), None),
    };
    let (run_b, batch) = match &fs.a {
        Ok(a) => run_keep(|| serde_arrow::to_record_batch(a, &Rows(rows))),
        Err(_) => (ferr_a.clone().unwrap(), None),
    };
    let (run_a2, arr_a2) = match &fs.a2 {
        Ok(a) => run_keep(|| serde_arrow::to_arrow2(a, &Rows(rows))),
        Err(_) => (ferr_a2.clone().unwrap(), None),
    };
    let mut ser = serde_json::Map::new();
    ser.insert("marrow".into(), ser_out(run_m, arr_m.as_ref().map(|a| Ok(dump_marrow(a)))));
    ser.insert("arrow".into(), ser_out(run_a, arr_a.as_ref().map(|a| dump_arrow(a))));
    ser.insert("batch".into(), ser_out(run_b, batch.as_ref().map(|b| dump_arrow(b.columns()))));
    ser.insert("arrow2".into(), ser_out(run_a2, arr_a2.as_ref().map(|a| dump_arrow2(a))));

    // ---- ArrayBuilder: straight paths and two crossings
    for (name, from, to) in [("b_marrow", "marrow", "marrow"), ("b_arrow", "arrow", "arrow"), ("b_batch", "arrow", "batch"), ("b_arrow2", "arrow2", "arrow2")] {
        let (run, built) = builder_path(&fs, rows, from, to, how);
        ser.insert(name.into(), built_out(run, &built));
    }
    let mut cross = Vec::new();
    for x in input["cross"].as_array().cloned().unwrap_or_default() {
        let (from, to, xhow) = (x["from"].as_str().unwrap(), x["to"].as_str().unwrap(), x["how"].as_str().unwrap());
        let (run, built) = builder_path(&fs, rows, from, to, xhow);
        let info = match &built {
            Some(Built::B(b)) => batch_info(b),
            _ => Value::Null,
        };
        cross.push(json!({"from": from, "to": to, "how": xhow, "out": built_out(run, &built), "batch": info}));
    }

    // ---- reused builders: second build after a first one through the same back end family
    for (from, first, to) in [("marrow", "marrow", "marrow"), ("arrow", "batch", "batch"), ("arrow", "arrow", "batch"), ("arrow", "batch", "arrow"), ("arrow2", "arrow2", "arrow2")] {
        let (run, built) = builder_path_again(&fs, rows, from, first, to, how);
        let info = match &built {
            Some(Built::B(b)) => batch_info(b),
            _ => Value::Null,
        };
        cross.push(json!({"from": from, "to": to, "how": how, "first": first, "out": built_out(run, &built), "batch": info}));
    }

    // ---- the TOP-LEVEL value in another form: every one-shot entry point, the Serializer wrapper and `extend`
    let mut top_out = serde_json::Map::new();
    if let Some(form) = input.get("top").and_then(|t| t.as_str()) {
        let v = crate::suites::hist::wrap(form, rows);
        let (run, arr) = run_keep(|| serde_arrow::to_marrow(&fs.m, &SVal(&v)));
        top_out.insert("marrow".into(), ser_out(run, arr.as_ref().map(|a| Ok(dump_marrow(a)))));
        let (run, arr) = match &fs.a {
            Ok(a) => run_keep(|| serde_arrow::to_arrow(a, &SVal(&v))),
            Err(_) => (ferr_a.clone().unwrap(), None),
        };
        top_out.insert("arrow".into(), ser_out(run, arr.as_ref().map(|a| dump_arrow(a))));
        let (run, b) = match &fs.a {
            Ok(a) => run_keep(|| serde_arrow::to_record_batch(a, &SVal(&v))),
            Err(_) => (ferr_a.clone().unwrap(), None),
        };
        top_out.insert("batch".into(), ser_out(run, b.as_ref().map(|b| dump_arrow(b.columns()))));
        let (run, arr) = match &fs.a2 {
            Ok(a) => run_keep(|| serde_arrow::to_arrow2(a, &SVal(&v))),
            Err(_) => (ferr_a2.clone().unwrap(), None),
        };
        top_out.insert("arrow2".into(), ser_out(run, arr.as_ref().map(|a| dump_arrow2(a))));
        // the Serializer wrapper around a borrowed and around an owned builder, `extend`
        let (run, arr) = run_keep(|| {
            use serde::Serialize;
            let mut b = serde_arrow::ArrayBuilder::from_marrow(&fs.m)?;
            SVal(&v).serialize(serde_arrow::Serializer::new(&mut b))?;
            b.to_marrow()
        });
        top_out.insert("ser".into(), ser_out(run, arr.as_ref().map(|a| Ok(dump_marrow(a)))));
        let (run, arr) = run_keep(|| {
            use serde::Serialize;
            let b = serde_arrow::ArrayBuilder::from_marrow(&fs.m)?;
            SVal(&v).serialize(serde_arrow::Serializer::new(b))?.into_inner().to_marrow()
        });
        top_out.insert("ser_owned".into(), ser_out(run, arr.as_ref().map(|a| Ok(dump_marrow(a)))));
        let (run, arr) = run_keep(|| {
            let mut b = serde_arrow::ArrayBuilder::from_marrow(&fs.m)?;
            b.extend(&SVal(&v))?;
            b.to_marrow()
        });
        top_out.insert("extend".into(), ser_out(run, arr.as_ref().map(|a| Ok(dump_marrow(a)))));
    }

    // ---- histories that GO ON after a failing operation, through every finisher: the rows pushed one by one with the
    //      bad record in the middle, a build, the first row again, a second build — every outcome is recorded
    let mut fail_hist = Vec::new();
    if input.get("bad_at").is_some() {
        let bad = &input["bad"];
        let bad_at = input["bad_at"].as_u64().unwrap_or(0) as usize;
        let mut adds: Vec<&Value> = rows.iter().collect();
        if !bad.is_null() {
            adds.insert(bad_at.min(adds.len()), bad);
        }
        for (from, to) in [("marrow", "marrow"), ("arrow", "arrow"), ("arrow", "batch"), ("arrow2", "arrow2")] {
            let made: Option<serde_arrow::ArrayBuilder> = match from {
                "marrow" => run_keep(|| serde_arrow::ArrayBuilder::from_marrow(&fs.m)).1,
                "arrow" => fs.a.as_ref().ok().and_then(|a| run_keep(|| serde_arrow::ArrayBuilder::from_arrow(a)).1),
                _ => fs.a2.as_ref().ok().and_then(|a| run_keep(|| serde_arrow::ArrayBuilder::from_arrow2(a)).1),
            };
            let Some(mut b) = made else {
                fail_hist.push(json!({"to": to, "outs": Value::Null}));
                continue;
            };
            let mut outs = Vec::new();
            let finish = |b: &mut serde_arrow::ArrayBuilder| -> Value {
                let (run, built) = run_keep(|| {
                    Ok(match to {
                        "marrow" => Built::M(b.to_marrow()?),
                        "arrow" => Built::A(b.to_arrow()?),
                        "batch" => Built::B(b.to_record_batch()?),
                        _ => Built::A2(b.to_arrow2()?),
                    })
                });
                built_out(run, &built)
            };
            for r in &adds {
                outs.push(outcome::run(|| b.push(&SVal(r)).map(|_| Value::Null)));
            }
            outs.push(finish(&mut b));
            if let Some(r) = rows.first() {
                outs.push(outcome::run(|| b.push(&SVal(r)).map(|_| Value::Null)));
            }
            outs.push(finish(&mut b));
            fail_hist.push(json!({"to": to, "outs": outs}));
        }
    }

    // ---- the adapter equations, right-hand sides with the public API only:
    //      to_arrow = to_marrow ; ArrayRef::try_from per array      (likewise arrow2)
    let mut via = serde_json::Map::new();
    let mut conv_cols = serde_json::Map::new();
    let via_ser = |name: &str, via: &mut serde_json::Map<String, Value>, conv_cols: &mut serde_json::Map<String, Value>, fields_ok: bool| {
        if !fields_ok {
            return;
        }
        let (run, arrays) = run_keep(|| serde_arrow::to_marrow(&fs.m, &Rows(rows)));
        let Some(arrays) = arrays else {
            via.insert(format!("ser_{name}"), run);
            return;
        };
        let mut cols = Vec::new();
        let mut dumps = Vec::new();
        let mut failed = None;
        for a in arrays {
            let res = if name == "arrow" {
                conv(|| AArray::try_from(a)).and_then(|x| dump_arrow(std::slice::from_ref(&x)))
            } else {
                conv(|| A2Array::try_from(a)).and_then(|x| dump_arrow2(std::slice::from_ref(&x)))
            };
            match res {
                Ok(v) => {
                    cols.push(json!("ok"));
                    dumps.push(v[0].clone());
                }
                Err(e) => {
                    cols.push(if e.get("conv_panic").is_some() { json!("panic") } else { json!("err") });
                    if failed.is_none() {
                        failed = Some(e);
                    }
                }
            }
        }
        conv_cols.insert(name.into(), Value::Array(cols));
        via.insert(format!("ser_{name}"), match failed {
            None => json!({ "ok": dumps }),
            Some(e) => json!({ "conv": e }),
        });
    };
    via_ser("arrow", &mut via, &mut conv_cols, fs.a.is_ok());
    via_ser("arrow2", &mut via, &mut conv_cols, fs.a2.is_ok());

    // ---- deserialization of each back end's own arrays, through every reader entry point
    let mut de = serde_json::Map::new();
    if let Some(arrays) = &arr_m {
        let views: Vec<View> = arrays.iter().map(|a| a.as_view()).collect();
        de.insert("marrow".into(), de_out(|| serde_arrow::from_marrow::<Dump>(&fs.m, &views)));
        de.insert("d_marrow".into(), de_out(|| Dump::deserialize(serde_arrow::Deserializer::from_marrow(&fs.m, &views)?)));
    }
    if let (Some(arrays), Ok(afs)) = (&arr_a, &fs.a) {
        de.insert("arrow".into(), de_out(|| serde_arrow::from_arrow::<Dump, _>(afs, arrays)));
        de.insert("d_arrow".into(), de_out(|| Dump::deserialize(serde_arrow::Deserializer::from_arrow(afs, arrays)?)));
        let refs: Vec<&AArray> = arrays.iter().collect();
        de.insert("arrow_refs".into(), de_out(|| serde_arrow::from_arrow::<Dump, _>(afs, &refs)));
        // from_arrow = views ; from_marrow
        let r = conv(|| arrays.iter().map(|a| View::try_from(a.as_ref())).collect::<Result<Vec<View>, _>>());
        via.insert("de_arrow".into(), match r {
            Ok(views) => de_out(|| serde_arrow::from_marrow::<Dump>(&fs.m, &views)),
            Err(e) => json!({ "conv": e }),
        });
    }
    if let Some(b) = &batch {
        de.insert("batch".into(), de_out(|| serde_arrow::from_record_batch::<Dump>(b)));
        de.insert("d_batch".into(), de_out(|| Dump::deserialize(serde_arrow::Deserializer::from_record_batch(b)?)));
        let schema = b.schema();
        de.insert("batch_parts".into(), de_out(|| serde_arrow::from_arrow::<Dump, _>(schema.fields(), b.columns())));
        let r = conv(|| b.columns().iter().map(|a| View::try_from(a.as_ref())).collect::<Result<Vec<View>, _>>());
        via.insert("de_batch".into(), match r {
            Ok(views) => de_out(|| serde_arrow::from_marrow::<Dump>(&fs.m, &views)),
            Err(e) => json!({ "conv": e }),
        });
    }
    if let (Some(arrays), Ok(a2fs)) = (&arr_a2, &fs.a2) {
        de.insert("arrow2".into(), de_out(|| serde_arrow::from_arrow2::<Dump, _>(a2fs, arrays)));
        de.insert("d_arrow2".into(), de_out(|| Dump::deserialize(serde_arrow::Deserializer::from_arrow2(a2fs, arrays)?)));
        let r = conv(|| arrays.iter().map(|a| View::try_from(a.as_ref())).collect::<Result<Vec<View>, _>>());
        via.insert("de_arrow2".into(), match r {
            Ok(views) => de_out(|| serde_arrow::from_marrow::<Dump>(&fs.m, &views)),
            Err(e) => json!({ "conv": e }),
        });
    }

    // ---- readers with a field / array COUNT MISMATCH: every family must refuse (C13 ctor_checks through each adapter)
    let mut de_mis = serde_json::Map::new();
    let cls = |v: Value| -> Value {
        if v.get("ok").is_some() { json!("ok") } else if v.get("err").is_some() { json!("err") } else { json!("panic") }
    };
    if fs.m.len() >= 1 {
        let n = fs.m.len();
        if let Some(arrays) = &arr_m {
            let views: Vec<View> = arrays.iter().map(|a| a.as_view()).collect();
            de_mis.insert("marrow/fewer_fields".into(), cls(de_out(|| serde_arrow::from_marrow::<Dump>(&fs.m[..n - 1], &views))));
            de_mis.insert("marrow/fewer_arrays".into(), cls(de_out(|| serde_arrow::from_marrow::<Dump>(&fs.m, &views[..n - 1]))));
            de_mis.insert("d_marrow/fewer_fields".into(), cls(de_out(|| Dump::deserialize(serde_arrow::Deserializer::from_marrow(&fs.m[..n - 1], &views)?))));
            de_mis.insert("d_marrow/fewer_arrays".into(), cls(de_out(|| Dump::deserialize(serde_arrow::Deserializer::from_marrow(&fs.m, &views[..n - 1])?))));
        }
        if let (Some(arrays), Ok(afs)) = (&arr_a, &fs.a) {
            de_mis.insert("arrow/fewer_fields".into(), cls(de_out(|| serde_arrow::from_arrow::<Dump, _>(&afs[..n - 1], arrays))));
            de_mis.insert("arrow/fewer_arrays".into(), cls(de_out(|| serde_arrow::from_arrow::<Dump, _>(afs, &arrays[..n - 1]))));
            de_mis.insert("d_arrow/fewer_fields".into(), cls(de_out(|| Dump::deserialize(serde_arrow::Deserializer::from_arrow(&afs[..n - 1], arrays)?))));
            de_mis.insert("d_arrow/fewer_arrays".into(), cls(de_out(|| Dump::deserialize(serde_arrow::Deserializer::from_arrow(afs, &arrays[..n - 1])?))));
        }
        if let (Some(arrays), Ok(a2fs)) = (&arr_a2, &fs.a2) {
            de_mis.insert("arrow2/fewer_fields".into(), cls(de_out(|| serde_arrow::from_arrow2::<Dump, _>(&a2fs[..n - 1], arrays))));
            de_mis.insert("arrow2/fewer_arrays".into(), cls(de_out(|| serde_arrow::from_arrow2::<Dump, _>(a2fs, &arrays[..n - 1]))));
            de_mis.insert("d_arrow2/fewer_fields".into(), cls(de_out(|| Dump::deserialize(serde_arrow::Deserializer::from_arrow2(&a2fs[..n - 1], arrays)?))));
            de_mis.insert("d_arrow2/fewer_arrays".into(), cls(de_out(|| Dump::deserialize(serde_arrow::Deserializer::from_arrow2(a2fs, &arrays[..n - 1])?))));
        }
    }

    // ---- field round trips marrow → back end → marrow (hypothesis hFRT)
    let rt_a = match &fs.a {
        Ok(afs) => match conv(|| afs.iter().map(|f| Field::try_from(f.as_ref())).collect::<Result<Vec<Field>, _>>()) {
            Ok(v) => Value::Array(v.iter().map(field_to_json).collect()),
            Err(e) => e,
        },
        Err(e) => json!({ "field_err": e }),
    };
    let rt_a2 = match &fs.a2 {
        Ok(afs) => match conv(|| afs.iter().map(Field::try_from).collect::<Result<Vec<Field>, _>>()) {
            Ok(v) => Value::Array(v.iter().map(field_to_json).collect()),
            Err(e) => e,
        },
        Err(e) => json!({ "field_err": e }),
    };

    let mut case = input.clone();
    let obj = case.as_object_mut().unwrap();
    obj.insert("aux".into(), gen_schema::aux_for(&input["schema"], &json!([input["rows"], input["bad"]])));
    obj.insert("ser".into(), Value::Object(ser));
    obj.insert("cross_out".into(), Value::Array(cross));
    obj.insert("top_out".into(), Value::Object(top_out));
    obj.insert("fail_hist".into(), Value::Array(fail_hist));
    obj.insert("via".into(), Value::Object(via));
    obj.insert("conv_cols".into(), Value::Object(conv_cols));
    obj.insert("de".into(), Value::Object(de));
    obj.insert("de_mismatch".into(), Value::Object(de_mis));
    obj.insert("batch".into(), batch.as_ref().map(batch_info).unwrap_or(Value::Null));
    obj.insert("fields_rt".into(), json!({"arrow": rt_a, "arrow2": rt_a2}));
    case
}
