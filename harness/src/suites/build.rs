//! suite `build` (C01, C03, C05, C16, C18-ser): `serde_arrow::to_marrow(fields, rows)` on random nested schemas
//! and records in every presentation; the case carries the implementation's arrays (physical dump), and
//! arrow-rs' own validation of each array as an independent validity oracle: key `arrow`, per marrow array
//! `{"ok": len}` | `{"err": ..}` (validate_full refuses) | `{"conv_err": ..}` (marrow's conversion refuses) | `{"panic": true}`,
//! judged for C03 by `marrowArrowC03` in lean/Driver/Suites/Build.lean (classes only, never the message text); key
//! `backends`: the same rows through `to_arrow` / `to_record_batch` / `to_arrow2` (`backendC03`).
use crate::dump;
use crate::gen_schema::{self, ValCfg};
use crate::outcome;
use crate::rng::Rng;
use crate::schema_dump::field_from_json;
use crate::sval::Rows;
use crate::Ctx;
use serde_json::{json, Value};

pub fn gen(ctx: &Ctx) -> Vec<Value> {
    let mut rng = Rng::new(ctx.seed ^ 0xB111D);
    let n = if ctx.thorough() { 60000 } else { 4000 };
    let mut out = Vec::new();
    // ---- grid: every leaf data type × nullability × position × offender.  Three rows: representable, the offender,
    // representable — the offender (a null-like or a value of the wrong shape) sits at the leaf position.  Quick:
    // the two null-likes plus one random offender per cell; thorough: every offender.
    {
        let dts = gen_schema::all_leaf_dts();
        let offs = gen_schema::offenders();
        let mut g = 0usize;
        for dt in &dts {
            for nullable in [false, true] {
                for pos in 0..5u32 {
                    let leaf = gen_schema::field(if pos == 0 { "a" } else { "element" }, nullable, dt.clone());
                    let col = match pos {
                        0 => leaf.clone(),
                        1 => gen_schema::field("a", false, json!({"t": "List", "child": leaf.clone()})),
                        2 => gen_schema::field("a", true, json!({"t": "Struct", "fields": [gen_schema::field("x", nullable, dt.clone()), gen_schema::field("y", true, json!({"t": "Int8"}))]})),
                        3 => gen_schema::field("a", false, json!({"t": "FixedSizeList", "n": 2, "child": leaf.clone()})),
                        _ => gen_schema::field("a", false, json!({"t": "LargeList", "child": gen_schema::field("element", true, json!({"t": "Struct", "fields": [gen_schema::field("x", nullable, dt.clone())]}))})),
                    };
                    let mut r = rng.fork();
                    let pick = 2 + r.usize(offs.len() - 2);
                    for (oi, off) in offs.iter().enumerate() {
                        if !ctx.thorough() && oi >= 2 && oi != pick {
                            continue;
                        }
                        let strict = ValCfg::strict();
                        let lf = gen_schema::field("x", nullable, dt.clone());
                        let wrap = |r: &mut Rng, v: Value| -> Value {
                            match pos {
                                0 => v,
                                1 => crate::sval::seq(vec![gen_schema::gen_value(r, &lf, &strict), v]),
                                2 => crate::sval::record("S", vec![("x".into(), 0, v), ("y".into(), 0, crate::sval::int("i8", 1))]),
                                3 => crate::sval::seq(vec![v, gen_schema::gen_value(r, &lf, &strict)]),
                                _ => crate::sval::seq(vec![crate::sval::record("S", vec![("x".into(), 0, v)])]),
                            }
                        };
                        let good1 = gen_schema::gen_value(&mut r, &lf, &strict);
                        let good2 = gen_schema::gen_value(&mut r, &lf, &strict);
                        let rows: Vec<Value> = vec![wrap(&mut r, good1), wrap(&mut r, off.clone()), wrap(&mut r, good2)]
                            .into_iter()
                            .map(|v| crate::sval::record("R", vec![("a".into(), 0, v)]))
                            .collect();
                        out.push(json!({"id": format!("build-g{g:05}"), "seed": r.0, "schema": [col.clone()], "rows": rows}));
                        g += 1;
                    }
                }
            }
        }
    }
    for c in 0..n {
        let mut r = rng.fork();
        let sub = r.0;
        let depth = if ctx.thorough() { 1 + r.below(4) as u32 } else { 1 + r.below(3) as u32 };
        let mut schema = gen_schema::gen_schema(&mut r, depth);
        // C03 (type equality): half of the random schemas carry metadata at every level, strategies, sorted / renamed /
        // nullable-entries maps, sparse unions, nullable union children (gen_schema::vary_types)
        if r.bool() {
            for f in schema.iter_mut() {
                gen_schema::vary_types(&mut r, f, false);
            }
        }
        let nrows = match r.below(10) {
            0 => 0,
            1 => 1,
            2 => 8,
            3 => 9,
            4 => 16,
            5 => 17,
            _ => r.usize(12),
        };
        // malformed stream: a tenth of the random cases carry positions that violate the schema (3 % of the positions each)
        let cfg = if r.chance(1, 3) { ValCfg::strict() } else { ValCfg::new(if r.chance(3, 20) { 30 } else { 0 }) };
        let mut rows: Vec<Value> = (0..nrows).map(|_| gen_schema::gen_record(&mut r, &schema, &cfg)).collect();
        // a fifth of the cases announce wrong lengths at some container nodes (the call stream itself is unchanged)
        if r.chance(1, 5) {
            for row in rows.iter_mut() {
                gen_schema::lie_hints(&mut r, row, 4);
            }
        }
        out.push(json!({"id": format!("build-{c:06}"), "seed": sub, "schema": schema, "rows": rows}));
    }
    out
}

/// marrow → back end field conversion under catch_unwind (third-party code)
fn conv_fields<T>(f: impl FnOnce() -> Result<Vec<T>, marrow::error::MarrowError>) -> Result<Vec<T>, Value> {
    let mut kept = None;
    let out = outcome::run(|| {
        kept = Some(f()?);
        Ok::<Value, marrow::error::MarrowError>(Value::Null)
    });
    match kept {
        Some(v) if outcome::is_ok(&out) => Ok(v),
        _ => Err(json!({"field_err": if out.get("panic").is_some() { "panic" } else { "err" }})),
    }
}

fn cls_of(out: &Value) -> &'static str {
    if out.get("ok").is_some() {
        "ok"
    } else if out.get("err").is_some() {
        "err"
    } else {
        "panic"
    }
}

/// C03 on the arrow / arrow2 outputs (the independent oracle): the same fields and rows through `to_arrow`,
/// `to_record_batch`, `to_arrow2`; per returned array arrow-rs' `validate_full` and the comparison of the array's
/// `data_type()` with the data type of the back end's own field.  No message text, no type names: classes and booleans.
fn backends(fields: &[marrow::datatypes::Field], rows: &[Value]) -> Value {
    let mut out = serde_json::Map::new();
    // ---- arrow
    let afields = conv_fields(|| fields.iter().map(|f| Ok(std::sync::Arc::new(arrow_schema::Field::try_from(f)?))).collect());
    match &afields {
        Err(e) => {
            out.insert("arrow".into(), e.clone());
            out.insert("batch".into(), e.clone());
        }
        Ok(af) => {
            let af: &Vec<arrow_schema::FieldRef> = af;
            let mut per = Vec::new();
            let run = outcome::run(|| {
                let arrays = serde_arrow::to_arrow(af, &Rows(rows))?;
                for (f, a) in af.iter().zip(arrays.iter()) {
                    let valid = match std::panic::catch_unwind(std::panic::AssertUnwindSafe(|| a.to_data().validate_full())) {
                        Ok(Ok(())) => "ok",
                        Ok(Err(_)) => "err",
                        Err(_) => "panic",
                    };
                    per.push(json!({"valid": valid, "type_eq": a.data_type() == f.data_type(), "len": a.len()}));
                }
                Ok::<Value, serde_arrow::Error>(json!(arrays.len()))
            });
            out.insert("arrow".into(), json!({"run": cls_of(&run), "arrays": per}));
            let mut brows = Value::Null;
            let brun = outcome::run(|| {
                let b = serde_arrow::to_record_batch(af, &Rows(rows))?;
                brows = json!(b.num_rows());
                Ok::<Value, serde_arrow::Error>(Value::Null)
            });
            out.insert("batch".into(), json!({"run": cls_of(&brun), "rows": brows}));
        }
    }
    // ---- arrow2
    let a2fields = conv_fields(|| fields.iter().map(arrow2::datatypes::Field::try_from).collect());
    match &a2fields {
        Err(e) => {
            out.insert("arrow2".into(), e.clone());
        }
        Ok(af) => {
            let af: &Vec<arrow2::datatypes::Field> = af;
            let mut per = Vec::new();
            let run = outcome::run(|| {
                let arrays = serde_arrow::to_arrow2(af, &Rows(rows))?;
                for (f, a) in af.iter().zip(arrays.iter()) {
                    per.push(json!({"type_eq": a.data_type() == f.data_type(), "len": a.len()}));
                }
                Ok::<Value, serde_arrow::Error>(json!(arrays.len()))
            });
            out.insert("arrow2".into(), json!({"run": cls_of(&run), "arrays": per}));
        }
    }
    Value::Object(out)
}

pub fn exec(input: &Value) -> Value {
    let fields: Vec<marrow::datatypes::Field> = input["schema"].as_array().unwrap().iter().map(field_from_json).collect();
    let rows = input["rows"].as_array().unwrap();
    let mut arrow_check = Vec::new();
    let imp = outcome::run(|| {
        let arrays = serde_arrow::to_marrow(&fields, &Rows(rows))?;
        let dumped: Vec<Value> = arrays.iter().map(dump::array_to_json).collect();
        for a in arrays {
            // independent validity oracle (read by `marrowArrowC03`): marrow's conversion hands the array to arrow-rs,
            // which then validates it in full
            let res = std::panic::catch_unwind(std::panic::AssertUnwindSafe(|| arrow_array::ArrayRef::try_from(a)));
            arrow_check.push(match res {
                Ok(Ok(arr)) => match std::panic::catch_unwind(std::panic::AssertUnwindSafe(|| arr.to_data().validate_full())) {
                    Ok(Ok(())) => json!({"ok": arr.len()}),
                    Ok(Err(e)) => json!({"err": e.to_string()}),
                    Err(_) => json!({"panic": true}),
                },
                Ok(Err(e)) => json!({"conv_err": e.to_string()}),
                Err(_) => json!({"panic": true}),
            });
        }
        Ok::<Value, serde_arrow::Error>(Value::Array(dumped))
    });
    let back = if outcome::is_ok(&imp) { backends(&fields, rows) } else { Value::Null };
    let mut case = input.clone();
    let obj = case.as_object_mut().unwrap();
    obj.insert("aux".into(), gen_schema::aux_for(&input["schema"], &input["rows"]));
    obj.insert("impl".into(), imp);
    obj.insert("arrow".into(), Value::Array(arrow_check));
    obj.insert("backends".into(), back);
    case
}
