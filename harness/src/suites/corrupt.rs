//! suite `corrupt` (C17): every valid view of the read suite's hand-made source × single-point corruptions of
//! one length, offset, key, type id, bitmap or buffer (pairs in the thorough tier), read through every access
//! path (deserialize_any, the natural typed target with and without its Option layer, alternative targets),
//! under catch_unwind.  The case carries the corrupted view, the base view and the implementation's results
//! on both, so that the driver can decide "error, or the values the view as it stands designates, or untouched";
//! a case with two corruptions also carries the two views that have one of them each (`alts`).
use crate::lgen;
use crate::readx;
use crate::rng::Rng;
use crate::sval::{hex, unhex};
use crate::wiregen;
use crate::Ctx;
use serde_json::{json, Value};

type Path = Vec<Value>;

fn at<'a>(v: &'a Value, path: &Path) -> &'a Value {
    let mut cur = v;
    for p in path {
        cur = match p {
            Value::String(s) => &cur[s.as_str()],
            Value::Number(n) => &cur[n.as_u64().unwrap() as usize],
            _ => unreachable!(),
        };
    }
    cur
}

fn at_mut<'a>(v: &'a mut Value, path: &Path) -> &'a mut Value {
    let mut cur = v;
    for p in path {
        cur = match p {
            Value::String(s) => &mut cur[s.as_str()],
            Value::Number(n) => &mut cur[n.as_u64().unwrap() as usize],
            _ => unreachable!(),
        };
    }
    cur
}

fn sub(path: &Path, more: &[Value]) -> Path {
    let mut p = path.clone();
    p.extend_from_slice(more);
    p
}

/// one corruption: (class label, path of the node it applies to, new value of that node)
struct Mutation {
    class: String,
    path: Path,
    new: Value,
}

fn int_of(v: &Value) -> i128 {
    match v {
        Value::String(s) => s.parse().unwrap_or(0),
        Value::Number(n) => n.as_i64().map(|x| x as i128).unwrap_or_else(|| n.as_u64().unwrap_or(0) as i128),
        _ => 0,
    }
}

fn int_json(x: i128) -> Value {
    if x >= i64::MIN as i128 && x <= u64::MAX as i128 {
        if x < 0 { json!(x as i64) } else { json!(x as u64) }
    } else {
        json!(x.to_string())
    }
}

fn picks(rng: &mut Rng, n: usize) -> Vec<usize> {
    // first, last, and up to two random positions
    let mut out = Vec::new();
    if n == 0 {
        return out;
    }
    out.push(0);
    if n > 1 {
        out.push(n - 1);
    }
    for _ in 0..2 {
        let k = rng.usize(n);
        if !out.contains(&k) {
            out.push(k);
        }
    }
    out
}

fn len_mutations(out: &mut Vec<Mutation>, path: &Path, key: &str, cur: u64, label: &str) {
    let p = sub(path, &[json!(key)]);
    let mut push = |class: &str, v: Value| out.push(Mutation { class: format!("{label}/{class}"), path: p.clone(), new: v });
    push("+1", json!(cur + 1));
    if cur > 0 {
        push("-1", json!(cur - 1));
        push("0", json!(0));
    }
    push("+8", json!(cur + 8));
    push("max", json!(u64::MAX));
    push("half-max", json!(u64::MAX / 2 + 1));
}

fn validity_mutations(rng: &mut Rng, out: &mut Vec<Mutation>, path: &Path, node: &Value, len: usize) {
    let p = sub(path, &[json!("validity")]);
    let v = &node["validity"];
    let mut push = |class: &str, nv: Value| out.push(Mutation { class: format!("validity/{class}"), path: p.clone(), new: nv });
    if v.is_null() {
        push("add-empty", json!({"hex": "", "off": 0}));
        push("add-short", json!({"hex": hex(&vec![0xAAu8; len / 8]), "off": 0}));
        push("add-zero", json!({"hex": hex(&vec![0u8; (len + 7) / 8]), "off": 0}));
    } else {
        let data = unhex(v["hex"].as_str().unwrap());
        let off = v["off"].as_u64().unwrap();
        if !data.is_empty() {
            push("trunc", json!({"hex": hex(&data[..data.len() - 1]), "off": off}));
            push("empty", json!({"hex": "", "off": off}));
            let k = rng.usize(data.len() * 8);
            let mut d2 = data.clone();
            d2[k / 8] ^= 1 << (k % 8);
            push("flip", json!({"hex": hex(&d2), "off": off}));
        }
        push("off+1", json!({"hex": hex(&data), "off": off + 1}));
        push("off+8", json!({"hex": hex(&data), "off": off + 8}));
        push("off-max", json!({"hex": hex(&data), "off": u64::MAX}));
        push("off-max-1", json!({"hex": hex(&data), "off": u64::MAX - 1}));
        push("remove", Value::Null);
    }
}

fn offsets_mutations(rng: &mut Rng, out: &mut Vec<Mutation>, path: &Path, node: &Value, key: &str, large: bool, label: &str) {
    let offs = node[key].as_array().unwrap();
    let p = sub(path, &[json!(key)]);
    let max: i128 = if large { i64::MAX as i128 } else { i32::MAX as i128 };
    let min: i128 = if large { i64::MIN as i128 } else { i32::MIN as i128 };
    for k in picks(rng, offs.len()) {
        let cur = int_of(&offs[k]);
        for (class, nv) in [("+1", cur + 1), ("-1", cur - 1), ("0", 0), ("max", max), ("neg", -1), ("min", min), ("+3", cur + 3)] {
            if nv == cur {
                continue;
            }
            let mut a = offs.clone();
            a[k] = int_json(nv);
            let pos = if k == 0 { "first" } else if k + 1 == offs.len() { "last" } else { "mid" };
            out.push(Mutation { class: format!("{label}/{pos}/{class}"), path: p.clone(), new: Value::Array(a) });
        }
    }
    if !offs.is_empty() {
        let mut a = offs.clone();
        a.pop();
        out.push(Mutation { class: format!("{label}/pop"), path: p.clone(), new: Value::Array(a) });
    }
    let mut a = offs.clone();
    a.push(offs.last().cloned().unwrap_or(json!(0)));
    out.push(Mutation { class: format!("{label}/push"), path: p.clone(), new: Value::Array(a) });
    out.push(Mutation { class: format!("{label}/clear"), path: p.clone(), new: json!([]) });
}

fn hex_mutations(rng: &mut Rng, out: &mut Vec<Mutation>, p: Path, cur: &str, utf8: bool, label: &str) {
    let data = unhex(cur);
    if !data.is_empty() {
        out.push(Mutation { class: format!("{label}/trunc"), path: p.clone(), new: json!(hex(&data[..data.len() - 1])) });
        out.push(Mutation { class: format!("{label}/empty"), path: p.clone(), new: json!("") });
        let k = rng.usize(data.len());
        let mut d2 = data.clone();
        d2[k] = if utf8 { 0xFF } else { d2[k] ^ 0x55 };
        out.push(Mutation { class: format!("{label}/{}", if utf8 { "bad-utf8" } else { "flip" }), path: p.clone(), new: json!(hex(&d2)) });
        if utf8 {
            let mut d3 = data.clone();
            d3[k] = 0xC3; // lead byte of a two-byte sequence: continuation expected
            out.push(Mutation { class: format!("{label}/bad-utf8-lead"), path: p.clone(), new: json!(hex(&d3)) });
        }
    }
}

fn values_len_mutations(out: &mut Vec<Mutation>, path: &Path, node: &Value, key: &str, label: &str) {
    let vals = node[key].as_array().unwrap();
    let p = sub(path, &[json!(key)]);
    if !vals.is_empty() {
        let mut a = vals.clone();
        a.pop();
        out.push(Mutation { class: format!("{label}/pop"), path: p.clone(), new: Value::Array(a) });
        out.push(Mutation { class: format!("{label}/clear"), path: p.clone(), new: json!([]) });
        let mut a = vals.clone();
        a.push(vals[0].clone());
        out.push(Mutation { class: format!("{label}/push"), path: p, new: Value::Array(a) });
    }
}

fn view_len(node: &Value) -> usize {
    match node["a"].as_str().unwrap() {
        "Null" | "Boolean" | "Struct" | "FixedSizeList" => node["len"].as_u64().unwrap() as usize,
        "Primitive" | "Time" | "Timestamp" | "Decimal128" => node["values"].as_array().unwrap().len(),
        "Bytes" | "List" | "Map" => node["offsets"].as_array().unwrap().len().saturating_sub(1),
        "BytesView" => node["views"].as_array().unwrap().len(),
        "FixedSizeBinary" => {
            let n = node["n"].as_i64().unwrap();
            if n > 0 { node["data"].as_str().unwrap().len() / 2 / n as usize } else { 0 }
        }
        "Dictionary" => view_len(&node["keys"]),
        "Union" => node["types"].as_array().unwrap().len(),
        _ => 0,
    }
}

fn collect(rng: &mut Rng, root: &Value, path: &Path, out: &mut Vec<Mutation>) {
    let node = at(root, path);
    let kind = node["a"].as_str().unwrap().to_string();
    let len = view_len(node);
    if node.get("validity").is_some() {
        validity_mutations(rng, out, path, node, len);
    }
    match kind.as_str() {
        "Null" => len_mutations(out, path, "len", len as u64, "len/Null"),
        "Boolean" => {
            len_mutations(out, path, "len", len as u64, "len/Boolean");
            let p = sub(path, &[json!("values")]);
            let data = unhex(node["values"]["hex"].as_str().unwrap());
            let off = node["values"]["off"].as_u64().unwrap();
            if !data.is_empty() {
                out.push(Mutation { class: "bits/trunc".into(), path: p.clone(), new: json!({"hex": hex(&data[..data.len() - 1]), "off": off}) });
                out.push(Mutation { class: "bits/empty".into(), path: p.clone(), new: json!({"hex": "", "off": off}) });
            }
            out.push(Mutation { class: "bits/off+8".into(), path: p.clone(), new: json!({"hex": hex(&data), "off": off + 8}) });
            out.push(Mutation { class: "bits/off-max".into(), path: p, new: json!({"hex": hex(&data), "off": u64::MAX}) });
        }
        "Primitive" | "Time" | "Decimal128" => values_len_mutations(out, path, node, "values", "values"),
        "Timestamp" => {
            values_len_mutations(out, path, node, "values", "values");
            out.push(Mutation { class: "tz/other".into(), path: sub(path, &[json!("tz")]), new: json!("Europe/Berlin") });
            out.push(Mutation { class: "tz/utc-case".into(), path: sub(path, &[json!("tz")]), new: json!("Utc") });
        }
        "Bytes" => {
            let ty = node["ty"].as_str().unwrap();
            offsets_mutations(rng, out, path, node, "offsets", ty.starts_with("Large"), "offsets/Bytes");
            hex_mutations(rng, out, sub(path, &[json!("data")]), node["data"].as_str().unwrap(), ty.ends_with("Utf8"), "data");
        }
        "BytesView" => {
            let views = node["views"].as_array().unwrap();
            let p = sub(path, &[json!("views")]);
            for k in picks(rng, views.len()) {
                let d: u128 = views[k].as_str().unwrap().parse().unwrap();
                let len = d & 0xFFFF_FFFF;
                let muts: Vec<(&str, u128)> = vec![
                    ("len+1", (d & !0xFFFF_FFFFu128) | ((len + 1) & 0xFFFF_FFFF)),
                    ("len-13", (d & !0xFFFF_FFFFu128) | 13),
                    ("len-max", d | 0xFFFF_FFFF),
                    ("buf+1", d.wrapping_add(1u128 << 64)),
                    ("buf-max", d | (0xFFFF_FFFFu128 << 64)),
                    ("off+1", d.wrapping_add(1u128 << 96)),
                    ("off-max", d | (0xFFFF_FFFFu128 << 96)),
                ];
                for (class, nd) in muts {
                    if nd == d {
                        continue;
                    }
                    let mut a = views.clone();
                    a[k] = json!(nd.to_string());
                    out.push(Mutation { class: format!("view/{class}"), path: p.clone(), new: Value::Array(a) });
                }
            }
            values_len_mutations(out, path, node, "views", "views");
            let bufs = node["buffers"].as_array().unwrap();
            for (k, b) in bufs.iter().enumerate() {
                hex_mutations(rng, out, sub(path, &[json!("buffers"), json!(k)]), b.as_str().unwrap(), node["ty"] == "Utf8View", "buffer");
            }
            if !bufs.is_empty() {
                let mut a = bufs.clone();
                a.pop();
                out.push(Mutation { class: "buffers/pop".into(), path: sub(path, &[json!("buffers")]), new: Value::Array(a) });
            }
        }
        "FixedSizeBinary" => {
            let n = node["n"].as_i64().unwrap();
            let p = sub(path, &[json!("n")]);
            for (class, nv) in [("+1", n + 1), ("-1", n - 1), ("0", 0), ("neg", -1), ("max", i32::MAX as i64), ("min", i32::MIN as i64)] {
                if nv != n {
                    out.push(Mutation { class: format!("n/FixedSizeBinary/{class}"), path: p.clone(), new: json!(nv) });
                }
            }
            hex_mutations(rng, out, sub(path, &[json!("data")]), node["data"].as_str().unwrap(), false, "data");
        }
        "Struct" => {
            len_mutations(out, path, "len", len as u64, "len/Struct");
            let nf = node["fields"].as_array().unwrap().len();
            for k in 0..nf {
                out.push(Mutation { class: "strategy/bogus".into(), path: sub(path, &[json!("fields"), json!(k), json!(0), json!("meta")]),
                                    new: json!([["SERDE_ARROW:strategy", "Bogus"]]) });
                collect(rng, root, &sub(path, &[json!("fields"), json!(k), json!(1)]), out);
            }
        }
        "List" => {
            offsets_mutations(rng, out, path, node, "offsets", node["large"].as_bool().unwrap(), "offsets/List");
            out.push(Mutation { class: "strategy/bogus".into(), path: sub(path, &[json!("meta"), json!("meta")]), new: json!([["SERDE_ARROW:strategy", "Bogus"]]) });
            collect(rng, root, &sub(path, &[json!("elements")]), out);
        }
        "FixedSizeList" => {
            len_mutations(out, path, "len", len as u64, "len/FixedSizeList");
            let n = node["n"].as_i64().unwrap();
            let p = sub(path, &[json!("n")]);
            for (class, nv) in [("+1", n + 1), ("-1", n - 1), ("0", 0), ("neg", -1), ("max", i32::MAX as i64), ("min", i32::MIN as i64)] {
                if nv != n {
                    out.push(Mutation { class: format!("n/FixedSizeList/{class}"), path: p.clone(), new: json!(nv) });
                }
            }
            collect(rng, root, &sub(path, &[json!("elements")]), out);
        }
        "Map" => {
            offsets_mutations(rng, out, path, node, "offsets", false, "offsets/Map");
            collect(rng, root, &sub(path, &[json!("keys")]), out);
            collect(rng, root, &sub(path, &[json!("values")]), out);
        }
        "Dictionary" => {
            let keys = node["keys"]["values"].as_array().unwrap();
            let nvals = view_len(&node["values"]) as i128;
            let p = sub(path, &[json!("keys"), json!("values")]);
            let kty = node["keys"]["ty"].as_str().unwrap();
            let (kmin, kmax): (i128, i128) = match kty {
                "Int8" => (i8::MIN as i128, i8::MAX as i128),
                "Int16" => (i16::MIN as i128, i16::MAX as i128),
                "Int32" => (i32::MIN as i128, i32::MAX as i128),
                "Int64" => (i64::MIN as i128, i64::MAX as i128),
                "UInt8" => (0, u8::MAX as i128),
                "UInt16" => (0, u16::MAX as i128),
                "UInt32" => (0, u32::MAX as i128),
                _ => (0, u64::MAX as i128),
            };
            for k in picks(rng, keys.len()) {
                let cur = int_of(&keys[k]);
                for (class, nv) in [("eq-len", nvals), ("+1", cur + 1), ("-1", cur - 1), ("max", kmax), ("min", kmin), ("len+1", nvals + 1)] {
                    if nv == cur || nv < kmin || nv > kmax {
                        continue;
                    }
                    let mut a = keys.clone();
                    a[k] = int_json(nv);
                    out.push(Mutation { class: format!("key/{class}"), path: p.clone(), new: Value::Array(a) });
                }
            }
            out.push(Mutation { class: "dict-values/validity".into(), path: sub(path, &[json!("values"), json!("validity")]),
                                new: json!({"hex": hex(&vec![0xFFu8; (nvals as usize + 7) / 8]), "off": 0}) });
            collect(rng, root, &sub(path, &[json!("keys")]), out);
            collect(rng, root, &sub(path, &[json!("values")]), out);
        }
        "Union" => {
            let types = node["types"].as_array().unwrap();
            let nvar = node["fields"].as_array().unwrap().len() as i128;
            let p = sub(path, &[json!("types")]);
            for k in picks(rng, types.len()) {
                let cur = int_of(&types[k]);
                for (class, nv) in [("ge", nvar), ("+1", cur + 1), ("-1", cur - 1), ("max", 127), ("neg", -1), ("min", -128), ("other", (cur + 1) % nvar.max(1))] {
                    if nv == cur || nv < -128 || nv > 127 {
                        continue;
                    }
                    let mut a = types.clone();
                    a[k] = int_json(nv);
                    out.push(Mutation { class: format!("typeid/{class}"), path: p.clone(), new: Value::Array(a) });
                }
            }
            values_len_mutations(out, path, node, "types", "types");
            if !node["offsets"].is_null() {
                let offs = node["offsets"].as_array().unwrap();
                let p = sub(path, &[json!("offsets")]);
                for k in picks(rng, offs.len()) {
                    let cur = int_of(&offs[k]);
                    let tid = int_of(&types[k]);
                    let clen = node["fields"].as_array().unwrap().iter().find(|f| int_of(&f[0]) == tid).map(|f| view_len(&f[2])).unwrap_or(0) as i128;
                    for (class, nv) in [("child-len", clen), ("+1", cur + 1), ("-1", cur - 1), ("neg", -1), ("max", i32::MAX as i128), ("min", i32::MIN as i128)] {
                        if nv == cur {
                            continue;
                        }
                        let mut a = offs.clone();
                        a[k] = int_json(nv);
                        out.push(Mutation { class: format!("union-offset/{class}"), path: p.clone(), new: Value::Array(a) });
                    }
                }
                values_len_mutations(out, path, node, "offsets", "union-offsets");
                out.push(Mutation { class: "union-offsets/sparse".into(), path: p, new: Value::Null });
            }
            let nf = node["fields"].as_array().unwrap().len();
            for k in 0..nf {
                let id = int_of(&node["fields"][k][0]);
                out.push(Mutation { class: "union-field-id/+1".into(), path: sub(path, &[json!("fields"), json!(k), json!(0)]), new: int_json(id + 1) });
                collect(rng, root, &sub(path, &[json!("fields"), json!(k), json!(2)]), out);
            }
        }
        _ => {}
    }
}

/// a JSON path as text (for signatures the class is used; the path is only informative)
fn path_text(p: &Path) -> String {
    p.iter().map(|x| match x { Value::String(s) => s.clone(), other => other.to_string() }).collect::<Vec<_>>().join(".")
}

fn reads_for(rng: &mut Rng, field: &Value, base_len: usize, new_len: u64) -> Vec<Value> {
    let name = field["name"].as_str().unwrap();
    let nat = wiregen::natural_target(field);
    let mut tys: Vec<Value> = vec![json!("any"), wiregen::record_target(&nat, name, rng)];
    let stripped = wiregen::strip_option(&nat);
    if stripped != nat {
        tys.push(json!({"struct": [[name, stripped]]}));
    }
    let vars = wiregen::variant_targets(rng, field);
    for _ in 0..2 {
        let v = rng.pick(&vars).clone();
        tys.push(wiregen::record_target(&v, name, rng));
    }
    let mut idxs: Vec<u64> = (0..base_len.min(5) as u64).collect();
    for extra in [base_len as u64, base_len.saturating_sub(1) as u64, new_len.saturating_sub(1), new_len / 2] {
        if !idxs.contains(&extra) {
            idxs.push(extra);
        }
    }
    let mut out = Vec::new();
    for i in idxs {
        for ty in &tys {
            out.push(json!({"ty": ty, "idx": i}));
        }
    }
    out
}

fn top_len(view: &Value) -> u64 {
    match view["a"].as_str().unwrap() {
        "Null" | "Boolean" | "Struct" | "FixedSizeList" => view["len"].as_u64().unwrap_or(0),
        _ => view_len(view) as u64,
    }
}

/// paths of the `BytesView` nodes of a view tree that have exactly ONE data buffer, with the positions of their
/// non-inline elements (descriptor length > 12: the only elements whose buffer index is read)
fn single_buffer_views(root: &Value, path: &Path, out: &mut Vec<(Path, Vec<usize>)>) {
    let node = at(root, path);
    match node["a"].as_str().unwrap_or("") {
        "BytesView" => {
            if node["buffers"].as_array().map(|b| b.len()) == Some(1) {
                let long: Vec<usize> = node["views"].as_array().unwrap().iter().enumerate()
                    .filter(|(_, d)| d.as_str().unwrap().parse::<u128>().unwrap() & 0xFFFF_FFFF > 12)
                    .map(|(k, _)| k).collect();
                if !long.is_empty() {
                    out.push((path.clone(), long));
                }
            }
        }
        "Struct" => {
            for k in 0..node["fields"].as_array().unwrap().len() {
                single_buffer_views(root, &sub(path, &[json!("fields"), json!(k), json!(1)]), out);
            }
        }
        "List" | "FixedSizeList" => single_buffer_views(root, &sub(path, &[json!("elements")]), out),
        "Map" => {
            single_buffer_views(root, &sub(path, &[json!("keys")]), out);
            single_buffer_views(root, &sub(path, &[json!("values")]), out);
        }
        "Union" => {
            for k in 0..node["fields"].as_array().unwrap().len() {
                single_buffer_views(root, &sub(path, &[json!("fields"), json!(k), json!(2)]), out);
            }
        }
        _ => {}
    }
}

/// corruptions of the BUFFER INDEX only (bits 64..96 of the descriptor) of non-inline elements of view arrays with
/// one data buffer: offset and length keep designating bytes that exist in buffer 0, the index names a buffer the
/// view does not have (1: the first index out of range; 2; u32::MAX)
fn buffer_index_mutations(root: &Value, out: &mut Vec<Mutation>) {
    let mut nodes = Vec::new();
    single_buffer_views(root, &Vec::new(), &mut nodes);
    for (path, long) in nodes {
        let views = at(root, &path)["views"].as_array().unwrap();
        let p = sub(&path, &[json!("views")]);
        for k in long {
            let d: u128 = views[k].as_str().unwrap().parse().unwrap();
            for (class, nd) in [("buf+1", d.wrapping_add(1u128 << 64)), ("buf+2", d.wrapping_add(2u128 << 64)), ("buf-max", d | (0xFFFF_FFFFu128 << 64))] {
                let mut a = views.clone();
                a[k] = json!(nd.to_string());
                out.push(Mutation { class: format!("view/{class}"), path: p.clone(), new: Value::Array(a) });
            }
        }
    }
}

/// the fields of the directed block: a view column on its own and under every kind of parent
fn view_shape_field(shape: usize, leaf: &str) -> Value {
    let leaf_dt = json!({"t": leaf});
    let el = |nullable: bool| lgen::mk_field("element", nullable, leaf_dt.clone());
    let dt = match shape % 7 {
        0 => leaf_dt.clone(),
        1 => lgen::list_dt("List", el(true), 0),
        2 => json!({"t": "Struct", "fields": [lgen::mk_field("s", false, leaf_dt.clone()), lgen::mk_field("n", true, json!({"t": "Int32"}))]}),
        3 => lgen::list_dt("LargeList", el(false), 0),
        4 => lgen::map_dt(json!({"t": "Utf8"}), lgen::mk_field("value", true, leaf_dt.clone())),
        5 => lgen::list_dt("List", lgen::mk_field("element", false, json!({"t": "Struct", "fields": [lgen::mk_field("v", true, leaf_dt.clone())]})), 0),
        _ => lgen::list_dt("FixedSizeList", el(false), 2),
    };
    json!({"name": "c", "nullable": shape % 2 == 1, "meta": [], "dt": dt})
}

pub fn gen(ctx: &Ctx) -> Vec<Value> {
    let mut rng = Rng::new(ctx.seed ^ 0xC0_22_17);
    let nbase = if ctx.thorough() { 1200 } else { 150 };
    let per_base = if ctx.thorough() { 40 } else { 28 };
    let leafs = lgen::all_leaf_types();
    let mut out = Vec::new();
    let mut c = 0usize;
    // one case: the base view, the corruption(s) applied to it, the reads
    let mut emit = |out: &mut Vec<Value>, r: &mut Rng, field: &Value, n: usize, base: &Value, muts: &[Mutation], k: usize, pairs: bool| {
        let m = &muts[k];
        let mut r2 = r.fork();
        let sub_seed = r2.0;
        let mut view = base.clone();
        *at_mut(&mut view, &m.path) = m.new.clone();
        let mut class = m.class.clone();
        let mut where_ = path_text(&m.path);
        let mut alts: Vec<Value> = Vec::new();
        // pairs (thorough tier): a second, moderate corruption somewhere else
        if pairs && r2.chance(1, 4) {
            let m2 = &muts[r2.usize(muts.len())];
            let moderate = !(m2.class.contains("max") || m2.class.contains("min"));
            let n = m.path.len().min(m2.path.len());
            let nested = m.path[..n] == m2.path[..n]; // one site inside the other: the second write could miss
            if moderate && !nested && !m.class.contains("max") {
                // the two views with ONE of the corruptions each (`alts`): a read that looks at only one of the two
                // sites is explained by the view that has only that corruption
                let view1 = view.clone();
                let mut view2 = base.clone();
                *at_mut(&mut view2, &m2.path) = m2.new.clone();
                alts = vec![view1, view2];
                *at_mut(&mut view, &m2.path) = m2.new.clone();
                class = format!("{}&{}", class, m2.class);
                where_ = format!("{}&{}", where_, path_text(&m2.path));
            }
        }
        let reads = reads_for(&mut r2, field, n, top_len(&view));
        let mut case = json!({"id": format!("corrupt-{c:06}"), "seed": sub_seed, "fm": wiregen::fmeta(field), "corruption": class, "at": where_,
                              "base": base, "view": view, "reads": reads});
        if !alts.is_empty() {
            case["alts"] = Value::Array(alts);
        }
        out.push(case);
        c += 1;
    };
    for b in 0..nbase {
        let mut r = rng.fork();
        // grid first: every leaf type on its own and under every container, then random nesting
        let field = if b < leafs.len() {
            json!({"name": "c", "nullable": r.bool(), "meta": [], "dt": leafs[b]})
        } else {
            let depth = 1 + r.usize(if ctx.thorough() { 3 } else { 2 });
            lgen::gen_field(&mut r, "c", depth)
        };
        let n = *r.pick(&[1usize, 2, 3, 5, 8, 9]);
        let rows = lgen::gen_rows(&mut r, &field, n);
        let free = r.chance(2, 3);
        let base = wiregen::encode(&mut r, &field, &rows, free);
        let mut muts = Vec::new();
        collect(&mut r, &base, &Vec::new(), &mut muts);
        if muts.is_empty() {
            continue;
        }
        let mut order: Vec<usize> = (0..muts.len()).collect();
        r.shuffle(&mut order);
        for &k in order.iter().take(per_base) {
            emit(&mut out, &mut r, &field, n, &base, &muts, k, ctx.thorough());
        }
    }
    // directed block (seeded regression c17e: a `single data buffer` fast path that no longer looks the buffer index
    // up): Utf8View / BinaryView with exactly ONE data buffer and a non-inline element (> 12 bytes), on its own and
    // under List / LargeList / FixedSizeList / Struct / Map, corruption of the BUFFER INDEX only (1, 2, u32::MAX),
    // plus a few of the other corruptions of the same base
    let nview = if ctx.thorough() { 280 } else { 56 };
    for b in 0..nview {
        let mut r = rng.fork();
        let field = view_shape_field(b / 2, if b % 2 == 0 { "Utf8View" } else { "BinaryView" });
        let mut found = None;
        for _ in 0..40 {
            let n = *r.pick(&[1usize, 2, 3, 5]);
            let rows = lgen::gen_rows(&mut r, &field, n);
            let free = r.chance(1, 2);
            let base = wiregen::encode(&mut r, &field, &rows, free);
            let mut muts = Vec::new();
            buffer_index_mutations(&base, &mut muts);
            if !muts.is_empty() {
                found = Some((n, base, muts));
                break;
            }
        }
        let Some((n, base, mut muts)) = found else { continue };
        let ndirected = muts.len();
        collect(&mut r, &base, &Vec::new(), &mut muts);
        let mut order: Vec<usize> = (0..ndirected).collect();
        r.shuffle(&mut order);
        for &k in order.iter().take(4) {
            emit(&mut out, &mut r, &field, n, &base, &muts, k, ctx.thorough());
        }
        for _ in 0..2 {
            let k = ndirected + r.usize(muts.len() - ndirected);
            emit(&mut out, &mut r, &field, n, &base, &muts, k, false);
        }
    }
    out
}

pub fn exec(input: &Value) -> Value {
    let reads = input["reads"].as_array().unwrap();
    let (ctor, outs) = readx::run_reads(&input["view"], &input["fm"], reads);
    let (bctor, bouts) = readx::run_reads(&input["base"], &input["fm"], reads);
    let mut case = input.clone();
    let obj = case.as_object_mut().unwrap();
    obj.insert("ctor".into(), ctor);
    obj.insert("impl".into(), Value::Array(outs));
    obj.insert("base_ctor".into(), bctor);
    obj.insert("base_impl".into(), Value::Array(bouts));
    case
}
