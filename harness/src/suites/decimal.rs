//! suite `decimal` (C15): text / float values written into REAL `Decimal128(p, s)` columns through
//! `serde_arrow::to_marrow`, and i128 values read back as strings through `serde_arrow::from_marrow`
//! on a hand-made `View::Decimal128`.  One case = one `(p, s)` pair with a list of items, each item
//! executed in its own call (an error must not hide its neighbours).
//!
//! item kinds (`k`):
//!   str   {"txt"}            the text is serialized as `&str` into the column
//!   big   {"src"}            `BigDecimal::from_str(src)` is serialized through its own serde impl
//!                            (`collect_str`); exec records the text it emitted as `txt`
//!   f64 / f32 {"bits"}       the float is serialized into the column; aux = the external
//!                            function `(v * 10^s) as i128` and its finiteness, computed here
//!   read  {"v"}              the i128 (decimal string) is read back as `String`
//! oracle: BigDecimal arithmetic (independent exact decimals): for text `trunc(value * 10^s)`,
//! for reads "the produced string parses to exactly v / 10^s".
use crate::outcome;
use crate::rng::Rng;
use crate::Ctx;
use bigdecimal::num_bigint::BigInt;
use bigdecimal::{BigDecimal, RoundingMode};
use marrow::array::Array;
use marrow::datatypes::{DataType, Field};
use marrow::view::{DecimalView, View};
use serde_arrow::utils::{Item, Items};
use serde_json::{json, Value};
use std::str::FromStr;

// ------------------------------------------------------------------------------------ generator

fn digits(rng: &mut Rng, n: usize, first_nonzero: bool) -> String {
    let mut s = String::new();
    for i in 0..n {
        let d = if i == 0 && first_nonzero { 1 + rng.below(9) } else { rng.below(10) };
        s.push((b'0' + d as u8) as char);
    }
    s
}

fn rdigits(rng: &mut Rng, max: usize, first_nonzero: bool) -> String {
    let n = 1 + rng.usize(max);
    digits(rng, n, first_nonzero)
}

/// text whose value is `mantissa / 10^scale`, i.e. which should be stored as exactly `mantissa`
/// (a digit string); `style` picks the spelling, `dropped` are extra digits finer than the scale
fn place(mantissa: &str, scale: i32, dropped: &str, style: u64) -> String {
    let mut int_part: String;
    let mut frac: String;
    if scale >= 0 {
        let s = scale as usize;
        if mantissa.len() > s {
            int_part = mantissa[..mantissa.len() - s].to_string();
            frac = mantissa[mantissa.len() - s..].to_string();
        } else {
            int_part = String::new();
            frac = "0".repeat(s - mantissa.len()) + mantissa;
        }
        frac.push_str(dropped);
    } else {
        let k = (-scale) as usize;
        // the dropped digits are the last k integer digits (padded / cut to k) and everything after the point
        let mut low: String = dropped.chars().take(k).collect();
        while low.len() < k {
            low.push('0');
        }
        int_part = mantissa.to_string() + &low;
        frac = dropped.chars().skip(k).collect();
    }
    // spelling variants
    match style % 6 {
        0 => {
            if int_part.is_empty() {
                int_part.push('0');
            }
        }
        1 => {
            int_part = "000".to_string() + &int_part;
        }
        2 => { /* nothing before the point when the integer part is zero */ }
        3 => {
            if int_part.is_empty() {
                int_part.push('0');
            }
            frac.push_str("000");
        }
        4 => {
            int_part = "0".to_string() + &int_part;
            frac.push('0');
        }
        _ => {
            if int_part.is_empty() {
                int_part.push('0');
            }
        }
    }
    let with_point = !frac.is_empty() || style % 6 == 5 || style % 6 == 2;
    let mut out = int_part;
    if with_point {
        out.push('.');
        out.push_str(&frac);
    }
    out
}

fn signed(rng: &mut Rng, body: String) -> String {
    match rng.below(4) {
        0 => format!("-{body}"),
        1 => format!("+{body}"),
        _ => body,
    }
}

const JUNK: &[&str] = &[" ", "a", "e", "E", "+", "-", ".", "_", ",", "/", ":", "\u{0}", "٣", "１", "é", "e5", "E-2"];

fn str_items(rng: &mut Rng, p: usize, s: i32, out: &mut Vec<Value>) {
    let push = |out: &mut Vec<Value>, t: String| out.push(json!({"k": "str", "txt": t}));
    // fixed edge spellings: empty, sign only, point only, zeros, nothing before / after the point
    for t in [
        "", "+", "-", ".", "+.", "-.", "0", "-0", "+0", "0.", ".0", "0.0", "00", "-00.00", "1", "-1", "9", "5", ".5", "5.", "-.5", "+5.",
        "0.5", "0.05", "-0.9", "10", "100", "1.0", "1.5", "12.345", "-12.345",
    ] {
        push(out, t.to_string());
    }
    // not decimal numbers
    for t in [
        " 1", "1 ", "1 2", "1e5", "1E-2", "1.5e3", "inf", "NaN", "0x10", "1_000", "1,5", "--1", "+-1", "-+1", "1-", "1+", "1.2.3", "..", "1..2", ".1.",
        "٣", "１２", "1٣", "٣.1", "1.١", "\u{0}", "1\u{0}", "０",
    ] {
        push(out, t.to_string());
    }
    // mantissa shapes around the precision
    let nines = |n: usize| "9".repeat(n);
    let pow = |n: usize| "1".to_string() + &"0".repeat(n);
    let pp = p.max(1);
    let mut mant: Vec<String> = vec![
        "1".into(),
        nines(pp),                         // largest p-digit value: must be stored
        pow(pp - 1),                       // smallest p-digit value
        pow(pp),                           // 10^p: one digit too many
        nines(pp + 1),
        digits(rng, pp, true),
        digits(rng, pp + 1, true),
        rdigits(rng, pp, true),
        nines(38),
        pow(38),
        "170141183460469231731687303715884105727".into(), // i128::MAX
        "170141183460469231731687303715884105728".into(), // i128::MAX + 1
        digits(rng, 40, true),
    ];
    if p > 38 || rng.chance(1, 6) {
        mant.push(digits(rng, 63, true));
        mant.push(digits(rng, 64, true));
        mant.push(digits(rng, 65, true));
        mant.push(digits(rng, 70, true));
        mant.push(digits(rng, p + 1, true));
    }
    for (i, m) in mant.iter().enumerate() {
        let dropped = match rng.below(4) {
            0 => String::new(),
            1 => "9".to_string(),
            2 => rdigits(rng, 4, false),
            _ => "0".repeat(1 + rng.usize(3)),
        };
        let body = place(m, s, &dropped, i as u64 + rng.below(6));
        push(out, signed(rng, body));
    }
    // values whose kept digits are all dropped (must be stored as 0), in several spellings
    if s < 0 {
        let k = (-s) as usize;
        for t in [nines(k), digits(rng, k, true), rdigits(rng, k, true), nines(k) + ".9", "5".to_string()] {
            push(out, signed(rng, t));
        }
        // exactly one kept digit
        push(out, format!("7{}", digits(rng, k, false)));
    } else {
        let k = s as usize;
        for t in [format!(".{}{}", "0".repeat(k), "9"), format!("0.{}{}", "0".repeat(k), digits(rng, 3, true)), format!("-.{}5", "0".repeat(k))] {
            push(out, t);
        }
        push(out, format!("0.{}7", "0".repeat(k.saturating_sub(1))));
    }
    // junk at each region of an otherwise good spelling
    let good = place(&rdigits(rng, pp, true), s, &digits(rng, 2, false), 1);
    let chars: Vec<char> = good.chars().collect();
    let point = chars.iter().position(|c| *c == '.').unwrap_or(chars.len());
    let mut positions = vec![0, chars.len(), point, (point + 1).min(chars.len()), chars.len().saturating_sub(1), point.saturating_sub(1), point / 2];
    positions.push(rng.usize(chars.len() + 1));
    positions.sort();
    positions.dedup();
    for pos in positions {
        let j = *rng.pick(JUNK);
        let mut t: String = chars[..pos].iter().collect();
        t.push_str(j);
        let replace = rng.bool() && pos < chars.len();
        t.extend(chars[pos + replace as usize..].iter());
        push(out, signed(rng, t));
    }
    // BigDecimal values through their own serde string form
    for src in [
        "1.23".to_string(),
        "-4.56".to_string(),
        "0".to_string(),
        "100".to_string(),
        "1e-10".to_string(),
        "1E+20".to_string(),
        "0.000001".to_string(),
        format!("{}e{}", rdigits(rng, pp, true), -s),
        format!("-{}.{}", rdigits(rng, 20, true), rdigits(rng, 20, false)),
        format!("{}e{}", rdigits(rng, 5, true), rng.range(-45, 45)),
    ] {
        out.push(json!({"k": "big", "src": src}));
    }
}

fn pow10_i128(k: u32) -> i128 {
    10i128.pow(k)
}

fn float_items(rng: &mut Rng, p: usize, s: i32, out: &mut Vec<Value>) {
    let e = (p as i32 - s).clamp(-320, 308);
    let bound = 10f64.powi(e);
    let f64s = [
        0.0,
        -0.0,
        1.0,
        -1.0,
        0.5,
        1.23,
        -123.456,
        1e30,
        -1e30,
        1e-30,
        f64::MAX,
        f64::MIN_POSITIVE,
        5e-324,
        f64::NAN,
        -f64::NAN,
        f64::INFINITY,
        f64::NEG_INFINITY,
        bound,
        f64::from_bits(bound.to_bits().wrapping_sub(1)),
        -bound,
        bound * 0.999,
        bound * 1.001,
        bound * 10.0,
        bound / 10.0,
        f64::from_bits(rng.next_u64()),
        (rng.range(-1_000_000, 1_000_000) as f64) / 1000.0,
    ];
    for v in f64s {
        out.push(json!({"k": "f64", "bits": v.to_bits().to_string()}));
    }
    let bound32 = 10f32.powi((p as i32 - s).clamp(-50, 39));
    let f32s = [
        0.0f32,
        -0.0,
        1.0,
        -1.5,
        1.23,
        1e30,
        1e-30,
        f32::MAX,
        f32::MIN_POSITIVE,
        1e-45,
        f32::NAN,
        f32::INFINITY,
        f32::NEG_INFINITY,
        bound32,
        f32::from_bits(bound32.to_bits().wrapping_sub(1)),
        -bound32 * 1.01,
        bound32 * 0.99,
        f32::from_bits(rng.next_u64() as u32),
    ];
    for v in f32s {
        out.push(json!({"k": "f32", "bits": v.to_bits()}));
    }
}

fn read_items(rng: &mut Rng, out: &mut Vec<Value>) {
    let mut vs: Vec<i128> = vec![
        0,
        1,
        -1,
        9,
        10,
        -10,
        12345,
        -12345,
        pow10_i128(38) - 1,
        -(pow10_i128(38) - 1),
        pow10_i128(38),
        i128::MAX,
        i128::MIN,
        i128::MIN + 1,
    ];
    for _ in 0..3 {
        let k = rng.below(39) as u32;
        let v = pow10_i128(k);
        vs.push(if rng.bool() { v } else { -v });
    }
    for _ in 0..3 {
        let raw = ((rng.next_u64() as u128) << 64 | rng.next_u64() as u128) as i128;
        vs.push(raw >> rng.below(127));
    }
    for v in vs {
        out.push(json!({"k": "read", "v": v.to_string()}));
    }
}

fn boundary_scales(p: i32) -> Vec<i32> {
    let mut v = vec![
        -128, -127, -104, -103, -65, -64, -63, -40, -39, -38, -37, -26, -25, -24, -23, -3, -2, -1, 0, 1, 2, 3, p - 2, p - 1, p, p + 1, p + 2, 23, 24,
        25, 26, 37, 38, 39, 40, 60, 61, 62, 63, 64, 65, 126, 127,
    ];
    v.retain(|s| (-128..=127).contains(s));
    v.sort();
    v.dedup();
    v
}

pub fn gen(ctx: &Ctx) -> Vec<Value> {
    let mut rng = Rng::new(ctx.seed);
    let mut pairs: Vec<(u32, i32)> = Vec::new();
    if ctx.thorough() {
        for p in 1..=38u32 {
            for s in -128..=127 {
                pairs.push((p, s));
            }
        }
    } else {
        for p in 1..=38u32 {
            for s in boundary_scales(p as i32) {
                pairs.push((p, s));
            }
        }
        for p in [1u32, 5, 38] {
            for s in -128..=127 {
                pairs.push((p, s));
            }
        }
        pairs.sort();
        pairs.dedup();
    }
    // precisions a Decimal128 column cannot have
    for p in [0u32, 39, 40, 63, 64, 65, 70, 100, 255] {
        for s in [-128, -127, -1, 0, 1, 2, 50, 127] {
            pairs.push((p, s));
        }
    }
    let mut out = Vec::new();
    // exhaustive small scope: EVERY string up to length 3 (quick) / 4 (thorough) over an alphabet holding a digit of
    // each kind the parsers distinguish (0, a middle digit, 9), both signs, the period and two junk characters, for
    // parameter pairs selecting each of the three parsers (fraction only, mixed, negative scale) and scale 0
    {
        let alphabet = ['0', '1', '9', '.', '-', '+', 'e', ' '];
        let maxlen = if ctx.thorough() { 4 } else { 3 };
        let mut all: Vec<String> = vec![String::new()];
        let mut frontier: Vec<String> = vec![String::new()];
        for _ in 0..maxlen {
            let mut next = Vec::new();
            for t in &frontier {
                for c in alphabet {
                    let mut u = t.clone();
                    u.push(c);
                    next.push(u);
                }
            }
            all.extend(next.iter().cloned());
            frontier = next;
        }
        let small: &[(u32, i32)] = if ctx.thorough() {
            &[(1, 0), (1, 1), (2, 1), (2, 2), (2, 3), (3, -1), (1, -2), (5, 2), (38, 37), (38, 38), (38, -1), (4, 0)]
        } else {
            &[(1, 0), (2, 1), (2, 3), (3, -1)]
        };
        for (k, (p, s)) in small.iter().enumerate() {
            for (j, chunk) in all.chunks(600).enumerate() {
                let items: Vec<Value> = chunk.iter().map(|t| json!({"k": "str", "txt": t})).collect();
                out.push(json!({"id": format!("decimal-x{k:02}-{j:03}"), "seed": 0, "p": p, "s": s, "items": items}));
            }
        }
    }
    for (c, (p, s)) in pairs.into_iter().enumerate() {
        let mut r = rng.fork();
        let sub = r.0;
        let mut items = Vec::new();
        str_items(&mut r, p as usize, s, &mut items);
        float_items(&mut r, p as usize, s, &mut items);
        read_items(&mut r, &mut items);
        out.push(json!({"id": format!("decimal-{c:06}"), "seed": sub, "p": p, "s": s, "items": items}));
    }
    out
}

// ------------------------------------------------------------------------------------ execution

fn field(p: u8, s: i8) -> Field {
    Field { name: "item".into(), data_type: DataType::Decimal128(p, s), nullable: false, metadata: Default::default() }
}

fn stored(arrays: Vec<Array>) -> Result<Value, serde_arrow::Error> {
    match arrays.into_iter().next() {
        Some(Array::Decimal128(a)) if a.values.len() == 1 && a.validity.is_none() => Ok(json!(a.values[0].to_string())),
        other => Ok(json!({"unexpected": format!("{other:?}")})),
    }
}

/// the texts on which BigDecimal is consulted as an independent oracle: digits, one leading sign, periods.
/// BigDecimal's own parser is lenient where a sign FOLLOWS the period (`".-0"`, `"1.+5"` parse: it concatenates the two
/// digit strings before reading the sign), so a sign anywhere but at the front puts a text outside the oracle's domain
/// (found by the exhaustive small-scope stream, 2026-09-29; the Lean grammar and the crate both refuse such texts).
fn only_plain_chars(t: &str) -> bool {
    t.bytes().enumerate().all(|(i, b)| b.is_ascii_digit() || b == b'.' || ((b == b'+' || b == b'-') && i == 0))
}

/// trunc(x * 10^s) as an integer string (toward zero)
fn oracle_scaled(x: &BigDecimal, s: i8) -> Value {
    let (digits, exp) = x.as_bigint_and_exponent();
    // x = digits * 10^-exp ; keep the computation small: refuse absurd exponents
    if exp.abs() > 5000 {
        return Value::Null;
    }
    let y = BigDecimal::new(digits, exp - s as i64);
    let t = y.with_scale_round(0, RoundingMode::Down);
    let (m, e) = t.as_bigint_and_exponent();
    debug_assert_eq!(e, 0);
    json!(m.to_string())
}

fn exec_item(p: u8, s: i8, item: &Value) -> (Value, Value, Option<String>) {
    let fields = vec![field(p, s)];
    match item["k"].as_str().unwrap() {
        "str" => {
            let txt = item["txt"].as_str().unwrap().to_string();
            let r = outcome::run(|| stored(serde_arrow::to_marrow(&fields, &[Item(txt.as_str())])?));
            let oracle = if only_plain_chars(&txt) && txt.len() < 400 {
                match BigDecimal::from_str(&txt) {
                    Ok(x) => json!({"big": oracle_scaled(&x, s)}),
                    Err(_) => json!({"big": null, "big_rejects": true}),
                }
            } else {
                json!({"big": null})
            };
            (r, oracle, None)
        }
        "big" => {
            let src = item["src"].as_str().unwrap();
            match BigDecimal::from_str(src) {
                Err(_) => (json!({"skip": true}), Value::Null, Some(String::new())),
                Ok(x) => {
                    let txt = match serde_json::to_value(&x) {
                        Ok(Value::String(t)) => t,
                        other => format!("<{other:?}>"),
                    };
                    let r = outcome::run(|| stored(serde_arrow::to_marrow(&fields, &[Item(x.clone())])?));
                    (r, json!({"big": oracle_scaled(&x, s)}), Some(txt))
                }
            }
        }
        "f64" => {
            let v = f64::from_bits(item["bits"].as_str().unwrap().parse::<u64>().unwrap());
            let r = outcome::run(|| stored(serde_arrow::to_marrow(&fields, &[Item(v)])?));
            let scaled = v * 10f64.powi(s as i32);
            let exact = BigDecimal::try_from(v).ok().map(|x| oracle_scaled(&x, s)).unwrap_or(Value::Null);
            (r, json!({"finite": scaled.is_finite(), "cast": (scaled as i128).to_string(), "exact": exact}), None)
        }
        "f32" => {
            let v = f32::from_bits(item["bits"].as_u64().unwrap() as u32);
            let r = outcome::run(|| stored(serde_arrow::to_marrow(&fields, &[Item(v)])?));
            let scaled = v * 10f32.powi(s as i32);
            let exact = BigDecimal::try_from(v).ok().map(|x| oracle_scaled(&x, s)).unwrap_or(Value::Null);
            (r, json!({"finite": scaled.is_finite(), "cast": (scaled as i128).to_string(), "exact": exact}), None)
        }
        "read" => {
            let v: i128 = item["v"].as_str().unwrap().parse().unwrap();
            let values = [v];
            let views = vec![View::Decimal128(DecimalView { precision: p, scale: s, validity: None, values: &values })];
            let r = outcome::run(|| {
                let Items(got): Items<Vec<String>> = serde_arrow::from_marrow(&fields, &views)?;
                Ok::<Value, serde_arrow::Error>(json!(got))
            });
            // independent exact-decimal oracle: the produced text parses to exactly v / 10^s
            let oracle = match r.get("ok").and_then(|o| o.as_array()).and_then(|a| a.first()).and_then(|t| t.as_str()) {
                Some(t) => match BigDecimal::from_str(t) {
                    Ok(x) => json!({"big_eq": x == BigDecimal::new(BigInt::from(v), s as i64)}),
                    Err(_) => json!({"big_eq": false}),
                },
                None => Value::Null,
            };
            (r, oracle, None)
        }
        other => (json!({"bad_kind": other}), Value::Null, None),
    }
}

pub fn exec(input: &Value) -> Value {
    let p = input["p"].as_u64().unwrap() as u8;
    let s = input["s"].as_i64().unwrap() as i8;
    // builder creation on its own (DecimalBuilder::new → DecimalParser::new)
    let ctor = outcome::run(|| serde_arrow::ArrayBuilder::from_marrow(&[field(p, s)]).map(|_| Value::Bool(true)));
    let mut items_out = Vec::new();
    let mut impls = Vec::new();
    let mut oracles = Vec::new();
    for item in input["items"].as_array().unwrap() {
        let (r, oracle, txt) = exec_item(p, s, item);
        let mut it = item.clone();
        if let Some(t) = txt {
            it.as_object_mut().unwrap().insert("txt".into(), json!(t));
        }
        items_out.push(it);
        impls.push(r);
        oracles.push(oracle);
    }
    let mut case = input.clone();
    let obj = case.as_object_mut().unwrap();
    obj.insert("items".into(), Value::Array(items_out));
    obj.insert("ctor".into(), ctor);
    obj.insert("impl".into(), Value::Array(impls));
    obj.insert("oracle".into(), Value::Array(oracles));
    case
}
