//! suite `ext` (C20): the canonical-extension field helpers `serde_arrow::schema::ext::{Bool8Field,
//! FixedShapeTensorField, VariableShapeTensorField}`: constructor, every setter, `Field::try_from(&helper)`,
//! the `Serialize` form, and `serde_json::from_str` of the produced extension metadata as an independent
//! JSON oracle.
//! API coverage (notes/api_coverage.md): the arrow conversions of the helpers, `arrow Field::try_from(&helper)` and the
//! owned `arrow Field::try_from(helper)`, read back as marrow fields (`field_arrow`, `field_arrow_owned`).
use crate::outcome;
use crate::rng::Rng;
use crate::Ctx;
use marrow::datatypes::{DataType, Field};
use serde_arrow::schema::ext::{Bool8Field, FixedShapeTensorField, VariableShapeTensorField};
use serde_arrow::schema::SchemaLike;
use serde_json::{json, Value};
use std::panic::{catch_unwind, AssertUnwindSafe};

// ------------------------------------------------------------------------------------------ dump

fn dump_dt(dt: &DataType) -> Value {
    match dt {
        DataType::List(f) => json!({"t": "List", "child": dump_field(f)}),
        DataType::LargeList(f) => json!({"t": "LargeList", "child": dump_field(f)}),
        DataType::FixedSizeList(f, n) => json!({"t": "FixedSizeList", "child": dump_field(f), "n": n}),
        DataType::Struct(fs) => json!({"t": "Struct", "fields": fs.iter().map(dump_field).collect::<Vec<_>>()}),
        DataType::Map(f, sorted) => json!({"t": "Map", "child": dump_field(f), "sorted": sorted}),
        DataType::Timestamp(u, tz) => json!({"t": "Timestamp", "unit": u.to_string(), "tz": tz}),
        DataType::Time32(u) => json!({"t": "Time32", "unit": u.to_string()}),
        DataType::Time64(u) => json!({"t": "Time64", "unit": u.to_string()}),
        DataType::Duration(u) => json!({"t": "Duration", "unit": u.to_string()}),
        DataType::Decimal128(p, s) => json!({"t": "Decimal128", "p": p, "s": s}),
        DataType::FixedSizeBinary(n) => json!({"t": "FixedSizeBinary", "n": n}),
        DataType::Dictionary(k, v) => json!({"t": "Dictionary", "key": dump_dt(k), "value": dump_dt(v)}),
        DataType::Union(fs, mode) => json!({"t": "Union", "mode": format!("{mode:?}"),
            "fields": fs.iter().map(|(i, f)| json!([i, dump_field(f)])).collect::<Vec<_>>()}),
        other => {
            // all remaining constructors carry no parameters: Debug is the constructor name
            let s = format!("{other:?}");
            if s.chars().all(|c| c.is_ascii_alphanumeric()) {
                json!({ "t": s })
            } else {
                json!({"t": "Other", "dbg": s})
            }
        }
    }
}

fn dump_field(f: &Field) -> Value {
    let mut meta: Vec<(&String, &String)> = f.metadata.iter().collect();
    meta.sort();
    json!({"name": f.name, "nullable": f.nullable,
           "meta": meta.iter().map(|(k, v)| json!([k, v])).collect::<Vec<_>>(),
           "dt": dump_dt(&f.data_type)})
}

// ------------------------------------------------------------------------------------------ exec

enum H {
    B(Bool8Field),
    F(FixedShapeTensorField),
    V(VariableShapeTensorField),
}

fn as_usize(v: &Value) -> usize {
    match v {
        Value::String(s) => s.parse::<u64>().expect("usize literal") as usize,
        other => other.as_u64().expect("usize number") as usize,
    }
}

fn usize_vec(v: &Value) -> Vec<usize> {
    v.as_array().unwrap().iter().map(as_usize).collect()
}

fn apply(h: H, step: &Value) -> Result<H, String> {
    let v = &step["v"];
    let e = |e: serde_arrow::Error| e.to_string();
    Ok(match (h, step["set"].as_str().unwrap()) {
        (H::B(h), "nullable") => H::B(h.nullable(v.as_bool().unwrap())),
        (H::F(h), "nullable") => H::F(h.nullable(v.as_bool().unwrap())),
        (H::V(h), "nullable") => H::V(h.nullable(v.as_bool().unwrap())),
        (H::F(h), "permutation") => H::F(h.permutation(usize_vec(v)).map_err(e)?),
        (H::V(h), "permutation") => H::V(h.permutation(usize_vec(v)).map_err(e)?),
        (H::F(h), "dim_names") => H::F(h.dim_names(serde_json::from_value(v.clone()).unwrap()).map_err(e)?),
        (H::V(h), "dim_names") => H::V(h.dim_names(serde_json::from_value(v.clone()).unwrap()).map_err(e)?),
        (H::V(h), "uniform_shape") => {
            let us: Vec<Option<usize>> = v.as_array().unwrap().iter().map(|x| if x.is_null() { None } else { Some(as_usize(x)) }).collect();
            H::V(h.uniform_shape(us).map_err(e)?)
        }
        (_, other) => panic!("harness: setter {other} does not exist on this helper"),
    })
}

fn to_field(h: &H) -> Result<Field, serde_arrow::Error> {
    match h {
        H::B(h) => Field::try_from(h),
        H::F(h) => Field::try_from(h),
        H::V(h) => Field::try_from(h),
    }
}

fn to_arrow_field(h: &H) -> Result<Field, serde_arrow::Error> {
    let f = match h {
        H::B(h) => arrow_schema::Field::try_from(h),
        H::F(h) => arrow_schema::Field::try_from(h),
        H::V(h) => arrow_schema::Field::try_from(h),
    }?;
    Ok(Field::try_from(&f)?)
}

fn to_arrow_field_owned(h: H) -> Result<Field, serde_arrow::Error> {
    let f = match h {
        H::B(h) => arrow_schema::Field::try_from(h),
        H::F(h) => arrow_schema::Field::try_from(h),
        H::V(h) => arrow_schema::Field::try_from(h),
    }?;
    Ok(Field::try_from(&f)?)
}

fn to_ser(h: &H) -> Result<Value, serde_json::Error> {
    match h {
        H::B(h) => serde_json::to_value(h),
        H::F(h) => serde_json::to_value(h),
        H::V(h) => serde_json::to_value(h),
    }
}

fn caught<T>(f: impl FnOnce() -> Result<T, String>) -> Result<T, Value> {
    match catch_unwind(AssertUnwindSafe(f)) {
        Ok(Ok(v)) => Ok(v),
        Ok(Err(e)) => Err(json!({"err": outcome::parse_error(&e)})),
        Err(_) => Err(json!({"panic": "ext helper"})),
    }
}

pub fn exec(input: &Value) -> Value {
    let helper = input["helper"].as_str().unwrap();
    let name = input["name"].as_str().unwrap();
    let element = input.get("element").cloned().unwrap_or(Value::Null);
    let mut case = input.clone();
    let obj = case.as_object_mut().unwrap();

    // what the public schema reader makes of the element description (independent of the helpers)
    if helper != "bool8" {
        let el = outcome::run(|| Vec::<Field>::from_value(&[element.clone()]).map(|fs| dump_field(&fs[0])));
        obj.insert("element_field".into(), el);
    }

    let made = caught(|| {
        Ok(match helper {
            "bool8" => H::B(Bool8Field::new(name)),
            "fixed" => H::F(FixedShapeTensorField::new(name, element.clone(), usize_vec(&input["shape"])).map_err(|e| e.to_string())?),
            "variable" => H::V(VariableShapeTensorField::new(name, element.clone(), as_usize(&input["ndim"])).map_err(|e| e.to_string())?),
            other => panic!("harness: unknown helper {other}"),
        })
    });
    let mut steps_out = Vec::new();
    let mut cur = match made {
        Ok(h) => {
            obj.insert("new".into(), json!({"ok": true}));
            Some(h)
        }
        Err(o) => {
            obj.insert("new".into(), o);
            None
        }
    };
    if cur.is_some() {
        for step in input["steps"].as_array().unwrap() {
            let h = cur.take().unwrap();
            match caught(move || apply(h, step)) {
                Ok(h) => {
                    steps_out.push(json!({"ok": true}));
                    cur = Some(h);
                }
                Err(o) => {
                    steps_out.push(o);
                    break;
                }
            }
        }
    }
    obj.insert("steps_out".into(), Value::Array(steps_out));
    let mut field_out = Value::Null;
    let mut oracle = Value::Null;
    let mut ser = Value::Null;
    if let Some(h) = cur.as_ref() {
        let mut produced: Option<Field> = None;
        field_out = match caught(|| to_field(h).map_err(|e| e.to_string())) {
            Ok(f) => {
                let d = dump_field(&f);
                produced = Some(f);
                json!({ "ok": d })
            }
            Err(o) => o,
        };
        if let Some(f) = produced.as_ref() {
            if let Some(m) = f.metadata.get("ARROW:extension:metadata") {
                oracle = match serde_json::from_str::<Value>(m) {
                    Ok(v) => json!({ "ok": v }),
                    Err(e) => json!({"err": e.to_string()}),
                };
            }
        }
        // the Serialize form: must succeed exactly when try_from does and read back (through the public
        // schema reader) as the same field
        ser = match catch_unwind(AssertUnwindSafe(|| to_ser(h))) {
            Err(_) => json!({"panic": "Serialize"}),
            Ok(Err(e)) => json!({"err": {"msg": e.to_string(), "ann": []}}),
            Ok(Ok(v)) => {
                let back = outcome::run(|| Vec::<Field>::from_value(&[v.clone()]).map(|fs| dump_field(&fs[0])));
                json!({"ok": v, "back": back})
            }
        };
    }
    if let Some(h) = cur.as_ref() {
        obj.insert("field_arrow".into(), match caught(|| to_arrow_field(h).map_err(|e| e.to_string())) {
            Ok(f) => json!({ "ok": dump_field(&f) }),
            Err(o) => o,
        });
    }
    if let Some(h) = cur.take() {
        obj.insert("field_arrow_owned".into(), match caught(move || to_arrow_field_owned(h).map_err(|e| e.to_string())) {
            Ok(f) => json!({ "ok": dump_field(&f) }),
            Err(o) => o,
        });
    }
    obj.insert("field".into(), field_out);
    obj.insert("meta_oracle".into(), oracle);
    obj.insert("ser".into(), ser);
    case
}

// ------------------------------------------------------------------------------------------ gen

const HOSTILE: &[char] = &[
    'a', 'Z', '0', ' ', '"', '\\', '/', '\'', '\u{0}', '\u{1}', '\u{8}', '\t', '\n', '\u{b}', '\u{c}', '\r', '\u{1b}', '\u{1f}',
    '\u{7f}', '\u{80}', '\u{ad}', 'é', 'ß', '\u{300}', '\u{2028}', '\u{2029}', '\u{feff}', '\u{e000}', '\u{fffd}', '\u{ffff}',
    '😀', '\u{10ffff}', '{', '}', '[', ']', ',', ':', 'u', 'n',
];

const ELEMENTS: &[&str] = &[
    r#"{"name":"element","data_type":"I32"}"#,
    r#"{"name":"element","data_type":"F32","nullable":true}"#,
    r#"{"name":"element","data_type":"Bool"}"#,
    r#"{"name":"element","data_type":"Utf8","nullable":true}"#,
    r#"{"name":"element","data_type":"U8","metadata":{"k":"v"}}"#,
    r#"{"name":"element","data_type":"List","children":[{"name":"element","data_type":"I64"}]}"#,
    r#"{"name":"element","data_type":"Struct","children":[{"name":"a","data_type":"F64"},{"name":"b","data_type":"LargeUtf8","nullable":true}]}"#,
    r#"{"name":"element","data_type":"Timestamp(Millisecond, Some(\"UTC\"))"}"#,
    r#"{"name":"element","data_type":"Decimal128(10, 2)"}"#,
    r#"{"name":"element","data_type":"FixedSizeList(2)","children":[{"name":"element","data_type":"F16"}]}"#,
];

const BAD_ELEMENTS: &[&str] = &[
    r#"{"name":"item","data_type":"I32"}"#,
    r#"{"name":"","data_type":"F32"}"#,
    r#"{"name":"Element","data_type":"F32"}"#,
    r#"{"name":"element","data_type":"NoSuchType"}"#,
    r#"{"data_type":"I32"}"#,
    r#"[1, 2]"#,
];

/// usize values travel as JSON numbers when they fit i64, else as decimal strings
fn uz(v: u64) -> Value {
    if v <= i64::MAX as u64 {
        json!(v)
    } else {
        json!(v.to_string())
    }
}

const BIG: &[u64] = &[
    0, 1, 2, 3, 7, 46340, 46341, 65535, 65536, (1 << 31) - 1, 1 << 31, (1 << 32) - 1, 1 << 32, 1 << 62, 1 << 63, (1 << 63) + 1,
    u64::MAX - 1, u64::MAX, 1_000_000_007, 3_037_000_500, 4_294_967_297,
];

struct Out {
    cases: Vec<Value>,
}

impl Out {
    fn push(&mut self, rng: &mut Rng, mut v: Value) {
        let sub = rng.fork().0;
        let o = v.as_object_mut().unwrap();
        let mut m = serde_json::Map::new();
        m.insert("id".into(), json!(format!("ext-{:06}", self.cases.len())));
        m.insert("seed".into(), json!(sub));
        for (k, x) in o.iter() {
            m.insert(k.clone(), x.clone());
        }
        self.cases.push(Value::Object(m));
    }
}

fn element(k: usize) -> Value {
    serde_json::from_str(ELEMENTS[k % ELEMENTS.len()]).unwrap()
}

fn tensor(helper: &str, k: usize, ndim_or_shape: &[u64], steps: Vec<Value>) -> Value {
    if helper == "fixed" {
        json!({"helper": "fixed", "name": "t", "element": element(k), "shape": ndim_or_shape.iter().map(|v| uz(*v)).collect::<Vec<_>>(), "steps": steps})
    } else {
        json!({"helper": "variable", "name": "t", "element": element(k), "ndim": ndim_or_shape.len(), "steps": steps})
    }
}

/// all sequences of length `len` over 0..=len (so every permutation, every duplicate pattern and the first
/// out-of-range index)
fn all_seqs(len: usize) -> Vec<Vec<u64>> {
    let base = len + 1;
    let total = base.pow(len as u32);
    let mut out = Vec::with_capacity(total);
    for mut code in 0..total {
        let mut s = Vec::with_capacity(len);
        for _ in 0..len {
            s.push((code % base) as u64);
            code /= base;
        }
        out.push(s);
    }
    out
}

fn hostile_name(rng: &mut Rng, max: usize) -> String {
    let n = rng.usize(max + 1);
    (0..n).map(|_| *rng.pick(HOSTILE)).collect()
}

fn random_perm(rng: &mut Rng, n: usize) -> Vec<u64> {
    let mut p: Vec<u64> = (0..n as u64).collect();
    rng.shuffle(&mut p);
    p
}

pub fn gen(ctx: &Ctx) -> Vec<Value> {
    let mut rng = Rng::new(ctx.seed);
    let mut out = Out { cases: Vec::new() };
    let thorough = ctx.thorough();

    // ---- grid 1: permutations and non-permutations, exhaustively
    let max_len = if thorough { 6 } else { 5 };
    let mut k = 0usize;
    for len in 0..=max_len {
        for s in all_seqs(len) {
            k += 1;
            let shape: Vec<u64> = (0..len as u64).map(|i| 1 + (i % 3)).collect();
            let helpers: &[&str] = if len <= 4 { &["fixed", "variable"] } else if k % 2 == 0 { &["fixed"] } else { &["variable"] };
            for h in helpers {
                out.push(&mut rng, tensor(h, 0, &shape, vec![json!({"set": "permutation", "v": s.iter().map(|v| uz(*v)).collect::<Vec<_>>()})]));
            }
        }
    }
    // length mismatches and far out-of-range entries
    for ndim in 0..=4usize {
        for len in 0..=5usize {
            if len == ndim {
                continue;
            }
            let shape = vec![2u64; ndim];
            let p: Vec<Value> = (0..len as u64).map(uz).collect();
            for h in ["fixed", "variable"] {
                out.push(&mut rng, tensor(h, 1, &shape, vec![json!({"set": "permutation", "v": p})]));
            }
        }
    }
    for big in [u64::MAX, 1 << 63, 1 << 32, 1 << 31] {
        for h in ["fixed", "variable"] {
            out.push(&mut rng, tensor(h, 1, &[2, 2], vec![json!({"set": "permutation", "v": [uz(0), uz(big)]})]));
            out.push(&mut rng, tensor(h, 1, &[2, 2], vec![json!({"set": "permutation", "v": [uz(big), uz(1)]})]));
        }
    }

    // ---- grid 2: every subset of the optional settings × ndim × helper, names over the hostile alphabet
    for ndim in 0..=3usize {
        for mask in 0..8u32 {
            for h in ["fixed", "variable"] {
                if h == "fixed" && mask & 4 != 0 {
                    continue;
                }
                for rep in 0..(if thorough { 12 } else { 3 }) {
                    let shape: Vec<u64> = (0..ndim).map(|_| rng.below(5)).collect();
                    let mut steps = Vec::new();
                    if mask & 1 != 0 {
                        steps.push(json!({"set": "permutation", "v": random_perm(&mut rng, ndim)}));
                    }
                    if mask & 2 != 0 {
                        let names: Vec<String> = (0..ndim).map(|_| if rep == 0 { "x".to_string() } else { hostile_name(&mut rng, 4) }).collect();
                        steps.push(json!({"set": "dim_names", "v": names}));
                    }
                    if mask & 4 != 0 {
                        let us: Vec<Value> = (0..ndim).map(|_| if rng.bool() { Value::Null } else { uz(rng.below(9)) }).collect();
                        steps.push(json!({"set": "uniform_shape", "v": us}));
                    }
                    if rep == 2 {
                        rng.shuffle(&mut steps);
                    }
                    if rng.bool() {
                        steps.push(json!({"set": "nullable", "v": rng.bool()}));
                    }
                    out.push(&mut rng, tensor(h, ndim + rep, &shape, steps));
                }
            }
        }
    }
    // every hostile character alone, doubled and between plain letters, in a dim name
    for (i, c) in HOSTILE.iter().enumerate() {
        for pat in 0..3 {
            let s: String = match pat {
                0 => c.to_string(),
                1 => format!("{c}{c}"),
                _ => format!("a{c}b"),
            };
            let h = if (i + pat) % 2 == 0 { "fixed" } else { "variable" };
            out.push(&mut rng, tensor(h, i, &[3], vec![json!({"set": "dim_names", "v": [s]})]));
        }
    }
    // every code point of the escaping boundary of `JsonString::fmt` (all 32 C0 controls, U+0020, DEL and the
    // C1 controls) alone and between plain letters, through both helpers: an escape arm dropped or shifted for
    // any single one of them makes the metadata text differ from the model and unreadable for serde_json
    for cp in (0u32..=0x20).chain(0x7f..=0xa0) {
        let c = char::from_u32(cp).unwrap();
        for (pat, h) in [(0, "fixed"), (1, "variable")] {
            let s: String = if pat == 0 { c.to_string() } else { format!("a{c}b") };
            out.push(&mut rng, tensor(h, cp as usize, &[2], vec![json!({"set": "dim_names", "v": [s]})]));
        }
    }
    // dim-name count mismatches, uniform-shape count mismatches
    for ndim in 0..=3usize {
        for len in 0..=4usize {
            if len == ndim {
                continue;
            }
            let shape = vec![2u64; ndim];
            let names: Vec<String> = (0..len).map(|i| format!("d{i}")).collect();
            for h in ["fixed", "variable"] {
                out.push(&mut rng, tensor(h, 2, &shape, vec![json!({"set": "dim_names", "v": names})]));
            }
            let us: Vec<Value> = (0..len).map(|i| if i % 2 == 0 { Value::Null } else { uz(i as u64) }).collect();
            out.push(&mut rng, tensor("variable", 2, &shape, vec![json!({"set": "uniform_shape", "v": us})]));
        }
    }

    // ---- grid 3: shapes (0 entries, empty, products at and beyond the i32 / usize boundaries)
    out.push(&mut rng, tensor("fixed", 0, &[], vec![]));
    for a in BIG {
        out.push(&mut rng, tensor("fixed", 1, &[*a], vec![]));
        for b in BIG {
            out.push(&mut rng, tensor("fixed", 2, &[*a, *b], vec![]));
        }
    }
    for _ in 0..(if thorough { 4000 } else { 400 }) {
        let n = 3 + rng.usize(3);
        let shape: Vec<u64> = (0..n).map(|_| if rng.chance(1, 3) { *rng.pick(BIG) } else { rng.below(40) }).collect();
        out.push(&mut rng, tensor("fixed", 3, &shape, vec![]));
    }
    // uniform shapes with huge entries, variable-shape ndim at the i32 boundary (no setters: ndim is only a number)
    for a in BIG {
        out.push(&mut rng, tensor("variable", 1, &[1, 1], vec![json!({"set": "uniform_shape", "v": [uz(*a), Value::Null]})]));
    }
    for ndim in [(1u64 << 31) - 1, 1 << 31, (1 << 31) + 1, 1 << 32, 1 << 63, u64::MAX] {
        out.push(&mut rng, json!({"helper": "variable", "name": "t", "element": element(0), "ndim": uz(ndim), "steps": []}));
        out.push(&mut rng, json!({"helper": "variable", "name": "t", "element": element(0), "ndim": uz(ndim),
            "steps": [{"set": "dim_names", "v": ["a"]}]}));
    }

    // ---- bool8 and element descriptions
    for (i, c) in HOSTILE.iter().enumerate() {
        let mut steps = Vec::new();
        if i % 3 != 0 {
            steps.push(json!({"set": "nullable", "v": i % 3 == 1}));
        }
        out.push(&mut rng, json!({"helper": "bool8", "name": format!("b{c}"), "steps": steps}));
    }
    for k in 0..ELEMENTS.len() {
        out.push(&mut rng, tensor("fixed", k, &[2, 3], vec![]));
        out.push(&mut rng, tensor("variable", k, &[2, 3], vec![]));
    }
    for b in BAD_ELEMENTS {
        let e: Value = serde_json::from_str(b).unwrap();
        out.push(&mut rng, json!({"helper": "fixed", "name": "t", "element": e, "shape": [2], "steps": []}));
        out.push(&mut rng, json!({"helper": "variable", "name": "t", "element": e, "ndim": 1, "steps": []}));
    }

    // ---- random structured (≈15 % malformed settings)
    let n = if thorough { 60000 } else { 2500 };
    for _ in 0..n {
        let mut r = rng.fork();
        let helper = *r.pick(&["fixed", "variable", "variable", "fixed", "bool8"]);
        if helper == "bool8" {
            let mut steps = Vec::new();
            for _ in 0..r.usize(3) {
                steps.push(json!({"set": "nullable", "v": r.bool()}));
            }
            out.push(&mut rng, json!({"helper": "bool8", "name": hostile_name(&mut r, 6), "steps": steps}));
            continue;
        }
        let ndim = match r.below(10) {
            0 => 0,
            1 => 1,
            2 => 7 + r.usize(20),
            _ => r.usize(7),
        };
        let shape: Vec<u64> = (0..ndim).map(|_| if r.chance(1, 12) { *r.pick(BIG) } else { r.below(6) }).collect();
        let nsteps = r.usize(5);
        let mut steps = Vec::new();
        for _ in 0..nsteps {
            let malformed = r.chance(3, 20);
            let kinds: &[&str] = if helper == "fixed" { &["permutation", "dim_names", "nullable"] } else { &["permutation", "dim_names", "uniform_shape", "nullable"] };
            let kind = *r.pick(kinds);
            let len = if malformed && r.bool() { if r.bool() { ndim + 1 } else { ndim.saturating_sub(1) } } else { ndim };
            steps.push(match kind {
                "permutation" => {
                    let mut p = random_perm(&mut r, len);
                    if malformed && !p.is_empty() {
                        let i = r.usize(p.len());
                        p[i] = match r.below(4) {
                            0 => p[(i + 1) % p.len()],
                            1 => len as u64,
                            2 => *r.pick(BIG),
                            _ => r.below(len as u64 + 2),
                        };
                    }
                    json!({"set": "permutation", "v": p.iter().map(|v| uz(*v)).collect::<Vec<_>>()})
                }
                "dim_names" => {
                    let names: Vec<String> = (0..len).map(|_| hostile_name(&mut r, 5)).collect();
                    json!({"set": "dim_names", "v": names})
                }
                "uniform_shape" => {
                    let us: Vec<Value> = (0..len).map(|_| if r.bool() { Value::Null } else if r.chance(1, 10) { uz(*r.pick(BIG)) } else { uz(r.below(12)) }).collect();
                    json!({"set": "uniform_shape", "v": us})
                }
                _ => json!({"set": "nullable", "v": r.bool()}),
            });
        }
        let el = if r.chance(1, 25) { let b: &str = *r.pick(BAD_ELEMENTS); serde_json::from_str(b).unwrap() } else { element(r.usize(ELEMENTS.len())) };
        let name = if r.bool() { "tensor".to_string() } else { hostile_name(&mut r, 4) };
        let v = if helper == "fixed" {
            json!({"helper": "fixed", "name": name, "element": el, "shape": shape.iter().map(|v| uz(*v)).collect::<Vec<_>>(), "steps": steps})
        } else {
            json!({"helper": "variable", "name": name, "element": el, "ndim": ndim, "steps": steps})
        };
        out.push(&mut rng, v);
    }
    out.cases
}
