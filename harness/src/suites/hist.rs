//! suite `hist` (C10): operation histories on one `serde_arrow::ArrayBuilder`
//! (push / extend / serialize through `Serializer::new(&mut builder)` / to_marrow), including builds of zero
//! rows and repeated builds; every build is dumped, and the one-shot `to_marrow` of the same batch is recorded
//! as a metamorphic oracle.
use crate::dump;
use crate::gen_schema::{self, ValCfg};
use crate::outcome;
use crate::rng::Rng;
use crate::schema_dump::field_from_json;
use crate::sval::SVal;
use crate::Ctx;
use serde::Serialize;
use serde_json::{json, Value};

pub fn gen(ctx: &Ctx) -> Vec<Value> {
    let mut rng = Rng::new(ctx.seed ^ 0x4157);
    let n = if ctx.thorough() { 30000 } else { 2500 };
    let mut out = Vec::new();
    for c in 0..n {
        let mut r = rng.fork();
        let sub = r.0;
        let depth = 1 + r.below(3) as u32;
        let schema = gen_schema::gen_schema(&mut r, depth);
        let cfg = if r.chance(5, 6) { ValCfg::strict() } else { ValCfg::new(if r.chance(1, 3) { 25 } else { 0 }) };
        let nops = 2 + r.usize(if ctx.thorough() { 14 } else { 9 });
        let mut ops = Vec::new();
        for _ in 0..nops {
            let k = r.below(10);
            if k < 3 {
                ops.push(json!({"op": "push", "row": gen_schema::gen_record(&mut r, &schema, &cfg)}));
            } else if k < 7 {
                let m = r.usize(5);
                let rows: Vec<Value> = (0..m).map(|_| gen_schema::gen_record(&mut r, &schema, &cfg)).collect();
                let as_ = *r.pick(&["seq", "seq", "tuple", "tuple_struct"]);
                let op = if r.bool() { "extend" } else { "ser" };
                ops.push(json!({"op": op, "as": as_, "rows": rows}));
            } else {
                ops.push(json!({"op": "build"}));
                if r.chance(1, 5) {
                    ops.push(json!({"op": "build"})); // repeated build: zero rows
                }
            }
        }
        ops.push(json!({"op": "build"}));
        out.push(json!({"id": format!("hist-{c:06}"), "seed": sub, "schema": schema, "ops": ops}));
    }
    out
}

fn wrap(as_: &str, rows: &[Value]) -> Value {
    match as_ {
        "tuple" => json!({"k": "tuple", "v": rows}),
        "tuple_struct" => json!({"k": "tuple_struct", "n": "Batch", "v": rows}),
        _ => json!({"k": "seq", "v": rows}),
    }
}

pub fn exec(input: &Value) -> Value {
    let fields: Vec<marrow::datatypes::Field> = input["schema"].as_array().unwrap().iter().map(field_from_json).collect();
    let mut outs: Vec<Value> = Vec::new();
    let mut oneshots: Vec<Value> = Vec::new();
    let made = outcome::run(|| serde_arrow::ArrayBuilder::from_marrow(&fields).map(|_| Value::Null));
    if outcome::is_ok(&made) {
        let mut builder = serde_arrow::ArrayBuilder::from_marrow(&fields).unwrap();
        let mut batch: Vec<Value> = Vec::new();
        for op in input["ops"].as_array().unwrap() {
            let kind = op["op"].as_str().unwrap();
            let res = match kind {
                "push" => {
                    batch.push(op["row"].clone());
                    outcome::run(|| builder.push(&SVal(&op["row"])).map(|_| Value::Null))
                }
                "extend" => {
                    let rows = op["rows"].as_array().unwrap();
                    batch.extend(rows.iter().cloned());
                    let v = wrap(op["as"].as_str().unwrap(), rows);
                    outcome::run(|| builder.extend(&SVal(&v)).map(|_| Value::Null))
                }
                "ser" => {
                    let rows = op["rows"].as_array().unwrap();
                    batch.extend(rows.iter().cloned());
                    let v = wrap(op["as"].as_str().unwrap(), rows);
                    outcome::run(|| SVal(&v).serialize(serde_arrow::Serializer::new(&mut builder)).map(|_| Value::Null))
                }
                "build" => {
                    let r = outcome::run(|| builder.to_marrow().map(|arrs| Value::Array(arrs.iter().map(dump::array_to_json).collect())));
                    // metamorphic oracle: the one-shot conversion of exactly this batch
                    let rows = std::mem::take(&mut batch);
                    let v = json!({"k": "seq", "v": rows});
                    oneshots.push(outcome::run(|| {
                        serde_arrow::to_marrow(&fields, &SVal(&v)).map(|arrs| Value::Array(arrs.iter().map(dump::array_to_json).collect()))
                    }));
                    r
                }
                other => json!({"bad_op": other}),
            };
            let failed = !outcome::is_ok(&res);
            outs.push(res);
            if failed {
                break; // a failed operation leaves the builder in an unspecified state: histories end there
            }
        }
    }
    let mut case = input.clone();
    let obj = case.as_object_mut().unwrap();
    obj.insert("aux".into(), gen_schema::aux_for(&input["schema"], &input["ops"]));
    obj.insert("ctor".into(), made);
    obj.insert("impl".into(), Value::Array(outs));
    obj.insert("oneshot".into(), Value::Array(oneshots));
    case
}
