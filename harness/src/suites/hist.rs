//! suite `hist` (C10): operation histories on one `serde_arrow::ArrayBuilder`
//! (push / extend / serialize through `Serializer::new(&mut builder)` / to_marrow), including builds of zero
//! rows and repeated builds; every build is dumped, and the one-shot `to_marrow` of the same batch is recorded
//! as a metamorphic oracle.
//!
//! API coverage (notes/api_coverage.md): a third of the builders is made with `ArrayBuilder::new(SerdeArrowSchema)`
//! instead of `ArrayBuilder::from_marrow(fields)` (the schema comes from `SerdeArrowSchema::try_from(&[arrow Field])` or
//! from `SerdeArrowSchema::from_value(&fields)` and is only used when it observably holds exactly the given fields); `ser_owned` moves the builder into
//! `Serializer::new(builder)` and takes it back with `into_inner()`; batches also arrive in every other shape the two
//! front ends accept (tuple variant, newtype struct / variant around a sequence, `Some(sequence)`), and a few
//! histories end with a value that is not a collection of records (refused by both front ends).  Errors are recorded
//! together with the view of the public `Error` accessors (`outcome::run_sa`).
//!
//! A history does NOT end at a failing operation: a third of the histories hold a record the builder refuses half way
//! (`bad_record`) in the middle, followed by more additions and builds; every outcome is recorded.
use crate::dump;
use crate::gen_schema::{self, ValCfg};
use crate::outcome;
use crate::rng::Rng;
use crate::schema_dump::field_from_json;
use crate::sval::SVal;
use crate::Ctx;
use serde::Serialize;
use serde_json::{json, Value};

pub fn gen(ctx: &Ctx) -> Vec<Value> {
    let mut rng = Rng::new(ctx.seed ^ 0x4157);
    let n = if ctx.thorough() { 30000 } else { 2500 };
    let mut out = Vec::new();
    for c in 0..n {
        let mut r = rng.fork();
        let sub = r.0;
        let depth = 1 + r.below(3) as u32;
        let schema = gen_schema::gen_schema(&mut r, depth);
        let cfg = if r.chance(5, 6) { ValCfg::strict() } else { ValCfg::new(if r.chance(1, 3) { 25 } else { 0 }) };
        let nops = 2 + r.usize(if ctx.thorough() { 14 } else { 9 });
        let mut ops = Vec::new();
        for _ in 0..nops {
            let k = r.below(10);
            if k < 3 {
                ops.push(json!({"op": "push", "row": gen_schema::gen_record(&mut r, &schema, &cfg)}));
            } else if k < 7 {
                let m = r.usize(5);
                let rows: Vec<Value> = (0..m).map(|_| gen_schema::gen_record(&mut r, &schema, &cfg)).collect();
                let as_ = *r.pick(&["seq", "seq", "tuple", "tuple_struct"]);
                let op = if r.bool() { "extend" } else { "ser" };
                ops.push(json!({"op": op, "as": as_, "rows": rows}));
            } else {
                ops.push(json!({"op": "build"}));
                if r.chance(1, 5) {
                    ops.push(json!({"op": "build"})); // repeated build: zero rows
                }
            }
        }
        ops.push(json!({"op": "build"}));
        // API coverage: choices from a stream of their own (the histories above stay what they were)
        let mut x = Rng::new(sub ^ 0xA91_C07E);
        let ctor = match x.below(6) {
            0 => "new",
            1 => "new_value",
            _ => "from_marrow",
        };
        for op in ops.iter_mut() {
            let kind = op["op"].as_str().unwrap().to_string();
            if kind == "ser" && x.chance(1, 3) {
                op["op"] = json!("ser_owned");
            }
            if kind == "ser" && x.chance(1, 4) {
                op["as"] = json!(*x.pick(&["tuple_variant", "newtype_struct", "newtype_variant"]));
            }
            if kind == "extend" && x.chance(1, 5) {
                op["as"] = json!(*x.pick(&["newtype_struct", "some"]));
            }
        }
        // USE AFTER A FAILED OPERATION (finding C10-use-after-failed-push): a third of the histories get one or two records
        // that the builder refuses half way (wrong type, out-of-range integer, missing required field, unknown variant …)
        // somewhere in the middle, as a push or inside a batch; the history goes on with more additions and builds
        let mut y = Rng::new(sub ^ 0xFA11_ED00);
        if y.chance(1, 3) {
            for _ in 0..(1 + y.below(2)) {
                let bad = bad_record(&mut y, &schema);
                let pos = y.usize(ops.len());
                if y.chance(1, 2) {
                    ops.insert(pos, json!({"op": "push", "row": bad}));
                } else {
                    let m = y.usize(3);
                    let mut rows: Vec<Value> = (0..m).map(|_| gen_schema::gen_record(&mut y, &schema, &ValCfg::strict())).collect();
                    let at = y.usize(rows.len() + 1);
                    rows.insert(at, bad);
                    let op = *y.pick(&["extend", "ser", "ser_owned"]);
                    ops.insert(pos, json!({"op": op, "as": *y.pick(&["seq", "tuple", "tuple_struct"]), "rows": rows}));
                }
            }
            // … and something after it: good rows and a build
            ops.push(json!({"op": "push", "row": gen_schema::gen_record(&mut y, &schema, &ValCfg::strict())}));
            ops.push(json!({"op": "build"}));
        }
        if x.chance(1, 12) {
            let op = *x.pick(&["ser", "ser_owned", "extend"]);
            // `extend` treats a unit / None as one null record (not generated here); `Serializer` refuses every scalar
            let as_ = if op == "extend" {
                *x.pick(&["not:i32", "not:bool", "not:str", "not:map", "not:struct", "not:unit_variant"])
            } else {
                *x.pick(&[
                    "not:i32", "not:bool", "not:str", "not:map", "not:struct", "not:unit_variant", "not:none", "not:some", "not:unit",
                    "not:unit_struct", "not:bytes", "not:char", "not:f32", "not:f64", "not:i8", "not:i16", "not:i64", "not:u8", "not:u16",
                    "not:u32", "not:u64", "not:struct_variant",
                ])
            };
            ops.push(json!({"op": op, "as": as_, "rows": []}));
        }
        if ops.last().map(|o| o["op"] == "build").unwrap_or(false) && x.chance(1, 25) {
            // errors made by the USER of the crate: a `Serialize` impl that fails with `S::Error::custom` under `push`, and
            // the public constructors `Error::custom` / `Error::custom_from` / `serde::de::Error::custom`
            let via = *x.pick(&["ser", "ser", "custom", "custom_from", "de"]);
            let text = *x.pick(&["boom", "two\nlines", "ünï 😀", "", "trailing space "]);
            ops.push(json!({"op": "user_error", "via": via, "text": text}));
        }
        out.push(json!({"id": format!("hist-{c:06}"), "seed": sub, "schema": schema, "ctor": ctor, "ops": ops}));
    }
    out
}

/// a record of the schema in which ONE position (preferably a late one, so that earlier columns have already taken
/// their value when the builder refuses) holds something the column cannot represent, or a required field is absent
pub fn bad_record(r: &mut Rng, schema: &[Value]) -> Value {
    let cfg = ValCfg::strict();
    let mut fs: Vec<(String, u64, Value)> =
        schema.iter().map(|f| (f["name"].as_str().unwrap().to_string(), 0u64, gen_schema::gen_value(r, f, &cfg))).collect();
    if fs.is_empty() {
        return crate::sval::int("i32", 1);
    }
    let i = if r.chance(2, 3) { fs.len() - 1 } else { r.usize(fs.len()) };
    match r.below(8) {
        0 => {
            fs.remove(i); // missing field (refused when it is not nullable)
        }
        1 => fs[i].2 = crate::sval::int("i64", i64::MAX as i128),
        2 => fs[i].2 = crate::sval::unit_variant("E", 99, "NoSuchVariant"),
        3 => fs[i].2 = crate::sval::none(),
        _ => {
            let off = gen_schema::offenders();
            fs[i].2 = r.pick(&off).clone();
        }
    }
    crate::sval::record("R", fs)
}

pub fn wrap(as_: &str, rows: &[Value]) -> Value {
    match as_ {
        // a sequence that announces no length / a wrong length
        "seq_nohint" => json!({"k": "seq", "hint": null, "v": rows}),
        "seq_lying" => json!({"k": "seq", "hint": rows.len() + 3, "v": rows}),
        "tuple_lying" => json!({"k": "tuple", "hint": rows.len() + 1, "v": rows}),
        // newtype layers around a collection that is not a plain sequence
        "nested" => json!({"k": "newtype_struct", "n": "Outer", "v": {"k": "newtype_variant", "n": "Batch", "i": 2, "vn": "Rows", "v": {"k": "tuple", "v": rows}}}),
        "some_tuple" => json!({"k": "some", "v": {"k": "tuple", "v": rows}}),
        "some_some" => json!({"k": "some", "v": {"k": "some", "v": {"k": "seq", "v": rows}}}),
        "newtype_variant_tuple_variant" => json!({"k": "newtype_variant", "n": "Batch", "i": 0, "vn": "Rows", "v": {"k": "tuple_variant", "n": "Inner", "i": 1, "vn": "Rows", "v": rows}}),
        // ONE record instead of a collection of records (a frequent mistake of callers)
        "not:row" => rows.first().cloned().unwrap_or_else(|| json!({"k": "struct", "n": "Batch", "f": []})),
        "not:map1" => json!({"k": "map", "e": [[{"k": "str", "v": "a"}, {"k": "i32", "v": 1}]]}),
        "tuple" => json!({"k": "tuple", "v": rows}),
        "tuple_struct" => json!({"k": "tuple_struct", "n": "Batch", "v": rows}),
        "tuple_variant" => json!({"k": "tuple_variant", "n": "Batch", "i": 1, "vn": "Rows", "v": rows}),
        "newtype_struct" => json!({"k": "newtype_struct", "n": "Batch", "v": {"k": "seq", "v": rows}}),
        "newtype_variant" => json!({"k": "newtype_variant", "n": "Batch", "i": 0, "vn": "Rows", "v": {"k": "seq", "v": rows}}),
        "some" => json!({"k": "some", "v": {"k": "seq", "v": rows}}),
        // not a collection of records
        "not:i32" => json!({"k": "i32", "v": 7}),
        "not:bool" => json!({"k": "bool", "v": true}),
        "not:str" => json!({"k": "str", "v": "rows"}),
        "not:map" => json!({"k": "map", "e": []}),
        "not:struct" => json!({"k": "struct", "n": "Batch", "f": []}),
        "not:unit_variant" => json!({"k": "unit_variant", "n": "Batch", "i": 0, "vn": "Rows"}),
        "not:none" => json!({"k": "none"}),
        "not:some" => json!({"k": "some", "v": {"k": "i32", "v": 7}}),
        "not:unit" => json!({"k": "unit"}),
        "not:unit_struct" => json!({"k": "unit_struct", "n": "Batch"}),
        "not:bytes" => json!({"k": "bytes", "v": "00ff"}),
        "not:char" => json!({"k": "char", "v": 97}),
        "not:f32" => json!({"k": "f32", "bits": 0}),
        "not:f64" => json!({"k": "f64", "bits": 0}),
        "not:i8" | "not:i16" | "not:i64" | "not:u8" | "not:u16" | "not:u32" | "not:u64" => json!({"k": &as_[4..], "v": 7}),
        "not:struct_variant" => json!({"k": "struct_variant", "n": "Batch", "i": 0, "vn": "Rows", "f": []}),
        _ => json!({"k": "seq", "v": rows}),
    }
}

/// `ArrayBuilder::new(schema)` needs a `SerdeArrowSchema`; the only public ways to one from marrow fields go through a
/// foreign field list (`try_from(&[arrow Field])`) or the serde form (`from_value`, which validates).  The conversion is
/// used when the schema it gives observably holds exactly `fields` (read back through `Vec<FieldRef>::try_from`).
fn schema_of(fields: &[marrow::datatypes::Field], via_value: bool) -> Option<serde_arrow::schema::SerdeArrowSchema> {
    use serde_arrow::schema::{SchemaLike, SerdeArrowSchema};
    std::panic::catch_unwind(|| {
        let schema = if via_value {
            // the validating path: the marrow fields as a foreign schema value (may refuse or normalise: then not used)
            SerdeArrowSchema::from_value(fields).ok()?
        } else {
            let arrow: Vec<arrow_schema::Field> = fields.iter().map(arrow_schema::Field::try_from).collect::<Result<_, _>>().ok()?;
            SerdeArrowSchema::try_from(&arrow[..]).ok()?
        };
        let refs = Vec::<arrow_schema::FieldRef>::try_from(&schema).ok()?;
        let back: Vec<marrow::datatypes::Field> =
            refs.iter().map(|f| marrow::datatypes::Field::try_from(f.as_ref())).collect::<Result<_, _>>().ok()?;
        if back == fields {
            Some(schema)
        } else {
            None
        }
    })
    .ok()
    .flatten()
}

/// a record whose `Serialize` impl fails on its own account
struct Failing<'a>(&'a str);

impl Serialize for Failing<'_> {
    fn serialize<S: serde::Serializer>(&self, _: S) -> Result<S::Ok, S::Error> {
        Err(<S::Error as serde::ser::Error>::custom(self.0))
    }
}

pub fn exec(input: &Value) -> Value {
    let fields: Vec<marrow::datatypes::Field> = input["schema"].as_array().unwrap().iter().map(field_from_json).collect();
    let mut outs: Vec<Value> = Vec::new();
    let mut oneshots: Vec<Value> = Vec::new();
    let schema = match input["ctor"].as_str() {
        Some("new") => schema_of(&fields, false),
        Some("new_value") => schema_of(&fields, true),
        _ => None,
    };
    let ctor_used = if schema.is_some() { input["ctor"].as_str().unwrap() } else { "from_marrow" };
    let make = || match &schema {
        Some(s) => serde_arrow::ArrayBuilder::new(s.clone()),
        None => serde_arrow::ArrayBuilder::from_marrow(&fields),
    };
    let made = outcome::run_sa(|| make().map(|_| Value::Null));
    if outcome::is_ok(&made) {
        let mut builder = make().unwrap();
        // the rows of the additions that SUCCEEDED since the last successful build (a failed operation adds nothing to
        // what a later build may return)
        let mut batch: Vec<Value> = Vec::new();
        for op in input["ops"].as_array().unwrap() {
            let kind = op["op"].as_str().unwrap();
            let mut added: Vec<Value> = Vec::new();
            let res = match kind {
                "push" => {
                    added.push(op["row"].clone());
                    outcome::run_sa(|| builder.push(&SVal(&op["row"])).map(|_| Value::Null))
                }
                "extend" => {
                    let rows = op["rows"].as_array().unwrap();
                    added.extend(rows.iter().cloned());
                    let v = wrap(op["as"].as_str().unwrap(), rows);
                    outcome::run_sa(|| builder.extend(&SVal(&v)).map(|_| Value::Null))
                }
                "ser" => {
                    let rows = op["rows"].as_array().unwrap();
                    added.extend(rows.iter().cloned());
                    let v = wrap(op["as"].as_str().unwrap(), rows);
                    outcome::run_sa(|| SVal(&v).serialize(serde_arrow::Serializer::new(&mut builder)).map(|_| Value::Null))
                }
                "ser_owned" => {
                    // the builder moves into the serializer and comes back through `into_inner` (on an error it is gone
                    // with the serializer: the history goes on with a FRESH builder, the rows added so far are lost)
                    let rows = op["rows"].as_array().unwrap();
                    added.extend(rows.iter().cloned());
                    let v = wrap(op["as"].as_str().unwrap(), rows);
                    let owned = std::mem::replace(&mut builder, make().unwrap());
                    let mut back = None;
                    let r = outcome::run_sa(|| {
                        back = Some(SVal(&v).serialize(serde_arrow::Serializer::new(owned))?.into_inner());
                        Ok(Value::Null)
                    });
                    if let Some(b) = back {
                        builder = b;
                    } else {
                        batch.clear();
                    }
                    r
                }
                "user_error" => {
                    let text = op["text"].as_str().unwrap().to_string();
                    match op["via"].as_str().unwrap() {
                        "ser" => outcome::run_sa(|| builder.push(&Failing(&text)).map(|_| Value::Null)),
                        "custom" => outcome::run_sa(|| Err(serde_arrow::Error::custom(text.clone()))),
                        "custom_from" => outcome::run_sa(|| Err(serde_arrow::Error::custom_from(text.clone(), std::fmt::Error))),
                        _ => outcome::run_sa(|| Err(<serde_arrow::Error as serde::de::Error>::custom(&text))),
                    }
                }
                "build" => {
                    let r = outcome::run_sa(|| builder.to_marrow().map(|arrs| Value::Array(arrs.iter().map(dump::array_to_json).collect())));
                    // metamorphic oracle: the one-shot conversion of exactly this batch (one entry per build operation;
                    // null for a build that failed)
                    if outcome::is_ok(&r) {
                        let rows = std::mem::take(&mut batch);
                        let v = json!({"k": "seq", "v": rows});
                        oneshots.push(outcome::run(|| {
                            serde_arrow::to_marrow(&fields, &SVal(&v)).map(|arrs| Value::Array(arrs.iter().map(dump::array_to_json).collect()))
                        }));
                    } else {
                        oneshots.push(Value::Null);
                    }
                    r
                }
                other => json!({"bad_op": other}),
            };
            // a failed operation does NOT end the history: whatever is called afterwards must not panic, must not hand
            // out malformed arrays and must not return rows nobody pushed successfully
            if outcome::is_ok(&res) {
                batch.extend(added);
            }
            outs.push(res);
        }
    }
    let mut case = input.clone();
    let obj = case.as_object_mut().unwrap();
    obj.insert("aux".into(), gen_schema::aux_for(&input["schema"], &input["ops"]));
    obj.insert("ctor".into(), made);
    obj.insert("ctor_used".into(), json!(ctor_used));
    obj.insert("impl".into(), Value::Array(outs));
    obj.insert("oneshot".into(), Value::Array(oneshots));
    case
}
