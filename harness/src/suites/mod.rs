pub mod access;
