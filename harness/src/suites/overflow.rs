//! suite `overflow` (C05, C16; thorough tier only — each case serializes 2^31 elements, ≈ 15–40 s):
//! element counts at and just beyond the 32 bit offset type, with a counting `Serialize` impl so that no
//! memory is needed (`List<Null>` column: the child only counts).
//! Both tiers (milliseconds): kind `deep_term` — a `data_type` text `A(A(…I8…))` nested `n` levels deep handed to
//! `SerdeArrowSchema::from_value` (fix d2b4b5b: before it the recursive descent of `Term::from_str` exhausted the
//! stack from some 50 000 levels on — an abort of the process, which `./check` attributes to the case).
use crate::outcome;
use crate::Ctx;
use marrow::datatypes::{DataType, Field};
use serde::ser::{Serialize, SerializeSeq, SerializeStruct, Serializer};
use serde_json::{json, Value};

struct Units(u64);

impl Serialize for Units {
    fn serialize<S: Serializer>(&self, s: S) -> Result<S::Ok, S::Error> {
        let mut q = s.serialize_seq(None)?;
        for _ in 0..self.0 {
            q.serialize_element(&())?;
        }
        q.end()
    }
}

struct Row(u64);

impl Serialize for Row {
    fn serialize<S: Serializer>(&self, s: S) -> Result<S::Ok, S::Error> {
        let mut q = s.serialize_struct("Row", 1)?;
        q.serialize_field("a", &Units(self.0))?;
        q.end()
    }
}

fn deep_term_cases() -> Vec<Value> {
    [0u64, 1, 3, 32, 33, 1000, 100_000, 1_000_000]
        .iter()
        .enumerate()
        .map(|(k, n)| json!({"id": format!("overflow-0001{k:02}"), "seed": 0, "kind": "deep_term", "n": n}))
        .collect()
}

fn exec_deep_term(input: &Value) -> Value {
    use serde_arrow::schema::{SchemaLike, SerdeArrowSchema};
    let n = input["n"].as_u64().unwrap() as usize;
    let text = format!("{}I8{}", "A(".repeat(n), ")".repeat(n));
    let imp = outcome::run(|| {
        let v = json!([{"name": "a", "data_type": text}]);
        let _schema = SerdeArrowSchema::from_value(&v)?;
        Ok::<Value, serde_arrow::Error>(json!({"accepted": true}))
    });
    let mut case = input.clone();
    case.as_object_mut().unwrap().insert("impl".into(), imp);
    case
}

pub fn gen(ctx: &Ctx) -> Vec<Value> {
    if !ctx.thorough() {
        return deep_term_cases();
    }
    let mut cases = vec![
        json!({"id": "overflow-000000", "seed": 0, "kind": "list_null", "n": 2147483647u64}),
        json!({"id": "overflow-000001", "seed": 0, "kind": "list_null", "n": 2147483648u64}),
        // n values of 1 MiB each into ONE Utf8View column: value i goes to buffer offset i * 2^20, which fits the
        // descriptor's i32 offset iff i <= 2047 (≈ 2 GiB of memory, a few seconds)
        json!({"id": "overflow-000002", "seed": 0, "kind": "view_bytes", "n": 2048u64}),
        json!({"id": "overflow-000003", "seed": 0, "kind": "view_bytes", "n": 2050u64}),
    ];
    cases.extend(deep_term_cases());
    cases
}

#[derive(serde::Serialize)]
struct StrRow<'a> {
    a: &'a str,
}

fn exec_view_bytes(input: &Value) -> Value {
    let n = input["n"].as_u64().unwrap();
    let fields = vec![Field { name: "a".into(), data_type: DataType::Utf8View, nullable: false, metadata: Default::default() }];
    let imp = outcome::run(|| {
        let mut builder = serde_arrow::ArrayBuilder::from_marrow(&fields)?;
        let s = "x".repeat(1 << 20);
        let mut first_err: Option<u64> = None;
        for i in 0..n {
            if builder.push(&StrRow { a: &s }).is_err() {
                first_err = Some(i);
                break;
            }
        }
        Ok::<Value, serde_arrow::Error>(json!({"first_err": first_err}))
    });
    let mut case = input.clone();
    case.as_object_mut().unwrap().insert("impl".into(), imp);
    case
}

pub fn exec(input: &Value) -> Value {
    if input["kind"] == "view_bytes" {
        return exec_view_bytes(input);
    }
    if input["kind"] == "deep_term" {
        return exec_deep_term(input);
    }
    let n = input["n"].as_u64().unwrap();
    let fields = vec![Field {
        name: "a".into(),
        data_type: DataType::List(Box::new(Field { name: "element".into(), data_type: DataType::Null, nullable: true, metadata: Default::default() })),
        nullable: false,
        metadata: Default::default(),
    }];
    let imp = outcome::run(|| {
        let arrays = serde_arrow::to_marrow(&fields, &[Row(n)])?;
        let last = match &arrays[0] {
            marrow::array::Array::List(l) => l.offsets.last().copied().unwrap_or(-1),
            _ => -2,
        };
        Ok::<Value, serde_arrow::Error>(json!({"last_offset": last}))
    });
    let mut case = input.clone();
    case.as_object_mut().unwrap().insert("impl".into(), imp);
    case
}
