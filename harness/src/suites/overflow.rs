//! suite `overflow` (C05, C16; thorough tier only — each case serializes 2^31 elements, ≈ 15–40 s):
//! element counts at and just beyond the 32 bit offset type, with a counting `Serialize` impl so that no
//! memory is needed (`List<Null>` column: the child only counts).
use crate::outcome;
use crate::Ctx;
use marrow::datatypes::{DataType, Field};
use serde::ser::{Serialize, SerializeSeq, SerializeStruct, Serializer};
use serde_json::{json, Value};

struct Units(u64);

impl Serialize for Units {
    fn serialize<S: Serializer>(&self, s: S) -> Result<S::Ok, S::Error> {
        let mut q = s.serialize_seq(None)?;
        for _ in 0..self.0 {
            q.serialize_element(&())?;
        }
        q.end()
    }
}

struct Row(u64);

impl Serialize for Row {
    fn serialize<S: Serializer>(&self, s: S) -> Result<S::Ok, S::Error> {
        let mut q = s.serialize_struct("Row", 1)?;
        q.serialize_field("a", &Units(self.0))?;
        q.end()
    }
}

pub fn gen(ctx: &Ctx) -> Vec<Value> {
    if !ctx.thorough() {
        return Vec::new();
    }
    vec![
        json!({"id": "overflow-000000", "seed": 0, "kind": "list_null", "n": 2147483647u64}),
        json!({"id": "overflow-000001", "seed": 0, "kind": "list_null", "n": 2147483648u64}),
    ]
}

pub fn exec(input: &Value) -> Value {
    let n = input["n"].as_u64().unwrap();
    let fields = vec![Field {
        name: "a".into(),
        data_type: DataType::List(Box::new(Field { name: "element".into(), data_type: DataType::Null, nullable: true, metadata: Default::default() })),
        nullable: false,
        metadata: Default::default(),
    }];
    let imp = outcome::run(|| {
        let arrays = serde_arrow::to_marrow(&fields, &[Row(n)])?;
        let last = match &arrays[0] {
            marrow::array::Array::List(l) => l.offsets.last().copied().unwrap_or(-1),
            _ => -2,
        };
        Ok::<Value, serde_arrow::Error>(json!({"last_offset": last}))
    });
    let mut case = input.clone();
    case.as_object_mut().unwrap().insert("impl".into(), imp);
    case
}
