//! suite `overflow` (C05, C16; the 2^31-element cases run in the thorough tier only — ≈ 15–40 s each, `union_rows` ≈ 6 min / 10 GiB —, the small cases in both tiers):
//! element counts at and just beyond the 32 bit offset type, with a counting `Serialize` impl so that no
//! memory is needed (`List<Null>` column: the child only counts).
//! Both tiers (milliseconds): kind `deep_term` — a `data_type` text `A(A(…I8…))` nested `n` levels deep handed to
//! `SerdeArrowSchema::from_value` (fix d2b4b5b: before it the recursive descent of `Term::from_str` exhausted the
//! stack from some 50 000 levels on — an abort of the process, which `./check` attributes to the case).
//! Kind `union_rows` (repo fix 217d612): `n` rows of ONE unit variant into a dense `Union<Null, Null>` column: row `i`
//! gets the child offset `i`, so exactly the rows `0 ..= i32::MAX - 1` are accepted (2^31 - 1 of them) and the next
//! one must be an ERROR annotated by the union builder (before the fix `current_offset[variant] += 1` overflowed: a
//! panic with overflow checks, a negative offset without).  Small `n` in both tiers; `n = 2^31` in the thorough tier
//! only: the union's own buffers need 10 GiB (types 2 GiB + offsets 8 GiB) and — the union builder allocates its
//! error context for every row — about 6.5 minutes at opt-level 1 (measured 374 s; the suite's per-case timeout in the
//! thorough tier is set accordingly in props/C16.json and props/C05.json).
use crate::outcome;
use crate::Ctx;
use marrow::datatypes::{DataType, Field};
use serde::ser::{Serialize, SerializeSeq, SerializeStruct, Serializer};
use serde_json::{json, Value};

struct Units(u64);

impl Serialize for Units {
    fn serialize<S: Serializer>(&self, s: S) -> Result<S::Ok, S::Error> {
        let mut q = s.serialize_seq(None)?;
        for _ in 0..self.0 {
            q.serialize_element(&())?;
        }
        q.end()
    }
}

struct Row(u64);

impl Serialize for Row {
    fn serialize<S: Serializer>(&self, s: S) -> Result<S::Ok, S::Error> {
        let mut q = s.serialize_struct("Row", 1)?;
        q.serialize_field("a", &Units(self.0))?;
        q.end()
    }
}

/// a row `{a: <unit variant `variant` of an enum>}`
struct VariantRow(u32);

impl Serialize for VariantRow {
    fn serialize<S: Serializer>(&self, s: S) -> Result<S::Ok, S::Error> {
        struct V(u32);
        impl Serialize for V {
            fn serialize<S: Serializer>(&self, s: S) -> Result<S::Ok, S::Error> {
                s.serialize_unit_variant("E", self.0, if self.0 == 0 { "A" } else { "B" })
            }
        }
        let mut q = s.serialize_struct("Row", 1)?;
        q.serialize_field("a", &V(self.0))?;
        q.end()
    }
}

fn union_rows_cases(thorough: bool) -> Vec<Value> {
    let mut ns: Vec<(u64, u64)> = vec![(0, 0), (3, 0), (1000, 1)];
    if thorough {
        // one row more than the offset type can count: rows 0 ..= 2^31 - 2 accepted, row 2^31 - 1 refused
        ns.push((2147483648, 1));
    }
    ns.iter()
        .enumerate()
        .map(|(k, (n, v))| json!({"id": format!("overflow-0002{k:02}"), "seed": 0, "kind": "union_rows", "n": n, "variant": v}))
        .collect()
}

fn exec_union_rows(input: &Value) -> Value {
    let n = input["n"].as_u64().unwrap();
    let variant = input["variant"].as_u64().unwrap() as u32;
    let null = |name: &str| Field { name: name.into(), data_type: DataType::Null, nullable: true, metadata: Default::default() };
    let fields = vec![Field {
        name: "a".into(),
        data_type: DataType::Union(vec![(0, null("A")), (1, null("B"))], marrow::datatypes::UnionMode::Dense),
        nullable: false,
        metadata: Default::default(),
    }];
    let imp = outcome::run(|| {
        let mut builder = serde_arrow::ArrayBuilder::from_marrow(&fields)?;
        let row = VariantRow(variant);
        let mut first_err: Option<u64> = None;
        let mut err: Value = Value::Null;
        for i in 0..n {
            if let Err(e) = builder.push(&row) {
                first_err = Some(i);
                err = outcome::parse_error(&e.to_string());
                break;
            }
        }
        // what the array says about the rows that were accepted (only looked at when nothing was refused)
        let mut last_offset: Option<i64> = None;
        let mut rows: Option<u64> = None;
        if first_err.is_none() {
            let arrays = builder.to_marrow()?;
            if let marrow::array::Array::Union(u) = &arrays[0] {
                rows = Some(u.types.len() as u64);
                last_offset = u.offsets.as_ref().and_then(|o| o.last().copied()).map(|x| x as i64);
            }
        }
        Ok::<Value, serde_arrow::Error>(json!({"first_err": first_err, "err": err, "rows": rows, "last_offset": last_offset}))
    });
    let mut case = input.clone();
    case.as_object_mut().unwrap().insert("impl".into(), imp);
    case
}

/// kind `len_hint` (repo fix 9aa1a7f): a `Serialize` impl that ANNOUNCES `n` elements (sequence, map, tuple struct, tuple /
/// struct variant) and then sends none, handed to `SerdeArrowSchema::from_value`.  The hint is not data: the outcome must be
/// the one of the honest announcement (0) — before the fix `Vec::with_capacity(n)` in utils/value.rs panicked with
/// "capacity overflow" for n = usize::MAX and aborted on allocation failure for n = 2^40.
struct Announce(&'static str, usize);

impl Serialize for Announce {
    fn serialize<S: Serializer>(&self, s: S) -> Result<S::Ok, S::Error> {
        use serde::ser::{SerializeMap, SerializeStructVariant, SerializeTupleStruct, SerializeTupleVariant};
        match self.0 {
            "seq" => s.serialize_seq(Some(self.1))?.end(),
            "map" => s.serialize_map(Some(self.1))?.end(),
            "tuple_struct" => s.serialize_tuple_struct("T", self.1)?.end(),
            "tuple_variant" => s.serialize_tuple_variant("E", 0, "A", self.1)?.end(),
            _ => s.serialize_struct_variant("E", 0, "A", self.1)?.end(),
        }
    }
}

fn len_hint_cases() -> Vec<Value> {
    let mut out = Vec::new();
    let mut k = 0;
    for shape in ["seq", "map", "tuple_struct", "tuple_variant", "struct_variant"] {
        for n in [0u64, 7, 1 << 40, u64::MAX] {
            out.push(json!({"id": format!("overflow-0003{k:02}"), "seed": 0, "kind": "len_hint", "shape": shape, "n": n}));
            k += 1;
        }
    }
    out
}

fn exec_len_hint(input: &Value) -> Value {
    use serde_arrow::schema::{SchemaLike, SerdeArrowSchema};
    let n = input["n"].as_u64().unwrap() as usize;
    let shape: &'static str = match input["shape"].as_str().unwrap() {
        "seq" => "seq",
        "map" => "map",
        "tuple_struct" => "tuple_struct",
        "tuple_variant" => "tuple_variant",
        _ => "struct_variant",
    };
    let run = |n: usize| {
        outcome::run(|| {
            let schema = SerdeArrowSchema::from_value(&Announce(shape, n))?;
            Ok::<Value, serde_arrow::Error>(json!({"fields": serde_json::to_value(&schema).map(|v| v["fields"].as_array().map(|a| a.len())).ok()}))
        })
    };
    let imp = run(n);
    let honest = run(0);
    let mut case = input.clone();
    case.as_object_mut().unwrap().insert("impl".into(), imp);
    case.as_object_mut().unwrap().insert("honest".into(), honest);
    case
}

/// kind `trace_len_hint` (known finding C16-trace-tuple-len-alloc): `from_samples` on records whose field is a tuple /
/// tuple struct / tuple variant that ANNOUNCES `n` elements and sends two.  `Tracer::ensure_tuple(len)` creates one field
/// tracer per announced element: usize::MAX panics with "capacity overflow" (2^40 would abort on allocation failure and is
/// deliberately not run).  The honest announcement (2) is recorded beside it.
struct AnnounceTuple(&'static str, usize);

impl Serialize for AnnounceTuple {
    fn serialize<S: Serializer>(&self, s: S) -> Result<S::Ok, S::Error> {
        use serde::ser::{SerializeTuple, SerializeTupleStruct, SerializeTupleVariant};
        match self.0 {
            "tuple" => {
                let mut q = s.serialize_tuple(self.1)?;
                q.serialize_element(&1i32)?;
                q.serialize_element("a")?;
                q.end()
            }
            "tuple_struct" => {
                let mut q = s.serialize_tuple_struct("T", self.1)?;
                q.serialize_field(&1i32)?;
                q.serialize_field("a")?;
                q.end()
            }
            "tuple_variant" => {
                let mut q = s.serialize_tuple_variant("E", 0, "A", self.1)?;
                q.serialize_field(&1i32)?;
                q.serialize_field("a")?;
                q.end()
            }
            _ => {
                let mut q = s.serialize_seq(Some(self.1))?;
                q.serialize_element(&1i32)?;
                q.serialize_element(&2i32)?;
                q.end()
            }
        }
    }
}

#[derive(serde::Serialize)]
struct AnnounceRecord {
    a: AnnounceTuple,
}

fn trace_len_hint_cases() -> Vec<Value> {
    let mut out = Vec::new();
    let mut k = 0;
    for shape in ["tuple", "tuple_struct", "tuple_variant", "seq"] {
        for n in [2u64, 3, u64::MAX] {
            out.push(json!({"id": format!("overflow-0005{k:02}"), "seed": 0, "kind": "trace_len_hint", "shape": shape, "n": n}));
            k += 1;
        }
    }
    out
}

fn exec_trace_len_hint(input: &Value) -> Value {
    use serde_arrow::marrow::datatypes::Field;
    use serde_arrow::schema::{SchemaLike, TracingOptions};
    let n = input["n"].as_u64().unwrap() as usize;
    let shape: &'static str = match input["shape"].as_str().unwrap() {
        "tuple" => "tuple",
        "tuple_struct" => "tuple_struct",
        "tuple_variant" => "tuple_variant",
        _ => "seq",
    };
    let run = |n: usize| {
        outcome::run(|| {
            let items = [AnnounceRecord { a: AnnounceTuple(shape, n) }, AnnounceRecord { a: AnnounceTuple(shape, n) }];
            let fields = Vec::<Field>::from_samples(&items, TracingOptions::default())?;
            Ok::<Value, serde_arrow::Error>(json!({"fields": fields.len()}))
        })
    };
    let imp = run(n);
    let honest = run(2);
    let mut case = input.clone();
    case.as_object_mut().unwrap().insert("impl".into(), imp);
    case.as_object_mut().unwrap().insert("honest".into(), honest);
    case
}

fn deep_term_cases() -> Vec<Value> {
    [0u64, 1, 3, 32, 33, 1000, 100_000, 1_000_000]
        .iter()
        .enumerate()
        .map(|(k, n)| json!({"id": format!("overflow-0001{k:02}"), "seed": 0, "kind": "deep_term", "n": n}))
        .collect()
}

fn exec_deep_term(input: &Value) -> Value {
    use serde_arrow::schema::{SchemaLike, SerdeArrowSchema};
    let n = input["n"].as_u64().unwrap() as usize;
    let text = format!("{}I8{}", "A(".repeat(n), ")".repeat(n));
    let imp = outcome::run(|| {
        let v = json!([{"name": "a", "data_type": text}]);
        let _schema = SerdeArrowSchema::from_value(&v)?;
        Ok::<Value, serde_arrow::Error>(json!({"accepted": true}))
    });
    let mut case = input.clone();
    case.as_object_mut().unwrap().insert("impl".into(), imp);
    case
}

pub fn gen(ctx: &Ctx) -> Vec<Value> {
    if !ctx.thorough() {
        let mut cases = deep_term_cases();
        cases.extend(union_rows_cases(false));
        cases.extend(len_hint_cases());
        cases.extend(trace_len_hint_cases());
        return cases;
    }
    let mut cases = vec![
        json!({"id": "overflow-000000", "seed": 0, "kind": "list_null", "n": 2147483647u64}),
        json!({"id": "overflow-000001", "seed": 0, "kind": "list_null", "n": 2147483648u64}),
        // n values of 1 MiB each into ONE Utf8View column: value i goes to buffer offset i * 2^20, which fits the
        // descriptor's i32 offset iff i <= 2047 (≈ 2 GiB of memory, a few seconds)
        json!({"id": "overflow-000002", "seed": 0, "kind": "view_bytes", "n": 2048u64}),
        json!({"id": "overflow-000003", "seed": 0, "kind": "view_bytes", "n": 2050u64}),
    ];
    cases.extend(deep_term_cases());
    cases.extend(union_rows_cases(true));
    cases.extend(len_hint_cases());
    cases.extend(trace_len_hint_cases());
    cases
}

#[derive(serde::Serialize)]
struct StrRow<'a> {
    a: &'a str,
}

fn exec_view_bytes(input: &Value) -> Value {
    let n = input["n"].as_u64().unwrap();
    let fields = vec![Field { name: "a".into(), data_type: DataType::Utf8View, nullable: false, metadata: Default::default() }];
    let imp = outcome::run(|| {
        let mut builder = serde_arrow::ArrayBuilder::from_marrow(&fields)?;
        let s = "x".repeat(1 << 20);
        let mut first_err: Option<u64> = None;
        for i in 0..n {
            if builder.push(&StrRow { a: &s }).is_err() {
                first_err = Some(i);
                break;
            }
        }
        Ok::<Value, serde_arrow::Error>(json!({"first_err": first_err}))
    });
    let mut case = input.clone();
    case.as_object_mut().unwrap().insert("impl".into(), imp);
    case
}

pub fn exec(input: &Value) -> Value {
    if input["kind"] == "view_bytes" {
        return exec_view_bytes(input);
    }
    if input["kind"] == "deep_term" {
        return exec_deep_term(input);
    }
    if input["kind"] == "union_rows" {
        return exec_union_rows(input);
    }
    if input["kind"] == "trace_len_hint" {
        return exec_trace_len_hint(input);
    }
    if input["kind"] == "len_hint" {
        return exec_len_hint(input);
    }
    let n = input["n"].as_u64().unwrap();
    let fields = vec![Field {
        name: "a".into(),
        data_type: DataType::List(Box::new(Field { name: "element".into(), data_type: DataType::Null, nullable: true, metadata: Default::default() })),
        nullable: false,
        metadata: Default::default(),
    }];
    let imp = outcome::run(|| {
        let arrays = serde_arrow::to_marrow(&fields, &[Row(n)])?;
        let last = match &arrays[0] {
            marrow::array::Array::List(l) => l.offsets.last().copied().unwrap_or(-1),
            _ => -2,
        };
        Ok::<Value, serde_arrow::Error>(json!({"last_offset": last}))
    });
    let mut case = input.clone();
    case.as_object_mut().unwrap().insert("impl".into(), imp);
    case
}
