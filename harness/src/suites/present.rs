//! suite `present` (C11): one logical batch rendered in several presentations (struct / map / tuple records,
//! field orders, absent optional fields vs explicit None, extra fields, different addresses of equal names,
//! seq vs tuple, recursively) — every rendering must give the same arrays.
use crate::dump;
use crate::gen_schema::{self, ValCfg};
use crate::outcome;
use crate::rng::Rng;
use crate::schema_dump::field_from_json;
use crate::sval::Rows;
use crate::Ctx;
use serde_json::{json, Value};

pub fn gen(ctx: &Ctx) -> Vec<Value> {
    let mut rng = Rng::new(ctx.seed ^ 0x9E5E);
    let n = if ctx.thorough() { 30000 } else { 2500 };
    let mut out = Vec::new();
    for c in 0..n {
        let mut r = rng.fork();
        let sub = r.0;
        let depth = 1 + r.below(3) as u32;
        // make sure struct-typed positions are frequent: wrap the random schema in a struct column half of the time
        let mut schema = gen_schema::gen_schema(&mut r, depth);
        if r.bool() {
            let inner = gen_schema::gen_schema(&mut r, depth.saturating_sub(1));
            schema.push(gen_schema::field("nested", r.bool(), json!({"t": "Struct", "fields": inner})));
        }
        let cfg = ValCfg::strict();
        let nrows = 1 + r.usize(9);
        let base: Vec<Value> = (0..nrows).map(|_| gen_schema::gen_record(&mut r, &schema, &cfg)).collect();
        let root = gen_schema::field("$", false, json!({"t": "Struct", "fields": schema}));
        let k = 2 + r.usize(3);
        let mut renderings = vec![base.clone()];
        for _ in 0..k {
            renderings.push(base.iter().map(|row| gen_schema::rerender(&mut r, &root, row)).collect());
        }
        out.push(json!({"id": format!("present-{c:06}"), "seed": sub, "schema": schema, "renderings": renderings}));
    }
    out
}

pub fn exec(input: &Value) -> Value {
    let fields: Vec<marrow::datatypes::Field> = input["schema"].as_array().unwrap().iter().map(field_from_json).collect();
    let mut outs = Vec::new();
    for rows in input["renderings"].as_array().unwrap() {
        let rows = rows.as_array().unwrap();
        outs.push(outcome::run(|| {
            serde_arrow::to_marrow(&fields, &Rows(rows)).map(|arrs| Value::Array(arrs.iter().map(dump::array_to_json).collect()))
        }));
    }
    let mut case = input.clone();
    let obj = case.as_object_mut().unwrap();
    obj.insert("aux".into(), gen_schema::aux_for(&input["schema"], &input["renderings"]));
    obj.insert("impl".into(), Value::Array(outs));
    case
}
