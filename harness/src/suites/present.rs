//! suite `present` (C11): one logical batch rendered in several presentations (struct / map / tuple records,
//! field orders, absent optional fields vs explicit None, extra fields, different addresses of equal names,
//! seq vs tuple, recursively) — every rendering must give the same arrays.
use crate::dump;
use crate::gen_schema::{self, ValCfg};
use crate::outcome;
use crate::rng::Rng;
use crate::schema_dump::field_from_json;
use crate::sval::{self, Rows, SVal};
use crate::Ctx;
use serde_json::{json, Value};

pub fn gen(ctx: &Ctx) -> Vec<Value> {
    let mut rng = Rng::new(ctx.seed ^ 0x9E5E);
    let n = if ctx.thorough() { 30000 } else { 2500 };
    let mut out = Vec::new();
    for c in 0..n {
        let mut r = rng.fork();
        let sub = r.0;
        let depth = 1 + r.below(3) as u32;
        // make sure struct-typed positions are frequent: wrap the random schema in a struct column half of the time
        let mut schema = gen_schema::gen_schema(&mut r, depth);
        if r.bool() {
            let inner = gen_schema::gen_schema(&mut r, depth.saturating_sub(1));
            schema.push(gen_schema::field("nested", r.bool(), json!({"t": "Struct", "fields": inner})));
        }
        let cfg = ValCfg::strict();
        let nrows = 1 + r.usize(9);
        let base: Vec<Value> = (0..nrows).map(|_| gen_schema::gen_record(&mut r, &schema, &cfg)).collect();
        let root = gen_schema::field("$", false, json!({"t": "Struct", "fields": schema}));
        let k = 2 + r.usize(3);
        let mut renderings = vec![base.clone()];
        for _ in 0..k {
            renderings.push(base.iter().map(|row| gen_schema::rerender(&mut r, &root, row)).collect());
        }
        // malformed stream: one rendering with ONE entry of one record repeated at a random position (repeated map
        // key, struct field given twice in order / out of order, …): where the documented mapping is undefined the
        // conversion must fail, whatever the presentation
        let mut malformed: Vec<Vec<Value>> = Vec::new();
        for _ in 0..2 {
            let src = r.usize(renderings.len());
            let mut rows = renderings[src].clone();
            let at = r.usize(rows.len());
            if inject_duplicate(&mut r, &mut rows[at]) {
                malformed.push(rows);
            }
        }
        out.push(json!({"id": format!("present-{c:06}"), "seed": sub, "schema": schema, "renderings": renderings, "malformed": malformed}));
    }
    out
}

fn count_records(v: &Value) -> usize {
    let mut n = 0;
    match v {
        Value::Object(m) => {
            let k = m.get("k").and_then(|k| k.as_str()).unwrap_or("");
            let entries = match k {
                "struct" | "struct_variant" => m.get("f"),
                "map" => m.get("e"),
                _ => None,
            };
            if entries.and_then(|e| e.as_array()).map(|a| !a.is_empty()).unwrap_or(false) {
                n += 1;
            }
            for (_, x) in m {
                n += count_records(x);
            }
        }
        Value::Array(a) => {
            for x in a {
                n += count_records(x);
            }
        }
        _ => {}
    }
    n
}

fn dup_in(r: &mut Rng, v: &mut Value, target: &mut isize) -> bool {
    match v {
        Value::Object(m) => {
            let k = m.get("k").and_then(|k| k.as_str()).unwrap_or("").to_string();
            let key = match k.as_str() {
                "struct" | "struct_variant" => Some("f"),
                "map" => Some("e"),
                _ => None,
            };
            if let Some(key) = key {
                if m.get(key).and_then(|e| e.as_array()).map(|a| !a.is_empty()).unwrap_or(false) {
                    if *target == 0 {
                        let arr = m.get_mut(key).unwrap().as_array_mut().unwrap();
                        let which = r.usize(arr.len());
                        let copy = arr[which].clone();
                        let pos = r.usize(arr.len() + 1);
                        arr.insert(pos, copy);
                        *target = -1;
                        return true;
                    }
                    *target -= 1;
                }
            }
            for (_, x) in m.iter_mut() {
                if dup_in(r, x, target) {
                    return true;
                }
            }
            false
        }
        Value::Array(a) => {
            for x in a.iter_mut() {
                if dup_in(r, x, target) {
                    return true;
                }
            }
            false
        }
        _ => false,
    }
}

/// repeat one entry of one record-like node (struct / struct variant fields, map entries) of `row`
fn inject_duplicate(r: &mut Rng, row: &mut Value) -> bool {
    let n = count_records(row);
    if n == 0 {
        return false;
    }
    let mut target = r.usize(n) as isize;
    dup_in(r, row, &mut target)
}

pub fn exec(input: &Value) -> Value {
    let fields: Vec<marrow::datatypes::Field> = input["schema"].as_array().unwrap().iter().map(field_from_json).collect();
    let mut outs = Vec::new();
    for rows in input["renderings"].as_array().unwrap() {
        let rows = rows.as_array().unwrap();
        outs.push(outcome::run(|| {
            serde_arrow::to_marrow(&fields, &Rows(rows)).map(|arrs| Value::Array(arrs.iter().map(dump::array_to_json).collect()))
        }));
    }
    let mut mouts = Vec::new();
    for rows in input["malformed"].as_array().map(|a| a.as_slice()).unwrap_or(&[]) {
        let rows = rows.as_array().unwrap();
        mouts.push(outcome::run(|| {
            serde_arrow::to_marrow(&fields, &Rows(rows)).map(|arrs| Value::Array(arrs.iter().map(dump::array_to_json).collect()))
        }));
    }
    // Item / Items (utils/mod.rs): the records of rendering 0 as the items of the column `item: Struct(schema)`.
    // Ways that must give identical arrays: the real `Items(&[T])` wrapper, a slice of real `Item(T)`
    // wrappers, and explicit one-field records named `item` (what the wrappers are documented to behave like).
    let item_field = marrow::datatypes::Field {
        name: "item".to_string(),
        nullable: false,
        metadata: Default::default(),
        data_type: marrow::datatypes::DataType::Struct(fields.clone()),
    };
    let item_fields = vec![item_field];
    let dump_arrs = |arrs: Vec<marrow::array::Array>| Value::Array(arrs.iter().map(dump::array_to_json).collect());
    let mut items_outs = Vec::new();
    if let Some(base) = input["renderings"].as_array().and_then(|a| a.first()).and_then(|r| r.as_array()) {
        let svals: Vec<SVal> = base.iter().map(SVal).collect();
        items_outs.push(outcome::run(|| {
            serde_arrow::to_marrow(&item_fields, &serde_arrow::utils::Items(svals.as_slice())).map(dump_arrs)
        }));
        let wrapped: Vec<serde_arrow::utils::Item<SVal>> = base.iter().map(|v| serde_arrow::utils::Item(SVal(v))).collect();
        items_outs.push(outcome::run(|| serde_arrow::to_marrow(&item_fields, &wrapped).map(dump_arrs)));
        let explicit: Vec<Value> =
            base.iter().map(|v| sval::record("Item", vec![("item".to_string(), 0, v.clone())])).collect();
        items_outs.push(outcome::run(|| serde_arrow::to_marrow(&item_fields, &Rows(&explicit)).map(dump_arrs)));
        // API coverage: the other containers `Items` is implemented for — `Items<Vec<T>>`, `Items<&Vec<T>>`, and for
        // batches of up to three records `Items<[T; N]>` / `Items<&[T; N]>` (all documented to behave like `Items(&[T])`);
        // on every second case (time budget of the quick tier)
        let extra = input["seed"].as_u64().unwrap_or(0) % 2 == 0;
        let owned: Vec<SVal> = if extra { base.iter().map(SVal).collect() } else { Vec::new() };
        if extra {
        items_outs.push(outcome::run(|| serde_arrow::to_marrow(&item_fields, &serde_arrow::utils::Items(&owned)).map(dump_arrs)));
        items_outs.push(outcome::run(|| serde_arrow::to_marrow(&item_fields, serde_arrow::utils::Items(owned)).map(dump_arrs)));
        }
        macro_rules! arrays {
            ($($n:literal),*) => {
                match base.len() {
                    $($n if extra => {
                        let arr: [SVal; $n] = std::array::from_fn(|i| SVal(&base[i]));
                        items_outs.push(outcome::run(|| serde_arrow::to_marrow(&item_fields, &serde_arrow::utils::Items(&arr)).map(dump_arrs)));
                        items_outs.push(outcome::run(|| serde_arrow::to_marrow(&item_fields, serde_arrow::utils::Items(arr)).map(dump_arrs)));
                    })*
                    _ => {}
                }
            };
        }
        arrays!(0, 1, 2, 3);
    }
    let mut case = input.clone();
    let obj = case.as_object_mut().unwrap();
    obj.insert("aux".into(), gen_schema::aux_for(&input["schema"], &input["renderings"]));
    obj.insert("impl_items".into(), Value::Array(items_outs));
    obj.insert("impl".into(), Value::Array(outs));
    obj.insert("impl_malformed".into(), Value::Array(mouts));
    case
}
