//! suite `probe` (C19, thorough tier only): the harness itself is pinned to arrow-55 + arrow2-0-17, so the part
//! of the property that speaks about OTHER feature sets ("the highest enabled arrow version is used and the API
//! behaves the same for every supported version") is checked by building the small crate `harness-probe/` against
//! the current repository once per feature set and running its fixed corpus.
//!
//! One case = all feature sets (their results are compared with each other by the driver).  `exec` rebuilds
//! every configuration (`cargo build --offline`, one target directory per configuration under
//! `harness-probe/target/`, in parallel), runs the binaries and returns their output lines.  Nothing is written
//! outside the verif tree.  The quick tier has no case.
use crate::Ctx;
use serde_json::{json, Value};
use std::path::{Path, PathBuf};
use std::process::{Command, Stdio};
use std::time::{Duration, Instant};

/// marrow only, every arrow version on its own (both sides of the 47 and 53 thresholds included), several arrow
/// versions at once (adjacent, far apart, lower one listed last), both arrow2 versions, arrow together with arrow2
const CONFIGS: &[&[&str]] = &[
    &[],
    &["arrow-37"],
    &["arrow-38"],
    &["arrow-39"],
    &["arrow-40"],
    &["arrow-41"],
    &["arrow-42"],
    &["arrow-43"],
    &["arrow-44"],
    &["arrow-45"],
    &["arrow-46"],
    &["arrow-47"],
    &["arrow-48"],
    &["arrow-49"],
    &["arrow-50"],
    &["arrow-51"],
    &["arrow-52"],
    &["arrow-53"],
    &["arrow-54"],
    &["arrow-55"],
    &["arrow-54", "arrow-55"],
    &["arrow-48", "arrow-40"],
    &["arrow-37", "arrow-46", "arrow-53"],
    &["arrow2-0-16"],
    &["arrow2-0-17"],
    &["arrow2-0-16", "arrow2-0-17"],
    &["arrow-51", "arrow2-0-16"],
];

pub fn gen(ctx: &Ctx) -> Vec<Value> {
    if !ctx.thorough() {
        return Vec::new();
    }
    vec![json!({"id": "probe-000000", "seed": 0, "configs": CONFIGS})]
}

fn verif_root() -> PathBuf {
    Path::new(env!("CARGO_MANIFEST_DIR")).parent().expect("harness has a parent directory").to_path_buf()
}

fn tail(s: &str, n: usize) -> String {
    let chars: Vec<char> = s.chars().collect();
    chars[chars.len().saturating_sub(n)..].iter().collect()
}

/// run a command with a deadline; (exit ok, stdout, stderr)
fn run_with_deadline(mut cmd: Command, deadline: Duration) -> (bool, String, String) {
    let start = Instant::now();
    let mut child = match cmd.stdout(Stdio::piped()).stderr(Stdio::piped()).stdin(Stdio::null()).spawn() {
        Ok(c) => c,
        Err(e) => return (false, String::new(), format!("cannot start: {e}")),
    };
    // drain the pipes on threads so that a chatty child cannot block
    let mut so = child.stdout.take().unwrap();
    let mut se = child.stderr.take().unwrap();
    let t1 = std::thread::spawn(move || {
        let mut s = Vec::new();
        let _ = std::io::Read::read_to_end(&mut so, &mut s);
        String::from_utf8_lossy(&s).to_string()
    });
    let t2 = std::thread::spawn(move || {
        let mut s = Vec::new();
        let _ = std::io::Read::read_to_end(&mut se, &mut s);
        String::from_utf8_lossy(&s).to_string()
    });
    let ok = loop {
        match child.try_wait() {
            Ok(Some(st)) => break st.success(),
            Ok(None) => {
                if start.elapsed() > deadline {
                    let _ = child.kill();
                    let _ = child.wait();
                    break false;
                }
                std::thread::sleep(Duration::from_millis(100));
            }
            Err(_) => break false,
        }
    };
    let out = t1.join().unwrap_or_default();
    let mut err = t2.join().unwrap_or_default();
    if !ok && start.elapsed() > deadline {
        err.push_str("\n[killed: deadline exceeded]");
    }
    (ok, out, err)
}

fn config_name(features: &[String]) -> String {
    if features.is_empty() {
        "marrow-only".to_string()
    } else {
        features.join("+")
    }
}

fn prepare(root: &Path) -> Result<PathBuf, String> {
    let probe = root.join("harness-probe");
    if !probe.join("Cargo.toml").exists() {
        return Err(format!("{} not found", probe.join("Cargo.toml").display()));
    }
    // the same repository the harness links
    let want = std::fs::read_link(root.join("harness").join("sa_link")).map_err(|e| format!("harness/sa_link: {e}"))?;
    let link = probe.join("sa_link");
    let have = std::fs::read_link(&link).ok();
    if have.as_ref() != Some(&want) {
        let _ = std::fs::remove_file(&link);
        std::os::unix::fs::symlink(&want, &link).map_err(|e| format!("cannot link {}: {e}", link.display()))?;
    }
    let lock = probe.join("Cargo.lock");
    if !lock.exists() {
        std::fs::copy(want.join("Cargo.lock"), &lock).map_err(|e| format!("cannot copy the repository's Cargo.lock: {e}"))?;
    }
    // settle the lock file once, before the parallel builds
    let mut cmd = Command::new("cargo");
    cmd.args(["metadata", "--offline", "--format-version", "1", "--all-features"]).current_dir(&probe).env("CARGO_NET_OFFLINE", "true");
    let (ok, _, err) = run_with_deadline(cmd, Duration::from_secs(120));
    if !ok {
        return Err(format!("cargo metadata --offline failed: {}", tail(&err, 1500)));
    }
    Ok(probe)
}

fn run_config(probe: &Path, features: &[String], jobs: usize) -> Value {
    let name = config_name(features);
    let target = probe.join("target").join(&name);
    let t0 = Instant::now();
    let mut cmd = Command::new("cargo");
    cmd.args(["build", "--offline", "--no-default-features", "--jobs", &jobs.to_string(), "--target-dir"]).arg(&target);
    if !features.is_empty() {
        cmd.arg("--features").arg(features.join(","));
    }
    cmd.current_dir(probe).env("CARGO_NET_OFFLINE", "true").env_remove("RUSTFLAGS");
    let (ok, _, err) = run_with_deadline(cmd, Duration::from_secs(540));
    if !ok {
        // keep the compiler's own words, not the paths
        let errors: Vec<&str> = err.lines().filter(|l| l.starts_with("error")).take(6).collect();
        return json!({"features": features, "build": {"err": if errors.is_empty() { tail(&err, 800) } else { errors.join(" | ") }}});
    }
    let build_s = t0.elapsed().as_secs_f64();
    let cmd = Command::new(target.join("debug").join("saprobe"));
    let (ok, out, err) = run_with_deadline(cmd, Duration::from_secs(60));
    if !ok {
        return json!({"features": features, "build": {"ok": true}, "run": {"err": tail(&err, 800)}});
    }
    let mut header = Value::Null;
    let mut entries = Vec::new();
    for line in out.lines() {
        match serde_json::from_str::<Value>(line) {
            Ok(v) if v.get("header").is_some() => header = v["header"].clone(),
            Ok(v) => entries.push(v),
            Err(e) => return json!({"features": features, "build": {"ok": true}, "run": {"err": format!("bad output line: {e}")}}),
        }
    }
    let _ = build_s;
    json!({"features": features, "build": {"ok": true}, "run": {"ok": true}, "header": header, "entries": entries})
}

pub fn exec(input: &Value) -> Value {
    let mut case = input.clone();
    let configs: Vec<Vec<String>> = input["configs"]
        .as_array()
        .map(|a| a.iter().map(|c| c.as_array().map(|x| x.iter().filter_map(|s| s.as_str().map(String::from)).collect()).unwrap_or_default()).collect())
        .unwrap_or_default();
    let root = verif_root();
    let results: Vec<Value> = match prepare(&root) {
        Err(e) => configs.iter().map(|f| json!({"features": f, "build": {"err": format!("setup: {e}")}})).collect(),
        Ok(probe) => {
            let ncpu = std::thread::available_parallelism().map(|n| n.get()).unwrap_or(4);
            let jobs = std::cmp::max(2, 2 * ncpu / std::cmp::max(1, configs.len()));
            std::thread::scope(|s| {
                let handles: Vec<_> = configs.iter().map(|f| s.spawn(|| run_config(&probe, f, jobs))).collect();
                handles.into_iter().map(|h| h.join().unwrap_or_else(|_| json!({"build": {"err": "probe thread panicked"}}))).collect()
            })
        }
    };
    case.as_object_mut().unwrap().insert("results".into(), Value::Array(results));
    case
}
