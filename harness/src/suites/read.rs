//! suite `read` (C02; also emits spec keys C05, C18, C16): valid views built three independent ways
//!   "wire"  — hand-made wire-form views with every layout freedom (wiregen.rs),
//!   "arrow" — arrow-rs arrays (`ArrayData` / builders, optionally sliced) converted by marrow `View::try_from`,
//!   "own"   — the crate's own `to_marrow` output for the same logical rows,
//! read through deserialize_any and through dynamic typed targets (dynde.rs), item-wise (`Deserializer::get`)
//! and in bulk.  The case carries the view (wire form), the reads requested, the implementation's results, the
//! generator's logical rows and, for source "arrow", what arrow-rs accessors say (an independent oracle).
//! After the random part comes a grid (`grid_cells`, marked `"grid": kind` in the case) over the (column, target)
//! cells the random part reaches rarely: dictionaries into every string-like target, structs into maps with every
//! kind of key target, temporal / decimal columns at their boundary values into string / bytes targets, float
//! narrowing and widening, and struct views in which two children carry the same name (source "wire" only).
use crate::arrowsrc;
use crate::dump::view_to_json;
use crate::lgen;
use crate::readx;
use crate::rng::Rng;
use crate::schema_dump::field_from_json;
use crate::sval::{self, unhex, SVal};
use crate::wiregen;
use crate::Ctx;
use marrow::view::View;
use serde_json::{json, Value};

fn reads_for(rng: &mut Rng, field: &Value, rows: &[Value]) -> Vec<Value> {
    let name = field["name"].as_str().unwrap();
    let n = rows.len();
    let nat = wiregen::natural_target(field);
    let rec_nat = json!({"struct": [[name, nat]]});
    let mut out = Vec::new();
    for i in 0..n {
        out.push(json!({"ty": "any", "idx": i}));
    }
    out.push(json!({"bulk": "any"}));
    out.push(json!({"bulk": rec_nat}));
    for i in 0..n {
        out.push(json!({"ty": wiregen::record_target(&nat, name, rng), "idx": i}));
    }
    // without the Option layer: a few rows, preferring null rows (known finding #23 lives here)
    let stripped = wiregen::strip_option(&nat);
    let mut idxs: Vec<usize> = (0..n).filter(|i| rows[*i].is_null()).take(2).collect();
    if n > 0 {
        idxs.push(rng.usize(n));
    }
    if stripped != nat {
        for i in &idxs {
            out.push(json!({"ty": {"struct": [[name, stripped]]}, "idx": i}));
        }
    }
    // alternative target shapes
    let vars = wiregen::variant_targets(rng, field);
    let nv = if n == 0 { 0 } else { 5 };
    for _ in 0..nv {
        let v = rng.pick(&vars).clone();
        let v = if rng.chance(1, 3) && field["nullable"].as_bool().unwrap_or(false) { json!({"option": v}) } else { v };
        let i = rng.usize(n);
        out.push(json!({"ty": wiregen::record_target(&v, name, rng), "idx": i}));
    }
    // a struct view in which two children carry the same name (source "wire" only): the natural struct target repeats
    // the name (above); here also the name listed once (with the type of its first / of its last occurrence), the
    // map and the tuple views of the struct
    if let Some(dups) = dup_targets(field) {
        let live: Vec<usize> = (0..n).filter(|i| !rows[*i].is_null()).collect();
        for ty in &dups {
            for _ in 0..2.min(live.len()) {
                let i = *rng.pick(&live);
                let ty = if rng.chance(1, 4) && field["nullable"].as_bool().unwrap_or(false) { json!({"option": ty}) } else { ty.clone() };
                out.push(json!({"ty": {"struct": [[name, ty]]}, "idx": i}));
            }
        }
    }
    // beyond the end
    out.push(json!({"ty": "any", "idx": n}));
    out
}

fn has_dup_names(field: &Value) -> bool {
    if field["dt"]["t"] != "Struct" {
        return false;
    }
    let names: Vec<&str> = field["dt"]["fields"].as_array().unwrap().iter().map(|f| f["name"].as_str().unwrap()).collect();
    names.iter().enumerate().any(|(i, a)| names[..i].contains(a))
}

/// column targets for a struct column with a repeated child name (None for every other column)
fn dup_targets(field: &Value) -> Option<Vec<Value>> {
    if !has_dup_names(field) {
        return None;
    }
    let fs = field["dt"]["fields"].as_array().unwrap();
    let nat: Vec<(String, Value)> = fs.iter().map(|f| (f["name"].as_str().unwrap().to_string(), wiregen::natural_target(f))).collect();
    let mut first: Vec<Value> = Vec::new();
    let mut last: Vec<Value> = Vec::new();
    for (i, (nm, ty)) in nat.iter().enumerate() {
        if !nat[..i].iter().any(|(m, _)| m == nm) {
            first.push(json!([nm, ty]));
            let (_, lty) = nat.iter().rev().find(|(m, _)| m == nm).unwrap();
            last.push(json!([nm, lty]));
        }
    }
    let mut out = vec![
        json!({"struct": nat.iter().map(|(nm, ty)| json!([nm, ty])).collect::<Vec<_>>()}),
        json!({"struct": first}),
        json!({"map": ["string", "any"]}),
        json!({"map": ["any", "any"]}),
        json!({"tuple": nat.iter().map(|(_, ty)| ty.clone()).collect::<Vec<_>>()}),
        json!({"struct": nat.iter().map(|(nm, _)| json!([nm, "any"])).collect::<Vec<_>>()}),
        json!({"struct": first.iter().map(|p| json!([p[0], "any"])).collect::<Vec<_>>()}),
    ];
    if last != first {
        out.push(json!({"struct": last}));
    }
    Some(out)
}

/// give one child of a struct column the name of another one, in the field and in every row
fn make_dup_names(r: &mut Rng, field: &mut Value, rows: &mut [Value]) {
    let k = field["dt"]["fields"].as_array().map(|a| a.len()).unwrap_or(0);
    if k < 2 {
        return;
    }
    let i = r.usize(k);
    let j = (i + 1 + r.usize(k - 1)) % k;
    let name = field["dt"]["fields"][i]["name"].clone();
    field["dt"]["fields"][j]["name"] = name.clone();
    for row in rows.iter_mut() {
        if !row.is_null() {
            row["struct"][j][0] = name.clone();
        }
    }
}

fn pick_field(r: &mut Rng, c: usize, leafs: &[Value], thorough: bool) -> Value {
    if c < 2 * leafs.len() {
        json!({"name": "c", "nullable": c % 2 == 0 || leafs[c / 2]["t"] == "Null", "meta": [], "dt": leafs[c / 2]})
    } else {
        let depth = 1 + r.usize(if thorough { 4 } else { 3 });
        let mut f = lgen::gen_field(r, "c", depth);
        if r.chance(1, 12) {
            f["meta"] = json!([["SERDE_ARROW:strategy", *r.pick(&["TupleAsStruct", "MapAsStruct", "InconsistentTypes"])]]);
        }
        f
    }
}

pub fn gen(ctx: &Ctx) -> Vec<Value> {
    crate::dynde::self_check_or_panic();
    let mut rng = Rng::new(ctx.seed ^ 0x0C02);
    let total = if ctx.thorough() { 40000 } else { 3000 };
    let leafs = lgen::all_leaf_types();
    let mut out = Vec::new();
    for c in 0..total {
        let mut r = rng.fork();
        let sub_seed = r.0;
        let field = pick_field(&mut r, c % (total / 3).max(1), &leafs, ctx.thorough());
        let n = match r.below(8) {
            0 => 0,
            1 => 1,
            2 => 8,
            3 => 9,
            4 => 17,
            _ => 1 + r.usize(12),
        };
        let mut field = field;
        let mut rows = lgen::gen_rows(&mut r, &field, n);
        let src = match c * 3 / total {
            0 => "wire",
            1 => "arrow",
            _ => "own",
        };
        // duplicate child names in a struct VIEW (arrow-rs / to_marrow may refuse them: source "wire" only); decided
        // by a side stream of the case's seed so that every other case stays what it was
        if src == "wire" && field["dt"]["t"] == "Struct" && field["dt"]["fields"].as_array().unwrap().len() >= 2 {
            let mut side = Rng::new(sub_seed ^ 0x0D0B_1E5);
            if side.chance(1, 15) {
                make_dup_names(&mut side, &mut field, &mut rows);
            }
        }
        let mut case = json!({"id": format!("read-{c:06}"), "seed": sub_seed, "src": src, "field": field, "fm": wiregen::fmeta(&field), "rows": rows});
        match src {
            "wire" => {
                let free = r.chance(4, 5);
                case["view"] = wiregen::encode(&mut r, &field, &rows, free);
            }
            "arrow" => {
                if n > 0 && r.chance(1, 3) {
                    let o = r.usize(n);
                    let l = r.usize(n - o + 1);
                    case["slice"] = json!([o, l]);
                }
            }
            _ => {}
        }
        let vis_rows: Vec<Value> = match case.get("slice") {
            Some(s) => {
                let o = s[0].as_u64().unwrap() as usize;
                let l = s[1].as_u64().unwrap() as usize;
                rows[o..o + l].to_vec()
            }
            None => rows.clone(),
        };
        case["reads"] = Value::Array(reads_for(&mut r, &field, &vis_rows));
        out.push(case);
    }
    // the grid of (column, target) cells the random part reaches rarely or never; its own stream and ids after the
    // random part's, so that the cases above are unchanged
    let mut grng = Rng::new(ctx.seed ^ 0x0C02_6A1D);
    for _ in 0..if ctx.thorough() { 10 } else { 1 } {
        for cell in grid_cells(&mut grng) {
            let mut r = grng.fork();
            let c = out.len();
            out.push(grid_case(&mut r, c, cell));
        }
    }
    out
}

// ------------------------------------------------------------------------------------------------ grid of cells

struct Cell {
    src: &'static str,
    field: Value,
    n: usize,
    /// values most non-null rows are drawn from (empty: the ordinary generator)
    specials: Vec<Value>,
    /// column targets; `None` = made from the rows (enum targets naming actual values)
    targets: Vec<Value>,
    /// reads per target
    k: usize,
    kind: &'static str,
}

const SOURCES: [&str; 3] = ["wire", "arrow", "own"];

fn leaf(nullable: bool, dt: Value) -> Value {
    lgen::mk_field("c", nullable, dt)
}

fn t(name: &str) -> Value {
    json!({ "t": name })
}

fn grid_cells(r: &mut Rng) -> Vec<Cell> {
    let mut out = Vec::new();
    let ints = ["Int8", "Int16", "Int32", "Int64", "UInt8", "UInt16", "UInt32", "UInt64"];
    let units = ["Second", "Millisecond", "Microsecond", "Nanosecond"];
    let mut flip = false;
    let mut nullable = || {
        flip = !flip;
        flip
    };
    // (a) dictionaries into every string-like target
    for src in SOURCES {
        for k in ints {
            for v in ["Utf8", "LargeUtf8"] {
                let field = leaf(nullable(), json!({"t": "Dictionary", "key": t(k), "value": t(v)}));
                out.push(Cell { src, field, n: 6 + r.usize(8), specials: vec![], targets: vec![], k: 3, kind: "dict" });
            }
        }
    }
    // (c) temporal and decimal columns into the string-like targets, values at every boundary
    let mut temporal: Vec<Value> = vec![t("Date32"), t("Date64")];
    for u in ["Second", "Millisecond"] {
        temporal.push(json!({"t": "Time32", "unit": u}));
    }
    for u in ["Microsecond", "Nanosecond"] {
        temporal.push(json!({"t": "Time64", "unit": u}));
    }
    for u in units {
        temporal.push(json!({"t": "Timestamp", "unit": u, "tz": null}));
        temporal.push(json!({"t": "Timestamp", "unit": u, "tz": "UTC"}));
    }
    for u in units {
        temporal.push(json!({"t": "Duration", "unit": u}));
    }
    for (p, s) in [(38, 0), (38, 10), (10, 2), (5, 5), (1, 0), (9, -2), (38, -3), (20, 20)] {
        temporal.push(json!({"t": "Decimal128", "p": p, "s": s}));
    }
    for src in SOURCES {
        for dt in &temporal {
            if src == "own" && dt["t"] == "Decimal128" {
                continue; // no serde presentation here (decimal codec: C15)
            }
            let targets = vec![json!("string"), json!("str"), json!("byte_buf"), json!("bytes"), json!({"option": "string"})];
            out.push(Cell { src, field: leaf(nullable(), dt.clone()), n: 18 + r.usize(5), specials: lgen::boundary_values(dt), targets, k: 10, kind: "temporal" });
        }
    }
    // (d) float narrowing / widening
    for src in SOURCES {
        for (ty, reps) in [("Float64", 4), ("Float32", 2), ("Float16", 2)] {
            for _ in 0..reps {
                let targets = if ty == "Float64" {
                    vec![json!("f32"), json!({"option": "f32"}), json!({"newtype": "f32"}), json!("f32")]
                } else {
                    vec![json!("f64"), json!("f32"), json!({"option": "f64"}), json!({"newtype": "f64"})]
                };
                out.push(Cell { src, field: leaf(nullable(), t(ty)), n: 14 + r.usize(4), specials: lgen::boundary_values(&t(ty)), targets, k: 8, kind: "float" });
            }
        }
    }
    // (b) struct columns into maps with every kind of key target
    for src in SOURCES {
        for i in 0..22 {
            let nf = [1, 2, 2, 3, 3, 2, 4, 0, 1, 2, 3][i % 11];
            let names = lgen::field_names(r, nf, i % 2 == 0);
            let fields: Vec<Value> = if i % 3 != 2 {
                // all children of one type: a typed value target fits every entry
                let dt = match r.below(6) {
                    0 => t("Int32"),
                    1 => t("Utf8"),
                    2 => t("Boolean"),
                    3 => t("Float64"),
                    4 => t("Date32"),
                    _ => json!({"t": "Dictionary", "key": t("Int8"), "value": t("Utf8")}),
                };
                let nl = r.bool();
                names.iter().map(|nm| lgen::mk_field(nm, nl, dt.clone())).collect()
            } else {
                names.iter().map(|nm| lgen::gen_field(r, nm, 1)).collect()
            };
            let field = leaf(nullable(), json!({"t": "Struct", "fields": fields}));
            out.push(Cell { src, field, n: 3 + r.usize(6), specials: vec![], targets: vec![], k: 2, kind: "structmap" });
        }
    }
    // (e) struct views with a repeated child name
    for i in 0..24 {
        let nf = 2 + i % 3;
        let names = lgen::field_names(r, nf, i % 2 == 0);
        let same = i % 4 < 2;
        let dt0 = if r.bool() { t("Int32") } else { t("Utf8") };
        let fields: Vec<Value> = names.iter().map(|nm| if same { lgen::mk_field(nm, i % 8 < 4, dt0.clone()) } else { lgen::gen_field(r, nm, (i % 2) as usize) }).collect();
        let field = leaf(nullable(), json!({"t": "Struct", "fields": fields}));
        out.push(Cell { src: "wire", field, n: 2 + r.usize(6), specials: vec![], targets: vec![], k: 0, kind: "dup" });
    }
    out
}

/// enum-by-name target with unit variants named after about half of the distinct values of the column plus one
/// name that never occurs
fn enum_of_values(r: &mut Rng, rows: &[Value]) -> Value {
    let mut names: Vec<String> = Vec::new();
    for row in rows.iter().filter(|x| !x.is_null()) {
        if let Ok(s) = String::from_utf8(unhex(row["str"].as_str().unwrap_or(""))) {
            if !names.contains(&s) {
                names.push(s);
            }
        }
    }
    r.shuffle(&mut names);
    let keep = (names.len() + 1) / 2 + if names.len() > 1 && r.bool() { 1 } else { 0 };
    names.truncate(keep.min(names.len()));
    names.insert(r.usize(names.len() + 1), "zz-never".to_string());
    json!({"enum": names.iter().map(|nm| json!([nm, "unit"])).collect::<Vec<_>>()})
}

/// the map targets of cell (b) for one struct column: every key target × a value target taken in turn
fn struct_map_targets(r: &mut Rng, field: &Value) -> Vec<Value> {
    let fs = field["dt"]["fields"].as_array().unwrap();
    let names: Vec<&str> = fs.iter().map(|f| f["name"].as_str().unwrap()).collect();
    let uniform = !fs.is_empty() && fs.iter().all(|f| f["dt"] == fs[0]["dt"] && f["nullable"] == fs[0]["nullable"]);
    let mut vals = vec![json!("any"), json!("ignored")];
    if uniform {
        vals.push(wiregen::natural_target(&fs[0]));
    }
    let units = |ns: &[&str]| -> Vec<Value> { ns.iter().map(|nm| json!([nm, "unit"])).collect() };
    let mut keys = vec![
        json!("char"), json!("byte_buf"), json!("ignored"), json!("str"), json!("bytes"), json!("i32"),
        json!({"option": "string"}), json!({"newtype": "string"}),
        json!({"enum": units(&names)}),
        json!({"enum_idx": units(&names)}),
    ];
    if !names.is_empty() {
        // one name missing (→ unknown variant), one matching variant with a payload
        let drop = r.usize(names.len());
        let fewer: Vec<&str> = names.iter().enumerate().filter(|(i, _)| *i != drop).map(|(_, nm)| *nm).collect();
        keys.push(json!({"enum": units(&fewer)}));
        let pay = r.usize(names.len());
        keys.push(json!({"enum": names.iter().enumerate().map(|(i, nm)| if i == pay { json!([nm, {"newtype": "i32"}]) } else { json!([nm, "unit"]) }).collect::<Vec<_>>()}));
    }
    let mut out = Vec::new();
    let start = r.usize(vals.len());
    for (i, k) in keys.iter().enumerate() {
        out.push(json!({"map": [k, vals[(start + i) % vals.len()]]}));
        out.push(json!({"map": [k, vals[(start + i + 1) % vals.len()]]}));
    }
    out
}

fn grid_case(r: &mut Rng, c: usize, cell: Cell) -> Value {
    let sub_seed = r.0;
    let Cell { src, mut field, n, mut specials, mut targets, k, kind } = cell;
    if src == "own" {
        // values the serde presentation cannot carry (a signalling f16 NaN) would skip the whole case
        let plain = leaf(false, field["dt"].clone());
        specials.retain(|v| to_sval(&plain, v).is_some());
    }
    let mut rows = if specials.is_empty() { lgen::gen_rows(r, &field, n) } else { lgen::gen_rows_with(r, &field, n, &specials) };
    if kind == "dup" {
        make_dup_names(r, &mut field, &mut rows);
    }
    let mut case = json!({"id": format!("read-{c:06}"), "seed": sub_seed, "src": src, "field": field, "fm": wiregen::fmeta(&field), "rows": rows, "grid": kind});
    match src {
        "wire" => {
            let free = r.chance(4, 5);
            case["view"] = wiregen::encode(r, &field, &rows, free);
        }
        "arrow" => {
            if n > 0 && r.chance(1, 5) {
                let o = r.usize(n / 3 + 1);
                let l = n - o - r.usize((n - o) / 3 + 1);
                case["slice"] = json!([o, l]);
            }
        }
        _ => {}
    }
    let vis: Vec<Value> = match case.get("slice") {
        Some(s) => rows[s[0].as_u64().unwrap() as usize..(s[0].as_u64().unwrap() + s[1].as_u64().unwrap()) as usize].to_vec(),
        None => rows.clone(),
    };
    if kind == "dup" {
        case["reads"] = Value::Array(reads_for(r, &field, &vis));
        return case;
    }
    match kind {
        "dict" => {
            targets = vec![json!("str"), json!("string"), json!("char"), json!("byte_buf"), json!("bytes"), enum_of_values(r, &vis), json!({"option": "str"}),
                           json!({"newtype": "string"}), json!({"option": enum_of_values(r, &vis)})];
        }
        "structmap" => targets = struct_map_targets(r, &field),
        _ => {}
    }
    let name = "c";
    let nullable = field["nullable"].as_bool().unwrap_or(false);
    let mut reads = Vec::new();
    for i in 0..vis.len() {
        reads.push(json!({"ty": "any", "idx": i}));
    }
    reads.push(json!({"bulk": "any"}));
    let live: Vec<usize> = (0..vis.len()).filter(|i| !vis[*i].is_null()).collect();
    let dead: Vec<usize> = (0..vis.len()).filter(|i| vis[*i].is_null()).collect();
    for ty in &targets {
        // k reads on distinct non-null rows (as far as there are that many), one on a null row
        let mut order = live.clone();
        r.shuffle(&mut order);
        let mut idxs: Vec<usize> = order.into_iter().take(k).collect();
        if !dead.is_empty() && r.chance(1, 2) {
            idxs.push(*r.pick(&dead));
        }
        for i in idxs {
            let ty = if nullable && ty.get("option").is_none() && r.chance(1, 5) { json!({"option": ty}) } else { ty.clone() };
            let rec = if r.chance(1, 8) { wiregen::record_target(&ty, name, r) } else { json!({"struct": [[name, ty]]}) };
            reads.push(json!({"ty": rec, "idx": i}));
        }
    }
    reads.push(json!({"ty": "any", "idx": vis.len()}));
    case["reads"] = Value::Array(reads);
    case
}

/// LVal row → the serde value a user would serialize for this column (source "own")
fn to_sval(field: &Value, v: &Value) -> Option<Value> {
    let dt = &field["dt"];
    let nullable = field["nullable"].as_bool().unwrap_or(false);
    let t = dt["t"].as_str().unwrap();
    if v.is_null() {
        return Some(if t == "Null" { sval::unit() } else { sval::none() });
    }
    let int = |ty: &str| -> Option<Value> { Some(sval::int(ty, v["int"].as_str()?.parse().ok()?)) };
    let inner = match t {
        "Boolean" => sval::boolean(v["bool"].as_bool()?),
        "Int8" => int("i8")?,
        "Int16" => int("i16")?,
        "Int32" | "Date32" | "Time32" => int("i32")?,
        "Int64" | "Date64" | "Time64" | "Timestamp" | "Duration" => int("i64")?,
        "UInt8" => int("u8")?,
        "UInt16" => int("u16")?,
        "UInt32" => int("u32")?,
        "UInt64" => int("u64")?,
        "Float16" => {
            let bits: u16 = v["float"].as_str()?.parse().ok()?;
            let f = half::f16::from_bits(bits).to_f32();
            // a signalling NaN is quieted on the way through f32 (not a property of serde_arrow): no presentation
            if half::f16::from_f32(f).to_bits() != bits {
                return None;
            }
            sval::f32v(f)
        }
        "Float32" => sval::f32v(f32::from_bits(v["float"].as_str()?.parse().ok()?)),
        "Float64" => sval::f64v(f64::from_bits(v["float"].as_str()?.parse().ok()?)),
        "Utf8" | "LargeUtf8" | "Utf8View" | "Dictionary" => sval::string(std::str::from_utf8(&unhex(v["str"].as_str()?)).ok()?),
        "Binary" | "LargeBinary" | "BinaryView" | "FixedSizeBinary" => sval::bytes(&unhex(v["bin"].as_str()?)),
        "List" | "LargeList" | "FixedSizeList" => {
            let items: Option<Vec<Value>> = v["list"].as_array()?.iter().map(|x| to_sval(&dt["child"], x)).collect();
            sval::seq(items?)
        }
        "Struct" => {
            let fs = dt["fields"].as_array()?;
            let mut out = Vec::new();
            for (k, f) in fs.iter().enumerate() {
                out.push((f["name"].as_str()?.to_string(), 0u64, to_sval(f, &v["struct"][k][1])?));
            }
            sval::record("S", out)
        }
        "Map" => {
            let kf = &dt["entries"]["dt"]["fields"][0];
            let vf = &dt["entries"]["dt"]["fields"][1];
            let mut es = Vec::new();
            for e in v["map"].as_array()? {
                es.push((to_sval(kf, &e[0])?, to_sval(vf, &e[1])?));
            }
            sval::map(es)
        }
        "Union" => {
            let tid: i64 = v["union"][0].as_str()?.parse().ok()?;
            let fs = dt["fields"].as_array()?;
            let pos = fs.iter().position(|f| f[0].as_i64() == Some(tid))?;
            let cf = &fs[pos][1];
            let name = cf["name"].as_str()?;
            if cf["dt"]["t"] == "Null" {
                sval::unit_variant("E", pos as u32, name)
            } else {
                sval::newtype_variant("E", pos as u32, name, to_sval(cf, &v["union"][1])?)
            }
        }
        _ => return None, // Null handled above; Decimal128 goes through the decimal codec (C15)
    };
    Some(if nullable { sval::some(inner) } else { inner })
}

fn run_on(case: &mut Value, fields: &[marrow::datatypes::Field], view: &View, reads: &[Value]) {
    case["view"] = view_to_json(view);
    let (ctor, outs) = readx::run_reads_on_view(fields, std::slice::from_ref(view), reads);
    case["ctor"] = ctor;
    case["impl"] = Value::Array(outs);
}

pub fn exec(input: &Value) -> Value {
    let mut case = input.clone();
    let reads = input["reads"].as_array().unwrap().clone();
    let fields = vec![readx::field_of(&input["fm"])];
    match input["src"].as_str().unwrap() {
        "wire" => {
            let (ctor, outs) = readx::run_reads(&input["view"], &input["fm"], &reads);
            case["ctor"] = ctor;
            case["impl"] = Value::Array(outs);
        }
        "arrow" => {
            let rows = input["rows"].as_array().unwrap();
            let built = std::panic::catch_unwind(|| arrowsrc::build_arrow(&input["field"], rows));
            match built {
                Ok(Ok(arr)) => {
                    let arr = match input.get("slice") {
                        Some(s) => arr.slice(s[0].as_u64().unwrap() as usize, s[1].as_u64().unwrap() as usize),
                        None => arr,
                    };
                    case["oracle"] = Value::Array(arrowsrc::arrow_oracle(arr.as_ref()));
                    match View::try_from(arr.as_ref()) {
                        Ok(view) => run_on(&mut case, &fields, &view, &reads),
                        Err(e) => case["skip"] = json!(format!("marrow conversion: {e}")),
                    }
                }
                Ok(Err(e)) => case["skip"] = json!(format!("build_arrow: {e}")),
                Err(_) => case["skip"] = json!("build_arrow panicked"),
            }
        }
        _ => {
            let field = field_from_json(&input["field"]);
            let name = input["field"]["name"].as_str().unwrap().to_string();
            let rows = input["rows"].as_array().unwrap();
            let items: Option<Vec<Value>> = rows.iter().map(|r| to_sval(&input["field"], r).map(|v| sval::record("R", vec![(name.clone(), 0, v)]))).collect();
            match items {
                None => case["skip"] = json!("no serde presentation for this column here"),
                Some(items) => {
                    let svals: Vec<SVal> = items.iter().map(SVal).collect();
                    let made = std::panic::catch_unwind(std::panic::AssertUnwindSafe(|| serde_arrow::to_marrow(&[field.clone()], &svals)));
                    match made {
                        Ok(Ok(arrays)) => {
                            let view = arrays[0].as_view();
                            run_on(&mut case, &fields, &view, &reads);
                        }
                        Ok(Err(e)) => case["skip"] = json!(format!("to_marrow: {e}")),
                        Err(_) => case["skip"] = json!("to_marrow panicked"),
                    }
                }
            }
        }
    }
    case
}
