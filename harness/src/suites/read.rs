//! suite `read` (C02; also emits spec keys C05, C18, C16): valid views built three independent ways
//!   "wire"  — hand-made wire-form views with every layout freedom (wiregen.rs),
//!   "arrow" — arrow-rs arrays (`ArrayData` / builders, optionally sliced) converted by marrow `View::try_from`,
//!   "own"   — the crate's own `to_marrow` output for the same logical rows,
//! read through deserialize_any and through dynamic typed targets (dynde.rs), item-wise (`Deserializer::get`)
//! and in bulk.  The case carries the view (wire form), the reads requested, the implementation's results, the
//! generator's logical rows and, for source "arrow", what arrow-rs accessors say (an independent oracle).
use crate::arrowsrc;
use crate::dump::view_to_json;
use crate::lgen;
use crate::readx;
use crate::rng::Rng;
use crate::schema_dump::field_from_json;
use crate::sval::{self, unhex, SVal};
use crate::wiregen;
use crate::Ctx;
use marrow::view::View;
use serde_json::{json, Value};

fn reads_for(rng: &mut Rng, field: &Value, rows: &[Value]) -> Vec<Value> {
    let name = field["name"].as_str().unwrap();
    let n = rows.len();
    let nat = wiregen::natural_target(field);
    let rec_nat = json!({"struct": [[name, nat]]});
    let mut out = Vec::new();
    for i in 0..n {
        out.push(json!({"ty": "any", "idx": i}));
    }
    out.push(json!({"bulk": "any"}));
    out.push(json!({"bulk": rec_nat}));
    for i in 0..n {
        out.push(json!({"ty": wiregen::record_target(&nat, name, rng), "idx": i}));
    }
    // without the Option layer: a few rows, preferring null rows (known finding #23 lives here)
    let stripped = wiregen::strip_option(&nat);
    let mut idxs: Vec<usize> = (0..n).filter(|i| rows[*i].is_null()).take(2).collect();
    if n > 0 {
        idxs.push(rng.usize(n));
    }
    if stripped != nat {
        for i in &idxs {
            out.push(json!({"ty": {"struct": [[name, stripped]]}, "idx": i}));
        }
    }
    // alternative target shapes
    let vars = wiregen::variant_targets(rng, field);
    let nv = if n == 0 { 0 } else { 5 };
    for _ in 0..nv {
        let v = rng.pick(&vars).clone();
        let v = if rng.chance(1, 3) && field["nullable"].as_bool().unwrap_or(false) { json!({"option": v}) } else { v };
        let i = rng.usize(n);
        out.push(json!({"ty": wiregen::record_target(&v, name, rng), "idx": i}));
    }
    // beyond the end
    out.push(json!({"ty": "any", "idx": n}));
    out
}

fn pick_field(r: &mut Rng, c: usize, leafs: &[Value], thorough: bool) -> Value {
    if c < 2 * leafs.len() {
        json!({"name": "c", "nullable": c % 2 == 0 || leafs[c / 2]["t"] == "Null", "meta": [], "dt": leafs[c / 2]})
    } else {
        let depth = 1 + r.usize(if thorough { 4 } else { 3 });
        let mut f = lgen::gen_field(r, "c", depth);
        if r.chance(1, 12) {
            f["meta"] = json!([["SERDE_ARROW:strategy", *r.pick(&["TupleAsStruct", "MapAsStruct", "InconsistentTypes"])]]);
        }
        f
    }
}

pub fn gen(ctx: &Ctx) -> Vec<Value> {
    crate::dynde::self_check_or_panic();
    let mut rng = Rng::new(ctx.seed ^ 0x0C02);
    let total = if ctx.thorough() { 40000 } else { 3000 };
    let leafs = lgen::all_leaf_types();
    let mut out = Vec::new();
    for c in 0..total {
        let mut r = rng.fork();
        let sub_seed = r.0;
        let field = pick_field(&mut r, c % (total / 3).max(1), &leafs, ctx.thorough());
        let n = match r.below(8) {
            0 => 0,
            1 => 1,
            2 => 8,
            3 => 9,
            4 => 17,
            _ => 1 + r.usize(12),
        };
        let rows = lgen::gen_rows(&mut r, &field, n);
        let src = match c * 3 / total {
            0 => "wire",
            1 => "arrow",
            _ => "own",
        };
        let mut case = json!({"id": format!("read-{c:06}"), "seed": sub_seed, "src": src, "field": field, "fm": wiregen::fmeta(&field), "rows": rows});
        match src {
            "wire" => {
                let free = r.chance(4, 5);
                case["view"] = wiregen::encode(&mut r, &field, &rows, free);
            }
            "arrow" => {
                if n > 0 && r.chance(1, 3) {
                    let o = r.usize(n);
                    let l = r.usize(n - o + 1);
                    case["slice"] = json!([o, l]);
                }
            }
            _ => {}
        }
        let vis_rows: Vec<Value> = match case.get("slice") {
            Some(s) => {
                let o = s[0].as_u64().unwrap() as usize;
                let l = s[1].as_u64().unwrap() as usize;
                rows[o..o + l].to_vec()
            }
            None => rows.clone(),
        };
        case["reads"] = Value::Array(reads_for(&mut r, &field, &vis_rows));
        out.push(case);
    }
    out
}

/// LVal row → the serde value a user would serialize for this column (source "own")
fn to_sval(field: &Value, v: &Value) -> Option<Value> {
    let dt = &field["dt"];
    let nullable = field["nullable"].as_bool().unwrap_or(false);
    let t = dt["t"].as_str().unwrap();
    if v.is_null() {
        return Some(if t == "Null" { sval::unit() } else { sval::none() });
    }
    let int = |ty: &str| -> Option<Value> { Some(sval::int(ty, v["int"].as_str()?.parse().ok()?)) };
    let inner = match t {
        "Boolean" => sval::boolean(v["bool"].as_bool()?),
        "Int8" => int("i8")?,
        "Int16" => int("i16")?,
        "Int32" | "Date32" | "Time32" => int("i32")?,
        "Int64" | "Date64" | "Time64" | "Timestamp" | "Duration" => int("i64")?,
        "UInt8" => int("u8")?,
        "UInt16" => int("u16")?,
        "UInt32" => int("u32")?,
        "UInt64" => int("u64")?,
        "Float16" => {
            let bits: u16 = v["float"].as_str()?.parse().ok()?;
            let f = half::f16::from_bits(bits).to_f32();
            // a signalling NaN is quieted on the way through f32 (not a property of serde_arrow): no presentation
            if half::f16::from_f32(f).to_bits() != bits {
                return None;
            }
            sval::f32v(f)
        }
        "Float32" => sval::f32v(f32::from_bits(v["float"].as_str()?.parse().ok()?)),
        "Float64" => sval::f64v(f64::from_bits(v["float"].as_str()?.parse().ok()?)),
        "Utf8" | "LargeUtf8" | "Utf8View" | "Dictionary" => sval::string(std::str::from_utf8(&unhex(v["str"].as_str()?)).ok()?),
        "Binary" | "LargeBinary" | "BinaryView" | "FixedSizeBinary" => sval::bytes(&unhex(v["bin"].as_str()?)),
        "List" | "LargeList" | "FixedSizeList" => {
            let items: Option<Vec<Value>> = v["list"].as_array()?.iter().map(|x| to_sval(&dt["child"], x)).collect();
            sval::seq(items?)
        }
        "Struct" => {
            let fs = dt["fields"].as_array()?;
            let mut out = Vec::new();
            for (k, f) in fs.iter().enumerate() {
                out.push((f["name"].as_str()?.to_string(), 0u64, to_sval(f, &v["struct"][k][1])?));
            }
            sval::record("S", out)
        }
        "Map" => {
            let kf = &dt["entries"]["dt"]["fields"][0];
            let vf = &dt["entries"]["dt"]["fields"][1];
            let mut es = Vec::new();
            for e in v["map"].as_array()? {
                es.push((to_sval(kf, &e[0])?, to_sval(vf, &e[1])?));
            }
            sval::map(es)
        }
        "Union" => {
            let tid: i64 = v["union"][0].as_str()?.parse().ok()?;
            let fs = dt["fields"].as_array()?;
            let pos = fs.iter().position(|f| f[0].as_i64() == Some(tid))?;
            let cf = &fs[pos][1];
            let name = cf["name"].as_str()?;
            if cf["dt"]["t"] == "Null" {
                sval::unit_variant("E", pos as u32, name)
            } else {
                sval::newtype_variant("E", pos as u32, name, to_sval(cf, &v["union"][1])?)
            }
        }
        _ => return None, // Null handled above; Decimal128 goes through the decimal codec (C15)
    };
    Some(if nullable { sval::some(inner) } else { inner })
}

fn run_on(case: &mut Value, fields: &[marrow::datatypes::Field], view: &View, reads: &[Value]) {
    case["view"] = view_to_json(view);
    let (ctor, outs) = readx::run_reads_on_view(fields, std::slice::from_ref(view), reads);
    case["ctor"] = ctor;
    case["impl"] = Value::Array(outs);
}

pub fn exec(input: &Value) -> Value {
    let mut case = input.clone();
    let reads = input["reads"].as_array().unwrap().clone();
    let fields = vec![readx::field_of(&input["fm"])];
    match input["src"].as_str().unwrap() {
        "wire" => {
            let (ctor, outs) = readx::run_reads(&input["view"], &input["fm"], &reads);
            case["ctor"] = ctor;
            case["impl"] = Value::Array(outs);
        }
        "arrow" => {
            let rows = input["rows"].as_array().unwrap();
            let built = std::panic::catch_unwind(|| arrowsrc::build_arrow(&input["field"], rows));
            match built {
                Ok(Ok(arr)) => {
                    let arr = match input.get("slice") {
                        Some(s) => arr.slice(s[0].as_u64().unwrap() as usize, s[1].as_u64().unwrap() as usize),
                        None => arr,
                    };
                    case["oracle"] = Value::Array(arrowsrc::arrow_oracle(arr.as_ref()));
                    match View::try_from(arr.as_ref()) {
                        Ok(view) => run_on(&mut case, &fields, &view, &reads),
                        Err(e) => case["skip"] = json!(format!("marrow conversion: {e}")),
                    }
                }
                Ok(Err(e)) => case["skip"] = json!(format!("build_arrow: {e}")),
                Err(_) => case["skip"] = json!("build_arrow panicked"),
            }
        }
        _ => {
            let field = field_from_json(&input["field"]);
            let name = input["field"]["name"].as_str().unwrap().to_string();
            let rows = input["rows"].as_array().unwrap();
            let items: Option<Vec<Value>> = rows.iter().map(|r| to_sval(&input["field"], r).map(|v| sval::record("R", vec![(name.clone(), 0, v)]))).collect();
            match items {
                None => case["skip"] = json!("no serde presentation for this column here"),
                Some(items) => {
                    let svals: Vec<SVal> = items.iter().map(SVal).collect();
                    let made = std::panic::catch_unwind(std::panic::AssertUnwindSafe(|| serde_arrow::to_marrow(&[field.clone()], &svals)));
                    match made {
                        Ok(Ok(arrays)) => {
                            let view = arrays[0].as_view();
                            run_on(&mut case, &fields, &view, &reads);
                        }
                        Ok(Err(e)) => case["skip"] = json!(format!("to_marrow: {e}")),
                        Err(_) => case["skip"] = json!("to_marrow panicked"),
                    }
                }
            }
        }
    }
    case
}
