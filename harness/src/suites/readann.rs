//! suite `readann` (C18, reader half): the error annotations of the random-access readers.
//! Inputs: the cases of the `read` suite (valid views from three sources, every typed target) and the cases of the
//! `corrupt` suite (single-point corruptions: the only way to reach the readers' own bounds / offset / type-id
//! errors), re-labelled.  `exec` runs the reads on the real crate; the outcomes carry `err.ann`, the parsed
//! `field` / `data_type` annotations of the Display text.
use crate::{readx, Ctx};
use serde_json::{json, Value};

pub fn gen(ctx: &Ctx) -> Vec<Value> {
    let mut out = Vec::new();
    let mut k = 0usize;
    for mut c in super::read::gen(ctx) {
        c["orig"] = c["id"].clone();
        c["id"] = json!(format!("readann-{k:06}"));
        out.push(c);
        k += 1;
    }
    for c in super::corrupt::gen(ctx) {
        out.push(json!({
            "id": format!("readann-{k:06}"), "orig": c["id"], "seed": c["seed"], "src": "corrupt",
            "fm": c["fm"], "view": c["view"], "reads": c["reads"], "corruption": c["corruption"],
        }));
        k += 1;
    }
    out
}

pub fn exec(input: &Value) -> Value {
    if input["src"] == "corrupt" {
        let mut case = input.clone();
        let reads = input["reads"].as_array().unwrap().clone();
        let (ctor, outs) = readx::run_reads(&input["view"], &input["fm"], &reads);
        case["ctor"] = ctor;
        case["impl"] = Value::Array(outs);
        case
    } else {
        super::read::exec(input)
    }
}
