//! suite `roundtrip` (C04): for every type of the zoo (real derives) × random value batches × tracing-option
//! combinations that change physical types:
//!     Vec<Field>::from_type::<T>(opts) → to_marrow → from_marrow::<Vec<T>>  → compare with ==
//! and the same through ArrayBuilder/Deserializer (item by item), to_arrow/from_arrow, to_record_batch/
//! from_record_batch and to_arrow2/from_arrow2; owned and borrowed targets.
//! The case carries the traced schema, the values as recorded serde call streams (recorder.rs), the marrow arrays
//! and the outcome per front end, so that the driver can run the builder model on the same rows (C01 tie) and decide
//! C04 per case.  Harness fidelity (DESIGN.md 2.3): `record(SVal(record(v))) == record(v)` for every value.
use crate::dump;
use crate::dynde;
use crate::gen_schema;
use crate::outcome;
use crate::randde;
use crate::recorder;
use crate::rng::Rng;
use crate::schema_dump::field_to_json;
use crate::zoo::*;
use crate::Ctx;
use marrow::datatypes::Field;
use serde_arrow::schema::{SchemaLike, TracingOptions};
use serde_json::{json, Value};
use std::cell::Cell;

pub struct ZooEntry {
    pub name: &'static str,
    pub class: &'static str,
    pub flags: &'static [&'static str],
    pub run: fn(&Value, &ZooEntry) -> Value,
}

macro_rules! make_registry {
    ($( ($t:ty, $name:expr, $class:expr, [$($flag:expr),*]) ),* $(,)?) => {
        pub fn registry() -> Vec<ZooEntry> {
            vec![ $( ZooEntry { name: $name, class: $class, flags: &[$($flag),*], run: run_case::<$t> } ),* ]
        }
    };
}
crate::zoo_types!(make_registry);

/// the options that change physical types, in wire order; defaults of `TracingOptions::default()`
pub const OPTION_NAMES: [&str; 6] = [
    "sequence_as_large_list",
    "strings_as_large_utf8",
    "string_dictionary_encoding",
    "enums_without_data_as_strings",
    "allow_null_fields",
    "map_as_struct",
];
pub const OPTION_DEFAULTS: [bool; 6] = [true, true, false, false, false, true];

fn options_json(bits: [bool; 6]) -> Value {
    let mut m = serde_json::Map::new();
    for (k, b) in OPTION_NAMES.iter().zip(bits) {
        m.insert((*k).into(), json!(b));
    }
    Value::Object(m)
}

fn options_of(j: &Value) -> TracingOptions {
    let g = |k: &str, d: bool| j.get(k).and_then(|v| v.as_bool()).unwrap_or(d);
    TracingOptions::default()
        .sequence_as_large_list(g("sequence_as_large_list", true))
        .strings_as_large_utf8(g("strings_as_large_utf8", true))
        .string_dictionary_encoding(g("string_dictionary_encoding", false))
        .enums_without_data_as_strings(g("enums_without_data_as_strings", false))
        .allow_null_fields(g("allow_null_fields", false))
        .map_as_struct(g("map_as_struct", true))
}

pub fn gen(ctx: &Ctx) -> Vec<Value> {
    let mut rng = Rng::new(ctx.seed ^ 0xC04);
    let mut out = Vec::new();
    let mut c = 0usize;
    let reps = if ctx.thorough() { 2 } else { 1 };
    for e in registry() {
        let has = |f: &str| e.flags.contains(&f);
        for _ in 0..reps {
            for batch in 0..5 {
                // option combinations: thorough = all 2^6; quick = default + 7 random (biased towards the
                // combinations under which the type is traceable at all)
                let mut combos: Vec<[bool; 6]> = Vec::new();
                if ctx.thorough() {
                    for m in 0..64u32 {
                        let mut b = [false; 6];
                        for (i, x) in b.iter_mut().enumerate() {
                            *x = (m >> i) & 1 == 1;
                        }
                        combos.push(b);
                    }
                } else {
                    combos.push(OPTION_DEFAULTS);
                    for _ in 0..7 {
                        let mut b = [false; 6];
                        for x in b.iter_mut() {
                            *x = rng.bool();
                        }
                        if has("maps") && rng.chance(7, 8) {
                            b[5] = false;
                        }
                        if has("nulls") && rng.chance(7, 8) {
                            b[4] = true;
                        }
                        if has("dataless") && rng.chance(7, 8) && !b[3] && !b[4] {
                            if rng.bool() {
                                b[3] = true
                            } else {
                                b[4] = true
                            }
                        }
                        combos.push(b);
                    }
                }
                for bits in combos {
                    let mut r = rng.fork();
                    let sub = r.0;
                    let n = match batch {
                        0 => 0,
                        1 => 1,
                        2 => 8,
                        3 => 9,
                        _ => 2 + r.usize(11),
                    };
                    out.push(json!({
                        "id": format!("roundtrip-{c:06}"), "seed": sub, "ty": e.name, "n": n,
                        "keep": (0..n).collect::<Vec<usize>>(), "options": options_json(bits)
                    }));
                    c += 1;
                }
            }
        }
    }
    out
}

pub fn exec(input: &Value) -> Value {
    let name = input["ty"].as_str().unwrap_or("");
    let reg = registry();
    match reg.iter().find(|e| e.name == name) {
        Some(e) => (e.run)(input, e),
        None => {
            let mut case = input.clone();
            case.as_object_mut().unwrap().insert("gen_err".into(), json!(format!("no zoo type {name}")));
            case
        }
    }
}

/// value `i` of the case depends only on (seed, i): dropping other indices keeps it (shrinking)
fn gen_values<T: ZooTy>(seed: u64, n: usize, keep: &[usize]) -> Result<Vec<T>, String> {
    let mut rng = Rng(seed);
    let mut out = Vec::new();
    for i in 0..n {
        let mut r = rng.fork();
        if keep.contains(&i) {
            out.push(randde::random::<T>(&mut r).map_err(|e| e.to_string())?);
        }
    }
    Ok(out)
}

/// Pin `x` for the time of `f` so that deserialization targets that borrow from it can be written with one lifetime
/// (`'static`) for owned and borrowed zoo types alike.  Sound because the result of `f` is plain owned data
/// (`Value` / `serde_arrow::Error`) and everything that borrows from `x` is dropped inside `f`.  When `f` unwinds the
/// allocation is leaked (never freed early).
fn with_static<X: 'static>(x: X, f: impl FnOnce(&'static X) -> serde_arrow::Result<Value>) -> serde_arrow::Result<Value> {
    let ptr = Box::into_raw(Box::new(x));
    // SAFETY: `ptr` stays allocated until after `f` returned; nothing returned by `f` can borrow from it
    let r: &'static X = unsafe { &*ptr };
    let out = f(r);
    unsafe { drop(Box::from_raw(ptr)) };
    out
}

struct Expect<'a, T> {
    values: &'a [T],
    rows: &'a [Value],
    unordered: bool,
}

impl<T: ZooTy> Expect<'_, T> {
    fn compare(&self, got: &[T]) -> Value {
        let equal = got.len() == self.values.len() && got.iter().zip(self.values).all(|(a, b)| a == b);
        let first_diff = got.iter().zip(self.values).position(|(a, b)| a != b);
        // -0.0 == 0.0 and the like: the recorded call streams must agree as well (not for hash-ordered content)
        let same_rec = if self.unordered {
            Value::Null
        } else {
            match recorder::record_all(got) {
                Ok(r) => json!(r == self.rows),
                Err(_) => json!(false),
            }
        };
        let mut o = json!({"equal": equal, "same_rec": same_rec, "n": got.len()});
        if let Some(i) = first_diff {
            o["first_diff"] = json!(i);
            o["got"] = json!(format!("{:?}", got[i]).chars().take(300).collect::<String>());
            o["want"] = json!(format!("{:?}", self.values[i]).chars().take(300).collect::<String>());
        }
        o
    }
}

fn staged(stage: &Cell<&'static str>, f: impl FnOnce() -> serde_arrow::Result<Value>) -> Value {
    let mut o = outcome::run(f);
    if !outcome::is_ok(&o) {
        o["stage"] = json!(stage.get());
    }
    o
}

/// The typed read of the bridge check (C04, the tie of the Lean type model to real derives): the REAL `T::deserialize` and
/// dynde's `Target(target)` — `target` is the model's `toTarget` of the type's description — are driven over the same item
/// deserializers of the real crate, each through the logging wrapper: the `deserialize_*` / `visit_*` / accessor call logs
/// must be equal item by item (so `toTarget t` asks what the derived impl asks and is handed what it is handed), and what
/// the visitors received is rendered (`dvals`) for the driver to compare with the reader model and with `dvalOf t (norm t v)`.
fn typed_reads<T: ZooTy>(fields: &[Field], views: &'static [marrow::view::View<'static>], target: &Value) -> serde_arrow::Result<Value> {
    use serde::de::DeserializeSeed;
    let de = serde_arrow::Deserializer::from_marrow(fields, views)?;
    let mut real: Vec<(Vec<String>, Option<String>)> = Vec::new();
    for item in de.iter() {
        real.push(dynde::with_log(|| T::deserialize(dynde::LogDe(item)).err().map(|e| e.to_string())));
    }
    let mut dvals = Vec::new();
    let mut diff = Value::Null;
    let mut n = 0usize;
    for (i, item) in de.iter().enumerate() {
        let (log, r) = dynde::with_log(|| dynde::Target(target).deserialize(dynde::LogDe(item)));
        n += 1;
        if diff.is_null() {
            match real.get(i) {
                None => diff = json!({"item": i, "what": "count"}),
                Some((rlog, rerr)) => {
                    // capacity hints are not part of a target: `Vec` / `HashMap` ask for them, `BTreeSet` / `BTreeMap` do not
                    let hint = |l: &String| l == "seq.size_hint" || l == "map.size_hint";
                    let rlog: Vec<String> = rlog.iter().filter(|l| !hint(l)).cloned().collect();
                    let log: Vec<String> = log.iter().filter(|l| !hint(l)).cloned().collect();
                    if rlog != log {
                        let at = rlog.iter().zip(log.iter()).position(|(a, b)| a != b).unwrap_or(rlog.len().min(log.len()));
                        diff = json!({"item": i, "what": "log", "at": at, "real": rlog.get(at), "target": log.get(at),
                            "real_before": rlog[at.saturating_sub(3)..at].join(" ")});
                    } else if rerr.is_some() != r.is_err() {
                        diff = json!({"item": i, "what": "outcome", "real": rerr, "target": r.as_ref().err().map(|e| e.to_string())});
                    }
                }
            }
        }
        dvals.push(match r {
            Ok(v) => json!({ "ok": v }),
            Err(e) => json!({"err": e.to_string()}),
        });
    }
    if diff.is_null() && n != real.len() {
        diff = json!({"item": n, "what": "count"});
    }
    Ok(json!({"n": n, "logs_equal": diff.is_null(), "diff": diff, "dvals": dvals}))
}

pub fn run_case<T: ZooTy>(input: &Value, entry: &ZooEntry) -> Value {
    let mut case = input.clone();
    {
        let obj = case.as_object_mut().unwrap();
        obj.insert("class".into(), json!(entry.class));
        obj.insert("flags".into(), json!(entry.flags));
    }
    let seed = input["seed"].as_u64().unwrap_or(0);
    let n = input["n"].as_u64().unwrap_or(0) as usize;
    let keep: Vec<usize> = input["keep"].as_array().map(|a| a.iter().filter_map(|x| x.as_u64().map(|x| x as usize)).collect()).unwrap_or_default();
    let opts = || options_of(&input["options"]);
    let unordered = entry.flags.contains(&"unordered");
    // the type in the Lean model's type language (zoo.rs, written by hand beside the type) and the model's `toTarget` of it
    let desc = T::ty();
    let target = to_target(&desc);
    case["ty_desc"] = desc;
    case["target"] = target.clone();

    // ---- values (twice: the zoo does not require Clone), their recorded call streams, harness fidelity
    let generated = std::panic::catch_unwind(|| (gen_values::<T>(seed, n, &keep), gen_values::<T>(seed, n, &keep)));
    let (values, mut expected) = match generated {
        Ok((Ok(a), Ok(b))) => (a, b),
        Ok((Err(e), _)) | Ok((_, Err(e))) => {
            case["gen_err"] = json!(e);
            return case;
        }
        Err(_) => {
            case["gen_err"] = json!("panic in the value generator");
            return case;
        }
    };
    expected.iter_mut().for_each(|v| v.norm());
    let normalised = values.iter().zip(&expected).any(|(a, b)| a != b);
    let rows = match recorder::record_all(&values) {
        Ok(r) => r,
        Err(e) => {
            case["gen_err"] = json!(e.to_string());
            return case;
        }
    };
    let rows_expected = recorder::record_all(&expected).unwrap_or_default();
    let fidelity = rows.iter().all(recorder::fidelity_ok);
    case["rows"] = Value::Array(rows.clone());
    case["aux"] = gen_schema::float_strings(&case["rows"]);
    case["normalised"] = json!(normalised);
    case["fidelity"] = json!(fidelity);
    case["rows_expected"] = Value::Array(rows_expected.clone());
    let exp = Expect { values: &expected, rows: &rows_expected, unordered };

    // ---- schema
    let mut fields: Vec<Field> = Vec::new();
    let traced = outcome::run(|| {
        fields = Vec::<Field>::from_type::<T>(opts())?;
        Ok::<Value, serde_arrow::Error>(Value::Array(fields.iter().map(field_to_json).collect()))
    });
    let traced_ok = outcome::is_ok(&traced);
    case["schema"] = if traced_ok { traced["ok"].clone() } else { json!([]) };
    case["from_type"] = if traced_ok { json!({"ok": true}) } else { traced };
    if !traced_ok {
        return case;
    }

    // ---- marrow: to_marrow (dumped for the builder model) → from_marrow
    let mut arrays: Vec<marrow::array::Array> = Vec::new();
    let built = outcome::run(|| {
        arrays = serde_arrow::to_marrow(&fields, &values)?;
        Ok::<Value, serde_arrow::Error>(Value::Array(arrays.iter().map(dump::array_to_json).collect()))
    });
    let built_ok = outcome::is_ok(&built);
    case["impl"] = built;
    let mut fronts = serde_json::Map::new();
    if built_ok {
        let stage = Cell::new("from");
        fronts.insert(
            "marrow".into(),
            staged(&stage, || {
                with_static(arrays, |arrays| {
                    let views: Vec<marrow::view::View<'static>> = arrays.iter().map(|a| a.as_view()).collect();
                    with_static(views, |views| {
                        let got: Vec<T> = serde_arrow::from_marrow(&fields, views)?;
                        let mut o = exp.compare(&got);
                        // what came back, as the real derived Serialize presents it (not comparable for hash-ordered content)
                        o["got_rows"] = if unordered { Value::Null } else { json!(recorder::record_all(&got).ok()) };
                        o["typed"] = outcome::run(|| typed_reads::<T>(&fields, views, &target));
                        Ok(o)
                    })
                })
            }),
        );
    }

    // ---- ArrayBuilder (push item by item) → Deserializer (item by item)
    {
        let stage = Cell::new("schema");
        fronts.insert(
            "builder".into(),
            staged(&stage, || {
                let mut b = serde_arrow::ArrayBuilder::from_marrow(&fields)?;
                stage.set("to");
                for v in &values {
                    b.push(v)?;
                }
                let arrays = b.to_marrow()?;
                stage.set("from");
                with_static(arrays, |arrays| {
                    let views: Vec<marrow::view::View<'static>> = arrays.iter().map(|a| a.as_view()).collect();
                    with_static(views, |views| {
                        let de = serde_arrow::Deserializer::from_marrow(&fields, views)?;
                        let mut got: Vec<T> = Vec::new();
                        for item in de.iter() {
                            got.push(T::deserialize(item)?);
                        }
                        Ok(exp.compare(&got))
                    })
                })
            }),
        );
    }

    // ---- arrow: to_arrow → from_arrow
    {
        use arrow_schema::FieldRef;
        let stage = Cell::new("schema");
        fronts.insert(
            "arrow".into(),
            staged(&stage, || {
                let afields = Vec::<FieldRef>::from_type::<T>(opts())?;
                stage.set("to");
                let arrays = serde_arrow::to_arrow(&afields, &values)?;
                stage.set("from");
                with_static(arrays, |arrays| {
                    let got: Vec<T> = serde_arrow::from_arrow(&afields, arrays)?;
                    Ok(exp.compare(&got))
                })
            }),
        );
        let stage = Cell::new("schema");
        fronts.insert(
            "record_batch".into(),
            staged(&stage, || {
                let afields = Vec::<FieldRef>::from_type::<T>(opts())?;
                stage.set("to");
                let batch = serde_arrow::to_record_batch(&afields, &values)?;
                let rows_in_batch = batch.num_rows();
                stage.set("from");
                with_static(batch, |batch| {
                    let got: Vec<T> = serde_arrow::from_record_batch(batch)?;
                    let mut o = exp.compare(&got);
                    o["batch_rows"] = json!(rows_in_batch);
                    Ok(o)
                })
            }),
        );
    }

    // ---- arrow2: to_arrow2 → from_arrow2
    {
        let stage = Cell::new("schema");
        fronts.insert(
            "arrow2".into(),
            staged(&stage, || {
                let afields = Vec::<arrow2::datatypes::Field>::from_type::<T>(opts())?;
                stage.set("to");
                let arrays = serde_arrow::to_arrow2(&afields, &values)?;
                stage.set("from");
                with_static(arrays, |arrays| {
                    let got: Vec<T> = serde_arrow::from_arrow2(&afields, arrays)?;
                    Ok(exp.compare(&got))
                })
            }),
        );
    }
    // ---- API coverage: schema value → ArrayBuilder::new → owned Serializer → into_inner
    {
        use serde::Serialize;
        use serde_arrow::schema::SerdeArrowSchema;
        let stage = Cell::new("schema");
        fronts.insert(
            "serializer".into(),
            staged(&stage, || {
                let schema = SerdeArrowSchema::from_type::<T>(opts())?;
                let builder = serde_arrow::ArrayBuilder::new(schema)?;
                stage.set("to");
                let mut builder = values.serialize(serde_arrow::Serializer::new(builder))?.into_inner();
                let arrays = builder.to_marrow()?;
                stage.set("from");
                with_static(arrays, |arrays| {
                    let views: Vec<marrow::view::View<'static>> = arrays.iter().map(|a| a.as_view()).collect();
                    with_static(views, |views| {
                        let got: Vec<T> = serde_arrow::from_marrow(&fields, views)?;
                        Ok(exp.compare(&got))
                    })
                })
            }),
        );
    }
    // ---- API coverage: the Item / Items wrappers around the real type
    {
        use serde_arrow::utils::{Item, Items};
        let stage = Cell::new("schema");
        fronts.insert(
            "items".into(),
            staged(&stage, || {
                let ifields = Vec::<Field>::from_type::<Item<T>>(opts())?;
                stage.set("to");
                let arrays = serde_arrow::to_marrow(&ifields, &Items(&values))?;
                stage.set("from");
                with_static(arrays, |arrays| {
                    let views: Vec<marrow::view::View<'static>> = arrays.iter().map(|a| a.as_view()).collect();
                    with_static(views, |views| {
                        let Items(got): Items<Vec<T>> = serde_arrow::from_marrow(&ifields, views)?;
                        Ok(exp.compare(&got))
                    })
                })
            }),
        );
    }
    case["fronts"] = Value::Object(fronts);
    case
}
