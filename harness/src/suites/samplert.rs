//! suite `samplert` (C06, the TYPED read-back): for every type of the zoo (real derives) × random value batches ×
//! tracing-option combinations that change physical types:
//!     Vec<Field>::from_samples(&values, opts) → to_marrow(fields, &values) → from_marrow::<Vec<T>>(fields, views)
//! and the result compared with the values (`==` on the real type after the documented normalisation of nested Options,
//! and equal recorded call streams).  The schema is traced FROM THE VALUES, not from the type: it is the type-traced
//! schema only when the batch covers the type; otherwise it is narrower (a `skip_serializing_if` field never present is
//! missing, an `Option` that is always `None` / a `Vec` that is always empty is a Null column, variants never seen are
//! placeholders or absent) and the typed read still has to return the values.
//! The case carries the description of the type in the model's type language (`ty_desc`), the values as recorded serde call
//! streams, the traced schema, and the outcome of every stage, so that the driver can run the models on the same rows
//! (`Trace.fromSamples`, `Build.toMarrow`, `readAll (toTarget t)`) and decide C06 per case.
use crate::gen_schema;
use crate::outcome;
use crate::randde;
use crate::recorder;
use crate::rng::Rng;
use crate::schema_dump::field_to_json;
use crate::suites::roundtrip::{OPTION_DEFAULTS, OPTION_NAMES};
use crate::zoo::*;
use crate::Ctx;
use marrow::datatypes::Field;
use serde_arrow::schema::{SchemaLike, TracingOptions};
use serde_json::{json, Value};

pub struct Entry {
    pub name: &'static str,
    pub class: &'static str,
    pub flags: &'static [&'static str],
    pub run: fn(&Value, &Entry) -> Value,
}

macro_rules! make_registry {
    ($( ($t:ty, $name:expr, $class:expr, [$($flag:expr),*]) ),* $(,)?) => {
        pub fn registry() -> Vec<Entry> {
            vec![ $( Entry { name: $name, class: $class, flags: &[$($flag),*], run: run_case::<$t> } ),* ]
        }
    };
}
crate::zoo_types!(make_registry);

fn options_json(bits: [bool; 6]) -> Value {
    let mut m = serde_json::Map::new();
    for (k, b) in OPTION_NAMES.iter().zip(bits) {
        m.insert((*k).into(), json!(b));
    }
    Value::Object(m)
}

fn options_of(j: &Value) -> TracingOptions {
    let g = |k: &str, d: bool| j.get(k).and_then(|v| v.as_bool()).unwrap_or(d);
    TracingOptions::default()
        .sequence_as_large_list(g("sequence_as_large_list", true))
        .strings_as_large_utf8(g("strings_as_large_utf8", true))
        .string_dictionary_encoding(g("string_dictionary_encoding", false))
        .enums_without_data_as_strings(g("enums_without_data_as_strings", false))
        .allow_null_fields(g("allow_null_fields", false))
        .map_as_struct(g("map_as_struct", true))
}

pub fn gen(ctx: &Ctx) -> Vec<Value> {
    let mut rng = Rng::new(ctx.seed ^ 0xC06_7E);
    let mut out = Vec::new();
    let mut c = 0usize;
    let reps = if ctx.thorough() { 6 } else { 1 };
    for e in registry() {
        let has = |f: &str| e.flags.contains(&f);
        for _ in 0..reps {
            // batch sizes: 1 and 2 values give narrow schemas (few variants / Some / elements seen), larger ones approach the
            // type-traced schema
            for batch in 0..6 {
                let mut combos: Vec<[bool; 6]> = vec![OPTION_DEFAULTS];
                for _ in 0..3 {
                    let mut b = [false; 6];
                    for x in b.iter_mut() {
                        *x = rng.bool();
                    }
                    // a narrow batch leaves positions unseen (Null): mostly allow them, so that tracing succeeds
                    if rng.chance(3, 4) {
                        b[4] = true;
                    }
                    if has("dataless") && rng.chance(1, 2) {
                        b[3] = true;
                    }
                    combos.push(b);
                }
                for bits in combos {
                    let mut r = rng.fork();
                    let sub = r.0;
                    let n = match batch {
                        0 => 1,
                        1 => 2,
                        2 => 3,
                        3 => 8,
                        _ => 2 + r.usize(14),
                    };
                    out.push(json!({
                        "id": format!("samplert-{c:06}"), "seed": sub, "ty": e.name, "n": n,
                        "keep": (0..n).collect::<Vec<usize>>(), "options": options_json(bits)
                    }));
                    c += 1;
                }
            }
        }
    }
    out
}

pub fn exec(input: &Value) -> Value {
    let name = input["ty"].as_str().unwrap_or("");
    let reg = registry();
    match reg.iter().find(|e| e.name == name) {
        Some(e) => (e.run)(input, e),
        None => {
            let mut case = input.clone();
            case.as_object_mut().unwrap().insert("gen_err".into(), json!(format!("no zoo type {name}")));
            case
        }
    }
}

/// value `i` of the case depends only on (seed, i): dropping other indices keeps it (shrinking)
fn gen_values<T: ZooTy>(seed: u64, n: usize, keep: &[usize]) -> Result<Vec<T>, String> {
    let mut rng = Rng(seed);
    let mut out = Vec::new();
    for i in 0..n {
        let mut r = rng.fork();
        if keep.contains(&i) {
            out.push(randde::random::<T>(&mut r).map_err(|e| e.to_string())?);
        }
    }
    Ok(out)
}

/// Pin `x` for the time of `f` (see `suites/roundtrip.rs::with_static`): the result of `f` is plain owned data and everything
/// that borrows from `x` is dropped inside `f`.
fn with_static<X: 'static>(x: X, f: impl FnOnce(&'static X) -> serde_arrow::Result<Value>) -> serde_arrow::Result<Value> {
    let ptr = Box::into_raw(Box::new(x));
    // SAFETY: `ptr` stays allocated until after `f` returned; nothing returned by `f` can borrow from it
    let r: &'static X = unsafe { &*ptr };
    let out = f(r);
    unsafe { drop(Box::from_raw(ptr)) };
    out
}

fn compare<T: ZooTy>(got: &[T], want: &[T], want_rows: &[Value], unordered: bool) -> Value {
    let equal = got.len() == want.len() && got.iter().zip(want).all(|(a, b)| a == b);
    let first_diff = got.iter().zip(want).position(|(a, b)| a != b);
    let got_rows = recorder::record_all(got).ok();
    // -0.0 == 0.0 and the like: the recorded call streams must agree as well (not for hash-ordered content)
    let same_rec = if unordered { Value::Null } else { json!(got_rows.as_deref() == Some(want_rows)) };
    let mut o = json!({"equal": equal, "same_rec": same_rec, "n": got.len()});
    o["got_rows"] = if unordered { Value::Null } else { json!(got_rows) };
    if let Some(i) = first_diff {
        o["first_diff"] = json!(i);
        o["got"] = json!(format!("{:?}", got[i]).chars().take(300).collect::<String>());
        o["want"] = json!(format!("{:?}", want[i]).chars().take(300).collect::<String>());
    }
    o
}

pub fn run_case<T: ZooTy>(input: &Value, entry: &Entry) -> Value {
    let mut case = input.clone();
    {
        let obj = case.as_object_mut().unwrap();
        obj.insert("class".into(), json!(entry.class));
        obj.insert("flags".into(), json!(entry.flags));
    }
    let seed = input["seed"].as_u64().unwrap_or(0);
    let n = input["n"].as_u64().unwrap_or(0) as usize;
    let keep: Vec<usize> = input["keep"].as_array().map(|a| a.iter().filter_map(|x| x.as_u64().map(|x| x as usize)).collect()).unwrap_or_default();
    let opts = || options_of(&input["options"]);
    let unordered = entry.flags.contains(&"unordered");
    case["ty_desc"] = T::ty();

    // ---- values (twice: the zoo does not require Clone), their recorded call streams
    let generated = std::panic::catch_unwind(|| (gen_values::<T>(seed, n, &keep), gen_values::<T>(seed, n, &keep)));
    let (values, mut expected) = match generated {
        Ok((Ok(a), Ok(b))) => (a, b),
        Ok((Err(e), _)) | Ok((_, Err(e))) => {
            case["gen_err"] = json!(e);
            return case;
        }
        Err(_) => {
            case["gen_err"] = json!("panic in the value generator");
            return case;
        }
    };
    expected.iter_mut().for_each(|v| v.norm());
    let rows = match recorder::record_all(&values) {
        Ok(r) => r,
        Err(e) => {
            case["gen_err"] = json!(e.to_string());
            return case;
        }
    };
    let rows_expected = recorder::record_all(&expected).unwrap_or_default();
    case["fidelity"] = json!(rows.iter().all(recorder::fidelity_ok));
    case["rows"] = Value::Array(rows.clone());
    case["aux"] = gen_schema::float_strings(&case["rows"]);
    case["rows_expected"] = Value::Array(rows_expected.clone());

    // ---- the schema traced FROM THE VALUES; beside it (a tag for the driver) the schema traced from the type
    let mut fields: Vec<Field> = Vec::new();
    let traced = outcome::run(|| {
        fields = Vec::<Field>::from_samples(&values, opts())?;
        Ok::<Value, serde_arrow::Error>(Value::Array(fields.iter().map(field_to_json).collect()))
    });
    let traced_ok = outcome::is_ok(&traced);
    case["from_samples"] = traced;
    case["from_type"] = outcome::run(|| {
        let fs = Vec::<Field>::from_type::<T>(opts())?;
        Ok::<Value, serde_arrow::Error>(Value::Array(fs.iter().map(field_to_json).collect()))
    });
    if !traced_ok {
        return case;
    }

    // ---- to_marrow with the traced schema on the same values
    let mut arrays: Vec<marrow::array::Array> = Vec::new();
    let built = outcome::run(|| {
        arrays = serde_arrow::to_marrow(&fields, &values)?;
        Ok::<Value, serde_arrow::Error>(json!(arrays.len()))
    });
    let built_ok = outcome::is_ok(&built);
    case["to"] = built;
    if !built_ok {
        return case;
    }

    // ---- the typed read-back
    case["back"] = outcome::run(|| {
        with_static(arrays, |arrays| {
            let views: Vec<marrow::view::View<'static>> = arrays.iter().map(|a| a.as_view()).collect();
            with_static(views, |views| {
                let got: Vec<T> = serde_arrow::from_marrow(&fields, views)?;
                Ok(compare(&got, &expected, &rows_expected, unordered))
            })
        })
    });
    case
}
