//! suite `schema` (C09): schemas through every interchange form of the real crate.
//!
//! kinds of cases
//!   fields : random marrow `Field` trees over the whole type grammar → foreign-object acceptance
//!            (`from_value(&marrow fields)`, `from_value(&arrow fields)`), arrow / arrow2 field conversions and back,
//!            `serde_json::to_value(&SerdeArrowSchema)` (the real JSON goes into the case) and `from_value` back in both
//!            top-level forms and through every `SchemaLike` target, plus the JSON *text* round trip
//!   json   : schema values written by an independent printer with random spellings / optional keys, ≈45 % mutated
//!            (dropped keys, wrong value kinds, wrong arity, unknown names, bad units, duplicate strategy, junk)
//!   spell  : data-type strings, both spellings of every name (exhaustive) and a list of malformed strings
//!   strategy : (API coverage) the public `Strategy` value on its own: `FromStr`, `TryFrom<String>`, `Deserialize`,
//!            `Display`, `Into<String>`, `Serialize`, `Into<HashMap>` / `Into<BTreeMap>` (the metadata entry under the
//!            public constant `STRATEGY_KEY`), for the four names and near misses
//! API coverage in `fields` cases: the OWNED conversions `TryFrom<SerdeArrowSchema>` for `Vec<arrow Field>`,
//! `Vec<FieldRef>`, `Vec<arrow2 Field>`, the borrowed one into `Vec<arrow Field>`, `SchemaLike for Vec<arrow Field>`
//! (`from_value`), and `Clone` / `PartialEq` / `Default` of `SerdeArrowSchema`.
use crate::outcome;
use crate::rng::Rng;
use crate::schema_dump::{field_from_json, field_to_json};
use crate::Ctx;
use marrow::datatypes::Field;
use serde_arrow::schema::{SchemaLike, SerdeArrowSchema};
use serde_json::{json, Map, Value};
use std::sync::Arc;

type ArrowField = arrow_schema::Field;
type Arrow2Field = arrow2::datatypes::Field;

// ------------------------------------------------------------------------------------------ generators

const UNITS: [&str; 4] = ["Second", "Millisecond", "Microsecond", "Nanosecond"];
const LEAVES: [&str; 19] = [
    "Null", "Boolean", "Int8", "Int16", "Int32", "Int64", "UInt8", "UInt16", "UInt32", "UInt64", "Float16", "Float32",
    "Float64", "Utf8", "LargeUtf8", "Utf8View", "Binary", "LargeBinary", "BinaryView",
];
const INTS: [&str; 8] = ["Int8", "Int16", "Int32", "Int64", "UInt8", "UInt16", "UInt32", "UInt64"];
const STRATEGIES: [&str; 4] = ["InconsistentTypes", "TupleAsStruct", "MapAsStruct", "UnknownVariant"];
const STRATEGY_KEY: &str = "SERDE_ARROW:strategy";

const TZS: [&str; 36] = [
    "UTC", "Utc", "utc", "uTC", "+02:00", "-00:00", "Europe/Berlin", "Z", "", "Europe/Zürich", "a\"b", "a\\b", "a\\", "\\", "\"", "x\ny", "tab\t", "\0", "it's", "e\u{301}",
    "\u{200b}", "\u{feff}x", "😀", "\u{a0}", "a\", Some(\"b", "\\u{41}", "}", "{", "(", ")", ",", " ", "\r", "\u{7f}",
    "\u{e000}", "a\\\"",
];
const TZ_POOL: [&str; 9] = ["UTC", "Utc", "utc", "+02:00", "Europe/Berlin", "", "America/New_York", "Europe/Zürich", "+00:00"];
const NAMES: [&str; 14] = [
    "a", "b", "c", "", "key", "value", "element", "entries", "ä ö", "名前", "with \"quote\"", "back\\slash", "0", "😀",
];
const CHARS: [char; 16] = ['a', 'Z', '0', ' ', '"', '\\', '\n', 'é', '\u{301}', '(', ')', ',', '\'', '\u{200b}', '名', '/'];

fn rand_string(rng: &mut Rng, max: usize) -> String {
    let n = rng.usize(max + 1);
    (0..n).map(|_| *rng.pick(&CHARS)).collect()
}

fn gen_tz(rng: &mut Rng, wild: bool) -> Value {
    match rng.below(10) {
        0..=2 => Value::Null,
        // the pool of plausible zones, with the spellings of UTC that differ only in case (a conversion that
        // canonicalises the zone must be seen: seeded regression c09e)
        3..=5 => json!(*rng.pick(&TZ_POOL)),
        _ if wild || rng.chance(1, 2) => {
            if rng.bool() {
                json!(*rng.pick(&TZS))
            } else {
                json!(rand_string(rng, 6))
            }
        }
        _ => json!(*rng.pick(&TZ_POOL)),
    }
}

fn gen_meta(rng: &mut Rng, ty: &str, wild: bool) -> Value {
    let mut m: Vec<(String, String)> = Vec::new();
    let n = match rng.below(10) {
        0..=5 => 0,
        6..=7 => 1,
        8 => 2,
        _ => 3,
    };
    for _ in 0..n {
        let k = match rng.below(8) {
            0 => "".to_string(),
            1 => "ARROW:extension:name".to_string(),
            2 => "SERDE_ARROW:other".to_string(),
            3 => "ключ".to_string(),
            4 => rand_string(rng, 4),
            _ => (*rng.pick(&["a", "b", "c", "key with space"])).to_string(),
        };
        let v = if rng.chance(1, 3) { rand_string(rng, 5) } else { (*rng.pick(&["", "v", "1", "{\"x\":1}"])).to_string() };
        if !m.iter().any(|(k2, _)| *k2 == k) {
            m.push((k, v));
        }
    }
    // strategy entry
    let strat: Option<String> = if wild {
        match rng.below(10) {
            0..=5 => None,
            6..=7 => Some((*rng.pick(&STRATEGIES)).to_string()),
            8 => Some((*rng.pick(&["", "Foo", "mapasstruct", "MapAsStruct ", "TupleAsStruct\0"])).to_string()),
            _ => match ty {
                "Struct" => Some((*rng.pick(&["MapAsStruct", "TupleAsStruct"])).to_string()),
                "Null" => Some((*rng.pick(&["InconsistentTypes", "UnknownVariant"])).to_string()),
                _ => None,
            },
        }
    } else {
        match ty {
            "Struct" if rng.chance(2, 5) => Some((*rng.pick(&["MapAsStruct", "TupleAsStruct"])).to_string()),
            "Null" if rng.chance(1, 2) => Some((*rng.pick(&["InconsistentTypes", "UnknownVariant"])).to_string()),
            _ => None,
        }
    };
    if let Some(s) = strat {
        m.retain(|(k, _)| k != STRATEGY_KEY);
        m.push((STRATEGY_KEY.to_string(), s));
    }
    m.sort();
    Value::Array(m.into_iter().map(|(k, v)| json!([k, v])).collect())
}

fn gen_size(rng: &mut Rng, wild: bool) -> i64 {
    match rng.below(10) {
        0 => 0,
        1 => 1,
        2 => 16,
        3 => i32::MAX as i64,
        4 if wild => -1,
        5 if wild => i32::MIN as i64,
        _ => rng.range(0, 300),
    }
}

fn gen_field(rng: &mut Rng, depth: u32, wild: bool, name: Option<&str>) -> Value {
    let dt = gen_dt(rng, depth, wild);
    let ty = dt["t"].as_str().unwrap().to_string();
    let name = match name {
        Some(n) if !wild || rng.chance(3, 4) => n.to_string(),
        _ => {
            if rng.chance(1, 8) {
                rand_string(rng, 5)
            } else {
                (*rng.pick(&NAMES)).to_string()
            }
        }
    };
    let nullable = if ty == "Null" && !(wild && rng.chance(1, 3)) { true } else { rng.bool() };
    json!({"name": name, "nullable": nullable, "meta": gen_meta(rng, &ty, wild), "dt": dt})
}

fn gen_dt(rng: &mut Rng, depth: u32, wild: bool) -> Value {
    let nested = depth > 0 && rng.chance(2, 5);
    if !nested {
        return match rng.below(32) {
            0..=18 => json!({"t": LEAVES[rng.usize(19)]}),
            19 => json!({"t": "FixedSizeBinary", "n": gen_size(rng, wild)}),
            20 => json!({"t": "Date32"}),
            21 => json!({"t": "Date64"}),
            22..=24 => json!({"t": "Timestamp", "unit": *rng.pick(&UNITS), "tz": gen_tz(rng, wild)}),
            25 => json!({"t": "Time32", "unit": if wild && rng.chance(1, 3) { *rng.pick(&UNITS) } else { UNITS[rng.usize(2)] }}),
            26 => json!({"t": "Time64", "unit": if wild && rng.chance(1, 3) { *rng.pick(&UNITS) } else { UNITS[2 + rng.usize(2)] }}),
            27 => json!({"t": "Duration", "unit": *rng.pick(&UNITS)}),
            28 if wild && rng.chance(1, 3) => json!({"t": "Interval", "unit": *rng.pick(&["YearMonth", "DayTime", "MonthDayNano"])}),
            _ => {
                let p = match rng.below(6) {
                    0 => 38,
                    1 => 1,
                    2 if wild => 0,
                    3 if wild => 255,
                    _ => rng.range(1, 76),
                };
                let s = match rng.below(6) {
                    0 => 0,
                    1 => -128,
                    2 => 127,
                    _ => rng.range(-40, 40),
                };
                json!({"t": "Decimal128", "p": p, "s": s})
            }
        };
    }
    let d = depth - 1;
    match rng.below(if wild { 21 } else { 20 }) {
        0..=4 => {
            let n = rng.usize(4);
            let fields: Vec<Value> = (0..n).map(|_| gen_field(rng, d, wild, None)).collect();
            json!({"t": "Struct", "fields": fields})
        }
        5..=7 => json!({"t": "List", "child": gen_field(rng, d, wild, Some("element"))}),
        8..=9 => json!({"t": "LargeList", "child": gen_field(rng, d, wild, Some("element"))}),
        10..=11 => json!({"t": "FixedSizeList", "child": gen_field(rng, d, wild, Some("element")), "n": gen_size(rng, wild)}),
        12..=14 => {
            let entries = if wild && rng.chance(1, 4) {
                gen_field(rng, d, wild, Some("entries"))
            } else {
                let key = gen_field(rng, d, wild, Some("key"));
                let value = gen_field(rng, d, wild, Some("value"));
                let mut e = json!({"name": if rng.chance(1, 5) { "e" } else { "entries" }, "nullable": rng.chance(1, 5), "meta": gen_meta(rng, "Struct", wild),
                       "dt": {"t": "Struct", "fields": [key, value]}});
                if !wild {
                    // keep the entries struct free of a strategy half of the time
                    if rng.bool() {
                        e["meta"] = json!([]);
                    }
                }
                e
            };
            json!({"t": "Map", "entries": entries, "sorted": wild && rng.chance(1, 2)})
        }
        15..=16 => {
            let (k, v) = if wild && rng.chance(1, 3) {
                { let vd = if rng.chance(1, 4) { 1 } else { 0 }; (gen_dt(rng, 0, wild), gen_dt(rng, vd, wild)) }
            } else {
                (json!({"t": *rng.pick(&INTS)}), json!({"t": *rng.pick(&["Utf8", "LargeUtf8"])}))
            };
            json!({"t": "Dictionary", "key": k, "value": v})
        }
        17..=19 => {
            let n = rng.usize(4);
            let mut ids: Vec<i64> = (0..n as i64).collect();
            if wild && rng.chance(1, 2) {
                // distinct but not 0,1,2,…
                match rng.below(3) {
                    0 => ids.reverse(),
                    1 => ids = ids.iter().map(|i| i * 2 + 1).collect(),
                    _ => ids = ids.iter().map(|i| 127 - i).collect(),
                }
            }
            let fields: Vec<Value> = ids.iter().map(|i| json!([i, gen_field(rng, d, wild, None)])).collect();
            json!({"t": "Union", "fields": fields, "mode": if wild && rng.chance(1, 2) { "Sparse" } else { "Dense" }})
        }
        _ => json!({"t": "RunEndEncoded",
                    "run_ends": {"name": "run_ends", "nullable": false, "meta": [], "dt": {"t": "Int32"}},
                    "values": gen_field(rng, 0, wild, Some("values"))}),
    }
}

// ---- an independent printer of the JSON form with random choices the crate's own printer never makes

fn short_long(t: &str) -> Option<(&'static str, &'static str)> {
    Some(match t {
        "Boolean" => ("Bool", "Boolean"),
        "Int8" => ("I8", "Int8"),
        "Int16" => ("I16", "Int16"),
        "Int32" => ("I32", "Int32"),
        "Int64" => ("I64", "Int64"),
        "UInt8" => ("U8", "UInt8"),
        "UInt16" => ("U16", "UInt16"),
        "UInt32" => ("U32", "UInt32"),
        "UInt64" => ("U64", "UInt64"),
        "Float16" => ("F16", "Float16"),
        "Float32" => ("F32", "Float32"),
        "Float64" => ("F64", "Float64"),
        _ => return None,
    })
}

fn ws(rng: &mut Rng) -> &'static str {
    match rng.below(12) {
        0 => " ",
        1 => "  ",
        2 => "\t",
        3 => "\u{a0}",
        4 => "\n",
        _ => "",
    }
}

fn type_string(rng: &mut Rng, dt: &Value) -> String {
    let t = dt["t"].as_str().unwrap();
    if let Some((s, l)) = short_long(t) {
        return if rng.bool() { s.to_string() } else { l.to_string() };
    }
    match t {
        "FixedSizeBinary" | "FixedSizeList" => format!("{t}{}({}{}{})", ws(rng), ws(rng), dt["n"], ws(rng)),
        "Timestamp" => {
            let tz = match dt["tz"].as_str() {
                None => "None".to_string(),
                Some(s) => format!("Some{}({}{:?}{})", ws(rng), ws(rng), s, ws(rng)),
            };
            format!("{}Timestamp({}{},{}{}){}", ws(rng), ws(rng), dt["unit"].as_str().unwrap(), ws(rng), tz, ws(rng))
        }
        "Time32" | "Time64" | "Duration" => format!("{t}({})", dt["unit"].as_str().unwrap()),
        "Decimal128" => {
            let p = if rng.chance(1, 8) { format!("+{}", dt["p"]) } else { dt["p"].to_string() };
            format!("Decimal128({}{},{}{})", ws(rng), p, ws(rng), dt["s"])
        }
        "Interval" => format!("Interval({})", dt["unit"].as_str().unwrap()),
        other => other.to_string(),
    }
}

fn json_children(rng: &mut Rng, dt: &Value) -> Option<Vec<Value>> {
    let t = dt["t"].as_str().unwrap();
    Some(match t {
        "Struct" => dt["fields"].as_array().unwrap().iter().map(|f| json_field(rng, f)).collect(),
        "List" | "LargeList" | "FixedSizeList" => vec![json_field(rng, &dt["child"])],
        "Map" => vec![json_field(rng, &dt["entries"])],
        "Union" => dt["fields"].as_array().unwrap().iter().map(|e| json_field(rng, &e[1])).collect(),
        "Dictionary" => {
            let k = json!({"name": "key", "data_type": type_string(rng, &dt["key"])});
            let v = json!({"name": "value", "data_type": type_string(rng, &dt["value"])});
            vec![k, v]
        }
        "RunEndEncoded" => vec![json_field(rng, &dt["run_ends"]), json_field(rng, &dt["values"])],
        _ => return None,
    })
}

fn json_field(rng: &mut Rng, f: &Value) -> Value {
    let mut o = Map::new();
    o.insert("name".into(), f["name"].clone());
    o.insert("data_type".into(), json!(type_string(rng, &f["dt"])));
    let nullable = f["nullable"].as_bool().unwrap();
    if nullable || rng.chance(1, 3) {
        o.insert("nullable".into(), json!(nullable));
    }
    let mut meta = Map::new();
    let mut strategy: Option<String> = None;
    for kv in f["meta"].as_array().unwrap() {
        let (k, v) = (kv[0].as_str().unwrap(), kv[1].as_str().unwrap());
        if k == STRATEGY_KEY && rng.chance(2, 3) {
            strategy = Some(v.to_string());
        } else {
            meta.insert(k.into(), json!(v));
        }
    }
    if let Some(s) = strategy {
        o.insert("strategy".into(), json!(s));
    } else if rng.chance(1, 10) {
        o.insert("strategy".into(), Value::Null);
    }
    if !meta.is_empty() || rng.chance(1, 6) {
        o.insert("metadata".into(), Value::Object(meta));
    }
    if let Some(ch) = json_children(rng, &f["dt"]) {
        o.insert("children".into(), Value::Array(ch));
    } else if rng.chance(1, 8) {
        o.insert("children".into(), json!([]));
    }
    Value::Object(o)
}

/// all paths to field objects inside a schema value (so a mutation can hit any depth)
fn field_paths(v: &Value, here: Vec<usize>, out: &mut Vec<Vec<usize>>) {
    if let Some(ch) = v.get("children").and_then(|c| c.as_array()) {
        for (i, c) in ch.iter().enumerate() {
            let mut p = here.clone();
            p.push(i);
            out.push(p.clone());
            field_paths(c, p, out);
        }
    }
}

fn at_path<'a>(fields: &'a mut Vec<Value>, path: &[usize]) -> &'a mut Value {
    let mut cur: &mut Value = &mut fields[path[0]];
    for i in &path[1..] {
        cur = &mut cur["children"][*i];
    }
    cur
}

fn junk_value(rng: &mut Rng) -> Value {
    match rng.below(9) {
        0 => Value::Null,
        1 => json!(true),
        2 => json!(0),
        3 => json!(-7),
        4 => json!(1.5),
        5 => json!("I8"),
        6 => json!([]),
        7 => json!({}),
        _ => json!([1, "x"]),
    }
}

const BAD_TYPES: [&str; 40] = [
    "Int", "int8", "I128", "Float", "bool", "String", "LargeString", "Timestamp", "Timestamp(Second)", "Timestamp(Seconds, None)",
    "Time32(Foo)", "Time32(Nanosecond)", "Time64(Second)", "Decimal128(5)", "Decimal128(300, 2)", "Decimal128(5, 200)",
    "Decimal128(-5, 2)", "FixedSizeBinary(99999999999)", "FixedSizeBinary(-1)", "FixedSizeList(-3)", "Interval(YearMonth)",
    "\"I8\"", "I8 I8", "I8,", "(I8)", "", " ", "I8()", "I8(1)", "Struct(1)", "List(I8)", "Map(true)", "Map(sorted)", "Union(Sparse)",
    "Dictionary(I8, Utf8)", "RunEndEncoded", "LargeList()", "Null(None)", "None", "Some(I8)",
];

fn mutate(rng: &mut Rng, fields: &mut Vec<Value>) -> &'static str {
    if fields.is_empty() {
        fields.push(junk_value(rng));
        return "junk-element";
    }
    let mut paths: Vec<Vec<usize>> = Vec::new();
    for (i, f) in fields.iter().enumerate() {
        paths.push(vec![i]);
        field_paths(f, vec![i], &mut paths);
    }
    let path = paths[rng.usize(paths.len())].clone();
    let f = at_path(fields, &path);
    let Some(o) = f.as_object_mut() else { return "none" };
    match rng.below(16) {
        0 => {
            o.remove("name");
            "drop-name"
        }
        1 => {
            o.remove("data_type");
            "drop-data_type"
        }
        2 => {
            o.remove("children");
            "drop-children"
        }
        3 => {
            let k = *rng.pick(&["name", "data_type", "nullable", "strategy", "children", "metadata"]);
            o.insert(k.into(), junk_value(rng));
            "junk-key-value"
        }
        4 => {
            let extra = json!({"name": "extra", "data_type": "I8"});
            match o.get_mut("children").and_then(|c| c.as_array_mut()) {
                Some(ch) => {
                    if rng.bool() || ch.is_empty() {
                        ch.push(extra);
                        "children-plus-one"
                    } else {
                        ch.pop();
                        "children-minus-one"
                    }
                }
                None => {
                    o.insert("children".into(), json!([extra]));
                    "children-on-leaf"
                }
            }
        }
        5 => {
            o.insert("data_type".into(), json!(*rng.pick(&BAD_TYPES)));
            "bad-type-string"
        }
        6 => {
            o.insert("strategy".into(), json!(*rng.pick(&STRATEGIES)));
            let mut m = o.get("metadata").and_then(|m| m.as_object().cloned()).unwrap_or_default();
            m.insert(STRATEGY_KEY.into(), json!(*rng.pick(&STRATEGIES)));
            o.insert("metadata".into(), Value::Object(m));
            "duplicate-strategy"
        }
        7 => {
            o.insert("strategy".into(), json!(*rng.pick(&["Foo", "", "mapAsStruct", "MapAsStruct", "UnknownVariant", "TupleAsStruct", "InconsistentTypes"])));
            "set-strategy"
        }
        8 => {
            o.insert("metadata".into(), json!({"k": junk_value(rng)}));
            "junk-metadata-value"
        }
        9 => {
            o.insert(rand_string(rng, 4), junk_value(rng));
            o.insert("dict_id".into(), json!(0));
            "unknown-keys"
        }
        10 => {
            *f = junk_value(rng);
            "junk-field"
        }
        11 => {
            let s = o.get("data_type").and_then(|s| s.as_str()).unwrap_or("I8").to_string();
            let cut = rng.usize(s.chars().count() + 1);
            let t: String = s.chars().take(cut).collect();
            o.insert("data_type".into(), json!(t));
            "truncated-type-string"
        }
        12 => {
            let s = o.get("data_type").and_then(|s| s.as_str()).unwrap_or("I8").to_string();
            let mut cs: Vec<char> = s.chars().collect();
            let pos = rng.usize(cs.len() + 1);
            cs.insert(pos, *rng.pick(&['(', ')', ',', '"', '\\', ' ', 'x', '-', '+', 'é', '\u{a0}', '٣']));
            o.insert("data_type".into(), json!(cs.into_iter().collect::<String>()));
            "char-inserted-in-type-string"
        }
        13 => {
            o.insert("data_type".into(), json!(*rng.pick(&["Struct", "List", "LargeList", "Map", "Union", "Dictionary", "FixedSizeList(2)", "I8"])));
            "retyped-parent"
        }
        14 => {
            o.insert("nullable".into(), json!(*rng.pick(&[json!(null), json!("true"), json!(1), json!(false), json!(true)])));
            "nullable-variants"
        }
        _ => {
            let m = json!({STRATEGY_KEY: *rng.pick(&["MapAsStruct", "Foo", "UnknownVariant", ""])});
            o.insert("metadata".into(), m);
            "strategy-in-metadata"
        }
    }
}

fn spell_table() -> Vec<(String, String)> {
    let mut out: Vec<(String, String)> = Vec::new();
    for t in ["Boolean", "Int8", "Int16", "Int32", "Int64", "UInt8", "UInt16", "UInt32", "UInt64", "Float16", "Float32", "Float64"] {
        let (s, l) = short_long(t).unwrap();
        out.push((s.into(), l.into()));
    }
    for t in ["Null", "Utf8", "LargeUtf8", "Utf8View", "Date32", "Date64", "Binary", "LargeBinary", "BinaryView", "FixedSizeBinary(16)",
              "FixedSizeBinary(0)", "Timestamp(Second, None)", "Timestamp(Millisecond, Some(\"UTC\"))", "Timestamp(Millisecond, Some(\"Utc\"))",
              "Timestamp(Second, Some(\"utc\"))", "Timestamp(Nanosecond, Some(\"Europe/Berlin\"))", "Timestamp(Microsecond, Some(\"\"))",
              "Timestamp(Nanosecond, Some(\"+01:00\"))", "Time32(Second)", "Time32(Millisecond)", "Time64(Microsecond)", "Time64(Nanosecond)",
              "Duration(Second)", "Duration(Millisecond)", "Duration(Microsecond)", "Duration(Nanosecond)", "Decimal128(5, 2)",
              "Decimal128(38, -3)", "Decimal128(1,0)", "Struct"] {
        out.push((t.into(), t.into()));
    }
    // white space and escapes
    for (a, b) in [
        (" I8 ", "Int8"), ("\u{a0}I8\u{2003}", "Int8"), ("Timestamp ( Second ,\u{2003}None )", "Timestamp(Second, None)"),
        ("Timestamp(Second, Some(\"a\\\"b\"))", "Timestamp(Second, Some(\"a\\u{22}b\"))"),
        ("Timestamp(Second, Some(\"\\u{41}\"))", "Timestamp(Second, Some(\"A\"))"),
        ("Timestamp(Second, Some(\"it\\'s\"))", "Timestamp(Second, Some(\"it's\"))"),
        ("Timestamp(Second, Some(\"\\t\\n\\r\\0\\\\\"))", "Timestamp(Second, Some(\"\\u{9}\\u{a}\\u{d}\\u{0}\\u{5c}\"))"),
        ("Decimal128(+5, -0)", "Decimal128(5, 0)"), ("Decimal128(005, 02)", "Decimal128(5, 2)"),
    ] {
        out.push((a.into(), b.into()));
    }
    for t in BAD_TYPES {
        out.push((t.into(), t.into()));
    }
    for t in ["Ünt8", "I8é", "I8→", "٣", "FixedSizeBinary(٣)", "Timestamp(Second, Some(UTC))", "Timestamp(Second, Some(\"UTC\", \"X\"))",
              "Timestamp(Second, \"UTC\")", "Timestamp(Second, None())", "Timestamp(Second, Some(\"UTC\"(x)))", "Timestamp(Second, Some(\"\\u{110000}\"))",
              "Timestamp(Second, Some(\"\\u{d800}\"))", "Timestamp(Second, Some(\"\\u{}\"))", "Timestamp(Second, Some(\"\\x41\"))",
              "Timestamp(Second, Some(\"\\u{0000041}\"))", "Timestamp(Second, Some(\"\\u{00041}\"))", "Timestamp(Second, Some(\"unterminated))",
              "Timestamp(Second, Some(\"a\\\"))", "Timestamp(Second, Some(\"\\u41\"))", "Timestamp(Second, Some(\"\\u{4g}\"))",
              "Timestamp(Second, Some(\"\\U{41}\"))", "Timestamp(\"Second\", None)", "Timestamp(Second, None, None)", "Timestamp(Second None)",
              "Timestamp(Second, None", "Timestamp(Second, None))", "Timestamp((Second), None)", "I8\u{301}", "Decimal128(5, 2) x", "Decimal128(5,, 2)",
              "Decimal128(, 2)", "Decimal128(5 2)", "Decimal128(٥, 2)", "Decimal128(255, 127)", "Decimal128(256, 0)", "Decimal128(0, -128)", "Decimal128(0, -129)",
              "FixedSizeBinary(2147483647)", "FixedSizeBinary(2147483648)", "FixedSizeBinary(+7)", "FixedSizeBinary(-0)", "FixedSizeBinary(1_000)", "FixedSizeBinary(0x10)",
              "FixedSizeBinary(1e3)", "FixedSizeBinary(--1)", "FixedSizeBinary(+-1)", "FixedSizeBinary(-)", "FixedSizeBinary(+)", "Time32(second)", "Duration(Seconds)", "Duration()", "Duration(Second, Second)"] {
        out.push((t.into(), t.into()));
    }
    out
}

pub fn gen(ctx: &Ctx) -> Vec<Value> {
    let mut rng = Rng::new(ctx.seed);
    let mut out = Vec::new();
    let mut c = 0usize;
    let mut id = |out: &mut Vec<Value>, mut v: Value| {
        v["id"] = json!(format!("schema-{c:06}"));
        c += 1;
        out.push(v);
    };
    // 1. exhaustive spelling table
    for (a, b) in spell_table() {
        id(&mut out, json!({"seed": 0, "kind": "spell", "a": a, "b": b}));
    }
    // 2. grid: every leaf type / unit / a few parameters × nullable, alone and under every parent
    let mut grid: Vec<Value> = LEAVES.iter().map(|t| json!({"t": t})).collect();
    for u in UNITS {
        grid.push(json!({"t": "Duration", "unit": u}));
        grid.push(json!({"t": "Time32", "unit": u}));
        grid.push(json!({"t": "Time64", "unit": u}));
        for tz in [Value::Null, json!("UTC"), json!("Utc"), json!("utc"), json!("+02:00"), json!("Europe/Berlin"), json!(""), json!("a\"b\\c")] {
            grid.push(json!({"t": "Timestamp", "unit": u, "tz": tz}));
        }
    }
    for tz in TZS {
        grid.push(json!({"t": "Timestamp", "unit": "Second", "tz": tz}));
    }
    for n in [0i64, 1, 16, i32::MAX as i64, -1] {
        grid.push(json!({"t": "FixedSizeBinary", "n": n}));
    }
    for (p, s) in [(5, 2), (38, 0), (1, -128), (76, 127), (0, 0), (255, -1)] {
        grid.push(json!({"t": "Decimal128", "p": p, "s": s}));
    }
    grid.push(json!({"t": "Date32"}));
    grid.push(json!({"t": "Date64"}));
    grid.push(json!({"t": "Interval", "unit": "DayTime"}));
    for k in INTS {
        for v in ["Utf8", "LargeUtf8"] {
            grid.push(json!({"t": "Dictionary", "key": {"t": k}, "value": {"t": v}}));
        }
    }
    grid.push(json!({"t": "Dictionary", "key": {"t": "Utf8"}, "value": {"t": "Utf8"}}));
    grid.push(json!({"t": "Dictionary", "key": {"t": "Int8"}, "value": {"t": "Int32"}}));
    for (gi, dt) in grid.iter().enumerate() {
        let mut r = rng.fork();
        let sub = r.0;
        let ty = dt["t"].as_str().unwrap();
        let leaf = |nullable: bool, name: &str| json!({"name": name, "nullable": nullable || ty == "Null", "meta": [], "dt": dt});
        let parents: Vec<Value> = vec![
            leaf(false, "x"),
            leaf(true, "y"),
            json!({"name": "s", "nullable": false, "meta": [], "dt": {"t": "Struct", "fields": [leaf(true, "a"), leaf(false, "b")]}}),
            json!({"name": "l", "nullable": true, "meta": [], "dt": {"t": "List", "child": leaf(true, "element")}}),
            json!({"name": "ll", "nullable": false, "meta": [], "dt": {"t": "LargeList", "child": leaf(false, "element")}}),
            json!({"name": "fl", "nullable": false, "meta": [], "dt": {"t": "FixedSizeList", "child": leaf(true, "element"), "n": (gi % 4) as i64}}),
            json!({"name": "m", "nullable": false, "meta": [], "dt": {"t": "Map", "sorted": false, "entries":
                {"name": "entries", "nullable": false, "meta": [], "dt": {"t": "Struct", "fields": [leaf(false, "key"), leaf(true, "value")]}}}}),
            json!({"name": "u", "nullable": false, "meta": [], "dt": {"t": "Union", "mode": "Dense", "fields": [[0, leaf(true, "A")], [1, leaf(false, "B")]]}}),
        ];
        let _ = &mut r;
        id(&mut out, json!({"seed": sub, "kind": "fields", "fields": parents}));
    }
    // 3. random structured field trees (≈70 % inside the round-trip domain), 4. JSON values incl. the malformed stream
    let n = if ctx.thorough() { 60000 } else { 3000 };
    for i in 0..n {
        let mut r = rng.fork();
        let sub = r.0;
        let depth = if ctx.thorough() { 1 + r.below(5) as u32 } else { 1 + r.below(3) as u32 };
        let wild = r.chance(3, 10);
        let nf = match r.below(6) {
            0 => 0,
            1..=3 => 1,
            4 => 2,
            _ => 3,
        };
        let fields: Vec<Value> = (0..nf).map(|_| gen_field(&mut r, depth, wild, None)).collect();
        if i % 2 == 0 {
            id(&mut out, json!({"seed": sub, "kind": "fields", "fields": fields}));
        } else {
            let mut jf: Vec<Value> = fields.iter().map(|f| json_field(&mut r, f)).collect();
            let mutation = if r.chance(45, 100) { mutate(&mut r, &mut jf) } else { "none" };
            let value = match r.below(20) {
                0..=8 => Value::Array(jf),
                9..=15 => json!({"fields": jf}),
                16 => json!({"fields": jf, "extra": junk_value(&mut r), "metadata": {"a": "b"}}),
                17 => json!({"Fields": jf}),
                18 => json!({"fields": junk_value(&mut r)}),
                _ => junk_value(&mut r),
            };
            id(&mut out, json!({"seed": sub, "kind": "json", "value": value, "mutation": mutation}));
        }
    }
    // 5. traced schemas through the JSON form: the type descriptions / covering samples / options / overwrites of the
    // `tracety` suite (C08), plus sample collections that leave a position unseen (empty lists, `None` only)
    let unseen = |a: Value, allow: bool| {
        let mut o = json!({"allow_null_fields": allow, "allow_to_string": false, "coerce_numbers": false, "enums_without_data_as_strings": false,
            "from_type_budget": 100, "guess_dates": false, "map_as_struct": true, "overwrites": [], "sequence_as_large_list": true,
            "string_dictionary_encoding": false, "strings_as_large_utf8": true});
        o["allow_null_fields"] = json!(allow);
        json!({"seed": 0, "kind": "traced", "ty": Value::Null, "opts": o,
               "samples": [{"k": "struct", "n": "R", "f": [["a", 0, a], ["b", 0, {"k": "i32", "v": 1}]]}]})
    };
    for allow in [true, false] {
        id(&mut out, unseen(json!({"k": "seq", "v": []}), allow));
        id(&mut out, unseen(json!({"k": "none"}), allow));
        id(&mut out, unseen(json!({"k": "seq", "v": [{"k": "seq", "v": []}]}), allow));
        id(&mut out, unseen(json!({"k": "map", "e": []}), allow));
        id(&mut out, unseen(json!({"k": "tuple", "v": [{"k": "none"}, {"k": "str", "v": "x"}]}), allow));
    }
    let take = if ctx.thorough() { 6000 } else { 700 };
    for c in crate::suites::tracety::gen(ctx).into_iter().filter(|c| matches!(c["kind"].as_str(), Some("random" | "zoo" | "mapkey"))).take(take) {
        let mut opts = c["opts"].clone();
        if c["overwrites"].as_array().map(|a| !a.is_empty()).unwrap_or(false) {
            opts["overwrites"] = c["overwrites"].clone();
        }
        id(&mut out, json!({"seed": c["seed"], "kind": "traced", "ty": c["ty"], "opts": opts, "samples": c["samples"]}));
    }
    // API coverage: the Strategy value on its own (fixed table)
    for t in STRATEGIES {
        let lower = t.to_lowercase();
        let upper = t.to_uppercase();
        let spaced = format!(" {t}");
        let trailing = format!("{t} ");
        let quoted = format!("\"{t}\"");
        let cut = &t[..t.len() - 1];
        let doubled = format!("{t}{t}");
        for v in [t, lower.as_str(), upper.as_str(), spaced.as_str(), trailing.as_str(), quoted.as_str(), cut, doubled.as_str()] {
            id(&mut out, json!({"seed": 0, "kind": "strategy", "s": v}));
        }
    }
    for v in ["", "Strategy", "SERDE_ARROW:strategy", "Foo", "TupleAsStruct\0", "MapAsStruct\n", "Inconsistent Types", "UnknownVariant(0)", "unknown_variant", "ＭapAsStruct"] {
        id(&mut out, json!({"seed": 0, "kind": "strategy", "s": v}));
    }
    out
}

// ------------------------------------------------------------------------------------------ execution

fn fields_json(fields: &[Field]) -> Value {
    Value::Array(fields.iter().map(field_to_json).collect())
}

/// the content of a schema, observed through its arrow field conversion (the crate offers no direct accessor)
fn observe(schema: &SerdeArrowSchema) -> Result<Value, String> {
    let arrow: Vec<arrow_schema::FieldRef> = Vec::<arrow_schema::FieldRef>::try_from(schema).map_err(|e| e.to_string())?;
    let mut out = Vec::new();
    for f in &arrow {
        out.push(Field::try_from(f.as_ref()).map_err(|e| e.to_string())?);
    }
    Ok(fields_json(&out))
}

fn str_err(s: String) -> StrErr {
    StrErr(s)
}
struct StrErr(String);
impl std::fmt::Display for StrErr {
    fn fmt(&self, f: &mut std::fmt::Formatter<'_>) -> std::fmt::Result {
        write!(f, "{}", self.0)
    }
}

fn collect_tz_chars(v: &Value, out: &mut Vec<char>) {
    match v {
        Value::Object(o) => {
            if o.get("t").and_then(|t| t.as_str()) == Some("Timestamp") {
                if let Some(tz) = o.get("tz").and_then(|t| t.as_str()) {
                    out.extend(tz.chars());
                }
            }
            for (_, x) in o {
                collect_tz_chars(x, out);
            }
        }
        Value::Array(a) => a.iter().for_each(|x| collect_tz_chars(x, out)),
        _ => {}
    }
}

/// external function `<str as Debug>`: which of the characters are written as `\u{…}`
fn esc_table(chars: &[char]) -> Value {
    let mut cs: Vec<u32> = chars
        .iter()
        .filter(|c| format!("{:?}", c.to_string()).starts_with("\"\\u{"))
        .map(|c| *c as u32)
        .collect();
    cs.sort();
    cs.dedup();
    json!(cs)
}

fn arrow_to_marrow(fs: &[ArrowField]) -> Result<Value, StrErr> {
    let mut out = Vec::new();
    for f in fs {
        out.push(Field::try_from(f).map_err(|e| str_err(e.to_string()))?);
    }
    Ok(fields_json(&out))
}

fn arrow2_to_marrow(fs: &[Arrow2Field]) -> Result<Value, StrErr> {
    let mut out = Vec::new();
    for f in fs {
        out.push(Field::try_from(f).map_err(|e| str_err(e.to_string()))?);
    }
    Ok(fields_json(&out))
}

struct OneRow<'a>(&'a [Field]);
impl serde::Serialize for OneRow<'_> {
    fn serialize<S: serde::Serializer>(&self, s: S) -> Result<S::Ok, S::Error> {
        use serde::ser::{SerializeSeq, SerializeStruct};
        struct Row<'a>(&'a [Field]);
        impl serde::Serialize for Row<'_> {
            fn serialize<S: serde::Serializer>(&self, s: S) -> Result<S::Ok, S::Error> {
                let mut st = s.serialize_struct("R", self.0.len())?;
                for f in self.0 {
                    st.serialize_field(crate::sval::intern(&f.name, 0), &0i32)?;
                }
                st.end()
            }
        }
        let mut seq = s.serialize_seq(Some(1))?;
        seq.serialize_element(&Row(self.0))?;
        seq.end()
    }
}

/// `from_samples` / `from_type` of a record with the given top-level names, every field overwritten with the given
/// field, into every `SchemaLike` target.  Only when the names are distinct, non-empty and free of '.'
/// (an overwrite path is "$." + name).
fn exec_traced(_input: &Value, fields: &[Field], case: &mut Map<String, Value>) {
    use serde_arrow::schema::TracingOptions;
    let mut names: Vec<&str> = fields.iter().map(|f| f.name.as_str()).collect();
    names.sort();
    names.dedup();
    if fields.is_empty() || names.len() != fields.len() || fields.iter().any(|f| f.name.is_empty() || f.name.contains('.')) {
        return;
    }
    let opts = || -> Result<TracingOptions, StrErr> {
        let mut o = TracingOptions::default();
        for f in fields {
            o = o.overwrite(f.name.as_str(), f).map_err(|e| str_err(e.to_string()))?;
        }
        Ok(o)
    };
    let ty = json!({"t": "struct", "n": "R", "f": fields.iter().map(|f| json!([f.name, {"t": "i32"}])).collect::<Vec<_>>()});
    let e = |e: serde_arrow::Error| str_err(e.to_string());
    let refs_to_marrow = |a: Vec<arrow_schema::FieldRef>| arrow_to_marrow(&a.iter().map(|f| f.as_ref().clone()).collect::<Vec<_>>());
    let mut sm: Vec<Value> = Vec::new();
    sm.push(json!(["marrow", outcome::run(|| Ok::<_, StrErr>(fields_json(&Vec::<Field>::from_samples(OneRow(fields), opts()?).map_err(e)?)))]));
    sm.push(json!(["schema", outcome::run(|| observe(&SerdeArrowSchema::from_samples(OneRow(fields), opts()?).map_err(e)?).map_err(str_err))]));
    sm.push(json!(["refs", outcome::run(|| refs_to_marrow(Vec::<arrow_schema::FieldRef>::from_samples(OneRow(fields), opts()?).map_err(e)?))]));
    sm.push(json!(["arrow", outcome::run(|| arrow_to_marrow(&Vec::<ArrowField>::from_samples(OneRow(fields), opts()?).map_err(e)?))]));
    sm.push(json!(["arrow2", outcome::run(|| arrow2_to_marrow(&Vec::<Arrow2Field>::from_samples(OneRow(fields), opts()?).map_err(e)?))]));
    case.insert("traced_samples".into(), Value::Array(sm));
    use crate::suites::tracety::{with_type, DynRoot};
    let mut tm: Vec<Value> = Vec::new();
    with_type(&ty, || {
        tm.push(json!(["marrow", outcome::run(|| Ok::<_, StrErr>(fields_json(&Vec::<Field>::from_type::<DynRoot>(opts()?).map_err(e)?)))]));
        tm.push(json!(["schema", outcome::run(|| observe(&SerdeArrowSchema::from_type::<DynRoot>(opts()?).map_err(e)?).map_err(str_err))]));
        tm.push(json!(["refs", outcome::run(|| refs_to_marrow(Vec::<arrow_schema::FieldRef>::from_type::<DynRoot>(opts()?).map_err(e)?))]));
        tm.push(json!(["arrow", outcome::run(|| arrow_to_marrow(&Vec::<ArrowField>::from_type::<DynRoot>(opts()?).map_err(e)?))]));
        tm.push(json!(["arrow2", outcome::run(|| arrow2_to_marrow(&Vec::<Arrow2Field>::from_type::<DynRoot>(opts()?).map_err(e)?))]));
    });
    case.insert("traced_type".into(), Value::Array(tm));
}

fn exec_fields(input: &Value, case: &mut Map<String, Value>) {
    let fields: Vec<Field> = input["fields"].as_array().unwrap().iter().map(field_from_json).collect();
    let mut chars = Vec::new();
    collect_tz_chars(&input["fields"], &mut chars);
    case.insert("esc".into(), esc_table(&chars));
    // foreign field objects where a schema value is accepted
    case.insert("foreign".into(), outcome::run(|| Vec::<Field>::from_value(&fields).map(|fs| fields_json(&fs))));
    // marrow → arrow fields (external) → SerdeArrowSchema
    let arrow: Result<Vec<ArrowField>, String> =
        fields.iter().map(|f| ArrowField::try_from(f).map_err(|e| e.to_string())).collect();
    let arrow = match arrow {
        Ok(a) => a,
        Err(e) => {
            case.insert("arrow".into(), json!({"err": {"msg": e, "ann": []}}));
            return;
        }
    };
    case.insert("foreign_arrow".into(), outcome::run(|| Vec::<Field>::from_value(&arrow).map(|fs| fields_json(&fs))));
    // every other foreign field object where a schema value is accepted, and foreign objects read straight into
    // foreign field vectors (no SerdeArrowSchema value in between that the caller sees)
    {
        let refs: Vec<arrow_schema::FieldRef> = arrow.iter().cloned().map(Arc::new).collect();
        case.insert("foreign_refs".into(), outcome::run(|| Vec::<Field>::from_value(&refs).map(|fs| fields_json(&fs))));
        case.insert(
            "foreign_to_refs".into(),
            outcome::run(|| {
                let a = Vec::<arrow_schema::FieldRef>::from_value(&fields).map_err(|e| str_err(e.to_string()))?;
                arrow_to_marrow(&a.iter().map(|f| f.as_ref().clone()).collect::<Vec<_>>())
            }),
        );
        case.insert(
            "foreign_to_arrow".into(),
            outcome::run(|| arrow_to_marrow(&Vec::<ArrowField>::from_value(&fields).map_err(|e| str_err(e.to_string()))?)),
        );
        case.insert(
            "foreign_to_arrow2".into(),
            outcome::run(|| arrow2_to_marrow(&Vec::<Arrow2Field>::from_value(&fields).map_err(|e| str_err(e.to_string()))?)),
        );
        case.insert(
            "foreign_refs_to_arrow2".into(),
            outcome::run(|| arrow2_to_marrow(&Vec::<Arrow2Field>::from_value(&refs).map_err(|e| str_err(e.to_string()))?)),
        );
    }
    // tracing straight into every schema-like target: a record type with one field per given field, every field
    // overwritten with the given one (from_samples and from_type)
    exec_traced(input, &fields, case);
    let mut schema: Option<SerdeArrowSchema> = None;
    case.insert(
        "arrow".into(),
        outcome::run(|| {
            let s = SerdeArrowSchema::try_from(&arrow[..]).map_err(|e| str_err(e.to_string()))?;
            let o = observe(&s).map_err(str_err)?;
            schema = Some(s);
            Ok::<_, StrErr>(o)
        }),
    );
    let Some(schema) = schema else { return };
    // FieldRef list as well
    let refs: Vec<arrow_schema::FieldRef> = arrow.iter().cloned().map(Arc::new).collect();
    case.insert(
        "arrow_refs".into(),
        outcome::run(|| {
            let s = SerdeArrowSchema::try_from(&refs[..]).map_err(|e| str_err(e.to_string()))?;
            observe(&s).map_err(str_err)
        }),
    );
    case.insert(
        "arrow2".into(),
        outcome::run(|| {
            let a2 = Vec::<Arrow2Field>::try_from(&schema).map_err(|e| str_err(e.to_string()))?;
            let s = SerdeArrowSchema::try_from(&a2[..]).map_err(|e| str_err(e.to_string()))?;
            observe(&s).map_err(str_err)
        }),
    );
    // the arrow2 fields read by marrow directly (not through a second SerdeArrowSchema and its arrow conversion)
    case.insert(
        "arrow2_direct".into(),
        outcome::run(|| arrow2_to_marrow(&Vec::<Arrow2Field>::try_from(&schema).map_err(|e| str_err(e.to_string()))?)),
    );
    // there and back, compared with `PartialEq for SerdeArrowSchema` (no observation through a conversion at all):
    // schema → arrow fields / FieldRefs / arrow2 fields → schema, and the schema read from the marrow fields as
    // foreign objects
    case.insert(
        "rt_eq".into(),
        outcome::run(|| {
            let e = |e: serde_arrow::Error| str_err(e.to_string());
            let via_fields = SerdeArrowSchema::try_from(&Vec::<ArrowField>::try_from(&schema).map_err(e)?[..]).map_err(e)? == schema;
            let via_refs = SerdeArrowSchema::try_from(&Vec::<arrow_schema::FieldRef>::try_from(&schema).map_err(e)?[..]).map_err(e)? == schema;
            let via_arrow2 = match Vec::<Arrow2Field>::try_from(&schema) {
                Ok(a2) => json!(SerdeArrowSchema::try_from(&a2[..]).map_err(e)? == schema),
                Err(_) => Value::Null,
            };
            let via_foreign = match SerdeArrowSchema::from_value(&fields) {
                Ok(s) => json!(s == schema),
                Err(_) => Value::Null,
            };
            let via_json = match serde_json::to_value(&schema).ok().and_then(|v| SerdeArrowSchema::from_value(&v).ok()) {
                Some(s) => json!(s == schema),
                None => Value::Null,
            };
            Ok::<_, StrErr>(json!({"fields": via_fields, "refs": via_refs, "arrow2": via_arrow2, "foreign": via_foreign, "json": via_json}))
        }),
    );
    // API coverage: the owned conversions and the plain arrow `Field` list, value traits of the schema
    let to_marrow = |fs: &[ArrowField]| -> Result<Value, StrErr> { arrow_to_marrow(fs) };
    case.insert(
        "arrow_plain".into(),
        outcome::run(|| to_marrow(&Vec::<ArrowField>::try_from(&schema).map_err(|e| str_err(e.to_string()))?)),
    );
    case.insert(
        "arrow_owned".into(),
        outcome::run(|| to_marrow(&Vec::<ArrowField>::try_from(schema.clone()).map_err(|e| str_err(e.to_string()))?)),
    );
    case.insert(
        "arrow_refs_owned".into(),
        outcome::run(|| {
            let refs = Vec::<arrow_schema::FieldRef>::try_from(schema.clone()).map_err(|e| str_err(e.to_string()))?;
            to_marrow(&refs.iter().map(|f| f.as_ref().clone()).collect::<Vec<_>>())
        }),
    );
    case.insert(
        "arrow2_owned".into(),
        outcome::run(|| {
            let a2 = Vec::<Arrow2Field>::try_from(schema.clone()).map_err(|e| str_err(e.to_string()))?;
            let s = SerdeArrowSchema::try_from(&a2[..]).map_err(|e| str_err(e.to_string()))?;
            observe(&s).map_err(str_err)
        }),
    );
    case.insert(
        "value_traits".into(),
        outcome::run(|| {
            let copy = schema.clone();
            let eq = copy == schema && !(copy != schema);
            let dflt = SerdeArrowSchema::default();
            let ne_default = dflt != schema;
            Ok::<_, StrErr>(json!({"clone_eq": eq, "ne_default": ne_default, "default": observe(&dflt).map_err(str_err)?}))
        }),
    );
    let mut jv: Option<Value> = None;
    case.insert(
        "json".into(),
        outcome::run(|| {
            let v = serde_json::to_value(&schema)?;
            jv = Some(v.clone());
            Ok::<_, serde_json::Error>(v)
        }),
    );
    let Some(jv) = jv else { return };
    case.insert("back_obj".into(), outcome::run(|| Vec::<Field>::from_value(&jv).map(|fs| fields_json(&fs))));
    case.insert("back_list".into(), outcome::run(|| Vec::<Field>::from_value(&jv["fields"]).map(|fs| fields_json(&fs))));
    case.insert(
        "back_schema".into(),
        outcome::run(|| {
            let s = SerdeArrowSchema::from_value(&jv).map_err(|e| str_err(e.to_string()))?;
            observe(&s).map_err(str_err)
        }),
    );
    case.insert(
        "back_arrow".into(),
        outcome::run(|| {
            let a = Vec::<arrow_schema::FieldRef>::from_value(&jv).map_err(|e| str_err(e.to_string()))?;
            let mut out = Vec::new();
            for f in &a {
                out.push(Field::try_from(f.as_ref()).map_err(|e| str_err(e.to_string()))?);
            }
            Ok::<_, StrErr>(fields_json(&out))
        }),
    );
    case.insert(
        "back_arrow_plain".into(),
        outcome::run(|| to_marrow(&Vec::<ArrowField>::from_value(&jv).map_err(|e| str_err(e.to_string()))?)),
    );
    case.insert(
        "back_arrow2".into(),
        outcome::run(|| {
            let a2 = Vec::<Arrow2Field>::from_value(&jv).map_err(|e| str_err(e.to_string()))?;
            let s = SerdeArrowSchema::try_from(&a2[..]).map_err(|e| str_err(e.to_string()))?;
            observe(&s).map_err(str_err)
        }),
    );
    case.insert(
        "text_rt".into(),
        outcome::run(|| {
            let text = serde_json::to_string(&schema).map_err(|e| str_err(e.to_string()))?;
            let s: SerdeArrowSchema = serde_json::from_str(&text).map_err(|e| str_err(e.to_string()))?;
            observe(&s).map_err(str_err)
        }),
    );
}

fn exec_json(input: &Value, case: &mut Map<String, Value>) {
    let value = &input["value"];
    case.insert("parsed".into(), outcome::run(|| Vec::<Field>::from_value(value).map(|fs| fields_json(&fs))));
    case.insert(
        "parsed_direct".into(),
        outcome::run(|| {
            let s: SerdeArrowSchema = serde_json::from_value(value.clone()).map_err(|e| str_err(e.to_string()))?;
            observe(&s).map_err(str_err)
        }),
    );
    // what the crate accepted is written again and read again (idempotence on accepted schemas)
    case.insert(
        "reprint".into(),
        outcome::run(|| {
            let s = SerdeArrowSchema::from_value(value).map_err(|e| str_err(e.to_string()))?;
            let v = serde_json::to_value(&s).map_err(|e| str_err(e.to_string()))?;
            let back = Vec::<Field>::from_value(&v).map_err(|e| str_err(e.to_string()))?;
            Ok::<_, StrErr>(json!({"json": v, "back": fields_json(&back)}))
        }),
    );
    let mut chars = Vec::new();
    if let Some(ok) = case.get("parsed").and_then(|p| p.get("ok")) {
        collect_tz_chars(ok, &mut chars);
    }
    case.insert("esc".into(), esc_table(&chars));
}

fn exec_spell(input: &Value, case: &mut Map<String, Value>) {
    for (key, out) in [("a", "pa"), ("b", "pb")] {
        let v = json!([{"name": "x", "data_type": input[key]}]);
        case.insert(out.into(), outcome::run(|| Vec::<Field>::from_value(&v).map(|fs| fields_json(&fs))));
    }
}

fn exec_strategy(input: &Value, case: &mut Map<String, Value>) {
    use serde_arrow::schema::{Strategy, STRATEGY_KEY};
    use std::collections::{BTreeMap, HashMap};
    let s = input["s"].as_str().unwrap_or("");
    let shown = |r: Result<Strategy, String>| r.map(|st| json!(st.to_string())).map_err(str_err);
    case.insert("parse".into(), outcome::run(|| shown(s.parse::<Strategy>().map_err(|e| e.to_string()))));
    case.insert("try_from".into(), outcome::run(|| shown(Strategy::try_from(s.to_string()).map_err(|e| e.to_string()))));
    case.insert("de".into(), outcome::run(|| shown(serde_json::from_value::<Strategy>(json!(s)).map_err(|e| e.to_string()))));
    case.insert("key".into(), json!(STRATEGY_KEY));
    if let Ok(st) = s.parse::<Strategy>() {
        case.insert(
            "forms".into(),
            outcome::run(|| {
                let hm: Vec<(String, String)> = HashMap::<String, String>::from(st.clone()).into_iter().collect();
                let bm: Vec<(String, String)> = BTreeMap::<String, String>::from(st.clone()).into_iter().collect();
                Ok::<_, StrErr>(json!({
                    "display": st.to_string(),
                    "into_string": String::from(st.clone()),
                    "ser": serde_json::to_value(&st).map_err(|e| str_err(e.to_string()))?,
                    "hash_map": hm,
                    "btree_map": bm,
                    "clone_eq": st.clone() == st,
                }))
            }),
        );
    }
}

/// a traced schema (`from_type::<DynRoot>` / `from_samples`) through the JSON form: the traced fields (read directly:
/// `Vec::<marrow Field>::from_*` is the projection of the schema), what `to_value` writes, what `from_value` reads back,
/// and `PartialEq` of the schema read back with the traced one
fn exec_traced_case(input: &Value, case: &mut Map<String, Value>) {
    use crate::suites::trace::build_opts;
    use crate::suites::tracety::{with_type, DynRoot, SampleRows};
    let e = |e: serde_arrow::Error| str_err(e.to_string());
    let mut chars = Vec::new();
    let mut through = |fields: Result<Vec<Field>, StrErr>, schema: Result<SerdeArrowSchema, StrErr>| -> Result<Value, StrErr> {
        let fields = fields?;
        let schema = schema?;
        let fj = fields_json(&fields);
        collect_tz_chars(&fj, &mut chars);
        let json = serde_json::to_value(&schema).map_err(|e| str_err(e.to_string()))?;
        let back = outcome::run(|| Vec::<Field>::from_value(&json).map(|fs| fields_json(&fs)));
        let eq = SerdeArrowSchema::from_value(&json).map(|s| s == schema).ok();
        let text = serde_json::to_string(&schema).ok().and_then(|t| serde_json::from_str::<SerdeArrowSchema>(&t).ok()).map(|s| s == schema);
        Ok(json!({"fields": fj, "json": json, "back": back, "eq": eq, "text_eq": text}))
    };
    let opts = &input["opts"];
    if !input["ty"].is_null() {
        let r = with_type(&input["ty"], || {
            outcome::run(|| {
                through(
                    build_opts(opts).map_err(e).and_then(|o| Vec::<Field>::from_type::<DynRoot>(o).map_err(e)),
                    build_opts(opts).map_err(e).and_then(|o| SerdeArrowSchema::from_type::<DynRoot>(o).map_err(e)),
                )
            })
        });
        case.insert("type".into(), r);
    }
    let samples = input["samples"].as_array().cloned().unwrap_or_default();
    if !samples.is_empty() {
        let r = outcome::run(|| {
            through(
                build_opts(opts).map_err(e).and_then(|o| Vec::<Field>::from_samples(SampleRows(&samples), o).map_err(e)),
                build_opts(opts).map_err(e).and_then(|o| SerdeArrowSchema::from_samples(SampleRows(&samples), o).map_err(e)),
            )
        });
        case.insert("samples_out".into(), r);
    }
    case.insert("esc".into(), esc_table(&chars));
}

pub fn exec(input: &Value) -> Value {
    let mut case = input.as_object().cloned().unwrap_or_default();
    match input["kind"].as_str().unwrap_or("") {
        "traced" => exec_traced_case(input, &mut case),
        "fields" => exec_fields(input, &mut case),
        "json" => exec_json(input, &mut case),
        "spell" => exec_spell(input, &mut case),
        "strategy" => exec_strategy(input, &mut case),
        _ => {}
    }
    Value::Object(case)
}
