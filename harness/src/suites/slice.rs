//! suite `slice`: deserializing `array.slice(o, l)` equals the window `[o, o+l)` of deserializing the whole array.
//!
//! Columns come from lgen.rs (logical rows) and are materialised with arrow-rs (arrowsrc::build_arrow) or, for
//! the supported subset, arrow2 (arrowsrc::build_arrow2).  A chain of 1–3 windows is applied with
//! `Array::slice` / `RecordBatch::slice` (arrow) or `Array::sliced` (arrow2).
//!
//! input : {"id","seed","field":FieldJson,"rows":[LVal…],"windows":[[o,l]…],"backend":"arrow"|"arrow2","batch":bool}
//! output: input + "whole_view", "slice_views" (view after each window; {"err":msg} on a conversion error),
//!         "whole_items" / "slice_items" (one outcome per row read through `Deserializer::get(i)` and
//!         `deserialize_any`; [{"ctor":outcome}] if the constructor fails), "oracle_whole" / "oracle_slice"
//!         (arrow-rs accessors only; null for arrow2), "window" (absolute [o,l] of the final slice),
//!         "direct_equal" (slice_items == whole_items[o..o+l]); "typed_ty" (the record target a user would
//!         naturally write for the column: `struct R { <name>: T }`, wiregen::natural_target), "whole_typed" /
//!         "slice_typed" (one outcome per row read through `get(i)` into that target), "whole_typed_bulk" /
//!         "slice_typed_bulk" (`Vec<R>::deserialize(deserializer)`, the `from_arrow` / `from_record_batch` path);
//!         "strict_ty" (the same target with every `Option` layer removed, addressed as a one-element tuple:
//!         reads of rows with a null anywhere FAIL) with "whole_strict", "slice_strict", "whole_strict_bulk",
//!         "slice_strict_bulk";
//!         "build_err" instead of all of these if the column could not be built (a harness problem, never
//!         expected).
//!
//! Further kinds of cases (input key "mode"; absent = the plain column above):
//!   "asm"    : the column is a parent ASSEMBLED with `try_new` over children that were built longer and then cut with
//!              `Array::slice` (input "assemble": {"kind": Struct|List|LargeList|Map|FixedSizeList|Union|SparseUnion,
//!              "children":[{"field","rows","window":[o,l]}…], "validity":[bool…]|null, "offsets", "type_ids", "n"});
//!              "field" / "rows" are the parent's field and logical rows (computed by the generator from the children's
//!              rows, so the driver's comparison `Spec.decode(whole view) = rows` checks the assembly itself); the
//!              parent is then sliced by "windows" like every other column.  kind SparseUnion: a sparse union (no
//!              offsets; children as long as the parent) — the crate refuses it, slice and whole alike.
//!   "rb"     : "field" is a non-nullable Struct whose children are the COLUMNS of a record batch; the batch is sliced
//!              with `RecordBatch::slice`, ALL columns are read: item-wise through `Deserializer::from_record_batch` +
//!              `get(i)`, in bulk through `serde_arrow::from_record_batch::<Vec<_>>(&rb.slice(o, l))` itself.  The
//!              dumped views are those of `StructArray::from(batch)`: a Struct view without validity over the columns'
//!              views, i.e. the root reader `Deserializer::new` builds.
//!   "big"    : a plain column of 1 000 – 5 000 rows.
//! Typed targets: output "labels" lists the labels read; for each label L: "L_ty", "whole_L", "slice_L", "whole_L_bulk",
//! "slice_L_bulk".  typed / strict as above; wide (every integer target i64 / u64, every float f64), swap (String <-> &str,
//! ByteBuf <-> &[u8]), anyrec (every column `deserialize_any`), and the input's "targets" ([[label, ty]…], other shapes
//! the column's reader answers or refuses, wiregen::variant_targets).
use crate::arrowsrc;
use crate::dump::view_to_json;
use crate::dynde::Target;
use crate::lgen;
use crate::outcome;
use crate::rng::Rng;
use crate::Ctx;
use serde::de::DeserializeSeed;
use serde_json::{json, Value};
use std::panic::{catch_unwind, AssertUnwindSafe};
use std::sync::Arc;

// ------------------------------------------------------------------------------------------------ gen

fn gen_len(rng: &mut Rng) -> usize {
    match rng.below(12) {
        0 => {
            if rng.bool() {
                0
            } else {
                2
            }
        }
        1 => 1,
        2 | 3 => 8,
        4 | 5 => 9,
        6 => 16,
        7 => 17,
        8 => 20 + rng.usize(21),
        _ => rng.usize(20),
    }
}

/// one window valid for an array of length `len`
fn gen_window(rng: &mut Rng, len: usize) -> (usize, usize) {
    match rng.below(12) {
        0 => (0, len),
        1 => (len, 0),
        2 => (rng.usize(len + 1), 0),
        3 => {
            if len == 0 {
                (0, 0)
            } else {
                (rng.usize(len), 1)
            }
        }
        4 | 5 | 6 => {
            // offset not a multiple of 8 and the window crosses a byte boundary of the parent bitmap
            if len >= 10 {
                let b = 8 * (1 + rng.usize((len - 1) / 8)); // a boundary with 8 <= b < len
                let o = b - 1 - rng.usize(7); // b-7 ..= b-1, never a multiple of 8
                let l = (b - o) + 1 + rng.usize(len - b); // reaches past b, stays within len
                (o, l)
            } else if len >= 2 {
                let o = 1 + rng.usize(len - 1);
                (o, 1 + rng.usize(len - o))
            } else {
                (0, len)
            }
        }
        7 => {
            // offset a multiple of 8
            if len > 8 {
                let o = 8 * (1 + rng.usize((len - 1) / 8)); // 8 <= o < len
                (o, 1 + rng.usize(len - o))
            } else {
                (0, rng.usize(len + 1))
            }
        }
        8 => {
            // tail
            let o = rng.usize(len + 1);
            (o, len - o)
        }
        _ => {
            // anything non-empty (if possible)
            if len == 0 {
                (0, 0)
            } else {
                let o = rng.usize(len);
                (o, 1 + rng.usize(len - o))
            }
        }
    }
}

/// a window that keeps at least half of the array (used for the non-final steps of a chain, so that chains
/// do not all end empty)
fn gen_big_window(rng: &mut Rng, len: usize) -> (usize, usize) {
    let o = rng.usize(len / 2 + 1);
    let min_l = (len + 1) / 2;
    let l = (min_l + rng.usize(len - o - min_l.min(len - o) + 1)).min(len - o);
    (o, l)
}

fn gen_windows(rng: &mut Rng, len: usize) -> Vec<Value> {
    let n = match rng.below(10) {
        0..=4 => 1,
        5..=7 => 2,
        _ => 3,
    };
    let mut cur = len;
    let mut out = Vec::new();
    for k in 0..n {
        let (o, l) = if k + 1 < n && rng.chance(4, 5) { gen_big_window(rng, cur) } else { gen_window(rng, cur) };
        assert!(o + l <= cur);
        out.push(json!([o, l]));
        cur = l;
    }
    out
}

fn leaf_field(rng: &mut Rng, name: &str, dt: Value) -> Value {
    let nullable = lgen::nullable_for(rng, &dt);
    lgen::mk_field(name, nullable, dt)
}

/// the deterministic part of the grid: every leaf type (both nullabilities) and every container kind over a
/// couple of child types
fn grid_fields(rng: &mut Rng) -> Vec<Value> {
    let t = |s: &str| json!({ "t": s });
    let mut out = Vec::new();
    for dt in lgen::all_leaf_types() {
        for nullable in [false, true] {
            if dt["t"] == "Null" && !nullable {
                continue;
            }
            out.push(lgen::mk_field("c", nullable, dt.clone()));
        }
    }
    let ts = json!({"t": "Timestamp", "unit": "Millisecond", "tz": "UTC"});
    let dict = json!({"t": "Dictionary", "key": t("UInt8"), "value": t("Utf8")});
    let inner_struct = json!({"t": "Struct", "fields": [lgen::mk_field("x", true, t("Int16")), lgen::mk_field("y", false, t("Utf8"))]});
    let inner_list = lgen::list_dt("List", lgen::mk_field("element", true, t("Int32")), 0);
    let inner_union = lgen::union_dt(vec![lgen::mk_field("I", false, t("Int32")), lgen::mk_field("S", true, t("Utf8"))]);
    let children: Vec<Value> = vec![
        t("Null"),
        t("Boolean"),
        t("Int32"),
        t("UInt64"),
        t("Float32"),
        t("Utf8"),
        t("LargeUtf8"),
        t("Utf8View"),
        t("Binary"),
        json!({"t": "FixedSizeBinary", "n": 3}),
        json!({"t": "Decimal128", "p": 10, "s": 2}),
        ts,
        dict,
        inner_struct,
        inner_list,
        inner_union,
    ];
    for child in &children {
        for outer_nullable in [false, true] {
            let cf = |rng: &mut Rng, name: &str| leaf_field(rng, name, child.clone());
            for kind in ["List", "LargeList"] {
                out.push(lgen::mk_field("c", outer_nullable, lgen::list_dt(kind, cf(rng, "element"), 0)));
            }
            for n in [0, 1, 3] {
                out.push(lgen::mk_field("c", outer_nullable, lgen::list_dt("FixedSizeList", cf(rng, "element"), n)));
            }
            out.push(lgen::mk_field("c", outer_nullable, json!({"t": "Struct", "fields": [cf(rng, "a"), lgen::mk_field("b", true, t("Boolean"))]})));
            out.push(lgen::mk_field("c", outer_nullable, json!({"t": "Struct", "fields": [cf(rng, "")]})));
            for key in ["Utf8", "Int32"] {
                out.push(lgen::mk_field("c", outer_nullable, lgen::map_dt(t(key), cf(rng, "value"))));
            }
        }
        let v0 = leaf_field(rng, "A", child.clone());
        out.push(lgen::mk_field("c", false, lgen::union_dt(vec![v0.clone()])));
        out.push(lgen::mk_field("c", false, lgen::union_dt(vec![v0.clone(), lgen::mk_field("B", true, t("Int8"))])));
        out.push(lgen::mk_field("c", false, lgen::union_dt(vec![lgen::mk_field("N", true, t("Null")), v0, lgen::mk_field("C", false, t("Utf8"))])));
    }
    out.push(lgen::mk_field("c", false, json!({"t": "Struct", "fields": []})));
    out.push(lgen::mk_field("c", true, json!({"t": "Struct", "fields": []})));
    out
}

pub fn gen(ctx: &Ctx) -> Vec<Value> {
    let mut rng = Rng::new(ctx.seed);
    let total = if ctx.thorough() { 30_000 } else { 2_500 };
    let grid = {
        let mut g = rng.fork();
        grid_fields(&mut g)
    };
    // quick: each grid field once or twice; thorough: several times
    let grid_rounds = if ctx.thorough() { 8 } else { 2 };
    let mut out = Vec::new();
    for c in 0..total {
        let mut r = rng.fork();
        let sub = r.0;
        let field = if c < grid.len() * grid_rounds {
            grid[c % grid.len()].clone()
        } else {
            let depth = match r.below(10) {
                0 | 1 => 0,
                2..=5 => 1,
                6..=8 => 2,
                _ => 3,
            };
            lgen::gen_field(&mut r, "c", depth)
        };
        let len = gen_len(&mut r);
        let rows = lgen::gen_rows(&mut r, &field, len);
        let windows = gen_windows(&mut r, len);
        let backend = if r.chance(15, 100) && arrowsrc::arrow2_supported(&field) { "arrow2" } else { "arrow" };
        let batch = backend == "arrow" && r.chance(1, 4);
        out.push(json!({
            "id": format!("slice-{c:06}"),
            "seed": sub,
            "field": field,
            "rows": rows,
            "windows": windows,
            "backend": backend,
            "batch": batch,
            "targets": var_targets(&mut r, &[&field]),
        }));
    }
    // ---- further kinds (see the module doc): assembled parents, whole record batches, big columns, sparse unions
    let scale = if ctx.thorough() { 10 } else { 1 };
    let mut c = total;
    let mut push = |out: &mut Vec<Value>, sub: u64, mut v: Value| {
        v["id"] = json!(format!("slice-{c:06}"));
        v["seed"] = json!(sub);
        v["backend"] = json!("arrow");
        v["batch"] = json!(false);
        out.push(v);
        c += 1;
    };
    for kind in ["Struct", "List", "LargeList", "Map", "FixedSizeList", "Union", "SparseUnion"] {
        for _ in 0..(if kind == "LargeList" { 30 } else { 70 }) * scale {
            let mut r = rng.fork();
            let sub = r.0;
            let v = gen_assembled(&mut r, kind);
            push(&mut out, sub, v);
        }
    }
    for _ in 0..200 * scale {
        let mut r = rng.fork();
        let sub = r.0;
        let v = gen_rb(&mut r);
        push(&mut out, sub, v);
    }
    // (thorough: 72 big columns — each is several MB of outcomes)
    for k in 0..24 * (if ctx.thorough() { 3 } else { 1 }) {
        let mut r = rng.fork();
        let sub = r.0;
        let v = gen_big(&mut r, k);
        push(&mut out, sub, v);
    }
    out
}

/// two further record targets: per column one of the other shapes its reader answers or refuses
fn var_targets(r: &mut Rng, cols: &[&Value]) -> Value {
    let mut out = Vec::new();
    for k in 0..2 {
        let per_col: Vec<Value> = cols
            .iter()
            .map(|f| {
                let vs = crate::wiregen::variant_targets(r, f);
                let ty = r.pick(&vs).clone();
                // keep the Option layer of a nullable column half of the time
                if f["nullable"].as_bool().unwrap_or(false) && r.bool() {
                    json!({ "option": ty })
                } else {
                    ty
                }
            })
            .collect();
        let ty = if r.chance(1, 5) {
            json!({ "tuple": per_col })
        } else {
            json!({"struct": cols.iter().zip(&per_col).map(|(f, t)| json!([f["name"], t])).collect::<Vec<_>>()})
        };
        out.push(json!([format!("var{k}"), ty]));
    }
    Value::Array(out)
}

/// a child built longer than needed: (field, all rows, offset of the part that is used)
fn gen_child(r: &mut Rng, field: Value, need: usize) -> (Value, Vec<Value>, usize) {
    let pre = match r.below(5) {
        0 => 0,
        1 => 1 + r.usize(7),
        2 => 8,
        _ => 9 + r.usize(12),
    };
    let post = r.usize(4);
    let rows = lgen::gen_rows(r, &field, pre + need + post);
    (field, rows, pre)
}

fn child_json(c: &(Value, Vec<Value>, usize), need: usize) -> Value {
    json!({"field": c.0, "rows": c.1, "window": [c.2, need]})
}

fn gen_validity(r: &mut Rng, nullable: bool, len: usize) -> Vec<bool> {
    (0..len).map(|_| !nullable || !r.chance(1, 4)).collect()
}

fn validity_json(nullable: bool, valid: &[bool]) -> Value {
    if nullable {
        json!(valid)
    } else {
        Value::Null
    }
}

/// a parent over children that were cut with `Array::slice` before the parent is assembled
fn gen_assembled(r: &mut Rng, kind: &str) -> Value {
    let len = gen_len(r);
    let depth = |r: &mut Rng| r.usize(2);
    // (a non-nullable Union child with a nullable variant is refused by `try_new` of Struct / List / Map parents, which
    // look at the logical nulls: Union children only below Union parents)
    let child_field = |r: &mut Rng, name: &str, d: usize| loop {
        let f = lgen::gen_field(r, name, d);
        if f["dt"]["t"] != "Union" {
            return f;
        }
    };
    let nullable = kind != "Union" && kind != "SparseUnion" && r.bool();
    let valid = gen_validity(r, nullable, len);
    let (field, rows, asm) = match kind {
        "Struct" => {
            let k = 1 + r.usize(3);
            let cs: Vec<_> = ["a", "b", "c"][..k]
                .iter()
                .map(|nm| {
                    let d = depth(r);
                    let f = child_field(r, nm, d);
                    gen_child(r, f, len)
                })
                .collect();
            let rows: Vec<Value> = (0..len)
                .map(|i| if valid[i] { json!({"struct": cs.iter().map(|c| json!([c.0["name"], c.1[c.2 + i]])).collect::<Vec<_>>()}) } else { Value::Null })
                .collect();
            let dt = json!({"t": "Struct", "fields": cs.iter().map(|c| c.0.clone()).collect::<Vec<_>>()});
            let asm = json!({"kind": kind, "validity": validity_json(nullable, &valid), "children": cs.iter().map(|c| child_json(c, len)).collect::<Vec<_>>()});
            (lgen::mk_field("c", nullable, dt), rows, asm)
        }
        "List" | "LargeList" | "Map" => {
            let mut offs = vec![r.usize(3)];
            for _ in 0..len {
                let last = *offs.last().unwrap();
                offs.push(last + r.usize(4));
            }
            let need = *offs.last().unwrap() + r.usize(3);
            if kind == "Map" {
                let key_dt = if r.bool() { json!({"t": "Utf8"}) } else { json!({"t": "Int32"}) };
                let ks = gen_child(r, lgen::mk_field("key", false, key_dt.clone()), need);
                let d = depth(r);
                let vf = child_field(r, "value", d);
                let vs = gen_child(r, vf, need);
                let rows: Vec<Value> = (0..len)
                    .map(|i| if valid[i] { json!({"map": (offs[i]..offs[i + 1]).map(|j| json!([ks.1[ks.2 + j], vs.1[vs.2 + j]])).collect::<Vec<_>>()}) } else { Value::Null })
                    .collect();
                let asm = json!({"kind": kind, "validity": validity_json(nullable, &valid), "offsets": offs, "children": [child_json(&ks, need), child_json(&vs, need)]});
                (lgen::mk_field("c", nullable, lgen::map_dt(key_dt, vs.0.clone())), rows, asm)
            } else {
                let d = depth(r);
                let ef = child_field(r, "element", d);
                let el = gen_child(r, ef, need);
                let rows: Vec<Value> =
                    (0..len).map(|i| if valid[i] { json!({"list": (offs[i]..offs[i + 1]).map(|j| el.1[el.2 + j].clone()).collect::<Vec<_>>()}) } else { Value::Null }).collect();
                let asm = json!({"kind": kind, "validity": validity_json(nullable, &valid), "offsets": offs, "children": [child_json(&el, need)]});
                (lgen::mk_field("c", nullable, lgen::list_dt(kind, el.0.clone(), 0)), rows, asm)
            }
        }
        "FixedSizeList" => {
            let n = 1 + r.usize(3);
            let d = depth(r);
            let ef = child_field(r, "element", d);
            let el = gen_child(r, ef, len * n);
            let rows: Vec<Value> =
                (0..len).map(|i| if valid[i] { json!({"list": (i * n..(i + 1) * n).map(|j| el.1[el.2 + j].clone()).collect::<Vec<_>>()}) } else { Value::Null }).collect();
            let asm = json!({"kind": kind, "validity": validity_json(nullable, &valid), "n": n, "children": [child_json(&el, len * n)]});
            (lgen::mk_field("c", nullable, lgen::list_dt(kind, el.0.clone(), n as i64)), rows, asm)
        }
        "Union" | "SparseUnion" => {
            let k = 1 + r.usize(3);
            let tids: Vec<usize> = (0..len).map(|_| r.usize(k)).collect();
            let mut counts = vec![0usize; k];
            let mut offs = Vec::new();
            for t in &tids {
                offs.push(counts[*t]);
                counts[*t] += 1;
            }
            let sparse = kind == "SparseUnion";
            let needs: Vec<usize> = (0..k).map(|v| if sparse { len } else { counts[v] + r.usize(3) }).collect();
            let cs: Vec<_> = (0..k)
                .map(|v| {
                    let d = depth(r);
                    let f = lgen::gen_field(r, ["A", "B", "C"][v], d);
                    gen_child(r, f, needs[v])
                })
                .collect();
            let rows: Vec<Value> = (0..len)
                .map(|i| {
                    let c = &cs[tids[i]];
                    let j = if sparse { i } else { offs[i] };
                    json!({"union": [tids[i].to_string(), c.1[c.2 + j]]})
                })
                .collect();
            let mut dt = lgen::union_dt(cs.iter().map(|c| c.0.clone()).collect());
            if sparse {
                dt["mode"] = json!("Sparse");
            }
            let asm = json!({"kind": kind, "type_ids": tids, "offsets": if sparse { Value::Null } else { json!(offs) },
                "children": cs.iter().zip(&needs).map(|(c, n)| child_json(c, *n)).collect::<Vec<_>>()});
            (lgen::mk_field("c", false, dt), rows, asm)
        }
        other => panic!("gen_assembled: {other}"),
    };
    let windows = gen_windows(r, len);
    let targets = var_targets(r, &[&field]);
    json!({"mode": "asm", "field": field, "rows": rows, "windows": windows, "assemble": asm, "targets": targets})
}

/// a record batch of 2–4 columns, read as a whole
fn gen_rb(r: &mut Rng) -> Value {
    let k = 2 + r.usize(3);
    let names = ["a", "b", "x y", "ä"];
    let cols: Vec<Value> = (0..k)
        .map(|i| {
            let d = match r.below(10) {
                0..=3 => 0,
                4..=7 => 1,
                _ => 2,
            };
            lgen::gen_field(r, names[i], d)
        })
        .collect();
    let len = gen_len(r);
    let col_rows: Vec<Vec<Value>> = cols.iter().map(|f| lgen::gen_rows(r, f, len)).collect();
    let rows: Vec<Value> = (0..len).map(|i| json!({"struct": cols.iter().zip(&col_rows).map(|(f, rs)| json!([f["name"], rs[i]])).collect::<Vec<_>>()})).collect();
    let windows = gen_windows(r, len);
    let targets = var_targets(r, &cols.iter().collect::<Vec<_>>());
    let field = lgen::mk_field("r", false, json!({"t": "Struct", "fields": cols}));
    json!({"mode": "rb", "field": field, "rows": rows, "windows": windows, "targets": targets})
}

/// a plain column of 1 000 – 5 000 rows (offsets far beyond one bitmap byte, large list offsets)
fn gen_big(r: &mut Rng, k: usize) -> Value {
    let t = |s: &str| json!({ "t": s });
    let fixed: Vec<Value> = vec![
        lgen::mk_field("c", true, t("Int32")),
        lgen::mk_field("c", true, t("Boolean")),
        lgen::mk_field("c", true, t("Utf8")),
        lgen::mk_field("c", true, lgen::list_dt("List", lgen::mk_field("element", true, t("Int16")), 0)),
        lgen::mk_field("c", true, lgen::list_dt("LargeList", lgen::mk_field("element", false, t("Utf8")), 0)),
        lgen::mk_field("c", true, lgen::map_dt(t("Utf8"), lgen::mk_field("value", true, t("Int64")))),
        lgen::mk_field("c", true, json!({"t": "Struct", "fields": [lgen::mk_field("x", true, t("Int8")), lgen::mk_field("y", false, t("Utf8View"))]})),
        lgen::mk_field("c", true, lgen::list_dt("FixedSizeList", lgen::mk_field("element", true, t("Boolean")), 3)),
        lgen::mk_field("c", false, lgen::union_dt(vec![lgen::mk_field("I", false, t("Int32")), lgen::mk_field("S", true, t("Utf8"))])),
        lgen::mk_field("c", true, json!({"t": "Dictionary", "key": t("UInt16"), "value": t("Utf8")})),
        lgen::mk_field("c", true, json!({"t": "FixedSizeBinary", "n": 3})),
        lgen::mk_field("c", true, t("BinaryView")),
    ];
    let field = if k % 24 < fixed.len() {
        fixed[k % 24].clone()
    } else {
        let d = r.usize(2);
        lgen::gen_field(r, "c", d)
    };
    let len = if k % 3 == 2 { 3000 + r.usize(2001) } else { 1000 + r.usize(1001) };
    let rows = lgen::gen_rows(r, &field, len);
    let mut windows = gen_windows(r, len);
    for _ in 0..20 {
        // the final window keeps a few hundred rows
        if windows.last().map(|w| w[1].as_u64().unwrap() >= 300).unwrap_or(false) {
            break;
        }
        windows = gen_windows(r, len);
    }
    json!({"mode": "big", "field": field, "rows": rows, "windows": windows, "targets": []})
}

// ------------------------------------------------------------------------------------------------ exec

/// run `f` under catch_unwind; a panic becomes `Err("panic: …")`
fn guarded<T>(f: impl FnOnce() -> Result<T, String>) -> Result<T, String> {
    let mut slot: Option<Result<T, String>> = None;
    let o = outcome::run(|| -> Result<Value, String> {
        slot = Some(f());
        Ok(Value::Null)
    });
    match slot {
        Some(r) => r,
        None => Err(format!("panic: {}", o["panic"].as_str().unwrap_or(""))),
    }
}

fn view_or_err<'a, E: std::fmt::Display>(f: impl FnOnce() -> Result<marrow::view::View<'a>, E>) -> Value {
    match guarded(|| f().map(|v| view_to_json(&v)).map_err(|e| e.to_string())) {
        Ok(v) => v,
        Err(e) => json!({ "err": e }),
    }
}

fn read_items(de: &serde_arrow::Deserializer<'_>, len: usize, ty: &Value) -> Vec<Value> {
    (0..len).map(|i| outcome::run(|| Target(ty).deserialize(de.get(i).expect("Deserializer::get(i) for i < len")))).collect()
}

/// the columns a record of the case has: the single column, or (mode "rb") the children of the root struct
fn columns_of(input: &Value) -> Vec<Value> {
    if input["mode"].as_str() == Some("rb") {
        input["field"]["dt"]["fields"].as_array().cloned().unwrap_or_default()
    } else {
        vec![input["field"].clone()]
    }
}

fn map_types(ty: &Value, f: &dyn Fn(&str) -> Option<&'static str>) -> Value {
    match ty {
        Value::String(s) => match f(s) {
            Some(t) => json!(t),
            None => ty.clone(),
        },
        Value::Object(m) => Value::Object(m.iter().map(|(k, v)| (k.clone(), map_types(v, f))).collect()),
        Value::Array(a) => Value::Array(a.iter().map(|v| map_types(v, f)).collect()),
        v => v.clone(),
    }
}

fn strip_all(ty: &Value) -> Value {
    match ty {
        Value::Object(m) if m.contains_key("option") => strip_all(&m["option"]),
        Value::Object(m) => Value::Object(m.iter().map(|(k, v)| (k.clone(), strip_all(v))).collect()),
        Value::Array(a) => Value::Array(a.iter().map(strip_all).collect()),
        v => v.clone(),
    }
}

/// the record targets read in every case, a pure function of the input: (label, target)
///   typed  : the record a user would naturally write, `struct R { <col>: T, … }` (wiregen::natural_target per column)
///   strict : the same without any `Option` layer, addressed as a tuple `(T, …)`: rows with a null anywhere FAIL
///   wide   : every integer target widened to i64 / u64, every float target to f64
///   swap   : String <-> &str, ByteBuf <-> &[u8]
///   anyrec : every column through `deserialize_any`
///   var0, var1 : the input's "targets"
/// (columns of 1 000 rows and more: typed, strict, wide only)
fn record_targets(input: &Value) -> Vec<(String, Value)> {
    let cols = columns_of(input);
    let nat: Vec<Value> = cols.iter().map(crate::wiregen::natural_target).collect();
    let rec = |tys: Vec<Value>| json!({"struct": cols.iter().zip(tys).map(|(f, t)| json!([f["name"], t])).collect::<Vec<_>>()});
    // (names of fields and variants come from lgen's fixed lists, none of which is a type word)
    let widen = |s: &str| match s {
        "i8" | "i16" | "i32" => Some("i64"),
        "u8" | "u16" | "u32" => Some("u64"),
        "f32" => Some("f64"),
        _ => None,
    };
    let swap = |s: &str| match s {
        "string" => Some("str"),
        "str" => Some("string"),
        "byte_buf" => Some("bytes"),
        "bytes" => Some("byte_buf"),
        _ => None,
    };
    let mut out = vec![
        ("typed".to_string(), rec(nat.clone())),
        ("strict".to_string(), json!({"tuple": nat.iter().map(strip_all).collect::<Vec<_>>()})),
        ("wide".to_string(), rec(nat.iter().map(|t| map_types(t, &widen)).collect())),
    ];
    if input["mode"].as_str() != Some("big") {
        out.push(("swap".to_string(), rec(nat.iter().map(|t| map_types(t, &swap)).collect())));
        out.push(("anyrec".to_string(), rec(nat.iter().map(|_| json!("any")).collect())));
        for t in input["targets"].as_array().map(|a| a.as_slice()).unwrap_or(&[]) {
            out.push((t[0].as_str().unwrap_or("var").to_string(), t[1].clone()));
        }
    }
    out
}

/// what the crate reads from: one column, or a whole record batch
enum Src {
    Col(arrow_schema::FieldRef, arrow_array::ArrayRef),
    Rb(arrow_array::RecordBatch),
}

thread_local! {
    static BULK_TY: std::cell::RefCell<Value> = std::cell::RefCell::new(Value::Null);
}

/// `T` of `serde_arrow::from_record_batch::<T>`: reads itself as the target in BULK_TY
struct DynOut(Value);

impl<'de> serde::Deserialize<'de> for DynOut {
    fn deserialize<D: serde::Deserializer<'de>>(de: D) -> Result<Self, D::Error> {
        let ty = BULK_TY.with(|t| t.borrow().clone());
        Target(&ty).deserialize(de).map(DynOut)
    }
}

impl Src {
    fn len(&self) -> usize {
        use arrow_array::Array;
        match self {
            Src::Col(_, a) => a.len(),
            Src::Rb(rb) => rb.num_rows(),
        }
    }
    fn de(&self) -> Result<serde_arrow::Deserializer<'_>, serde_arrow::Error> {
        match self {
            Src::Col(f, a) => serde_arrow::Deserializer::from_arrow(std::slice::from_ref(f), std::slice::from_ref(a)),
            Src::Rb(rb) => serde_arrow::Deserializer::from_record_batch(rb),
        }
    }
    /// item-wise reads of every row into the record target `ty` (`"any"`: `deserialize_any`)
    fn items(&self, ty: &Value) -> Vec<Value> {
        let mut slot = None;
        let ctor = outcome::run(|| {
            let de = self.de()?;
            let n = de.len();
            slot = Some(de);
            Ok::<Value, serde_arrow::Error>(json!(n))
        });
        match slot {
            Some(de) => read_items(&de, self.len(), ty),
            None => vec![json!({ "ctor": ctor })],
        }
    }
    /// `Vec<R>::deserialize(Deserializer::from_arrow(..))`: the bulk path of `from_arrow`; for a record batch
    /// `serde_arrow::from_record_batch::<Vec<R>>(&batch)` itself
    fn bulk(&self, ty: &Value) -> Value {
        let seq = json!({ "seq": ty });
        match self {
            Src::Col(..) => outcome::run(|| {
                let de = self.de()?;
                Target(&seq).deserialize(de)
            }),
            Src::Rb(rb) => {
                BULK_TY.with(|t| *t.borrow_mut() = seq.clone());
                outcome::run(|| serde_arrow::from_record_batch::<DynOut>(rb).map(|d| d.0))
            }
        }
    }
}

fn items_arrow2(field: &arrow2::datatypes::Field, arr: &Box<dyn arrow2::array::Array>, ty: &Value) -> Vec<Value> {
    let fields = [field.clone()];
    let arrays = [arr.clone()];
    let mut slot = None;
    let ctor = outcome::run(|| {
        let de = serde_arrow::Deserializer::from_arrow2(&fields, &arrays)?;
        let n = de.len();
        slot = Some(de);
        Ok::<Value, serde_arrow::Error>(json!(n))
    });
    match slot {
        Some(de) => read_items(&de, arrays[0].len(), ty),
        None => vec![json!({ "ctor": ctor })],
    }
}

fn bulk_arrow2(field: &arrow2::datatypes::Field, arr: &Box<dyn arrow2::array::Array>, ty: &Value) -> Value {
    let fields = [field.clone()];
    let arrays = [arr.clone()];
    let seq = json!({ "seq": ty });
    outcome::run(|| {
        let de = serde_arrow::Deserializer::from_arrow2(&fields, &arrays)?;
        Target(&seq).deserialize(de)
    })
}

fn windows_of(input: &Value) -> Vec<(usize, usize)> {
    input["windows"].as_array().unwrap().iter().map(|w| (w[0].as_u64().unwrap() as usize, w[1].as_u64().unwrap() as usize)).collect()
}

fn direct_equal(whole: &[Value], slice: &[Value], o: usize, l: usize) -> bool {
    let ctor_failed = |xs: &[Value]| xs.len() == 1 && xs[0].get("ctor").is_some();
    if ctor_failed(whole) || ctor_failed(slice) {
        return whole == slice;
    }
    o + l <= whole.len() && slice == &whole[o..o + l]
}

struct TypedRes {
    label: String,
    ty: Value,
    whole: Vec<Value>,
    slice: Vec<Value>,
    whole_bulk: Value,
    slice_bulk: Value,
}

struct Results {
    whole_view: Value,
    slice_views: Vec<Value>,
    whole_items: Vec<Value>,
    slice_items: Vec<Value>,
    typed: Vec<TypedRes>,
    oracle_whole: Value,
    oracle_slice: Value,
}

fn nulls_from(v: &Value) -> Option<arrow_buffer::NullBuffer> {
    v.as_array().map(|bs| arrow_buffer::NullBuffer::from(bs.iter().map(|b| b.as_bool().unwrap()).collect::<Vec<bool>>()))
}

/// mode "asm": the children are built, cut with `Array::slice`, and the parent is assembled over them with `try_new`
fn assemble(fieldj: &Value, asm: &Value) -> Result<arrow_array::ArrayRef, String> {
    use arrow_array as aa;
    use arrow_array::Array;
    use arrow_buffer::{OffsetBuffer, ScalarBuffer};
    use arrow_schema::DataType;
    let es = |e: arrow_schema::ArrowError| e.to_string();
    let children: Vec<aa::ArrayRef> = asm["children"]
        .as_array()
        .unwrap()
        .iter()
        .map(|c| {
            let a = arrowsrc::build_arrow(&c["field"], c["rows"].as_array().unwrap())?;
            Ok(a.slice(c["window"][0].as_u64().unwrap() as usize, c["window"][1].as_u64().unwrap() as usize))
        })
        .collect::<Result<_, String>>()?;
    let nulls = nulls_from(&asm["validity"]);
    let ints = |v: &Value| -> Vec<i64> { v.as_array().unwrap().iter().map(|x| x.as_i64().unwrap()).collect() };
    let dt = arrowsrc::arrow_dt(&fieldj["dt"]);
    let out: aa::ArrayRef = match (asm["kind"].as_str().unwrap(), dt) {
        ("Struct", DataType::Struct(fields)) => Arc::new(aa::StructArray::try_new(fields, children, nulls).map_err(es)?),
        ("List", DataType::List(f)) => {
            let offs = OffsetBuffer::new(ScalarBuffer::from(ints(&asm["offsets"]).iter().map(|x| *x as i32).collect::<Vec<_>>()));
            Arc::new(aa::ListArray::try_new(f, offs, children[0].clone(), nulls).map_err(es)?)
        }
        ("LargeList", DataType::LargeList(f)) => {
            let offs = OffsetBuffer::new(ScalarBuffer::from(ints(&asm["offsets"])));
            Arc::new(aa::LargeListArray::try_new(f, offs, children[0].clone(), nulls).map_err(es)?)
        }
        ("Map", DataType::Map(ef, sorted)) => {
            let DataType::Struct(efs) = ef.data_type().clone() else { return Err("map entries".into()) };
            let entries = aa::StructArray::try_new(efs, children, None).map_err(es)?;
            let offs = OffsetBuffer::new(ScalarBuffer::from(ints(&asm["offsets"]).iter().map(|x| *x as i32).collect::<Vec<_>>()));
            Arc::new(aa::MapArray::try_new(ef, offs, entries, nulls, sorted).map_err(es)?)
        }
        ("FixedSizeList", DataType::FixedSizeList(f, n)) => Arc::new(aa::FixedSizeListArray::try_new(f, n, children[0].clone(), nulls).map_err(es)?),
        ("Union", DataType::Union(ufs, _)) | ("SparseUnion", DataType::Union(ufs, _)) => {
            let tids = ScalarBuffer::from(ints(&asm["type_ids"]).iter().map(|x| *x as i8).collect::<Vec<_>>());
            let offs = asm["offsets"].as_array().map(|_| ScalarBuffer::from(ints(&asm["offsets"]).iter().map(|x| *x as i32).collect::<Vec<_>>()));
            Arc::new(aa::UnionArray::try_new(ufs, tids, offs, children).map_err(es)?)
        }
        (k, _) => return Err(format!("assemble: kind {k} does not fit the field")),
    };
    Ok(out)
}

fn read_all(input: &Value, whole: &Src, last: &Src) -> (Vec<Value>, Vec<Value>, Vec<TypedRes>) {
    let any = json!("any");
    let whole_items = whole.items(&any);
    let slice_items = last.items(&any);
    let typed = record_targets(input)
        .into_iter()
        .map(|(label, ty)| TypedRes {
            whole: whole.items(&ty),
            slice: last.items(&ty),
            whole_bulk: whole.bulk(&ty),
            slice_bulk: last.bulk(&ty),
            label,
            ty,
        })
        .collect();
    (whole_items, slice_items, typed)
}

fn exec_arrow(input: &Value) -> Result<Results, String> {
    use arrow_array::{Array, ArrayRef, Int32Array, RecordBatch, StructArray};
    let fieldj = &input["field"];
    let rows = input["rows"].as_array().unwrap();
    let windows = windows_of(input);
    let mode = input["mode"].as_str().unwrap_or("");
    let whole: ArrayRef = guarded(|| if mode == "asm" { assemble(fieldj, &input["assemble"]) } else { arrowsrc::build_arrow(fieldj, rows) })?;
    let field: arrow_schema::FieldRef = Arc::new(arrowsrc::arrow_field(fieldj));

    // the chain of slices
    let mut rbs: Vec<RecordBatch> = Vec::new();
    let chain: Vec<ArrayRef> = guarded(|| {
        let mut out: Vec<ArrayRef> = Vec::new();
        if mode == "rb" {
            // the columns of the batch are the children of the root struct; every step is `RecordBatch::slice`
            let mut rb = RecordBatch::from(whole.as_any().downcast_ref::<StructArray>().ok_or("rb: not a struct")?.clone());
            rbs.push(rb.clone());
            for (o, l) in &windows {
                rb = rb.slice(*o, *l);
                rbs.push(rb.clone());
                out.push(Arc::new(StructArray::from(rb.clone())));
            }
        } else if input["batch"].as_bool().unwrap_or(false) {
            let second: ArrayRef = Arc::new(Int32Array::from((0..whole.len() as i32).collect::<Vec<_>>()));
            let schema = Arc::new(arrow_schema::Schema::new(vec![field.clone(), Arc::new(arrow_schema::Field::new("idx", arrow_schema::DataType::Int32, false))]));
            let mut rb = RecordBatch::try_new(schema, vec![whole.clone(), second]).map_err(|e| e.to_string())?;
            for (o, l) in &windows {
                rb = rb.slice(*o, *l);
                out.push(rb.column(0).clone());
            }
        } else {
            let mut cur = whole.clone();
            for (o, l) in &windows {
                cur = cur.slice(*o, *l);
                out.push(cur.clone());
            }
        }
        Ok(out)
    })?;
    let last = chain.last().cloned().unwrap_or_else(|| whole.clone());

    // (mode "rb": the view of `StructArray::from(batch)` is the root struct over the columns' views)
    let whole_view = if mode == "rb" {
        let sa: ArrayRef = Arc::new(StructArray::from(rbs[0].clone()));
        view_or_err(|| marrow::view::View::try_from(sa.as_ref()))
    } else {
        view_or_err(|| marrow::view::View::try_from(whole.as_ref()))
    };
    let slice_views = chain.iter().map(|a| view_or_err(|| marrow::view::View::try_from(a.as_ref()))).collect();
    let (src_whole, src_last) = if mode == "rb" {
        (Src::Rb(rbs[0].clone()), Src::Rb(rbs.last().unwrap().clone()))
    } else {
        (Src::Col(field.clone(), whole.clone()), Src::Col(field.clone(), last.clone()))
    };
    let (whole_items, slice_items, typed) = read_all(input, &src_whole, &src_last);
    let oracle = |a: &ArrayRef| match guarded(|| Ok(arrowsrc::arrow_oracle(a.as_ref()))) {
        Ok(v) => Value::Array(v),
        Err(e) => json!({ "err": e }),
    };
    Ok(Results { whole_view, slice_views, whole_items, slice_items, typed, oracle_whole: oracle(&whole), oracle_slice: oracle(&last) })
}

fn exec_arrow2(input: &Value) -> Result<Results, String> {
    use arrow2::array::Array;
    let fieldj = &input["field"];
    let rows = input["rows"].as_array().unwrap();
    let windows = windows_of(input);
    let whole: Box<dyn Array> = guarded(|| arrowsrc::build_arrow2(fieldj, rows))?;
    let field = arrowsrc::arrow2_field(fieldj)?;
    let chain: Vec<Box<dyn Array>> = guarded(|| {
        let mut out = Vec::new();
        let mut cur = whole.clone();
        for (o, l) in &windows {
            cur = cur.sliced(*o, *l);
            out.push(cur.clone());
        }
        Ok(out)
    })?;
    let last = chain.last().cloned().unwrap_or_else(|| whole.clone());
    let whole_view = view_or_err(|| marrow::view::View::try_from(whole.as_ref()));
    let slice_views = chain.iter().map(|a| view_or_err(|| marrow::view::View::try_from(a.as_ref()))).collect();
    let any = json!("any");
    let whole_items = items_arrow2(&field, &whole, &any);
    let slice_items = items_arrow2(&field, &last, &any);
    let typed = record_targets(input)
        .into_iter()
        .map(|(label, ty)| TypedRes {
            whole: items_arrow2(&field, &whole, &ty),
            slice: items_arrow2(&field, &last, &ty),
            whole_bulk: bulk_arrow2(&field, &whole, &ty),
            slice_bulk: bulk_arrow2(&field, &last, &ty),
            label,
            ty,
        })
        .collect();
    Ok(Results { whole_view, slice_views, whole_items, slice_items, typed, oracle_whole: Value::Null, oracle_slice: Value::Null })
}

pub fn exec(input: &Value) -> Value {
    let mut case = input.clone();
    let windows = windows_of(input);
    let abs_o: usize = windows.iter().map(|w| w.0).sum();
    let abs_l: usize = windows.last().map(|w| w.1).unwrap_or_else(|| input["rows"].as_array().map(|r| r.len()).unwrap_or(0));
    let res = match catch_unwind(AssertUnwindSafe(|| {
        if input["backend"].as_str() == Some("arrow2") {
            exec_arrow2(input)
        } else {
            exec_arrow(input)
        }
    })) {
        Ok(r) => r,
        Err(_) => Err("panic outside of the guarded sections".to_string()),
    };
    let obj = case.as_object_mut().unwrap();
    obj.insert("window".into(), json!([abs_o, abs_l]));
    match res {
        Err(e) => {
            obj.insert("build_err".into(), json!(e));
        }
        Ok(r) => {
            let eq = direct_equal(&r.whole_items, &r.slice_items, abs_o, abs_l);
            obj.insert("whole_view".into(), r.whole_view);
            obj.insert("slice_views".into(), Value::Array(r.slice_views));
            obj.insert("whole_items".into(), Value::Array(r.whole_items));
            obj.insert("slice_items".into(), Value::Array(r.slice_items));
            obj.insert("labels".into(), json!(r.typed.iter().map(|t| t.label.clone()).collect::<Vec<_>>()));
            for t in r.typed {
                let l = &t.label;
                obj.insert(format!("{l}_ty"), t.ty);
                obj.insert(format!("whole_{l}"), Value::Array(t.whole));
                obj.insert(format!("slice_{l}"), Value::Array(t.slice));
                obj.insert(format!("whole_{l}_bulk"), t.whole_bulk);
                obj.insert(format!("slice_{l}_bulk"), t.slice_bulk);
            }
            obj.insert("oracle_whole".into(), r.oracle_whole);
            obj.insert("oracle_slice".into(), r.oracle_slice);
            obj.insert("direct_equal".into(), json!(eq));
        }
    }
    case
}
