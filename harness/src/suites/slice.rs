//! suite `slice`: deserializing `array.slice(o, l)` equals the window `[o, o+l)` of deserializing the whole array.
//!
//! Columns come from lgen.rs (logical rows) and are materialised with arrow-rs (arrowsrc::build_arrow) or, for
//! the supported subset, arrow2 (arrowsrc::build_arrow2).  A chain of 1–3 windows is applied with
//! `Array::slice` / `RecordBatch::slice` (arrow) or `Array::sliced` (arrow2).
//!
//! input : {"id","seed","field":FieldJson,"rows":[LVal…],"windows":[[o,l]…],"backend":"arrow"|"arrow2","batch":bool}
//! output: input + "whole_view", "slice_views" (view after each window; {"err":msg} on a conversion error),
//!         "whole_items" / "slice_items" (one outcome per row read through `Deserializer::get(i)` and
//!         `deserialize_any`; [{"ctor":outcome}] if the constructor fails), "oracle_whole" / "oracle_slice"
//!         (arrow-rs accessors only; null for arrow2), "window" (absolute [o,l] of the final slice),
//!         "direct_equal" (slice_items == whole_items[o..o+l]); "typed_ty" (the record target a user would
//!         naturally write for the column: `struct R { <name>: T }`, wiregen::natural_target), "whole_typed" /
//!         "slice_typed" (one outcome per row read through `get(i)` into that target), "whole_typed_bulk" /
//!         "slice_typed_bulk" (`Vec<R>::deserialize(deserializer)`, the `from_arrow` / `from_record_batch` path);
//!         "strict_ty" (the same target with every `Option` layer removed, addressed as a one-element tuple:
//!         reads of rows with a null anywhere FAIL) with "whole_strict", "slice_strict", "whole_strict_bulk",
//!         "slice_strict_bulk";
//!         "build_err" instead of all of these if the column could not be built (a harness problem, never
//!         expected).
use crate::arrowsrc;
use crate::dump::view_to_json;
use crate::dynde::Target;
use crate::lgen;
use crate::outcome;
use crate::rng::Rng;
use crate::Ctx;
use serde::de::DeserializeSeed;
use serde_json::{json, Value};
use std::panic::{catch_unwind, AssertUnwindSafe};
use std::sync::Arc;

// ------------------------------------------------------------------------------------------------ gen

fn gen_len(rng: &mut Rng) -> usize {
    match rng.below(12) {
        0 => {
            if rng.bool() {
                0
            } else {
                2
            }
        }
        1 => 1,
        2 | 3 => 8,
        4 | 5 => 9,
        6 => 16,
        7 => 17,
        8 => 20 + rng.usize(21),
        _ => rng.usize(20),
    }
}

/// one window valid for an array of length `len`
fn gen_window(rng: &mut Rng, len: usize) -> (usize, usize) {
    match rng.below(12) {
        0 => (0, len),
        1 => (len, 0),
        2 => (rng.usize(len + 1), 0),
        3 => {
            if len == 0 {
                (0, 0)
            } else {
                (rng.usize(len), 1)
            }
        }
        4 | 5 | 6 => {
            // offset not a multiple of 8 and the window crosses a byte boundary of the parent bitmap
            if len >= 10 {
                let b = 8 * (1 + rng.usize((len - 1) / 8)); // a boundary with 8 <= b < len
                let o = b - 1 - rng.usize(7); // b-7 ..= b-1, never a multiple of 8
                let l = (b - o) + 1 + rng.usize(len - b); // reaches past b, stays within len
                (o, l)
            } else if len >= 2 {
                let o = 1 + rng.usize(len - 1);
                (o, 1 + rng.usize(len - o))
            } else {
                (0, len)
            }
        }
        7 => {
            // offset a multiple of 8
            if len > 8 {
                let o = 8 * (1 + rng.usize((len - 1) / 8)); // 8 <= o < len
                (o, 1 + rng.usize(len - o))
            } else {
                (0, rng.usize(len + 1))
            }
        }
        8 => {
            // tail
            let o = rng.usize(len + 1);
            (o, len - o)
        }
        _ => {
            // anything non-empty (if possible)
            if len == 0 {
                (0, 0)
            } else {
                let o = rng.usize(len);
                (o, 1 + rng.usize(len - o))
            }
        }
    }
}

/// a window that keeps at least half of the array (used for the non-final steps of a chain, so that chains
/// do not all end empty)
fn gen_big_window(rng: &mut Rng, len: usize) -> (usize, usize) {
    let o = rng.usize(len / 2 + 1);
    let min_l = (len + 1) / 2;
    let l = (min_l + rng.usize(len - o - min_l.min(len - o) + 1)).min(len - o);
    (o, l)
}

fn gen_windows(rng: &mut Rng, len: usize) -> Vec<Value> {
    let n = match rng.below(10) {
        0..=4 => 1,
        5..=7 => 2,
        _ => 3,
    };
    let mut cur = len;
    let mut out = Vec::new();
    for k in 0..n {
        let (o, l) = if k + 1 < n && rng.chance(4, 5) { gen_big_window(rng, cur) } else { gen_window(rng, cur) };
        assert!(o + l <= cur);
        out.push(json!([o, l]));
        cur = l;
    }
    out
}

fn leaf_field(rng: &mut Rng, name: &str, dt: Value) -> Value {
    let nullable = lgen::nullable_for(rng, &dt);
    lgen::mk_field(name, nullable, dt)
}

/// the deterministic part of the grid: every leaf type (both nullabilities) and every container kind over a
/// couple of child types
fn grid_fields(rng: &mut Rng) -> Vec<Value> {
    let t = |s: &str| json!({ "t": s });
    let mut out = Vec::new();
    for dt in lgen::all_leaf_types() {
        for nullable in [false, true] {
            if dt["t"] == "Null" && !nullable {
                continue;
            }
            out.push(lgen::mk_field("c", nullable, dt.clone()));
        }
    }
    let ts = json!({"t": "Timestamp", "unit": "Millisecond", "tz": "UTC"});
    let dict = json!({"t": "Dictionary", "key": t("UInt8"), "value": t("Utf8")});
    let inner_struct = json!({"t": "Struct", "fields": [lgen::mk_field("x", true, t("Int16")), lgen::mk_field("y", false, t("Utf8"))]});
    let inner_list = lgen::list_dt("List", lgen::mk_field("element", true, t("Int32")), 0);
    let inner_union = lgen::union_dt(vec![lgen::mk_field("I", false, t("Int32")), lgen::mk_field("S", true, t("Utf8"))]);
    let children: Vec<Value> = vec![
        t("Null"),
        t("Boolean"),
        t("Int32"),
        t("UInt64"),
        t("Float32"),
        t("Utf8"),
        t("LargeUtf8"),
        t("Utf8View"),
        t("Binary"),
        json!({"t": "FixedSizeBinary", "n": 3}),
        json!({"t": "Decimal128", "p": 10, "s": 2}),
        ts,
        dict,
        inner_struct,
        inner_list,
        inner_union,
    ];
    for child in &children {
        for outer_nullable in [false, true] {
            let cf = |rng: &mut Rng, name: &str| leaf_field(rng, name, child.clone());
            for kind in ["List", "LargeList"] {
                out.push(lgen::mk_field("c", outer_nullable, lgen::list_dt(kind, cf(rng, "element"), 0)));
            }
            for n in [0, 1, 3] {
                out.push(lgen::mk_field("c", outer_nullable, lgen::list_dt("FixedSizeList", cf(rng, "element"), n)));
            }
            out.push(lgen::mk_field("c", outer_nullable, json!({"t": "Struct", "fields": [cf(rng, "a"), lgen::mk_field("b", true, t("Boolean"))]})));
            out.push(lgen::mk_field("c", outer_nullable, json!({"t": "Struct", "fields": [cf(rng, "")]})));
            for key in ["Utf8", "Int32"] {
                out.push(lgen::mk_field("c", outer_nullable, lgen::map_dt(t(key), cf(rng, "value"))));
            }
        }
        let v0 = leaf_field(rng, "A", child.clone());
        out.push(lgen::mk_field("c", false, lgen::union_dt(vec![v0.clone()])));
        out.push(lgen::mk_field("c", false, lgen::union_dt(vec![v0.clone(), lgen::mk_field("B", true, t("Int8"))])));
        out.push(lgen::mk_field("c", false, lgen::union_dt(vec![lgen::mk_field("N", true, t("Null")), v0, lgen::mk_field("C", false, t("Utf8"))])));
    }
    out.push(lgen::mk_field("c", false, json!({"t": "Struct", "fields": []})));
    out.push(lgen::mk_field("c", true, json!({"t": "Struct", "fields": []})));
    out
}

pub fn gen(ctx: &Ctx) -> Vec<Value> {
    let mut rng = Rng::new(ctx.seed);
    let total = if ctx.thorough() { 30_000 } else { 2_500 };
    let grid = {
        let mut g = rng.fork();
        grid_fields(&mut g)
    };
    // quick: each grid field once or twice; thorough: several times
    let grid_rounds = if ctx.thorough() { 8 } else { 2 };
    let mut out = Vec::new();
    for c in 0..total {
        let mut r = rng.fork();
        let sub = r.0;
        let field = if c < grid.len() * grid_rounds {
            grid[c % grid.len()].clone()
        } else {
            let depth = match r.below(10) {
                0 | 1 => 0,
                2..=5 => 1,
                6..=8 => 2,
                _ => 3,
            };
            lgen::gen_field(&mut r, "c", depth)
        };
        let len = gen_len(&mut r);
        let rows = lgen::gen_rows(&mut r, &field, len);
        let windows = gen_windows(&mut r, len);
        let backend = if r.chance(15, 100) && arrowsrc::arrow2_supported(&field) { "arrow2" } else { "arrow" };
        let batch = backend == "arrow" && r.chance(1, 4);
        out.push(json!({
            "id": format!("slice-{c:06}"),
            "seed": sub,
            "field": field,
            "rows": rows,
            "windows": windows,
            "backend": backend,
            "batch": batch,
        }));
    }
    out
}

// ------------------------------------------------------------------------------------------------ exec

/// run `f` under catch_unwind; a panic becomes `Err("panic: …")`
fn guarded<T>(f: impl FnOnce() -> Result<T, String>) -> Result<T, String> {
    let mut slot: Option<Result<T, String>> = None;
    let o = outcome::run(|| -> Result<Value, String> {
        slot = Some(f());
        Ok(Value::Null)
    });
    match slot {
        Some(r) => r,
        None => Err(format!("panic: {}", o["panic"].as_str().unwrap_or(""))),
    }
}

fn view_or_err<'a, E: std::fmt::Display>(f: impl FnOnce() -> Result<marrow::view::View<'a>, E>) -> Value {
    match guarded(|| f().map(|v| view_to_json(&v)).map_err(|e| e.to_string())) {
        Ok(v) => v,
        Err(e) => json!({ "err": e }),
    }
}

fn read_items(de: &serde_arrow::Deserializer<'_>, len: usize, ty: &Value) -> Vec<Value> {
    (0..len).map(|i| outcome::run(|| Target(ty).deserialize(de.get(i).expect("Deserializer::get(i) for i < len")))).collect()
}

/// the record target a user would naturally write for the one-column batch: `struct R { <name>: T }`
fn typed_target(fieldj: &Value) -> Value {
    json!({"struct": [[fieldj["name"], crate::wiregen::natural_target(fieldj)]]})
}

/// the natural target without any `Option` layer, addressed as `(T,)`: null rows make the read fail
fn strict_target(fieldj: &Value) -> Value {
    fn strip_all(ty: &Value) -> Value {
        match ty {
            Value::Object(m) if m.contains_key("option") => strip_all(&m["option"]),
            Value::Object(m) => Value::Object(m.iter().map(|(k, v)| (k.clone(), strip_all(v))).collect()),
            Value::Array(a) => Value::Array(a.iter().map(strip_all).collect()),
            v => v.clone(),
        }
    }
    json!({"tuple": [strip_all(&crate::wiregen::natural_target(fieldj))]})
}

/// item-wise reads of every row into the record target `ty` (`"any"`: `deserialize_any`)
fn items_arrow(field: &arrow_schema::FieldRef, arr: &arrow_array::ArrayRef, ty: &Value) -> Vec<Value> {
    let fields = [field.clone()];
    let arrays = [arr.clone()];
    let mut slot = None;
    let ctor = outcome::run(|| {
        let de = serde_arrow::Deserializer::from_arrow(&fields, &arrays)?;
        let n = de.len();
        slot = Some(de);
        Ok::<Value, serde_arrow::Error>(json!(n))
    });
    match slot {
        Some(de) => read_items(&de, arrays[0].len(), ty),
        None => vec![json!({ "ctor": ctor })],
    }
}

/// `Vec<R>::deserialize(Deserializer::from_arrow(..))`: the bulk path of `from_arrow` / `from_record_batch`
fn bulk_arrow(field: &arrow_schema::FieldRef, arr: &arrow_array::ArrayRef, ty: &Value) -> Value {
    let fields = [field.clone()];
    let arrays = [arr.clone()];
    let seq = json!({ "seq": ty });
    outcome::run(|| {
        let de = serde_arrow::Deserializer::from_arrow(&fields, &arrays)?;
        Target(&seq).deserialize(de)
    })
}

fn items_arrow2(field: &arrow2::datatypes::Field, arr: &Box<dyn arrow2::array::Array>, ty: &Value) -> Vec<Value> {
    let fields = [field.clone()];
    let arrays = [arr.clone()];
    let mut slot = None;
    let ctor = outcome::run(|| {
        let de = serde_arrow::Deserializer::from_arrow2(&fields, &arrays)?;
        let n = de.len();
        slot = Some(de);
        Ok::<Value, serde_arrow::Error>(json!(n))
    });
    match slot {
        Some(de) => read_items(&de, arrays[0].len(), ty),
        None => vec![json!({ "ctor": ctor })],
    }
}

fn bulk_arrow2(field: &arrow2::datatypes::Field, arr: &Box<dyn arrow2::array::Array>, ty: &Value) -> Value {
    let fields = [field.clone()];
    let arrays = [arr.clone()];
    let seq = json!({ "seq": ty });
    outcome::run(|| {
        let de = serde_arrow::Deserializer::from_arrow2(&fields, &arrays)?;
        Target(&seq).deserialize(de)
    })
}

fn windows_of(input: &Value) -> Vec<(usize, usize)> {
    input["windows"].as_array().unwrap().iter().map(|w| (w[0].as_u64().unwrap() as usize, w[1].as_u64().unwrap() as usize)).collect()
}

fn direct_equal(whole: &[Value], slice: &[Value], o: usize, l: usize) -> bool {
    let ctor_failed = |xs: &[Value]| xs.len() == 1 && xs[0].get("ctor").is_some();
    if ctor_failed(whole) || ctor_failed(slice) {
        return whole == slice;
    }
    o + l <= whole.len() && slice == &whole[o..o + l]
}

struct Results {
    whole_view: Value,
    slice_views: Vec<Value>,
    whole_items: Vec<Value>,
    slice_items: Vec<Value>,
    typed_ty: Value,
    whole_typed: Vec<Value>,
    slice_typed: Vec<Value>,
    whole_bulk: Value,
    slice_bulk: Value,
    strict_ty: Value,
    whole_strict: Vec<Value>,
    slice_strict: Vec<Value>,
    whole_strict_bulk: Value,
    slice_strict_bulk: Value,
    oracle_whole: Value,
    oracle_slice: Value,
}

fn exec_arrow(input: &Value) -> Result<Results, String> {
    use arrow_array::{Array, ArrayRef, Int32Array, RecordBatch};
    let fieldj = &input["field"];
    let rows = input["rows"].as_array().unwrap();
    let windows = windows_of(input);
    let whole: ArrayRef = guarded(|| arrowsrc::build_arrow(fieldj, rows))?;
    let field: arrow_schema::FieldRef = Arc::new(arrowsrc::arrow_field(fieldj));

    // the chain of slices
    let chain: Vec<ArrayRef> = guarded(|| {
        let mut out = Vec::new();
        if input["batch"].as_bool().unwrap_or(false) {
            let second: ArrayRef = Arc::new(Int32Array::from((0..whole.len() as i32).collect::<Vec<_>>()));
            let schema = Arc::new(arrow_schema::Schema::new(vec![field.clone(), Arc::new(arrow_schema::Field::new("idx", arrow_schema::DataType::Int32, false))]));
            let mut rb = RecordBatch::try_new(schema, vec![whole.clone(), second]).map_err(|e| e.to_string())?;
            for (o, l) in &windows {
                rb = rb.slice(*o, *l);
                out.push(rb.column(0).clone());
            }
        } else {
            let mut cur = whole.clone();
            for (o, l) in &windows {
                cur = cur.slice(*o, *l);
                out.push(cur.clone());
            }
        }
        Ok(out)
    })?;
    let last = chain.last().cloned().unwrap_or_else(|| whole.clone());

    let whole_view = view_or_err(|| marrow::view::View::try_from(whole.as_ref()));
    let slice_views = chain.iter().map(|a| view_or_err(|| marrow::view::View::try_from(a.as_ref()))).collect();
    let any = json!("any");
    let typed_ty = typed_target(fieldj);
    let whole_items = items_arrow(&field, &whole, &any);
    let slice_items = items_arrow(&field, &last, &any);
    let whole_typed = items_arrow(&field, &whole, &typed_ty);
    let slice_typed = items_arrow(&field, &last, &typed_ty);
    let whole_bulk = bulk_arrow(&field, &whole, &typed_ty);
    let slice_bulk = bulk_arrow(&field, &last, &typed_ty);
    let strict_ty = strict_target(fieldj);
    let whole_strict = items_arrow(&field, &whole, &strict_ty);
    let slice_strict = items_arrow(&field, &last, &strict_ty);
    let whole_strict_bulk = bulk_arrow(&field, &whole, &strict_ty);
    let slice_strict_bulk = bulk_arrow(&field, &last, &strict_ty);
    let oracle = |a: &ArrayRef| match guarded(|| Ok(arrowsrc::arrow_oracle(a.as_ref()))) {
        Ok(v) => Value::Array(v),
        Err(e) => json!({ "err": e }),
    };
    Ok(Results {
        whole_view,
        slice_views,
        whole_items,
        slice_items,
        typed_ty,
        whole_typed,
        slice_typed,
        whole_bulk,
        slice_bulk,
        strict_ty,
        whole_strict,
        slice_strict,
        whole_strict_bulk,
        slice_strict_bulk,
        oracle_whole: oracle(&whole),
        oracle_slice: oracle(&last),
    })
}

fn exec_arrow2(input: &Value) -> Result<Results, String> {
    use arrow2::array::Array;
    let fieldj = &input["field"];
    let rows = input["rows"].as_array().unwrap();
    let windows = windows_of(input);
    let whole: Box<dyn Array> = guarded(|| arrowsrc::build_arrow2(fieldj, rows))?;
    let field = arrowsrc::arrow2_field(fieldj)?;
    let chain: Vec<Box<dyn Array>> = guarded(|| {
        let mut out = Vec::new();
        let mut cur = whole.clone();
        for (o, l) in &windows {
            cur = cur.sliced(*o, *l);
            out.push(cur.clone());
        }
        Ok(out)
    })?;
    let last = chain.last().cloned().unwrap_or_else(|| whole.clone());
    let whole_view = view_or_err(|| marrow::view::View::try_from(whole.as_ref()));
    let slice_views = chain.iter().map(|a| view_or_err(|| marrow::view::View::try_from(a.as_ref()))).collect();
    let any = json!("any");
    let typed_ty = typed_target(fieldj);
    let whole_items = items_arrow2(&field, &whole, &any);
    let slice_items = items_arrow2(&field, &last, &any);
    let whole_typed = items_arrow2(&field, &whole, &typed_ty);
    let slice_typed = items_arrow2(&field, &last, &typed_ty);
    let whole_bulk = bulk_arrow2(&field, &whole, &typed_ty);
    let slice_bulk = bulk_arrow2(&field, &last, &typed_ty);
    let strict_ty = strict_target(fieldj);
    let whole_strict = items_arrow2(&field, &whole, &strict_ty);
    let slice_strict = items_arrow2(&field, &last, &strict_ty);
    let whole_strict_bulk = bulk_arrow2(&field, &whole, &strict_ty);
    let slice_strict_bulk = bulk_arrow2(&field, &last, &strict_ty);
    Ok(Results {
        whole_view,
        slice_views,
        whole_items,
        slice_items,
        typed_ty,
        whole_typed,
        slice_typed,
        whole_bulk,
        slice_bulk,
        strict_ty,
        whole_strict,
        slice_strict,
        whole_strict_bulk,
        slice_strict_bulk,
        oracle_whole: Value::Null,
        oracle_slice: Value::Null,
    })
}

pub fn exec(input: &Value) -> Value {
    let mut case = input.clone();
    let windows = windows_of(input);
    let abs_o: usize = windows.iter().map(|w| w.0).sum();
    let abs_l: usize = windows.last().map(|w| w.1).unwrap_or_else(|| input["rows"].as_array().map(|r| r.len()).unwrap_or(0));
    let res = match catch_unwind(AssertUnwindSafe(|| {
        if input["backend"].as_str() == Some("arrow2") {
            exec_arrow2(input)
        } else {
            exec_arrow(input)
        }
    })) {
        Ok(r) => r,
        Err(_) => Err("panic outside of the guarded sections".to_string()),
    };
    let obj = case.as_object_mut().unwrap();
    obj.insert("window".into(), json!([abs_o, abs_l]));
    match res {
        Err(e) => {
            obj.insert("build_err".into(), json!(e));
        }
        Ok(r) => {
            let eq = direct_equal(&r.whole_items, &r.slice_items, abs_o, abs_l);
            obj.insert("whole_view".into(), r.whole_view);
            obj.insert("slice_views".into(), Value::Array(r.slice_views));
            obj.insert("whole_items".into(), Value::Array(r.whole_items));
            obj.insert("slice_items".into(), Value::Array(r.slice_items));
            obj.insert("typed_ty".into(), r.typed_ty);
            obj.insert("whole_typed".into(), Value::Array(r.whole_typed));
            obj.insert("slice_typed".into(), Value::Array(r.slice_typed));
            obj.insert("whole_typed_bulk".into(), r.whole_bulk);
            obj.insert("slice_typed_bulk".into(), r.slice_bulk);
            obj.insert("strict_ty".into(), r.strict_ty);
            obj.insert("whole_strict".into(), Value::Array(r.whole_strict));
            obj.insert("slice_strict".into(), Value::Array(r.slice_strict));
            obj.insert("whole_strict_bulk".into(), r.whole_strict_bulk);
            obj.insert("slice_strict_bulk".into(), r.slice_strict_bulk);
            obj.insert("oracle_whole".into(), r.oracle_whole);
            obj.insert("oracle_slice".into(), r.oracle_slice);
            obj.insert("direct_equal".into(), json!(eq));
        }
    }
    case
}
