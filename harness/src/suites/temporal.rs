//! suite `temporal` (C14): date / time / timestamp / duration conversions through REAL columns.
//!
//! One case = one column (`col`: type, unit, tz) and a list of independent `steps`:
//!   {"w":"str","v":"…"}            write one string item with `to_marrow`, report the stored integer,
//!                                  then read that array back as a String (`back`)
//!   {"w":"i8"|…|"u64","v":n}       write one integer item (u64 above i64::MAX travels as string)
//!   {"r":"str","v":n}              hand-made marrow view holding n, read as String with `from_marrow`
//!   {"r":"i32"|"i64","v":n}        the same, read as integer
//!   {"cal":[y,m,d]}                calendar probe (Date32 / Date64 columns): chrono's TYPED calendar on the triple —
//!                                  `from_ymd_opt` (valid?), `leap_year`, day difference to 1970-01-01, `succ_opt`,
//!                                  `pred_opt` and the day difference of the successor — and the date and its
//!                                  successor written as strings through the column (stored integers).  The driver
//!                                  compares with the independent calendar `SaModel/Spec/Calendar.lean`
//!                                  (`valid`, `isLeap`, `nextDay`, `prevDay`, `dayNumber`).
//! Every string the crate consumed or produced is also given to two independent oracles
//! (chrono typed values, jiff typed values); they report calendar-free typed values
//! (days / (secs, nanos) / total nanoseconds), the driver does the unit arithmetic itself.
use crate::outcome;
use crate::rng::Rng;
use crate::Ctx;
use marrow::array::{Array, PrimitiveArray, TimeArray, TimestampArray};
use marrow::datatypes::{DataType, Field, TimeUnit};
use serde::{Deserialize, Serialize};
use serde_json::{json, Value};
use std::str::FromStr;

#[derive(Serialize)]
struct W<T> {
    c: T,
}
#[derive(Deserialize)]
struct RS {
    c: String,
}
#[derive(Deserialize)]
struct RI64 {
    c: i64,
}
#[derive(Deserialize)]
struct RI32 {
    c: i32,
}

fn unit_of(s: &str) -> TimeUnit {
    match s {
        "s" => TimeUnit::Second,
        "ms" => TimeUnit::Millisecond,
        "us" => TimeUnit::Microsecond,
        _ => TimeUnit::Nanosecond,
    }
}

fn data_type(col: &Value) -> DataType {
    let unit = col["unit"].as_str().map(unit_of);
    let tz = col["tz"].as_str().map(|s| s.to_string());
    match col["t"].as_str().unwrap() {
        "Date32" => DataType::Date32,
        "Date64" => DataType::Date64,
        "Time32" => DataType::Time32(unit.unwrap()),
        "Time64" => DataType::Time64(unit.unwrap()),
        "Timestamp" => DataType::Timestamp(unit.unwrap(), tz),
        _ => DataType::Duration(unit.unwrap()),
    }
}

fn field(col: &Value) -> Field {
    Field { name: "c".into(), data_type: data_type(col), nullable: false, metadata: Default::default() }
}

fn array_of(col: &Value, v: i64) -> Array {
    let unit = col["unit"].as_str().map(unit_of);
    let tz = col["tz"].as_str().map(|s| s.to_string());
    match col["t"].as_str().unwrap() {
        "Date32" => Array::Date32(PrimitiveArray { validity: None, values: vec![v as i32] }),
        "Date64" => Array::Date64(PrimitiveArray { validity: None, values: vec![v] }),
        "Time32" => Array::Time32(TimeArray { unit: unit.unwrap(), validity: None, values: vec![v as i32] }),
        "Time64" => Array::Time64(TimeArray { unit: unit.unwrap(), validity: None, values: vec![v] }),
        "Timestamp" => Array::Timestamp(TimestampArray { unit: unit.unwrap(), timezone: tz, validity: None, values: vec![v] }),
        _ => Array::Duration(TimeArray { unit: unit.unwrap(), validity: None, values: vec![v] }),
    }
}

fn stored(arr: &Array) -> Value {
    let (len, v): (usize, Option<i64>) = match arr {
        Array::Date32(a) => (a.values.len(), a.values.first().map(|x| *x as i64)),
        Array::Date64(a) => (a.values.len(), a.values.first().copied()),
        Array::Time32(a) => (a.values.len(), a.values.first().map(|x| *x as i64)),
        Array::Time64(a) => (a.values.len(), a.values.first().copied()),
        Array::Timestamp(a) => (a.values.len(), a.values.first().copied()),
        Array::Duration(a) => (a.values.len(), a.values.first().copied()),
        _ => (usize::MAX, None),
    };
    match (len, v) {
        (1, Some(v)) => json!(v),
        _ => json!({"unexpected_array": format!("{arr:?}")}),
    }
}

fn read_str(col: &Value, arr: &Array) -> Value {
    let f = field(col);
    outcome::run(|| {
        let view = arr.as_view();
        let rows: Vec<RS> = serde_arrow::from_marrow(&[f], &[view])?;
        Ok::<Value, serde_arrow::Error>(match rows.as_slice() {
            [r] => json!(r.c),
            _ => json!({"rows": rows.len()}),
        })
    })
}

fn read_int(col: &Value, arr: &Array, kind: &str) -> Value {
    let f = field(col);
    outcome::run(|| {
        let view = arr.as_view();
        Ok::<Value, serde_arrow::Error>(if kind == "i32" {
            let rows: Vec<RI32> = serde_arrow::from_marrow(&[f], &[view])?;
            json!(rows.iter().map(|r| r.c as i64).collect::<Vec<_>>())
        } else {
            let rows: Vec<RI64> = serde_arrow::from_marrow(&[f], &[view])?;
            json!(rows.iter().map(|r| r.c).collect::<Vec<_>>())
        })
    })
}

fn write_item<T: Serialize>(col: &Value, v: T) -> (Value, Option<Array>) {
    let f = field(col);
    let mut arr_out = None;
    let out = outcome::run(|| {
        let mut arrays = serde_arrow::to_marrow(&[f], &[W { c: v }])?;
        let arr = arrays.pop();
        let r = match &arr {
            Some(a) if arrays.is_empty() => stored(a),
            _ => json!({"unexpected_arrays": arrays.len()}),
        };
        arr_out = arr;
        Ok::<Value, serde_arrow::Error>(r)
    });
    (out, arr_out)
}

// ------------------------------------------------------------------------------------------ oracles

fn i128s(v: i128) -> Value {
    json!(v.to_string())
}

/// chrono's typed reading of `s` for this column kind; null when chrono rejects it
fn chrono_oracle(col: &Value, s: &str) -> Value {
    use chrono::{DateTime, NaiveDate, NaiveDateTime, NaiveTime, Timelike, Utc};
    let r = std::panic::catch_unwind(|| match col["t"].as_str().unwrap() {
        "Date32" | "Date64" => match NaiveDate::from_str(s) {
            Ok(d) => {
                let epoch = NaiveDate::from_ymd_opt(1970, 1, 1).unwrap();
                json!({"days": d.signed_duration_since(epoch).num_days()})
            }
            Err(_) => Value::Null,
        },
        "Time32" | "Time64" => match NaiveTime::from_str(s) {
            Ok(t) => json!({"secs": t.num_seconds_from_midnight(), "nanos": t.nanosecond()}),
            Err(_) => Value::Null,
        },
        "Timestamp" => {
            let utc = col["tz"].is_string();
            let dt = if utc { DateTime::<Utc>::from_str(s).ok().map(|d| d.naive_utc()) } else { NaiveDateTime::from_str(s).ok() };
            match dt {
                Some(dt) => json!({"secs": dt.and_utc().timestamp(), "nanos": dt.and_utc().timestamp_subsec_nanos()}),
                None => Value::Null,
            }
        }
        _ => Value::Null,
    });
    r.unwrap_or(json!({"oracle_panic": true}))
}

/// jiff's typed reading of `s`; null when jiff rejects it (narrower year range, stricter grammar)
fn jiff_oracle(col: &Value, s: &str) -> Value {
    let r = std::panic::catch_unwind(|| match col["t"].as_str().unwrap() {
        "Date32" | "Date64" => match jiff::civil::Date::from_str(s) {
            Ok(d) => {
                let epoch = jiff::civil::date(1970, 1, 1);
                match epoch.until((jiff::Unit::Day, d)) {
                    Ok(span) => json!({"days": span.get_days()}),
                    Err(_) => Value::Null,
                }
            }
            Err(_) => Value::Null,
        },
        "Time32" | "Time64" => match jiff::civil::Time::from_str(s) {
            Ok(t) => json!({"secs": (t.hour() as i64) * 3600 + (t.minute() as i64) * 60 + t.second() as i64, "nanos": t.subsec_nanosecond()}),
            Err(_) => Value::Null,
        },
        "Timestamp" => {
            let utc = col["tz"].is_string();
            let ts = if utc {
                jiff::Timestamp::from_str(s).ok()
            } else {
                jiff::civil::DateTime::from_str(s).ok().and_then(|dt| dt.to_zoned(jiff::tz::TimeZone::UTC).ok()).map(|z| z.timestamp())
            };
            match ts {
                Some(ts) => json!({"ns": i128s(ts.as_nanosecond())}),
                None => Value::Null,
            }
        }
        _ => match jiff::SignedDuration::from_str(s) {
            Ok(d) => json!({"ns": i128s(d.as_nanos())}),
            // jiff saturates / limits large span components: use `Span` only when every digit run is short
            Err(_) if s.split(|c: char| !c.is_ascii_digit()).any(|run| run.len() > 6) => Value::Null,
            Err(_) => match jiff::Span::from_str(s) {
                // calendar-free spans only (weeks/days count as 7 d / 24 h as in the crate)
                Ok(sp) if sp.get_years() == 0 && sp.get_months() == 0 => {
                    let ns = (sp.get_weeks() as i128 * 7 * 86400 + sp.get_days() as i128 * 86400 + sp.get_hours() as i128 * 3600 + sp.get_minutes() as i128 * 60 + sp.get_seconds() as i128)
                        * 1_000_000_000
                        + sp.get_milliseconds() as i128 * 1_000_000
                        + sp.get_microseconds() as i128 * 1_000
                        + sp.get_nanoseconds() as i128;
                    json!({"ns": i128s(ns)})
                }
                _ => Value::Null,
            },
        },
    });
    r.unwrap_or(json!({"oracle_panic": true}))
}

fn oracles(col: &Value, s: &str) -> Value {
    json!({"chrono": chrono_oracle(col, s), "jiff": jiff_oracle(col, s)})
}

// ------------------------------------------------------------------------------------------ exec

fn parse_i128(v: &Value) -> i128 {
    match v {
        Value::String(s) => s.parse().unwrap_or(0),
        _ => v.as_i64().map(|x| x as i128).or(v.as_u64().map(|x| x as i128)).unwrap_or(0),
    }
}

/// chrono's typed calendar on a (year, month, day) triple, and the date / its successor through the column
fn cal_step(col: &Value, step: &Value) -> Value {
    use chrono::{Datelike, NaiveDate};
    let get = |i: usize| step["cal"].get(i).and_then(|v| v.as_i64()).unwrap_or(0);
    let (y, m, d) = (get(0), get(1), get(2));
    let r = std::panic::catch_unwind(|| {
        let epoch = NaiveDate::from_ymd_opt(1970, 1, 1).unwrap();
        let ymd = |x: NaiveDate| json!([x.year(), x.month(), x.day()]);
        let days = |x: NaiveDate| x.signed_duration_since(epoch).num_days();
        let y32 = i32::try_from(y).ok();
        let date = match (y32, u32::try_from(m).ok(), u32::try_from(d).ok()) {
            (Some(y), Some(m), Some(d)) => NaiveDate::from_ymd_opt(y, m, d),
            _ => None,
        };
        let mut res = json!({"valid": date.is_some()});
        res["leap"] = json!(y32.and_then(|y| NaiveDate::from_ymd_opt(y, 1, 1)).map(|x| x.leap_year()));
        if let Some(dt) = date {
            res["days"] = json!(days(dt));
            let succ = dt.succ_opt();
            let pred = dt.pred_opt();
            res["succ"] = json!(succ.map(ymd));
            res["succ_days"] = json!(succ.map(days));
            res["pred"] = json!(pred.map(ymd));
            res["pred_days"] = json!(pred.map(days));
            let s = fmt_date(y, m, d, 0);
            res["out"] = write_item(col, s.as_str()).0;
            res["s"] = json!(s);
            if let Some(sd) = succ {
                let s = fmt_date(sd.year() as i64, sd.month() as i64, sd.day() as i64, 0);
                res["out_succ"] = write_item(col, s.as_str()).0;
                res["s_succ"] = json!(s);
            }
        }
        res
    });
    r.unwrap_or(json!({"oracle_panic": true}))
}

fn exec_step(col: &Value, step: &Value) -> Value {
    if step.get("cal").is_some() {
        return cal_step(col, step);
    }
    if let Some(kind) = step["w"].as_str() {
        let (out, arr) = match kind {
            "str" => write_item(col, step["v"].as_str().unwrap_or("")),
            "i8" => write_item(col, parse_i128(&step["v"]) as i8),
            "i16" => write_item(col, parse_i128(&step["v"]) as i16),
            "i32" => write_item(col, parse_i128(&step["v"]) as i32),
            "i64" => write_item(col, parse_i128(&step["v"]) as i64),
            "u8" => write_item(col, parse_i128(&step["v"]) as u8),
            "u16" => write_item(col, parse_i128(&step["v"]) as u16),
            "u32" => write_item(col, parse_i128(&step["v"]) as u32),
            _ => write_item(col, parse_i128(&step["v"]) as u64),
        };
        let mut res = json!({"out": out});
        if kind == "str" {
            res["oracle_in"] = oracles(col, step["v"].as_str().unwrap_or(""));
        }
        if let Some(arr) = arr {
            let back = read_str(col, &arr);
            if let Some(s) = back.get("ok").and_then(|s| s.as_str()) {
                res["oracle_back"] = oracles(col, s);
            }
            res["back"] = back;
        }
        res
    } else {
        let kind = step["r"].as_str().unwrap_or("str");
        let v = parse_i128(&step["v"]) as i64;
        let arr = array_of(col, v);
        if kind == "str" {
            let out = read_str(col, &arr);
            let mut res = json!({});
            if let Some(s) = out.get("ok").and_then(|s| s.as_str()) {
                res["oracle_back"] = oracles(col, s);
            }
            res["out"] = out;
            res
        } else {
            json!({"out": read_int(col, &arr, kind)})
        }
    }
}

pub fn exec(input: &Value) -> Value {
    let col = &input["col"];
    let mut outs = Vec::new();
    // is the column itself accepted by builder / reader?  (tz detection, unit/width pairing)
    let (b, _) = write_item(col, 0i64);
    let reader = read_int(col, &array_of(col, 0), "i64");
    for step in input["steps"].as_array().map(|v| v.as_slice()).unwrap_or(&[]) {
        outs.push(exec_step(col, step));
    }
    let mut case = input.clone();
    let obj = case.as_object_mut().unwrap();
    obj.insert("builder_probe".into(), b);
    obj.insert("reader_probe".into(), reader);
    obj.insert("impl".into(), Value::Array(outs));
    case
}

// ------------------------------------------------------------------------------------------ generators

const UNITS: [&str; 4] = ["s", "ms", "us", "ns"];

fn ns_per(unit: &str) -> i128 {
    match unit {
        "s" => 1_000_000_000,
        "ms" => 1_000_000,
        "us" => 1_000,
        _ => 1,
    }
}

fn cols_all() -> Vec<Value> {
    let mut v = vec![json!({"t": "Date32"}), json!({"t": "Date64"})];
    for u in ["s", "ms"] {
        v.push(json!({"t": "Time32", "unit": u}));
    }
    for u in ["us", "ns"] {
        v.push(json!({"t": "Time64", "unit": u}));
    }
    for u in UNITS {
        v.push(json!({"t": "Duration", "unit": u}));
        for tz in [Value::Null, json!("UTC"), json!("utc"), json!("Utc")] {
            v.push(json!({"t": "Timestamp", "unit": u, "tz": tz}));
        }
    }
    v
}

/// Hinnant: days since 1970-01-01 of a proleptic Gregorian civil date
fn days_from_civil(y: i64, m: i64, d: i64) -> i64 {
    let y = if m <= 2 { y - 1 } else { y };
    let era = y.div_euclid(400);
    let yoe = y - era * 400;
    let mp = (m + 9) % 12;
    let doy = (153 * mp + 2) / 5 + d - 1;
    let doe = yoe * 365 + yoe / 4 - yoe / 100 + doy;
    era * 146097 + doe - 719468
}

fn civil_from_days(z: i64) -> (i64, i64, i64) {
    let z = z + 719468;
    let era = z.div_euclid(146097);
    let doe = z - era * 146097;
    let yoe = (doe - doe / 1460 + doe / 36524 - doe / 146096) / 365;
    let y = yoe + era * 400;
    let doy = doe - (365 * yoe + yoe / 4 - yoe / 100);
    let mp = (5 * doy + 2) / 153;
    let d = doy - (153 * mp + 2) / 5 + 1;
    let m = if mp < 10 { mp + 3 } else { mp - 9 };
    (if m <= 2 { y + 1 } else { y }, m, d)
}

fn fmt_year(y: i64, style: u64) -> String {
    // chrono: more than four digits need a sign; the crate's own negative form is -YYYYYY
    if y < 0 {
        match style % 3 {
            0 => format!("-{:06}", -y),
            1 => format!("-{:04}", -y),
            _ => format!("-{}", -y),
        }
    } else if y > 9999 {
        format!("+{y}")
    } else {
        match style % 4 {
            0 | 1 => format!("{y:04}"),
            2 => format!("+{y:04}"),
            _ => format!("+{y:06}"),
        }
    }
}

fn fmt_date(y: i64, m: i64, d: i64, style: u64) -> String {
    if style % 7 == 6 {
        format!("{}-{}-{}", fmt_year(y, style / 7), m, d)
    } else {
        format!("{}-{:02}-{:02}", fmt_year(y, style / 7), m, d)
    }
}

fn frac(nanos: u64, digits: usize) -> String {
    // `digits` sub-second digits of the 9-digit nanosecond field, zero-extended beyond 9
    if digits == 0 {
        return String::new();
    }
    let nine = format!("{nanos:09}");
    let mut s = String::from(".");
    for i in 0..digits {
        s.push(nine.as_bytes().get(i).map(|b| *b as char).unwrap_or(if i % 5 == 0 { '7' } else { '0' }));
    }
    s
}

fn fmt_time(h: u64, mi: u64, s: u64, nanos: u64, digits: usize) -> String {
    format!("{h:02}:{mi:02}:{s:02}{}", frac(nanos, digits))
}

const DIGIT_COUNTS: [usize; 15] = [0, 1, 2, 3, 4, 5, 6, 7, 8, 9, 10, 11, 12, 20, 30];

fn boundary_days() -> Vec<i64> {
    let mut v = vec![0, 1, -1, 365, -365, 11016, 19000];
    for (y, m, d) in [
        (0, 1, 1), (0, 12, 31), (-1, 12, 31), (-1, 1, 1), (1, 1, 1), (9999, 12, 31), (10000, 1, 1), (-9999, 1, 1), (-10000, 12, 31),
        (2000, 2, 29), (1900, 2, 28), (1900, 3, 1), (2100, 2, 28), (2024, 2, 29), (1600, 2, 29), (-4, 2, 29), (-400, 2, 29),
        (1677, 9, 21), (1677, 9, 20), (2262, 4, 11), (2262, 4, 12), (262142, 12, 31), (-262143, 1, 1), (262143, 1, 1), (-262144, 12, 31),
        (1969, 12, 31), (1970, 1, 2), (1972, 6, 30), (2016, 12, 31),
    ] {
        v.push(days_from_civil(y, m, d));
    }
    v
}

fn random_day(r: &mut Rng) -> i64 {
    match r.below(6) {
        0 => *r.pick(&boundary_days()),
        1 => r.range(-800_000, 3_000_000),                 // years -220 .. 10000
        2 => r.range(-95_000_000, 95_000_000),             // chrono's whole range
        3 => r.range(-4_500_000, -700_000),                // negative years within jiff's range
        _ => r.range(-30_000, 40_000),
    }
}

fn random_tod(r: &mut Rng) -> (u64, u64, u64, u64) {
    match r.below(8) {
        0 => (0, 0, 0, 0),
        1 => (23, 59, 59, 999_999_999),
        2 => (23, 59, 59, 0),
        3 => (0, 0, 0, 1),
        4 => (12, 0, 0, 500_000_000),
        _ => {
            let nanos = match r.below(4) {
                0 => 0,
                1 => r.below(1000) * 1_000_000,
                2 => r.below(1_000_000) * 1000,
                _ => r.below(1_000_000_000),
            };
            (r.below(24), r.below(60), r.below(60), nanos)
        }
    }
}

fn junk(r: &mut Rng, base: &str) -> String {
    let mut s: Vec<char> = base.chars().collect();
    match r.below(9) {
        0 => String::new(),
        1 => format!(" {base}"),
        2 => format!("{base} "),
        3 => format!("{base}x"),
        4 => {
            if !s.is_empty() {
                let i = r.usize(s.len());
                s.remove(i);
            }
            s.into_iter().collect()
        }
        5 => {
            if !s.is_empty() {
                let i = r.usize(s.len());
                s[i] = *r.pick(&['x', '-', ':', '.', 'T', '9', ' ', 'é', '+', 'P', 's']);
            }
            s.into_iter().collect()
        }
        6 => {
            let i = r.usize(s.len() + 1);
            s.insert(i, *r.pick(&['0', '1', '-', ':', '.', 'T', 'Z', ' ']));
            s.into_iter().collect()
        }
        7 => r.pick(&["foo", "P", "-", "+", "T", ":", "1", "--", "١٢:٠٠:٠٠", "0000-00-00", "24:00:00", "2021-02-29", "2021-13-01", "12:60:00", "12:00:61"]).to_string(),
        _ => base.to_uppercase(),
    }
}

fn write_strings(r: &mut Rng, col: &Value, n: usize) -> Vec<Value> {
    let t = col["t"].as_str().unwrap();
    let mut steps = Vec::new();
    for _ in 0..n {
        let malformed = r.chance(15, 100);
        let s = match t {
            "Date32" | "Date64" => {
                let (y, m, d) = civil_from_days(random_day(r));
                fmt_date(y, m, d, r.below(1000))
            }
            "Time32" | "Time64" => {
                let (h, mi, s, ns) = random_tod(r);
                let digits = *r.pick(&DIGIT_COUNTS);
                match r.below(14) {
                    0 => format!("{h:02}:{mi:02}"),
                    1 => format!("{h}:{mi}:{s}{}", frac(ns, digits)),
                    2 => format!("23:59:60{}", frac(ns, digits)),
                    3 => format!("{h:02}:{mi:02}:60{}", frac(ns, digits)),
                    _ => fmt_time(h, mi, s, ns, digits),
                }
            }
            "Timestamp" => {
                let unit = col["unit"].as_str().unwrap();
                let day = if unit == "ns" && r.chance(1, 2) {
                    // around the i64 nanosecond limits
                    *r.pick(&[-106752, -106751, -106753, 106751, 106752, 106750, 0, -1, 1])
                } else {
                    random_day(r)
                };
                let (y, m, d) = civil_from_days(day);
                let (h, mi, s, ns) = if day.abs() >= 106751 && day.abs() <= 106752 && r.chance(1, 2) {
                    // 1677-09-21T00:12:43.145224192 and 2262-04-11T23:47:16.854775807 are the i64 ns limits
                    *r.pick(&[(0, 12, 43, 145_224_192), (0, 12, 43, 145_224_191), (0, 12, 43, 145_224_193), (23, 47, 16, 854_775_807), (23, 47, 16, 854_775_808), (23, 47, 16, 854_775_806), (0, 12, 44, 0), (23, 47, 17, 0)])
                } else {
                    random_tod(r)
                };
                let digits = *r.pick(&DIGIT_COUNTS);
                let sep = *r.pick(&["T", "T", "T", " ", "t"]);
                let suffix = *r.pick(&["", "", "Z", "Z", "+00:00", "+0000", "z", " UTC", "+01:00", "-05:30", "+00", "UTC", "-00:00", "+23:59", "Zx"]);
                let sec = if r.chance(1, 25) { 60 } else { s };
                format!("{}{sep}{}{suffix}", fmt_date(y, m, d, r.below(1000)), fmt_time(h, mi, sec, ns, digits))
            }
            _ => span_string(r),
        };
        let s = if malformed { junk(r, &s) } else { s };
        steps.push(json!({"w": "str", "v": s}));
    }
    steps
}

fn span_string(r: &mut Rng) -> String {
    let mut s = String::new();
    match r.below(10) {
        0 => s.push('-'),
        1 => s.push('+'),
        2 | 3 => s.push('-'),
        _ => {}
    }
    let up = r.bool();
    let d = |c: char, up: bool| if up { c } else { c.to_ascii_lowercase() };
    s.push(d('P', if r.chance(1, 8) { !up } else { up }));
    let num = |r: &mut Rng| -> String {
        match r.below(12) {
            0 => "0".into(),
            1 => "00012".into(),
            2 => r.pick(&["9223372036854775807", "9223372036854775808", "99999999999999999", "18446744073709551616", "15250284452", "15250284453", "106751991167", "106751991168", "2562047788015215", "2562047788015216", "153722867280912930", "153722867280912931", "9223372036", "9223372037", "9223372036854775", "9223372036854776", "9223372036854", "9223372036855"]).to_string(),
            3 => r.below(1_000_000_000_000).to_string(),
            _ => r.below(100).to_string(),
        }
    };
    // year / month rarely (an interval-style span is an error unless zero)
    if r.chance(1, 12) {
        s.push_str(&if r.bool() { "0".to_string() } else { num(r) });
        s.push(d('Y', up));
    }
    if r.chance(1, 12) {
        s.push_str(&if r.bool() { "0".to_string() } else { num(r) });
        s.push(d('M', up));
    }
    if r.chance(1, 3) {
        s.push_str(&num(r));
        s.push(d('W', up));
    }
    if r.chance(1, 3) {
        s.push_str(&num(r));
        s.push(d('D', up));
    }
    if r.chance(4, 5) {
        s.push(d('T', if r.chance(1, 8) { !up } else { up }));
        if r.chance(1, 3) {
            s.push_str(&num(r));
            s.push(d('H', up));
        }
        if r.chance(1, 3) {
            s.push_str(&num(r));
            s.push(d('M', up));
        }
        if r.chance(3, 4) {
            s.push_str(&num(r));
            let digits = *r.pick(&DIGIT_COUNTS);
            let ns = match r.below(4) {
                0 => 854_775_807,
                1 => 854_775_808,
                2 => 999_999_999,
                _ => r.below(1_000_000_000),
            };
            s.push_str(&frac(ns, digits));
            s.push(d('S', up));
        }
    }
    s
}

fn extreme_ints(r: &mut Rng, col: &Value) -> Vec<i64> {
    let t = col["t"].as_str().unwrap();
    let mut v: Vec<i64> = vec![0, 1, -1, i64::MAX, i64::MIN, i64::MAX - 1, i64::MIN + 1, i32::MAX as i64, i32::MIN as i64, i32::MAX as i64 + 1, i32::MIN as i64 - 1];
    let unit = col["unit"].as_str().unwrap_or("ms");
    let per_s = (1_000_000_000 / ns_per(unit)) as i64;
    match t {
        "Date32" => {
            v.extend(boundary_days());
            v.extend([95_026_236, 95_026_237, -96_465_292, -96_465_293, 95_745_595, -95_745_595]);
        }
        "Date64" => {
            for d in boundary_days() {
                v.push(d.saturating_mul(86_400_000));
                v.push(d.saturating_mul(86_400_000).saturating_add(*r.pick(&[1, -1, 86_399_999, 43_200_000])));
            }
            v.extend([95_026_236i64 * 86_400_000, 95_026_237i64 * 86_400_000, -96_465_292i64 * 86_400_000, -96_465_293i64 * 86_400_000, i64::MAX / 86_400_000 * 86_400_000]);
        }
        "Time32" | "Time64" => {
            v.extend([86_399 * per_s, 86_400 * per_s - 1, 86_400 * per_s, 86_400 * per_s + 1, 86_401 * per_s, -per_s, per_s, per_s - 1, per_s + 1, 2 * 86_400 * per_s, 1_000, 1_000_000, 1_000_000_000, 999, 1_001]);
        }
        "Timestamp" => {
            for d in boundary_days() {
                let s = d.saturating_mul(86_400);
                v.push(s.saturating_mul(per_s));
                v.push(s.saturating_mul(per_s).saturating_sub(1));
                v.push(s.saturating_mul(per_s).saturating_add(1));
            }
            // chrono's DateTime range: -262143-01-01T00:00:00 ..= +262142-12-31T23:59:59.999999999
            let max_s: i64 = 8_210_266_876_799;
            let min_s: i64 = -8_334_601_228_800;
            for s in [max_s, max_s + 1, min_s, min_s - 1] {
                v.push(s.saturating_mul(per_s));
                v.push(s.saturating_mul(per_s).saturating_add(per_s - 1));
                v.push(s.saturating_mul(per_s).saturating_sub(1));
            }
        }
        _ => {
            v.extend([per_s, -per_s, per_s - 1, 1 - per_s, 1_000, -1_000, 999_999_999, -999_999_999, 1_000_000_000, 60 * per_s, -3_600 * per_s]);
        }
    }
    for _ in 0..4 {
        v.push(match r.below(5) {
            4 => r.range(i32::MIN as i64, i32::MAX as i64),
            0 => r.next_u64() as i64,
            1 => r.range(-1_000_000_000_000, 1_000_000_000_000),
            2 => r.range(-100_000, 100_000),
            _ => r.range(0, 86_400) * per_s + r.range(0, per_s - 1),
        });
    }
    v
}

/// values a hand-made view of this column can hold (32-bit columns hold i32)
fn view_ints(r: &mut Rng, col: &Value) -> Vec<i64> {
    let v = extreme_ints(r, col);
    if is32(col) {
        v.into_iter().filter(|x| i32::try_from(*x).is_ok()).collect()
    } else {
        v
    }
}

/// the value of serde kind `kind` that the bits of `v` denote (u64 above i64::MAX travels as string)
fn fit_kind(kind: &str, v: i64) -> Value {
    match kind {
        "i8" => json!(v as i8),
        "i16" => json!(v as i16),
        "i32" => json!(v as i32),
        "u8" => json!(v as u8),
        "u16" => json!(v as u16),
        "u32" => json!(v as u32),
        "u64" => {
            if v < 0 {
                json!((v as u64).to_string())
            } else {
                json!(v)
            }
        }
        _ => json!(v),
    }
}

fn is32(col: &Value) -> bool {
    col["t"] == "Date32" || col["t"] == "Time32"
}

fn gen_case(r: &mut Rng, col: &Value, thorough: bool) -> Vec<Value> {
    let mut steps = Vec::new();
    let k = if thorough { 10 } else { 6 };
    match r.below(10) {
        0..=4 => steps = write_strings(r, col, k),
        5 | 6 => {
            let ints = view_ints(r, col);
            for _ in 0..k {
                steps.push(json!({"r": "str", "v": *r.pick(&ints)}));
            }
        }
        7 => {
            let ints = extreme_ints(r, col);
            for _ in 0..k {
                let kind = *r.pick(&["i64", "i64", "i32", "i8", "i16", "u8", "u16", "u32", "u64"]);
                let v = *r.pick(&ints);
                steps.push(json!({"w": kind, "v": fit_kind(kind, v)}));
            }
        }
        8 => {
            let ints = view_ints(r, col);
            for _ in 0..k {
                steps.push(json!({"r": *r.pick(&["i64", "i32"]), "v": *r.pick(&ints)}));
            }
        }
        _ => {
            steps = write_strings(r, col, k / 2);
            let ints = view_ints(r, col);
            for _ in 0..k / 2 {
                steps.push(json!({"r": "str", "v": *r.pick(&ints)}));
            }
        }
    }
    steps
}

pub fn gen(ctx: &Ctx) -> Vec<Value> {
    let mut rng = Rng::new(ctx.seed);
    let mut out: Vec<Value> = Vec::new();
    let mut push = |r: &Rng, col: Value, steps: Vec<Value>, out: &mut Vec<Value>| {
        let c = out.len();
        out.push(json!({"id": format!("temporal-{c:06}"), "seed": r.0, "col": col, "steps": steps}));
    };
    let cols = cols_all();

    // ---- grid 1: every column × every extreme integer read as string / integer, and written as i64
    for col in &cols {
        let mut r = rng.fork();
        let ints = extreme_ints(&mut r, col);
        let vints = view_ints(&mut r, col);
        for chunk in vints.chunks(8) {
            push(&r, col.clone(), chunk.iter().map(|v| json!({"r": "str", "v": v})).collect(), &mut out);
        }
        push(&r, col.clone(), ints.iter().take(11).map(|v| json!({"w": "i64", "v": v})).collect(), &mut out);
        push(&r, col.clone(), vints.iter().take(11).map(|v| json!({"r": "i64", "v": v})).collect(), &mut out);
        push(&r, col.clone(), vints.iter().take(11).map(|v| json!({"r": "i32", "v": v})).collect(), &mut out);
        for kind in ["i8", "i16", "i32", "u8", "u16", "u32", "u64"] {
            push(&r, col.clone(), ints.iter().take(11).map(|v| json!({"w": kind, "v": fit_kind(kind, *v)})).collect(), &mut out);
        }
    }
    // ---- grid 1b: exhaustive small scope for the crate's own span parser: EVERY string up to length 3 (quick) / 4
    // (thorough) over the designators, two digits, the period, the sign and the time separator, into Duration columns
    {
        let alphabet = ['P', 'T', '1', '9', '.', '-', 'D', 'H', 'S', 'W', 'M'];
        let maxlen = if ctx.thorough() { 4 } else { 3 };
        let mut all: Vec<String> = Vec::new();
        let mut frontier: Vec<String> = vec![String::new()];
        for _ in 0..maxlen {
            let mut next = Vec::new();
            for t in &frontier {
                for c in alphabet {
                    let mut u = t.clone();
                    u.push(c);
                    next.push(u);
                }
            }
            all.extend(next.iter().cloned());
            frontier = next;
        }
        let units: &[&str] = if ctx.thorough() { &["s", "ms", "us", "ns"] } else { &["s", "ns"] };
        for u in units {
            let r = rng.fork();
            for chunk in all.chunks(250) {
                push(&r, json!({"t": "Duration", "unit": u}), chunk.iter().map(|t| json!({"w": "str", "v": t})).collect(), &mut out);
            }
        }
    }
    // ---- grid 2: tz settings, including unsupported ones, and width/unit pairings the builder refuses
    for tz in ["UTC", "utc", "Utc", "uTC", "+00:00", "Z", "", "UTC ", " UTC", "Europe/Berlin", "UTſ", "utç", "GMT", "U T C"] {
        for u in ["s", "ns"] {
            let mut r = rng.fork();
            let col = json!({"t": "Timestamp", "unit": u, "tz": tz});
            push(&r.fork(), col, vec![json!({"w": "str", "v": "2020-01-02T03:04:05Z"}), json!({"w": "str", "v": "2020-01-02T03:04:05"}), json!({"r": "str", "v": 1}), json!({"w": "i64", "v": 5})], &mut out);
        }
    }
    for (t, u) in [("Time32", "us"), ("Time32", "ns"), ("Time64", "s"), ("Time64", "ms")] {
        let r = rng.fork();
        push(&r, json!({"t": t, "unit": u}), vec![json!({"w": "str", "v": "01:02:03.5"}), json!({"r": "str", "v": 3_723_000}), json!({"r": "i64", "v": 7})], &mut out);
    }
    // ---- grid 3: timestamps / times: every unit × tz × boundary day × digit count
    for col in cols.iter().filter(|c| c["t"] == "Timestamp") {
        let utc = col["tz"].is_string();
        for (bi, day) in boundary_days().into_iter().enumerate() {
            let mut r = rng.fork();
            let (y, m, d) = civil_from_days(day);
            let mut steps = Vec::new();
            for (k, digits) in DIGIT_COUNTS.iter().enumerate() {
                if (k + bi) % 3 != 0 {
                    continue;
                }
                let (h, mi, s, ns) = random_tod(&mut r);
                let suffix = if utc { *r.pick(&["Z", "+00:00", "+0000", "z"]) } else { "" };
                let sep = if utc { *r.pick(&["T", " "]) } else { "T" };
                steps.push(json!({"w": "str", "v": format!("{}{sep}{}{suffix}", fmt_date(y, m, d, 0), fmt_time(h, mi, s, ns, *digits))}));
            }
            // the instants one unit before / at / after midnight of that day
            for (h, mi, s, ns, dg) in [(0, 0, 0, 0, 0), (23, 59, 59, 999_999_999, 9), (0, 0, 0, 1, 9), (0, 0, 0, 1_000, 6), (0, 0, 0, 1_000_000, 3)] {
                let suffix = if utc { "Z" } else { "" };
                steps.push(json!({"w": "str", "v": format!("{}T{}{suffix}", fmt_date(y, m, d, 0), fmt_time(h, mi, s, ns, dg))}));
            }
            push(&r, col.clone(), steps, &mut out);
        }
    }
    for col in cols.iter().filter(|c| c["t"] == "Time32" || c["t"] == "Time64") {
        let mut r = rng.fork();
        for (h, mi, s) in [(0, 0, 0), (23, 59, 59), (23, 59, 60), (12, 34, 56), (0, 0, 60), (24, 0, 0), (0, 60, 0)] {
            let steps = DIGIT_COUNTS.iter().map(|dg| json!({"w": "str", "v": fmt_time(h, mi, s, *r.pick(&[999_999_999u64, 123_456_789, 1, 500_000_000, 0]), *dg)})).collect();
            push(&r, col.clone(), steps, &mut out);
        }
    }
    for col in cols.iter().filter(|c| c["t"] == "Date32" || c["t"] == "Date64") {
        let r = rng.fork();
        for (si, chunk) in boundary_days().chunks(6).enumerate() {
            let mut steps = Vec::new();
            for (k, day) in chunk.iter().enumerate() {
                let (y, m, d) = civil_from_days(*day);
                steps.push(json!({"w": "str", "v": fmt_date(y, m, d, (si * 6 + k) as u64 * 7)}));
                steps.push(json!({"w": "str", "v": fmt_date(y, m, d, 0)}));
            }
            push(&r, col.clone(), steps, &mut out);
        }
    }
    // ---- grid 4: spans: every designator subset × case × sign, the i64 limits per unit, digit counts
    for u in UNITS {
        let col = json!({"t": "Duration", "unit": u});
        let r = rng.fork();
        let des = [('Y', "0"), ('M', "0"), ('W', "2"), ('D', "3"), ('H', "4"), ('M', "5"), ('S', "6")];
        let mut steps = Vec::new();
        for mask in 0u32..128 {
            for (sign, lower) in [("", false), ("-", true), ("+", false)] {
                if (mask + sign.len() as u32 + lower as u32) % 3 != 0 && mask != 127 && mask != 0 {
                    continue;
                }
                let mut s = format!("{sign}P");
                for (i, (c, n)) in des.iter().enumerate() {
                    if i == 4 && mask >> 4 != 0 {
                        s.push('T');
                    }
                    if mask >> i & 1 == 1 {
                        s.push_str(n);
                        if *c == 'S' && mask % 5 == 0 {
                            s.push_str(".25");
                        }
                        s.push(*c);
                    }
                }
                let s = if lower { s.to_lowercase() } else { s };
                steps.push(json!({"w": "str", "v": s}));
                if steps.len() == 12 {
                    push(&r, col.clone(), std::mem::take(&mut steps), &mut out);
                }
            }
        }
        // non-zero years / months, order violations, missing parts
        for s in ["P1Y", "P1M", "P0Y0M1D", "P1DT", "PT", "P", "P1D2W", "PT1S1M", "PT1.S", "PT.5S", "PT1.5", "PT1,5S", "P1.5D", "PT1H1.5M", "P-1D", "--P1D", "P1W2DT3H4M5.678S", "pt1s", "Pt1S", "pT1s", "+pt0.000000001s", "PT1M1M", "P1MT1M", "P0MT1M"] {
            steps.push(json!({"w": "str", "v": s}));
        }
        push(&r, col.clone(), std::mem::take(&mut steps), &mut out);
        // limits: ±(i64::MAX, i64::MAX+1, i64::MAX+2) units written in seconds.fraction, and per designator
        let per = ns_per(u);
        for delta in [-1i128, 0, 1, 2] {
            for sign in ["", "-"] {
                let total_units: i128 = i64::MAX as i128 + delta;
                let total_ns = total_units * per;
                let secs = total_ns / 1_000_000_000;
                let sub = (total_ns % 1_000_000_000) as u64;
                for digits in [9usize, 12, 20] {
                    steps.push(json!({"w": "str", "v": format!("{sign}PT{secs}{}S", frac(sub, digits))}));
                }
                steps.push(json!({"w": "str", "v": format!("{sign}PT{}M{}{}S", secs / 60, secs % 60, frac(sub, 9))}));
                steps.push(json!({"w": "str", "v": format!("{sign}P{}W{}DT{}H{}M{}{}S", secs / 604800, secs % 604800 / 86400, secs % 86400 / 3600, secs % 3600 / 60, secs % 60, frac(sub, 9))}));
            }
        }
        push(&r, col.clone(), std::mem::take(&mut steps), &mut out);
        for s in ["P99999999999999999W", "P9223372036854775807W", "P9223372036854775808W", "P15250284452W", "P15250284453W", "P106751991167D", "P106751991168D", "PT2562047788015215H", "PT2562047788015216H", "PT153722867280912930M", "PT153722867280912931M",
                  "PT9223372036854775807S", "PT9223372036854775808S", "-PT9223372036854775808S", "-PT9223372036854775809S", "PT99999999999999999999S", "PT0.99999999999999999999S", "PT1.00000000000000000000S", "P9223372036854775807W9223372036854775807DT9223372036854775807H9223372036854775807M9223372036854775807S",
                  "-PT9223372036.854775808s", "PT9223372036.854775808s", "PT9223372036.854775807s", "-PT9223372036.854775809s", "PT0.12345678901234567890s", "P99999999999999999999Y", "P0Y99999999999999999999M", "PT9223372036854775.808S", "-PT9223372036854775.808S", "PT9223372036854.775808S", "-PT9223372036854.775808S"] {
            steps.push(json!({"w": "str", "v": s}));
        }
        push(&r, col.clone(), std::mem::take(&mut steps), &mut out);
        for digits in DIGIT_COUNTS {
            for sign in ["", "-"] {
                steps.push(json!({"w": "str", "v": format!("{sign}PT1{}S", frac(987_654_321, digits))}));
            }
        }
        push(&r, col.clone(), std::mem::take(&mut steps), &mut out);
    }
    // ---- random structured (+ ≈15 % malformed strings inside write_strings)
    let n = if ctx.thorough() { 40000 } else { 2200 };
    for _ in 0..n {
        let mut r = rng.fork();
        let sub = r.0;
        let col = r.pick(&cols).clone();
        let steps = gen_case(&mut r, &col, ctx.thorough());
        let c = out.len();
        out.push(json!({"id": format!("temporal-{c:06}"), "seed": sub, "col": col, "steps": steps}));
    }
    // ---- grid 5 (appended last: every earlier case keeps its id and seed): the calendar itself.  chrono's typed
    // successor / predecessor / day difference / validity / leap rule against Spec/Calendar.lean, for every month
    // start and month end, Feb 28 / 29 / 30 and nonsense triples, in years of every class mod 4 / 100 / 400, negative
    // years, year 0, and the first / last years of chrono's range (and one year outside on either side)
    {
        let years: [i64; 44] = [
            -262144, -262143, -262142, -10000, -9999, -2000, -401, -400, -399, -101, -100, -99, -5, -4, -3, -1, 0, 1, 4, 100, 400, 1582, 1600,
            1700, 1800, 1900, 1968, 1969, 1970, 1971, 1972, 1999, 2000, 2001, 2023, 2024, 2100, 2400, 9999, 10000, 100000, 262141, 262142, 262143,
        ];
        let mut md: Vec<(i64, i64)> = Vec::new();
        for m in 1..=12 {
            md.extend([(m, 1), (m, 28), (m, 29), (m, 30), (m, 31), (m, 32)]);
        }
        md.extend([(2, 27), (0, 1), (13, 1), (1, 0), (-1, 1), (1, -1), (6, 15)]);
        for (i, y) in years.iter().enumerate() {
            let r = rng.fork();
            let col = if i % 2 == 0 { json!({"t": "Date32"}) } else { json!({"t": "Date64"}) };
            for chunk in md.chunks(40) {
                push(&r, col.clone(), chunk.iter().map(|(m, d)| json!({"cal": [y, m, d]})).collect(), &mut out);
            }
        }
        let n = if ctx.thorough() { 2000 } else { 60 };
        for i in 0..n {
            let mut r = rng.fork();
            let col = if i % 2 == 0 { json!({"t": "Date32"}) } else { json!({"t": "Date64"}) };
            let mut steps = Vec::new();
            for _ in 0..10 {
                let (y, m, d) = civil_from_days(random_day(&mut r));
                // the day itself, the end of its month (by trying 28 … 31), and sometimes an invalid neighbour
                let d = match r.below(6) {
                    0 => 28 + r.below(5) as i64,
                    1 => 1,
                    _ => d,
                };
                let m = if r.chance(1, 20) { r.range(-1, 14) } else { m };
                steps.push(json!({"cal": [y, m, d]}));
            }
            push(&r, col, steps, &mut out);
        }
    }
    out
}
