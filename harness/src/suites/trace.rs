//! suite `trace` (C07, C06, from_samples half of C08): `SchemaLike::from_samples` on the real crate.
//!
//! A case is a list of samples (wire form of `sval.rs`), a full `TracingOptions` setting and a list of
//! re-orderings (`perms`: index lists, permutations and repetitions).  `exec` traces the samples in the given
//! order and in every re-ordering, and (C06) feeds the samples back through `to_marrow` with the traced schema and
//! reads the arrays back with `from_marrow` into a self-describing value.
//!
//! Streams: (1) EXHAUSTIVE leaf table — all ordered pairs over the 25 leaf kinds × the 2^4 coercion-relevant
//! options, and all multisets of size 3 (each traced in all 6 orders) over the 11 kind classes (quick) / all 25
//! kinds (thorough); (2) nested grid (optional, list, struct with missing fields, maps with varying key sets,
//! tuples, partially observed enums, empty lists, struct/map mixtures); (3) random structured; (4) malformed
//! (≈15 %): raw key/value streams, non-string keys, non-sequence top level, variant name clashes, deep nesting.
use crate::outcome;
use crate::rng::Rng;
use crate::schema_dump::field_to_json;
use crate::sval::{self, SVal};
use crate::Ctx;
use marrow::datatypes::Field;
use serde::de::{DeserializeSeed, EnumAccess, MapAccess, SeqAccess, VariantAccess, Visitor};
use serde::Deserialize;
use serde_arrow::schema::{SchemaLike, TracingOptions};
use serde_json::{json, Map, Value};

pub const OPT_KEYS: [&str; 9] = [
    "allow_null_fields",
    "map_as_struct",
    "sequence_as_large_list",
    "strings_as_large_utf8",
    "string_dictionary_encoding",
    "coerce_numbers",
    "allow_to_string",
    "guess_dates",
    "enums_without_data_as_strings",
];

pub fn default_opts() -> Value {
    json!({"allow_null_fields": false, "map_as_struct": true, "sequence_as_large_list": true, "strings_as_large_utf8": true,
           "string_dictionary_encoding": false, "coerce_numbers": false, "allow_to_string": false, "guess_dates": false,
           "enums_without_data_as_strings": false, "from_type_budget": 100, "overwrites": []})
}

/// overwrite fields travel as `[path, {"name":…, "dt": "Int64"|…, "nullable": b}]`, a small fixed vocabulary; `dt` may
/// also be a data type in the wire form of schema_dump.rs (`{"t": "Struct", "fields": […]}`, `{"t": "List" | "LargeList",
/// "child": …}`, leaves) and an optional `"meta": [[k, v]…]` carries the metadata of the overwrite field (tracety)
pub fn overwrite_field_json(f: &Value) -> Value {
    if f["dt"].is_string() && f.get("meta").is_none() {
        return json!({"name": f["name"], "data_type": f["dt"], "nullable": f["nullable"]});
    }
    let dt = if f["dt"].is_string() { json!({"t": f["dt"]}) } else { f["dt"].clone() };
    sa_field_json(&json!({"name": f["name"], "nullable": f["nullable"], "meta": f.get("meta").cloned().unwrap_or(json!([])), "dt": dt}))
}

/// a field in the wire form of schema_dump.rs as the JSON-like value serde_arrow reads a field from
/// (`name`, `data_type`, `nullable`, `metadata`, `children`); leaves, Struct, List and LargeList only
pub fn sa_field_json(f: &Value) -> Value {
    let dt = &f["dt"];
    let t = dt["t"].as_str().expect("data type tag");
    let children: Vec<Value> = match t {
        "Struct" => dt["fields"].as_array().expect("fields").iter().map(sa_field_json).collect(),
        "List" | "LargeList" => vec![sa_field_json(&dt["child"])],
        _ => {
            assert!(dt.as_object().map(|o| o.len()) == Some(1), "harness: overwrite data type {t} has parameters");
            vec![]
        }
    };
    let mut out = json!({"name": f["name"], "data_type": t, "nullable": f["nullable"]});
    if !children.is_empty() || t == "Struct" {
        out["children"] = Value::Array(children);
    }
    let meta = crate::schema_dump::meta_from_json(&f["meta"]);
    if !meta.is_empty() {
        out["metadata"] = json!(meta);
    }
    out
}

/// the same overwrite field as a marrow `Field` value
pub fn overwrite_field_marrow(f: &Value) -> Field {
    Field {
        name: f["name"].as_str().unwrap().to_string(),
        data_type: if f["dt"].is_string() { crate::schema_dump::dt_from_json(&json!({"t": f["dt"]})) } else { crate::schema_dump::dt_from_json(&f["dt"]) },
        nullable: f["nullable"].as_bool().unwrap(),
        metadata: f.get("meta").map(crate::schema_dump::meta_from_json).unwrap_or_default(),
    }
}

pub fn build_opts(o: &Value) -> Result<TracingOptions, serde_arrow::Error> {
    let b = |k: &str| o[k].as_bool().unwrap_or_else(|| default_opts()[k].as_bool().unwrap());
    let mut t = TracingOptions::default()
        .allow_null_fields(b("allow_null_fields"))
        .map_as_struct(b("map_as_struct"))
        .sequence_as_large_list(b("sequence_as_large_list"))
        .strings_as_large_utf8(b("strings_as_large_utf8"))
        .string_dictionary_encoding(b("string_dictionary_encoding"))
        .coerce_numbers(b("coerce_numbers"))
        .allow_to_string(b("allow_to_string"))
        .guess_dates(b("guess_dates"))
        .enums_without_data_as_strings(b("enums_without_data_as_strings"))
        .from_type_budget(o["from_type_budget"].as_u64().unwrap_or(100) as usize);
    if let Some(ows) = o["overwrites"].as_array() {
        for ow in ows {
            t = t.overwrite(ow[0].as_str().unwrap(), overwrite_field_json(&ow[1]))?;
        }
    }
    Ok(t)
}

type BoolSetter = fn(TracingOptions, bool) -> TracingOptions;
pub const BOOL_SETTERS: [(&str, BoolSetter); 9] = [
    ("allow_null_fields", TracingOptions::allow_null_fields),
    ("map_as_struct", TracingOptions::map_as_struct),
    ("sequence_as_large_list", TracingOptions::sequence_as_large_list),
    ("strings_as_large_utf8", TracingOptions::strings_as_large_utf8),
    ("string_dictionary_encoding", TracingOptions::string_dictionary_encoding),
    ("coerce_numbers", TracingOptions::coerce_numbers),
    ("allow_to_string", TracingOptions::allow_to_string),
    ("guess_dates", TracingOptions::guess_dates),
    ("enums_without_data_as_strings", TracingOptions::enums_without_data_as_strings),
];

/// API coverage: the same setting as `build_opts`, reached another way — starting from `TracingOptions::new()`, the
/// setters called in an order drawn from `seed`, some of them first with the opposite value (the last call decides),
/// the overwrites (in their own order: a later one for the same path replaces the earlier one) somewhere in between
pub fn build_opts_perm(o: &Value, seed: u64) -> Result<TracingOptions, serde_arrow::Error> {
    let b = |k: &str| o[k].as_bool().unwrap_or_else(|| default_opts()[k].as_bool().unwrap());
    let mut x = Rng::new(seed ^ 0x0A91_C07E);
    let mut order: Vec<usize> = (0..BOOL_SETTERS.len() + 2).collect();
    x.shuffle(&mut order);
    let budget = o["from_type_budget"].as_u64().unwrap_or(100) as usize;
    let mut t = TracingOptions::new();
    for i in order {
        if i < BOOL_SETTERS.len() {
            let (k, set) = BOOL_SETTERS[i];
            if x.bool() {
                t = set(t, !b(k));
            }
            t = set(t, b(k));
        } else if i == BOOL_SETTERS.len() {
            if x.bool() {
                t = t.from_type_budget(budget.wrapping_add(1 + x.usize(5)));
            }
            t = t.from_type_budget(budget);
        } else if let Some(ows) = o["overwrites"].as_array() {
            for ow in ows {
                // the path as an owned String, the field as a marrow `Field` value (any `Serialize` is accepted)
                let field = overwrite_field_marrow(&ow[1]);
                t = t.overwrite(ow[0].as_str().unwrap().to_string(), field)?;
            }
        }
    }
    Ok(t)
}

/// API coverage: the same setting through the PUBLIC FIELDS of `TracingOptions` (overwrites only have the method)
pub fn build_opts_fields(o: &Value) -> Result<TracingOptions, serde_arrow::Error> {
    let b = |k: &str| o[k].as_bool().unwrap_or_else(|| default_opts()[k].as_bool().unwrap());
    let mut t = TracingOptions::new();
    t.allow_null_fields = b("allow_null_fields");
    t.map_as_struct = b("map_as_struct");
    t.sequence_as_large_list = b("sequence_as_large_list");
    t.string_as_large_utf8 = b("strings_as_large_utf8");
    t.string_dictionary_encoding = b("string_dictionary_encoding");
    t.coerce_numbers = b("coerce_numbers");
    t.allow_to_string = b("allow_to_string");
    t.guess_dates = b("guess_dates");
    t.enums_without_data_as_strings = b("enums_without_data_as_strings");
    t.from_type_budget = o["from_type_budget"].as_u64().unwrap_or(100) as usize;
    if let Some(ows) = o["overwrites"].as_array() {
        for ow in ows {
            t = t.overwrite(ow[0].as_str().unwrap(), overwrite_field_json(&ow[1]))?;
        }
    }
    Ok(t)
}

/// the public fields of a `TracingOptions` value, under the names of the setters
pub fn opts_dump(t: &TracingOptions) -> Value {
    json!({"allow_null_fields": t.allow_null_fields, "map_as_struct": t.map_as_struct, "sequence_as_large_list": t.sequence_as_large_list,
           "strings_as_large_utf8": t.string_as_large_utf8, "string_dictionary_encoding": t.string_dictionary_encoding,
           "coerce_numbers": t.coerce_numbers, "allow_to_string": t.allow_to_string, "guess_dates": t.guess_dates,
           "enums_without_data_as_strings": t.enums_without_data_as_strings, "from_type_budget": t.from_type_budget,
           "overwrites_default": t.overwrites == serde_arrow::schema::Overwrites::default()})
}

pub fn fields_json(fields: &[Field]) -> Value {
    Value::Array(fields.iter().map(field_to_json).collect())
}

// ------------------------------------------------------------------------------------------------ leaf alphabet

pub const NAIVE_DT: &str = "2015-09-18T23:56:04";
pub const UTC_DT: &str = "2015-09-18T23:56:04Z";
pub const DATE: &str = "2015-09-18";
pub const TIME: &str = "23:56:04";

/// the complete alphabet of serde leaf kinds (25)
pub fn leaf_alphabet() -> Vec<(&'static str, Value)> {
    vec![
        ("bool", sval::boolean(true)),
        ("i8", sval::int("i8", -3)),
        ("i16", sval::int("i16", 300)),
        ("i32", sval::int("i32", -70000)),
        ("i64", sval::int("i64", 5_000_000_000)),
        ("u8", sval::int("u8", 200)),
        ("u16", sval::int("u16", 40000)),
        ("u32", sval::int("u32", 3_000_000_000)),
        ("u64", sval::int("u64", 7)),
        ("f32", sval::f32v(1.5)),
        ("f64", sval::f64v(-2.25)),
        ("char", sval::chr('x')),
        ("str", sval::string("hello")),
        ("str_naive_dt", sval::string(NAIVE_DT)),
        ("str_utc_dt", sval::string(UTC_DT)),
        ("str_date", sval::string(DATE)),
        ("str_time", sval::string(TIME)),
        ("bytes", sval::bytes(&[1, 2, 255])),
        ("unit", sval::unit()),
        ("none", sval::none()),
        ("some_bool", sval::some(sval::boolean(false))),
        ("some_i32", sval::some(sval::int("i32", 12))),
        ("some_f64", sval::some(sval::f64v(0.5))),
        ("some_str", sval::some(sval::string("x y"))),
        ("some_none", sval::some(sval::none())),
    ]
}

/// one representative per kind class (11)
pub fn leaf_classes() -> Vec<(&'static str, Value)> {
    let keep = ["bool", "i32", "u16", "f32", "str", "str_naive_dt", "str_utc_dt", "str_date", "bytes", "unit", "none"];
    leaf_alphabet().into_iter().filter(|(n, _)| keep.contains(n)).collect()
}

fn coercion_opts(mask: u32) -> Value {
    let mut o = default_opts();
    o["coerce_numbers"] = json!(mask & 1 != 0);
    o["allow_to_string"] = json!(mask & 2 != 0);
    o["guess_dates"] = json!(mask & 4 != 0);
    o["strings_as_large_utf8"] = json!(mask & 8 == 0);
    o["allow_null_fields"] = json!(true);
    o
}

fn all_perms(n: usize) -> Vec<Vec<usize>> {
    fn go(cur: &mut Vec<usize>, used: &mut Vec<bool>, n: usize, out: &mut Vec<Vec<usize>>) {
        if cur.len() == n {
            out.push(cur.clone());
            return;
        }
        for i in 0..n {
            if !used[i] {
                used[i] = true;
                cur.push(i);
                go(cur, used, n, out);
                cur.pop();
                used[i] = false;
            }
        }
    }
    let mut out = Vec::new();
    go(&mut Vec::new(), &mut vec![false; n], n, &mut out);
    out
}

/// re-orderings traced besides the given order: permutations and repetitions
fn some_perms(rng: &mut Rng, n: usize) -> Vec<Vec<usize>> {
    let mut out: Vec<Vec<usize>> = Vec::new();
    if n == 0 {
        return out;
    }
    if n <= 3 {
        out.extend(all_perms(n).into_iter().skip(1));
    } else {
        out.push((0..n).rev().collect());
        for _ in 0..3 {
            let mut p: Vec<usize> = (0..n).collect();
            rng.shuffle(&mut p);
            out.push(p);
        }
        // one adjacent swap
        let k = rng.usize(n - 1);
        let mut p: Vec<usize> = (0..n).collect();
        p.swap(k, k + 1);
        out.push(p);
    }
    // repetition: xs ++ xs, and a shuffled multiset with duplicates
    out.push((0..n).chain(0..n).collect());
    let mut p: Vec<usize> = (0..n).chain((0..n).filter(|_| rng.bool())).collect();
    rng.shuffle(&mut p);
    out.push(p);
    out
}

// ------------------------------------------------------------------------------------------------ nested shapes

#[derive(Clone, Debug)]
enum Shape {
    Leaf(usize),
    Opt(Box<Shape>),
    List(Box<Shape>),
    Struct(Vec<(String, Shape)>),
    Map(Vec<(String, Shape)>),
    Tuple(Vec<Shape>),
    Enum(Vec<(String, VShape)>),
    Newtype(Box<Shape>),
}

#[derive(Clone, Debug)]
enum VShape {
    Unit,
    Newtype(Shape),
    Tuple(Vec<Shape>),
    Struct(Vec<(String, Shape)>),
}

const NAMES: [&str; 8] = ["a", "b", "c", "d", "e", "k1", "k2", "z"];

fn gen_shape(rng: &mut Rng, depth: usize) -> Shape {
    let leaf_only = depth == 0;
    let k = if leaf_only { 0 } else { rng.below(14) };
    match k {
        0..=3 => Shape::Leaf(rng.usize(18)),
        4 | 5 => Shape::Opt(Box::new(gen_shape(rng, depth - 1))),
        6 | 7 => Shape::List(Box::new(gen_shape(rng, depth - 1))),
        8 | 9 => {
            let n = rng.usize(4);
            let mut names: Vec<&str> = NAMES.to_vec();
            rng.shuffle(&mut names);
            Shape::Struct((0..n).map(|i| (names[i].to_string(), gen_shape(rng, depth - 1))).collect())
        }
        10 => {
            let n = 1 + rng.usize(3);
            let mut names: Vec<&str> = NAMES.to_vec();
            rng.shuffle(&mut names);
            let v = gen_shape(rng, depth - 1);
            Shape::Map((0..n).map(|i| (names[i].to_string(), v.clone())).collect())
        }
        11 => {
            let n = rng.usize(4);
            Shape::Tuple((0..n).map(|_| gen_shape(rng, depth - 1)).collect())
        }
        12 => {
            let n = 1 + rng.usize(4);
            Shape::Enum(
                (0..n)
                    .map(|i| {
                        let vs = match rng.below(4) {
                            0 => VShape::Unit,
                            1 => VShape::Newtype(gen_shape(rng, depth - 1)),
                            2 => VShape::Tuple((0..rng.usize(3)).map(|_| gen_shape(rng, depth - 1)).collect()),
                            _ => VShape::Struct((0..rng.usize(3)).map(|j| (NAMES[j].to_string(), gen_shape(rng, depth - 1))).collect()),
                        };
                        (format!("V{i}"), vs)
                    })
                    .collect(),
            )
        }
        _ => Shape::Newtype(Box::new(gen_shape(rng, depth - 1))),
    }
}

struct Vary {
    /// probability (in 1/16) of dropping a struct field / reordering fields / struct rendered as map
    drop_field: u64,
    reorder: u64,
    struct_as_map: u64,
    /// numeric width variation (for coerce_numbers)
    widths: u64,
    /// totally different value at this position
    mismatch: u64,
    tuple_arity: u64,
}

fn leaf_value(rng: &mut Rng, k: usize, v: &Vary) -> Value {
    let alpha = leaf_alphabet();
    let mut k = k;
    if rng.below(16) < v.widths && (1..=10).contains(&k) {
        k = 1 + rng.usize(10);
    }
    match alpha[k].0 {
        "bool" => sval::boolean(rng.bool()),
        "i8" => sval::int("i8", rng.range(-128, 127) as i128),
        "i16" => sval::int("i16", rng.range(-32768, 32767) as i128),
        "i32" => sval::int("i32", rng.range(-100000, 100000) as i128),
        // extremes: beyond f64's exact integer range (2^53) and at the ends of the type
        "i64" if rng.chance(1, 6) => sval::int("i64", *rng.pick(&[i64::MIN as i128, i64::MAX as i128, (1i128 << 53) + 1, -(1i128 << 53) - 1, (1i128 << 62) + 3])),
        "u64" if rng.chance(1, 6) => sval::int("u64", *rng.pick(&[u64::MAX as i128, 1i128 << 63, (1i128 << 53) + 1, i64::MAX as i128])),
        "i64" => sval::int("i64", rng.range(-1 << 40, 1 << 40) as i128),
        "u8" => sval::int("u8", rng.range(0, 255) as i128),
        "u16" => sval::int("u16", rng.range(0, 65535) as i128),
        "u32" => sval::int("u32", rng.range(0, 4294967295) as i128),
        "u64" => sval::int("u64", rng.range(0, 1 << 50) as i128),
        "f32" => sval::f32v(rng.range(-64, 64) as f32 / 4.0),
        "f64" => sval::f64v(rng.range(-1000, 1000) as f64 / 8.0),
        "char" => sval::chr(*rng.pick(&['a', 'ß', '0', '√'])),
        "str" => sval::string(*rng.pick(&["", "hello", "ünï", "12", "true", "2015-13", "a.b"])),
        _ => alpha[k].1.clone(),
    }
}

fn gen_value(rng: &mut Rng, s: &Shape, v: &Vary) -> Value {
    if rng.below(64) < v.mismatch {
        let other = gen_shape(rng, 1);
        return gen_value(rng, &other, &Vary { mismatch: 0, ..*v });
    }
    match s {
        Shape::Leaf(k) => leaf_value(rng, *k, v),
        Shape::Opt(inner) => {
            if rng.chance(1, 3) {
                sval::none()
            } else {
                sval::some(gen_value(rng, inner, v))
            }
        }
        Shape::List(inner) => {
            let n = rng.usize(4);
            sval::seq((0..n).map(|_| gen_value(rng, inner, v)).collect())
        }
        Shape::Struct(fs) => {
            let mut out: Vec<(String, u64, Value)> = Vec::new();
            for (n, fsx) in fs {
                if rng.below(16) < v.drop_field {
                    continue;
                }
                out.push((n.clone(), 0, gen_value(rng, fsx, v)));
            }
            if rng.below(16) < v.reorder {
                rng.shuffle(&mut out);
            }
            if rng.below(16) < v.struct_as_map {
                sval::map(out.into_iter().map(|(k, _, x)| (sval::string(&k), x)).collect())
            } else {
                sval::record("S", out)
            }
        }
        Shape::Map(es) => {
            let mut out: Vec<(Value, Value)> = Vec::new();
            for (n, sx) in es {
                if rng.chance(1, 3) {
                    continue;
                }
                out.push((sval::string(n), gen_value(rng, sx, v)));
            }
            rng.shuffle(&mut out);
            sval::map(out)
        }
        Shape::Tuple(ts) => {
            let mut items: Vec<Value> = ts.iter().map(|t| gen_value(rng, t, v)).collect();
            if rng.below(16) < v.tuple_arity && !items.is_empty() {
                // drop a random number of trailing elements (arity gaps of more than one between samples)
                let drop = 1 + rng.usize(items.len());
                items.truncate(items.len() - drop);
            }
            if rng.bool() {
                sval::tuple(items)
            } else {
                sval::tuple_struct("T", items)
            }
        }
        Shape::Enum(vs) => {
            let i = rng.usize(vs.len());
            let (name, vsx) = &vs[i];
            match vsx {
                VShape::Unit => sval::unit_variant("E", i as u32, name),
                VShape::Newtype(s) => sval::newtype_variant("E", i as u32, name, gen_value(rng, s, v)),
                VShape::Tuple(ts) => sval::tuple_variant("E", i as u32, name, ts.iter().map(|t| gen_value(rng, t, v)).collect()),
                VShape::Struct(fs) => sval::struct_variant("E", i as u32, name, fs.iter().map(|(n, s)| (n.clone(), 0, gen_value(rng, s, v))).collect()),
            }
        }
        Shape::Newtype(inner) => sval::newtype_struct("N", gen_value(rng, inner, v)),
    }
}

fn random_opts(rng: &mut Rng) -> Value {
    let mut o = default_opts();
    for k in OPT_KEYS {
        // biased towards the permissive settings so that most cases trace successfully
        let p = match k {
            "allow_null_fields" => 12,
            "map_as_struct" => 10,
            "coerce_numbers" => 8,
            "guess_dates" => 4,
            "allow_to_string" => 4,
            _ => 8,
        };
        o[k] = json!(rng.below(16) < p);
    }
    o
}

fn covering_opts(rng: &mut Rng, idx: usize) -> Value {
    // all 2^9 combinations are walked in order (idx) in the thorough tier; random in quick
    let mut o = default_opts();
    let mask = if idx < 512 { idx as u64 } else { rng.below(512) };
    for (i, k) in OPT_KEYS.iter().enumerate() {
        o[*k] = json!(mask >> i & 1 == 1);
    }
    o
}

fn case(id: &mut usize, seed: u64, kind: &str, opts: Value, items: bool, samples: Vec<Value>, perms: Vec<Vec<usize>>) -> Value {
    let c = json!({"id": format!("trace-{:06}", *id), "seed": seed, "kind": kind, "opts": opts, "items": items,
                   "samples": samples, "perms": perms});
    *id += 1;
    c
}

fn nested_grid() -> Vec<(Vec<Value>, bool)> {
    use sval::*;
    let rec = |fs: Vec<(&str, Value)>| record("S", fs.into_iter().map(|(k, v)| (k.to_string(), 0, v)).collect());
    let smap = |fs: Vec<(&str, Value)>| map(fs.into_iter().map(|(k, v)| (string(k), v)).collect());
    let i = |v: i128| int("i32", v);
    let mut g: Vec<(Vec<Value>, bool)> = Vec::new();
    // optional
    g.push((vec![none(), some(i(1)), i(2)], true));
    g.push((vec![some(none()), some(some(i(1)))], true));
    g.push((vec![none(), none()], true));
    g.push((vec![unit(), i(1)], true));
    // lists, empty lists
    g.push((vec![seq(vec![]), seq(vec![i(1), i(2)]), seq(vec![])], true));
    g.push((vec![seq(vec![]), seq(vec![])], true));
    g.push((vec![seq(vec![none()]), seq(vec![i(1)])], true));
    g.push((vec![seq(vec![seq(vec![])]), seq(vec![seq(vec![string("a")])])], true));
    g.push((vec![none(), seq(vec![i(1)])], true));
    g.push((vec![seq(vec![i(1)]), i(1)], true));
    // struct with missing fields
    g.push((vec![rec(vec![("a", i(1))]), rec(vec![("a", i(1)), ("b", string("x"))])], false));
    g.push((vec![rec(vec![("a", i(1)), ("b", string("x"))]), rec(vec![("a", i(1))])], false));
    g.push((vec![rec(vec![]), rec(vec![("a", i(1))])], false));
    g.push((vec![rec(vec![("b", i(1)), ("a", i(2))]), rec(vec![("a", i(1)), ("b", i(2))]), rec(vec![("c", none())])], false));
    g.push((vec![rec(vec![("a", rec(vec![("x", i(1))]))]), rec(vec![("a", rec(vec![("y", i(1))]))]), rec(vec![])], false));
    g.push((vec![rec(vec![("a", i(1)), ("a", i(2))])], false));
    g.push((vec![seq(vec![rec(vec![("a", i(1))]), rec(vec![("b", i(1))])]), seq(vec![rec(vec![("a", i(1)), ("b", i(1))])])], true));
    // maps with varying key sets
    g.push((vec![smap(vec![("k1", i(1))]), smap(vec![("k2", i(2)), ("k1", i(3))]), smap(vec![])], false));
    g.push((vec![smap(vec![("z", i(1)), ("a", i(1))]), smap(vec![("m", i(1))])], false));
    g.push((vec![smap(vec![("k1", i(1))]), smap(vec![("k1", string("s"))])], true));
    g.push((vec![map(vec![(i(1), i(2))]), map(vec![(i(3), none())])], true));
    // struct and map at one position (finding #26)
    g.push((vec![rec(vec![("b", i(1)), ("a", i(2))]), smap(vec![("b", i(1)), ("a", i(2))])], false));
    g.push((vec![smap(vec![("b", i(1)), ("a", i(2))]), rec(vec![("b", i(1)), ("a", i(2))])], true));
    // integers beyond f64's exact range next to floats (coerce_numbers: int → float is the documented lossy cell)
    g.push((vec![sval::int("i64", (1i128 << 53) + 1), sval::f64v(1.5)], true));
    g.push((vec![sval::f64v(1.5), sval::int("i64", i64::MAX as i128), sval::int("i64", i64::MIN as i128)], true));
    g.push((vec![sval::f32v(0.5), sval::int("u64", u64::MAX as i128)], true));
    g.push((vec![rec(vec![("x", sval::int("u64", (1i128 << 63) + 1))]), rec(vec![("x", sval::f64v(2.0))])], true));
    // tuples
    g.push((vec![tuple(vec![i(1), string("a")]), tuple(vec![i(2), string("b")])], true));
    g.push((vec![tuple(vec![]), tuple(vec![])], true));
    g.push((vec![tuple(vec![i(1), i(2)]), tuple(vec![i(1), i(2), i(3)])], true));
    g.push((vec![tuple(vec![i(1), i(2), i(3)]), tuple(vec![i(1), i(2)])], true));
    g.push((vec![tuple_struct("T", vec![i(1)]), tuple(vec![none()])], true));
    // arity gaps of more than one, shorter first / longer first / three lengths
    g.push((vec![tuple(vec![i(1)]), tuple(vec![i(1), i(2), i(3), i(4)])], true));
    g.push((vec![tuple(vec![i(1), i(2), i(3), i(4)]), tuple(vec![i(1)])], true));
    g.push((vec![tuple(vec![]), tuple(vec![i(1), string("s"), i(3)])], true));
    g.push((vec![tuple(vec![i(1)]), tuple(vec![i(1), i(2), i(3)]), tuple(vec![i(1), i(2), i(3), i(4), i(5), i(6)])], true));
    g.push((vec![seq(vec![tuple(vec![i(1)])]), seq(vec![tuple(vec![i(1), i(2), i(3)])])], true));
    // enums, partially observed
    g.push((vec![unit_variant("E", 1, "B"), unit_variant("E", 1, "B")], true));
    g.push((vec![unit_variant("E", 0, "A"), unit_variant("E", 1, "B")], true));
    g.push((vec![unit_variant("E", 0, "A"), newtype_variant("E", 2, "C", i(1))], true));
    g.push((vec![newtype_variant("E", 2, "C", i(1)), none()], true));
    g.push((vec![none(), newtype_variant("E", 1, "B", i(1))], true));
    g.push((vec![struct_variant("E", 0, "A", vec![("x".into(), 0, i(1))]), struct_variant("E", 0, "A", vec![("y".into(), 0, i(1))])], true));
    g.push((vec![tuple_variant("E", 1, "B", vec![i(1), string("s")]), unit_variant("E", 0, "A")], true));
    g.push((vec![unit_variant("E", 0, "A"), unit_variant("E", 0, "B")], true));
    g.push((vec![unit_variant("E", 127, "A"), unit_variant("E", 128, "B")], true));
    g.push((vec![newtype_variant("E", 130, "A", i(1))], true));
    g.push((vec![unit_variant("E", 0, "A"), i(1)], true));
    // newtype / unit struct
    g.push((vec![newtype_struct("N", i(1)), i(2)], true));
    g.push((vec![unit_struct("U"), none()], true));
    g
}

fn malformed(rng: &mut Rng) -> (Vec<Value>, bool) {
    use sval::*;
    let i = |v: i128| int("i32", v);
    match rng.below(9) {
        0 => (vec![json!({"k": "map_raw", "ops": [{"val": i(1)}]})], true),
        1 => (vec![json!({"k": "map_raw", "ops": [{"key": string("a")}, {"key": string("b")}, {"val": i(1)}, {"val": i(2)}]})], true),
        2 => (vec![json!({"k": "map_raw", "ops": [{"key": string("a")}, {"val": i(1)}, {"key": string("b")}]}), map(vec![(string("a"), none())])], true),
        3 => (vec![map(vec![(i(1), i(2))]), map(vec![(string("a"), i(2))])], true),
        4 => (vec![map(vec![(chr('a'), i(2))])], true),
        5 => {
            // deep nesting: beyond the depth limit
            let d = 15 + rng.usize(10);
            let mut v = i(1);
            for _ in 0..d {
                v = seq(vec![v]);
            }
            (vec![v], true)
        }
        6 => {
            // field names with dots count as depth
            let name: String = std::iter::repeat("a.").take(8 + rng.usize(14)).collect();
            (vec![record("S", vec![(name, 0, seq(vec![i(1)]))])], false)
        }
        7 => (vec![unit_variant("E", 0, "A"), struct_variant("E", 0, "A", vec![])], true),
        _ => (vec![record("S", vec![("a".into(), 0, i(1))]), seq(vec![])], false),
    }
}

pub fn gen(ctx: &Ctx) -> Vec<Value> {
    let mut rng = Rng::new(ctx.seed);
    let mut out = Vec::new();
    let mut id = 0usize;
    // (1a) all ordered pairs over the complete alphabet × 2^4 options
    let alpha = leaf_alphabet();
    for mask in 0..16u32 {
        for (_, a) in &alpha {
            for (_, b) in &alpha {
                let sub = rng.fork().0;
                out.push(case(&mut id, sub, "leaf2", coercion_opts(mask), true, vec![a.clone(), b.clone()],
                              vec![vec![1, 0], vec![0, 1, 0, 1], vec![1, 0, 0]]));
            }
        }
    }
    // (1b) multisets of size 3 in all 6 orders
    let tri = if ctx.thorough() { leaf_alphabet() } else { leaf_classes() };
    for mask in 0..16u32 {
        for x in 0..tri.len() {
            for y in x..tri.len() {
                for z in y..tri.len() {
                    let sub = rng.fork().0;
                    out.push(case(&mut id, sub, "leaf3", coercion_opts(mask), true,
                                  vec![tri[x].1.clone(), tri[y].1.clone(), tri[z].1.clone()],
                                  all_perms(3).into_iter().skip(1).collect()));
                }
            }
        }
    }
    // (2) nested grid × a few option settings
    for (samples, items) in nested_grid() {
        for variant in 0..6 {
            let mut r = rng.fork();
            let mut o = default_opts();
            match variant {
                0 => {}
                1 => o["allow_null_fields"] = json!(true),
                2 => {
                    o["allow_null_fields"] = json!(true);
                    o["map_as_struct"] = json!(false);
                    o["sequence_as_large_list"] = json!(false);
                }
                3 => {
                    o["allow_null_fields"] = json!(true);
                    o["coerce_numbers"] = json!(true);
                    o["allow_to_string"] = json!(true);
                    o["enums_without_data_as_strings"] = json!(true);
                }
                4 => {
                    o["enums_without_data_as_strings"] = json!(true);
                    o["string_dictionary_encoding"] = json!(true);
                }
                _ => o = random_opts(&mut r),
            }
            let perms = some_perms(&mut r, samples.len());
            out.push(case(&mut id, r.0, "grid", o, items, samples.clone(), perms));
        }
    }
    // (3) random structured + (4) malformed
    let n = if ctx.thorough() { 60000 } else { 3000 };
    for c in 0..n {
        let mut r = rng.fork();
        let sub = r.0;
        if r.below(100) < 15 {
            let (samples, items) = malformed(&mut r);
            let o = random_opts(&mut r);
            let perms = some_perms(&mut r, samples.len());
            out.push(case(&mut id, sub, "malformed", o, items, samples, perms));
            continue;
        }
        let depth = if ctx.thorough() { 1 + r.usize(4) } else { 1 + r.usize(3) };
        let shape = gen_shape(&mut r, depth);
        let o = if c % 3 == 0 { covering_opts(&mut r, if ctx.thorough() { c / 3 } else { 1000 }) } else { random_opts(&mut r) };
        let vary = Vary {
            drop_field: *r.pick(&[0, 0, 4, 8]),
            reorder: *r.pick(&[0, 4, 8]),
            struct_as_map: *r.pick(&[0, 0, 0, 3]),
            widths: if o["coerce_numbers"].as_bool().unwrap() { 8 } else { *r.pick(&[0, 0, 0, 2]) },
            mismatch: *r.pick(&[0, 0, 0, 1, 2]),
            tuple_arity: *r.pick(&[0, 0, 0, 0, 2]),
        };
        let nsamples = match r.below(8) {
            0 => 0,
            1 => 1,
            _ => 2 + r.usize(4),
        };
        // top level: the shape under `Items`, or a struct shape used directly as the record type
        let (samples, items): (Vec<Value>, bool) = match &shape {
            Shape::Struct(_) | Shape::Map(_) if r.bool() => ((0..nsamples).map(|_| gen_value(&mut r, &shape, &vary)).collect(), false),
            _ => ((0..nsamples).map(|_| gen_value(&mut r, &shape, &vary)).collect(), true),
        };
        let perms = some_perms(&mut r, samples.len());
        out.push(case(&mut id, sub, "random", o, items, samples, perms));
    }
    // outer value is not a sequence
    out.push(json!({"id": format!("trace-{:06}", id), "seed": 0, "kind": "malformed", "opts": default_opts(), "items": false,
                    "samples": [], "perms": [], "top": sval::int("i32", 1)}));
    id += 1;
    // (appended last, so that the ids and seeds of the cases above do not move) near misses of the temporal matchers under
    // guess_dates: a complete date / time / datetime followed or preceded by something else — other designators, ASCII
    // garbage, and NON-ASCII characters of 2, 3 and 4 bytes (seeded c16i: the zone-designator matcher cut the rest of the
    // string at a byte offset inside a multi-byte character and panicked)
    let tails = ["é", "–2015-09-18T23:59:00", "\u{2028}", "😀", " ", "x", "Z", "z", "+00:00", "+0000", "+00:0é", "Zé", "+é", ".5é", ".123456789012é"];
    for base in [NAIVE_DT, UTC_DT, DATE, TIME] {
        for t in tails {
            for (k, s) in [format!("{base}{t}"), format!("{t}{base}"), format!("{}{t}{}", &base[..4], &base[4..])].into_iter().enumerate() {
                for guess in [true, false] {
                    if !guess && k != 0 {
                        continue;
                    }
                    let sub = rng.fork().0;
                    let mut o = default_opts();
                    o["guess_dates"] = json!(guess);
                    out.push(case(&mut id, sub, "nearmiss", o, true, vec![sval::string(&s), sval::string(base)], vec![vec![1, 0]]));
                }
            }
        }
    }
    out
}

// ------------------------------------------------------------------------------------------------ reading back

/// self-describing target for `from_marrow`: records every visitor call as JSON
pub struct AnyValue(pub Value);

struct AnyVisitor;

impl<'de> Deserialize<'de> for AnyValue {
    fn deserialize<D: serde::Deserializer<'de>>(d: D) -> Result<Self, D::Error> {
        d.deserialize_any(AnyVisitor).map(AnyValue)
    }
}

struct AnySeed;
impl<'de> DeserializeSeed<'de> for AnySeed {
    type Value = Value;
    fn deserialize<D: serde::Deserializer<'de>>(self, d: D) -> Result<Value, D::Error> {
        d.deserialize_any(AnyVisitor)
    }
}

fn num_i(v: i128) -> Value {
    if v >= i64::MIN as i128 && v <= i64::MAX as i128 {
        json!({"i": v as i64})
    } else {
        json!({"i": v.to_string()})
    }
}

impl<'de> Visitor<'de> for AnyVisitor {
    type Value = Value;
    fn expecting(&self, f: &mut std::fmt::Formatter) -> std::fmt::Result {
        write!(f, "anything")
    }
    fn visit_bool<E>(self, v: bool) -> Result<Value, E> { Ok(json!({"b": v})) }
    fn visit_i8<E>(self, v: i8) -> Result<Value, E> { Ok(num_i(v as i128)) }
    fn visit_i16<E>(self, v: i16) -> Result<Value, E> { Ok(num_i(v as i128)) }
    fn visit_i32<E>(self, v: i32) -> Result<Value, E> { Ok(num_i(v as i128)) }
    fn visit_i64<E>(self, v: i64) -> Result<Value, E> { Ok(num_i(v as i128)) }
    fn visit_u8<E>(self, v: u8) -> Result<Value, E> { Ok(num_i(v as i128)) }
    fn visit_u16<E>(self, v: u16) -> Result<Value, E> { Ok(num_i(v as i128)) }
    fn visit_u32<E>(self, v: u32) -> Result<Value, E> { Ok(num_i(v as i128)) }
    fn visit_u64<E>(self, v: u64) -> Result<Value, E> { Ok(num_i(v as i128)) }
    fn visit_f32<E>(self, v: f32) -> Result<Value, E> { Ok(json!({"f": (v as f64).to_bits(), "w": 32})) }
    fn visit_f64<E>(self, v: f64) -> Result<Value, E> { Ok(json!({"f": v.to_bits(), "w": 64})) }
    fn visit_char<E>(self, v: char) -> Result<Value, E> { Ok(json!({"s": v.to_string()})) }
    fn visit_str<E>(self, v: &str) -> Result<Value, E> { Ok(json!({"s": v})) }
    fn visit_string<E>(self, v: String) -> Result<Value, E> { Ok(json!({"s": v})) }
    fn visit_bytes<E>(self, v: &[u8]) -> Result<Value, E> { Ok(json!({"y": sval::hex(v)})) }
    fn visit_byte_buf<E>(self, v: Vec<u8>) -> Result<Value, E> { Ok(json!({"y": sval::hex(&v)})) }
    fn visit_none<E>(self) -> Result<Value, E> { Ok(Value::Null) }
    fn visit_unit<E>(self) -> Result<Value, E> { Ok(Value::Null) }
    fn visit_some<D: serde::Deserializer<'de>>(self, d: D) -> Result<Value, D::Error> { d.deserialize_any(AnyVisitor) }
    fn visit_newtype_struct<D: serde::Deserializer<'de>>(self, d: D) -> Result<Value, D::Error> { d.deserialize_any(AnyVisitor) }
    fn visit_seq<A: SeqAccess<'de>>(self, mut a: A) -> Result<Value, A::Error> {
        let mut out = Vec::new();
        while let Some(v) = a.next_element_seed(AnySeed)? {
            out.push(v);
        }
        Ok(json!({"l": out}))
    }
    fn visit_map<A: MapAccess<'de>>(self, mut a: A) -> Result<Value, A::Error> {
        let mut out = Vec::new();
        while let Some(k) = a.next_key_seed(AnySeed)? {
            let v = a.next_value_seed(AnySeed)?;
            out.push(json!([k, v]));
        }
        Ok(json!({"m": out}))
    }
    fn visit_enum<A: EnumAccess<'de>>(self, a: A) -> Result<Value, A::Error> {
        let (name, variant) = a.variant_seed(AnySeed)?;
        let content = variant.newtype_variant_seed(AnySeed)?;
        Ok(json!({"v": name, "c": content}))
    }
}

// ------------------------------------------------------------------------------------------------ exec

struct OwnedItems<'a>(Vec<&'a Value>, bool);

impl serde::Serialize for OwnedItems<'_> {
    fn serialize<S: serde::Serializer>(&self, s: S) -> Result<S::Ok, S::Error> {
        let vals: Vec<SVal> = self.0.iter().map(|v| SVal(v)).collect();
        if self.1 {
            serde_arrow::utils::Items(vals).serialize(s)
        } else {
            vals.serialize(s)
        }
    }
}

fn trace_once(opts: &Value, samples: &[&Value], items: bool) -> Value {
    outcome::run(|| {
        let o = build_opts(opts)?;
        let fields = Vec::<Field>::from_samples(OwnedItems(samples.to_vec(), items), o)?;
        Ok::<Value, serde_arrow::Error>(fields_json(&fields))
    })
}

pub fn exec(input: &Value) -> Value {
    let mut case = input.clone();
    let opts = &input["opts"];
    let items = input["items"].as_bool().unwrap_or(false);
    let samples: Vec<&Value> = input["samples"].as_array().unwrap().iter().collect();
    if let Some(top) = input.get("top") {
        // a non-sequence handed to from_samples
        let r = outcome::run(|| {
            let o = build_opts(opts)?;
            let fields = Vec::<Field>::from_samples(SVal(top), o)?;
            Ok::<Value, serde_arrow::Error>(fields_json(&fields))
        });
        case["impl"] = r;
        case["perm_impl"] = json!([]);
        return case;
    }
    let first = trace_once(opts, &samples, items);
    let mut perm_impl = Vec::new();
    for p in input["perms"].as_array().unwrap() {
        let order: Vec<&Value> = p.as_array().unwrap().iter().filter_map(|i| samples.get(i.as_u64().unwrap() as usize).copied()).collect();
        perm_impl.push(trace_once(opts, &order, items));
    }
    // C06: the traced schema must accept the samples it was traced from
    if let Some(fj) = first.get("ok") {
        let fields: Vec<Field> = fj.as_array().unwrap().iter().map(crate::schema_dump::field_from_json).collect();
        let mut c06 = Map::new();
        let mut arrays = None;
        let to = outcome::run(|| {
            let a = serde_arrow::to_marrow(&fields, OwnedItems(samples.clone(), items))?;
            let n = a.len();
            arrays = Some(a);
            Ok::<Value, serde_arrow::Error>(json!(n))
        });
        c06.insert("to".into(), to);
        if let Some(arrays) = arrays {
            let back = outcome::run(|| {
                let views: Vec<marrow::view::View> = arrays.iter().map(|a| a.as_view()).collect();
                let rows: Vec<AnyValue> = serde_arrow::from_marrow(&fields, &views)?;
                Ok::<Value, serde_arrow::Error>(Value::Array(rows.into_iter().map(|r| r.0).collect()))
            });
            c06.insert("back".into(), back);
        }
        case["c06"] = Value::Object(c06);
    }
    case["impl"] = first;
    case["perm_impl"] = Value::Array(perm_impl);
    case
}
