//! suite `tracety` (C08): `SchemaLike::from_type::<T>` on the real crate for dynamic type descriptions.
//!
//! `from_type` needs a static `T`: `DynRoot: Deserialize` reads the current type description from a thread-local
//! and drives the `Deserializer` exactly the way `#[derive(Deserialize)]` does for that type (deserialize_struct with
//! the field-name list + visit_map / identifier, deserialize_enum + variant access, deserialize_option, deserialize_seq,
//! tuples, maps, newtype / unit / tuple structs, primitives, String, byte buffers).  A zoo of REAL derived types is
//! compiled in; every run traces each zoo type both through its derive and through `DynRoot` with the matching
//! description and the driver requires equal outcomes (fidelity of `DynRoot`).
//!
//! A case carries the description, the options (all 2^9 flag combinations are walked), covering samples generated from
//! the same description (every variant, `Some`, non-empty collections) and overwrites (at real paths of the traced tree
//! and at perturbed paths).  `exec` reports `from_type`, `from_samples(covering)`, and the overwritten runs.
//!
//! `samples_rand` (most cases): a RANDOMISED covering list beside the canonical one — the canonical samples whole or
//! `split` into two / three samples that only together show what the canonical one shows (`Some` on one side and `None`
//! on the other, sequence elements / map entries dealt to the sides, position by position through tuples, structs and
//! variant payloads), extra `random_value`s of the type (`None`, empty and 2 … 3 element collections, other and repeated
//! variants, other scalars, plain-word strings), repetitions, shuffled.  The driver decides with `hasTy` / `covers`
//! (lean/SaModel/Lemmas/C08Covers.lean) that the list is covering and requires `from_samples` on it to repeat `from_type`.
//! Overwrites: 0 … 3 per case, also at enum variant paths and below variants (`collect_paths`), with leaf, Struct,
//! List / LargeList, tuple-tagged and metadata-carrying overwrite fields (`gen_ow_dt`).  Stream `enumow`: structs with at
//! least one enum field under options that mostly let `from_type` succeed, overwrites preferring variant paths.
//!
//! API coverage (notes/api_coverage.md), on the cases that carry `"api"`: the same tracing with the options reached another
//! way (`perm`: `TracingOptions::new()` + setters in another order, some called twice, overwrite given a `String` path
//! and a marrow `Field`; `fields`: the public fields assigned directly), through every other `SchemaLike` implementor
//! (`schemalike`: `SerdeArrowSchema`, `Vec<FieldRef>`, `Vec<arrow Field>`, `Vec<arrow2 Field>`, converted back to marrow
//! fields), and (`defaults`) with an untouched `TracingOptions::default()` / `::new()` where the case's options are the
//! documented defaults, together with a dump of the public fields of both.
use super::trace::{build_opts, build_opts_fields, build_opts_perm, default_opts, fields_json, opts_dump, OPT_KEYS};
use crate::outcome;
use crate::rng::Rng;
use crate::sval::{self, intern, SVal};
use crate::Ctx;
use marrow::datatypes::Field;
use serde::de::{DeserializeSeed, Deserializer, EnumAccess, IgnoredAny, MapAccess, SeqAccess, VariantAccess, Visitor};
use serde::{Deserialize, Serialize};
use serde_arrow::schema::{SchemaLike, TracingOptions};
use serde_json::{json, Value};
use std::cell::RefCell;
use std::collections::HashMap;

thread_local! {
    static CURRENT_TY: RefCell<Value> = const { RefCell::new(Value::Null) };
    /// the body of the innermost enclosing `recdef` node: what a `rec` node stands for
    static REC_BODY: RefCell<Option<&'static Value>> = const { RefCell::new(None) };
}

pub struct DynRoot;

/// run `f` with `ty` as the type description `DynRoot` stands for (used by the schema suite)
pub fn with_type<R>(ty: &Value, f: impl FnOnce() -> R) -> R {
    CURRENT_TY.with(|t| *t.borrow_mut() = ty.clone());
    f()
}

impl<'de> Deserialize<'de> for DynRoot {
    fn deserialize<D: Deserializer<'de>>(d: D) -> Result<Self, D::Error> {
        let ty = CURRENT_TY.with(|t| t.borrow().clone());
        TySeed(&ty).deserialize(d)?;
        Ok(DynRoot)
    }
}

fn static_names(names: Vec<&str>) -> &'static [&'static str] {
    let v: Vec<&'static str> = names.into_iter().map(|n| intern(n, 0)).collect();
    Box::leak(v.into_boxed_slice())
}

struct TySeed<'a>(&'a Value);

/// visitor for leaves: accepts what the matching std impl accepts
struct LeafV;
impl<'de> Visitor<'de> for LeafV {
    type Value = ();
    fn expecting(&self, f: &mut std::fmt::Formatter) -> std::fmt::Result { write!(f, "a leaf") }
    fn visit_bool<E>(self, _: bool) -> Result<(), E> { Ok(()) }
    fn visit_i8<E>(self, _: i8) -> Result<(), E> { Ok(()) }
    fn visit_i16<E>(self, _: i16) -> Result<(), E> { Ok(()) }
    fn visit_i32<E>(self, _: i32) -> Result<(), E> { Ok(()) }
    fn visit_i64<E>(self, _: i64) -> Result<(), E> { Ok(()) }
    fn visit_u8<E>(self, _: u8) -> Result<(), E> { Ok(()) }
    fn visit_u16<E>(self, _: u16) -> Result<(), E> { Ok(()) }
    fn visit_u32<E>(self, _: u32) -> Result<(), E> { Ok(()) }
    fn visit_u64<E>(self, _: u64) -> Result<(), E> { Ok(()) }
    fn visit_f32<E>(self, _: f32) -> Result<(), E> { Ok(()) }
    fn visit_f64<E>(self, _: f64) -> Result<(), E> { Ok(()) }
    fn visit_char<E>(self, _: char) -> Result<(), E> { Ok(()) }
    fn visit_str<E>(self, _: &str) -> Result<(), E> { Ok(()) }
    fn visit_string<E>(self, _: String) -> Result<(), E> { Ok(()) }
    fn visit_bytes<E>(self, _: &[u8]) -> Result<(), E> { Ok(()) }
    fn visit_byte_buf<E>(self, _: Vec<u8>) -> Result<(), E> { Ok(()) }
    fn visit_unit<E>(self) -> Result<(), E> { Ok(()) }
}

struct OptionV<'a>(&'a Value);
impl<'de> Visitor<'de> for OptionV<'_> {
    type Value = ();
    fn expecting(&self, f: &mut std::fmt::Formatter) -> std::fmt::Result { write!(f, "option") }
    fn visit_none<E>(self) -> Result<(), E> { Ok(()) }
    fn visit_unit<E>(self) -> Result<(), E> { Ok(()) }
    fn visit_some<D: Deserializer<'de>>(self, d: D) -> Result<(), D::Error> { TySeed(self.0).deserialize(d) }
}

struct NewtypeV<'a>(&'a Value);
impl<'de> Visitor<'de> for NewtypeV<'_> {
    type Value = ();
    fn expecting(&self, f: &mut std::fmt::Formatter) -> std::fmt::Result { write!(f, "newtype struct") }
    fn visit_newtype_struct<D: Deserializer<'de>>(self, d: D) -> Result<(), D::Error> { TySeed(self.0).deserialize(d) }
    fn visit_seq<A: SeqAccess<'de>>(self, mut a: A) -> Result<(), A::Error> {
        match a.next_element_seed(TySeed(self.0))? {
            Some(()) => Ok(()),
            None => Err(serde::de::Error::invalid_length(0, &"tuple struct with 1 element")),
        }
    }
}

struct SeqV<'a>(&'a Value);
impl<'de> Visitor<'de> for SeqV<'_> {
    type Value = ();
    fn expecting(&self, f: &mut std::fmt::Formatter) -> std::fmt::Result { write!(f, "a sequence") }
    fn visit_seq<A: SeqAccess<'de>>(self, mut a: A) -> Result<(), A::Error> {
        while let Some(()) = a.next_element_seed(TySeed(self.0))? {}
        Ok(())
    }
}

struct TupleV<'a>(&'a [Value]);
impl<'de> Visitor<'de> for TupleV<'_> {
    type Value = ();
    fn expecting(&self, f: &mut std::fmt::Formatter) -> std::fmt::Result { write!(f, "a tuple") }
    fn visit_seq<A: SeqAccess<'de>>(self, mut a: A) -> Result<(), A::Error> {
        for (i, t) in self.0.iter().enumerate() {
            if a.next_element_seed(TySeed(t))?.is_none() {
                return Err(serde::de::Error::invalid_length(i, &"a tuple of the declared size"));
            }
        }
        Ok(())
    }
}

struct MapV<'a>(&'a Value, &'a Value);
impl<'de> Visitor<'de> for MapV<'_> {
    type Value = ();
    fn expecting(&self, f: &mut std::fmt::Formatter) -> std::fmt::Result { write!(f, "a map") }
    fn visit_map<A: MapAccess<'de>>(self, mut a: A) -> Result<(), A::Error> {
        while let Some(()) = a.next_key_seed(TySeed(self.0))? {
            a.next_value_seed(TySeed(self.1))?;
        }
        Ok(())
    }
}

/// `__Field` / variant identifier of a derive: `deserialize_identifier` with str / u64 / bytes visitors
struct IdentSeed(&'static [&'static str], bool);
struct IdentV(&'static [&'static str], bool);
impl<'de> DeserializeSeed<'de> for IdentSeed {
    type Value = Option<usize>;
    fn deserialize<D: Deserializer<'de>>(self, d: D) -> Result<Option<usize>, D::Error> {
        d.deserialize_identifier(IdentV(self.0, self.1))
    }
}
impl<'de> Visitor<'de> for IdentV {
    type Value = Option<usize>;
    fn expecting(&self, f: &mut std::fmt::Formatter) -> std::fmt::Result { write!(f, "an identifier") }
    fn visit_u64<E: serde::de::Error>(self, v: u64) -> Result<Option<usize>, E> {
        if (v as usize) < self.0.len() {
            Ok(Some(v as usize))
        } else if self.1 {
            Err(E::invalid_value(serde::de::Unexpected::Unsigned(v), &"variant index"))
        } else {
            Ok(None)
        }
    }
    fn visit_str<E: serde::de::Error>(self, v: &str) -> Result<Option<usize>, E> {
        match self.0.iter().position(|n| *n == v) {
            Some(i) => Ok(Some(i)),
            None if self.1 => Err(E::unknown_variant(v, self.0)),
            None => Ok(None),
        }
    }
    fn visit_bytes<E: serde::de::Error>(self, v: &[u8]) -> Result<Option<usize>, E> {
        match self.0.iter().position(|n| n.as_bytes() == v) {
            Some(i) => Ok(Some(i)),
            None if self.1 => Err(E::unknown_variant(&String::from_utf8_lossy(v), self.0)),
            None => Ok(None),
        }
    }
}

struct StructV<'a>(&'a [Value], &'static [&'static str]);
impl<'de> Visitor<'de> for StructV<'_> {
    type Value = ();
    fn expecting(&self, f: &mut std::fmt::Formatter) -> std::fmt::Result { write!(f, "a struct") }
    fn visit_seq<A: SeqAccess<'de>>(self, mut a: A) -> Result<(), A::Error> {
        for (i, f) in self.0.iter().enumerate() {
            if a.next_element_seed(TySeed(&f[1]))?.is_none() {
                return Err(serde::de::Error::invalid_length(i, &"struct"));
            }
        }
        Ok(())
    }
    fn visit_map<A: MapAccess<'de>>(self, mut a: A) -> Result<(), A::Error> {
        let mut seen = vec![false; self.0.len()];
        while let Some(key) = a.next_key_seed(IdentSeed(self.1, false))? {
            match key {
                Some(i) => {
                    if seen[i] {
                        return Err(serde::de::Error::duplicate_field(self.1[i]));
                    }
                    seen[i] = true;
                    a.next_value_seed(TySeed(&self.0[i][1]))?;
                }
                None => {
                    a.next_value::<IgnoredAny>()?;
                }
            }
        }
        for (i, s) in seen.iter().enumerate() {
            // a derive calls `serde::__private::de::missing_field`, which yields `None` for Option fields
            if !*s && self.0[i][1]["t"] != "option" {
                return Err(serde::de::Error::missing_field(self.1[i]));
            }
        }
        Ok(())
    }
}

struct EnumV<'a>(&'a [Value], &'static [&'static str]);
impl<'de> Visitor<'de> for EnumV<'_> {
    type Value = ();
    fn expecting(&self, f: &mut std::fmt::Formatter) -> std::fmt::Result { write!(f, "an enum") }
    fn visit_enum<A: EnumAccess<'de>>(self, a: A) -> Result<(), A::Error> {
        let (idx, variant) = a.variant_seed(IdentSeed(self.1, true))?;
        let v = &self.0[idx.expect("variant identifiers are strict")];
        match v["k"].as_str().unwrap() {
            "unit" => variant.unit_variant(),
            "newtype" => variant.newtype_variant_seed(TySeed(&v["a"])),
            "tuple" => variant.tuple_variant(v["a"].as_array().unwrap().len(), TupleV(v["a"].as_array().unwrap())),
            _ => {
                let fields = v["a"].as_array().unwrap();
                let names = static_names(fields.iter().map(|f| f[0].as_str().unwrap()).collect());
                variant.struct_variant(names, StructV(fields, names))
            }
        }
    }
}

impl<'de> DeserializeSeed<'de> for TySeed<'_> {
    type Value = ();
    fn deserialize<D: Deserializer<'de>>(self, d: D) -> Result<(), D::Error> {
        let ty = self.0;
        let name = || intern(ty["n"].as_str().unwrap_or(""), 0);
        match ty["t"].as_str().expect("type tag") {
            "unit" => d.deserialize_unit(LeafV),
            "bool" => d.deserialize_bool(LeafV),
            "i8" => d.deserialize_i8(LeafV),
            "i16" => d.deserialize_i16(LeafV),
            "i32" => d.deserialize_i32(LeafV),
            "i64" => d.deserialize_i64(LeafV),
            "u8" => d.deserialize_u8(LeafV),
            "u16" => d.deserialize_u16(LeafV),
            "u32" => d.deserialize_u32(LeafV),
            "u64" => d.deserialize_u64(LeafV),
            "f32" => d.deserialize_f32(LeafV),
            "f64" => d.deserialize_f64(LeafV),
            "char" => d.deserialize_char(LeafV),
            "string" => d.deserialize_string(LeafV),
            "bytes" => d.deserialize_byte_buf(LeafV),
            "option" => d.deserialize_option(OptionV(&ty["a"])),
            "vec" => d.deserialize_seq(SeqV(&ty["a"])),
            "tuple" => {
                let items = ty["a"].as_array().unwrap();
                d.deserialize_tuple(items.len(), TupleV(items))
            }
            "map" => d.deserialize_map(MapV(&ty["k"], &ty["v"])),
            "struct" => {
                let fields = ty["f"].as_array().unwrap();
                let names = static_names(fields.iter().map(|f| f[0].as_str().unwrap()).collect());
                d.deserialize_struct(name(), names, StructV(fields, names))
            }
            "tuple_struct" => {
                let items = ty["a"].as_array().unwrap();
                d.deserialize_tuple_struct(name(), items.len(), TupleV(items))
            }
            "newtype_struct" => d.deserialize_newtype_struct(name(), NewtypeV(&ty["a"])),
            "unit_struct" => d.deserialize_unit_struct(name(), LeafV),
            "enum" => {
                let vs = ty["v"].as_array().unwrap();
                let names = static_names(vs.iter().map(|v| v["n"].as_str().unwrap()).collect());
                d.deserialize_enum(name(), names, EnumV(vs, names))
            }
            // a RECURSIVE type definition `T = body[rec := T]`: `recdef` binds, `rec` refers to the innermost binder and is
            // followed exactly like the derived `Deserialize` of a recursive Rust type follows `Box<T>` — without end unless
            // the deserializer refuses (C16: "tracing of recursive types stops with an error"; before repo fix aaf3edc a
            // recursion through Option / newtype structs only exhausted the stack)
            "recdef" => {
                let body: &'static Value = Box::leak(Box::new(ty["a"].clone()));
                let outer = REC_BODY.with(|b| b.replace(Some(body)));
                let r = TySeed(body).deserialize(d);
                REC_BODY.with(|b| *b.borrow_mut() = outer);
                r
            }
            "rec" => {
                let body = REC_BODY.with(|b| *b.borrow()).expect("rec outside recdef");
                TySeed(body).deserialize(d)
            }
            other => panic!("unknown type tag {other}"),
        }
    }
}

// ------------------------------------------------------------------------------------------------ the zoo

mod zoo {
    use super::*;

    /// what `serde_bytes::ByteBuf` does
    #[derive(Debug)]
    pub struct ByteBuf(#[allow(dead_code)] pub Vec<u8>);
    impl<'de> Deserialize<'de> for ByteBuf {
        fn deserialize<D: Deserializer<'de>>(d: D) -> Result<Self, D::Error> {
            struct V;
            impl<'de> Visitor<'de> for V {
                type Value = ByteBuf;
                fn expecting(&self, f: &mut std::fmt::Formatter) -> std::fmt::Result { write!(f, "bytes") }
                fn visit_byte_buf<E>(self, v: Vec<u8>) -> Result<ByteBuf, E> { Ok(ByteBuf(v)) }
                fn visit_bytes<E>(self, v: &[u8]) -> Result<ByteBuf, E> { Ok(ByteBuf(v.to_vec())) }
            }
            d.deserialize_byte_buf(V)
        }
    }

    #[derive(Deserialize, Serialize, Debug)]
    pub struct Prims { pub a: bool, pub b: i8, pub c: i16, pub d: i32, pub e: i64, pub f: u8, pub g: u16, pub h: u32, pub i: u64, pub j: f32, pub k: f64, pub l: char, pub m: String }
    #[derive(Deserialize, Debug)]
    pub struct WithBytes { pub x: ByteBuf, pub u: () }
    #[derive(Deserialize, Serialize, Debug)]
    pub struct Inner { pub x: Option<i32>, pub y: Vec<String> }
    #[derive(Deserialize, Serialize, Debug)]
    pub struct Nested { pub inner: Inner, pub list: Vec<Inner>, pub opt: Option<Inner>, pub oo: Option<Option<u8>> }
    #[derive(Deserialize, Serialize, Debug)]
    pub struct Tup(pub i32, pub String);
    #[derive(Deserialize, Serialize, Debug)]
    pub struct New(pub f64);
    #[derive(Deserialize, Serialize, Debug)]
    pub struct Unit;
    #[derive(Deserialize, Serialize, Debug)]
    pub struct Empty {}
    #[derive(Deserialize, Serialize, Debug)]
    pub struct Tuples { pub t: (u8, bool), pub ts: Tup, pub n: New, pub u: Unit, pub e: Empty, pub arr: [i16; 3], pub t0: () }
    #[derive(Deserialize, Serialize, Debug)]
    pub enum Plain { A, B, C }
    #[derive(Deserialize, Serialize, Debug)]
    pub enum Data { U, N(i32), T(u8, String), S { p: bool, q: Option<f32> }, T0(), N2(Inner) }
    #[derive(Deserialize, Serialize, Debug)]
    pub enum Deep { X(Data), Y(Plain), Z }
    #[derive(Deserialize, Serialize, Debug)]
    pub struct Enums { pub p: Plain, pub d: Data, pub od: Option<Data>, pub vd: Vec<Data>, pub deep: Deep }
    #[derive(Deserialize, Serialize, Debug)]
    pub struct Maps { pub m: HashMap<String, i32>, pub bm: std::collections::BTreeMap<i64, Vec<bool>> }
    #[derive(Deserialize, Serialize, Debug)]
    pub struct TwoEnums { pub a: Plain, pub b: Data }
    #[derive(Deserialize, Serialize, Debug)]
    pub enum WithOptVec { A, S { v: Option<Vec<i32>>, w: String }, N(Vec<Option<bool>>), T(Option<Inner>, [u8; 2]) }
    #[derive(Deserialize, Serialize, Debug)]
    pub struct OptVecEnum { pub e: WithOptVec, pub n: u8 }
    #[derive(Deserialize, Serialize, Debug)]
    pub struct Holder { pub d: Data, pub tag: Option<String> }
    #[derive(Deserialize, Serialize, Debug)]
    pub struct VecNested { pub items: Vec<Holder>, pub t: Option<(u8, Plain)>, pub dd: Vec<Vec<Deep>> }
    #[derive(Deserialize, Serialize, Debug)]
    pub struct MapEnum { pub m: std::collections::BTreeMap<String, Deep>, pub k: HashMap<i8, Vec<Plain>>, pub o: Option<HashMap<String, Option<Data>>> }
}

fn s_(n: &str, f: Vec<(&str, Value)>) -> Value {
    json!({"t": "struct", "n": n, "f": f.into_iter().map(|(k, v)| json!([k, v])).collect::<Vec<_>>()})
}
fn l_(t: &str) -> Value { json!({"t": t}) }
fn opt_(a: Value) -> Value { json!({"t": "option", "a": a}) }
fn vec_(a: Value) -> Value { json!({"t": "vec", "a": a}) }
fn tup_(a: Vec<Value>) -> Value { json!({"t": "tuple", "a": a}) }
fn nt_(n: &str, a: Value) -> Value { json!({"t": "newtype_struct", "n": n, "a": a}) }
fn en_(n: &str, v: Vec<Value>) -> Value { json!({"t": "enum", "n": n, "v": v}) }
fn var_(n: &str, k: &str, a: Value) -> Value { json!({"n": n, "k": k, "a": a}) }

fn zoo_desc(name: &str) -> Value {
    let inner = || s_("Inner", vec![("x", opt_(l_("i32"))), ("y", vec_(l_("string")))]);
    let plain = || en_("Plain", vec![var_("A", "unit", Value::Null), var_("B", "unit", Value::Null), var_("C", "unit", Value::Null)]);
    let data = || {
        en_("Data", vec![
            var_("U", "unit", Value::Null),
            var_("N", "newtype", l_("i32")),
            var_("T", "tuple", json!([l_("u8"), l_("string")])),
            var_("S", "struct", json!([["p", l_("bool")], ["q", opt_(l_("f32"))]])),
            var_("T0", "tuple", json!([])),
            var_("N2", "newtype", inner()),
        ])
    };
    let deep = || en_("Deep", vec![var_("X", "newtype", data()), var_("Y", "newtype", plain()), var_("Z", "unit", Value::Null)]);
    match name {
        "Prims" => s_("Prims", vec![("a", l_("bool")), ("b", l_("i8")), ("c", l_("i16")), ("d", l_("i32")), ("e", l_("i64")), ("f", l_("u8")),
                                     ("g", l_("u16")), ("h", l_("u32")), ("i", l_("u64")), ("j", l_("f32")), ("k", l_("f64")), ("l", l_("char")), ("m", l_("string"))]),
        "WithBytes" => s_("WithBytes", vec![("x", l_("bytes")), ("u", l_("unit"))]),
        "Nested" => s_("Nested", vec![("inner", inner()), ("list", vec_(inner())), ("opt", opt_(inner())), ("oo", opt_(opt_(l_("u8"))))]),
        "Tuples" => s_("Tuples", vec![
            ("t", tup_(vec![l_("u8"), l_("bool")])),
            ("ts", json!({"t": "tuple_struct", "n": "Tup", "a": [l_("i32"), l_("string")]})),
            ("n", json!({"t": "newtype_struct", "n": "New", "a": l_("f64")})),
            ("u", json!({"t": "unit_struct", "n": "Unit"})),
            ("e", s_("Empty", vec![])),
            ("arr", tup_(vec![l_("i16"), l_("i16"), l_("i16")])),
            ("t0", l_("unit")),
        ]),
        "Enums" => s_("Enums", vec![("p", plain()), ("d", data()), ("od", opt_(data())), ("vd", vec_(data())),
                                     ("deep", en_("Deep", vec![var_("X", "newtype", data()), var_("Y", "newtype", plain()), var_("Z", "unit", Value::Null)]))]),
        "Maps" => s_("Maps", vec![("m", json!({"t": "map", "k": l_("string"), "v": l_("i32")})), ("bm", json!({"t": "map", "k": l_("i64"), "v": vec_(l_("bool"))}))]),
        "TwoEnums" => s_("TwoEnums", vec![("a", plain()), ("b", data())]),
        "OptVecEnum" => s_("OptVecEnum", vec![
            ("e", en_("WithOptVec", vec![
                var_("A", "unit", Value::Null),
                var_("S", "struct", json!([["v", opt_(vec_(l_("i32")))], ["w", l_("string")]])),
                var_("N", "newtype", vec_(opt_(l_("bool")))),
                var_("T", "tuple", json!([opt_(inner()), tup_(vec![l_("u8"), l_("u8")])])),
            ])),
            ("n", l_("u8")),
        ]),
        "VecNested" => s_("VecNested", vec![
            ("items", vec_(s_("Holder", vec![("d", data()), ("tag", opt_(l_("string")))]))),
            ("t", opt_(tup_(vec![l_("u8"), plain()]))),
            ("dd", vec_(vec_(deep()))),
        ]),
        "MapEnum" => s_("MapEnum", vec![
            ("m", json!({"t": "map", "k": l_("string"), "v": deep()})),
            ("k", json!({"t": "map", "k": l_("i8"), "v": vec_(plain())})),
            ("o", opt_(json!({"t": "map", "k": l_("string"), "v": opt_(data())}))),
        ]),
        "ItemPlain" => s_("Item", vec![("item", plain())]),
        "ItemVecOpt" => s_("Item", vec![("item", vec_(opt_(l_("i64"))))]),
        "Tup" => json!({"t": "tuple_struct", "n": "Tup", "a": [l_("i32"), l_("string")]}),
        "I32" => l_("i32"),
        _ => panic!("unknown zoo type {name}"),
    }
}

const ZOO: [&str; 14] = ["Prims", "WithBytes", "Nested", "Tuples", "Enums", "Maps", "TwoEnums", "ItemPlain", "ItemVecOpt", "Tup", "I32",
                         "OptVecEnum", "VecNested", "MapEnum"];

fn zoo_from_type(name: &str, o: TracingOptions) -> Result<Vec<Field>, serde_arrow::Error> {
    use serde_arrow::utils::Item;
    match name {
        "Prims" => Vec::<Field>::from_type::<zoo::Prims>(o),
        "WithBytes" => Vec::<Field>::from_type::<zoo::WithBytes>(o),
        "Nested" => Vec::<Field>::from_type::<zoo::Nested>(o),
        "Tuples" => Vec::<Field>::from_type::<zoo::Tuples>(o),
        "Enums" => Vec::<Field>::from_type::<zoo::Enums>(o),
        "Maps" => Vec::<Field>::from_type::<zoo::Maps>(o),
        "TwoEnums" => Vec::<Field>::from_type::<zoo::TwoEnums>(o),
        "OptVecEnum" => Vec::<Field>::from_type::<zoo::OptVecEnum>(o),
        "VecNested" => Vec::<Field>::from_type::<zoo::VecNested>(o),
        "MapEnum" => Vec::<Field>::from_type::<zoo::MapEnum>(o),
        "ItemPlain" => Vec::<Field>::from_type::<Item<zoo::Plain>>(o),
        "ItemVecOpt" => Vec::<Field>::from_type::<Item<Vec<Option<i64>>>>(o),
        "Tup" => Vec::<Field>::from_type::<zoo::Tup>(o),
        "I32" => Vec::<Field>::from_type::<i32>(o),
        _ => panic!("unknown zoo type {name}"),
    }
}

// ------------------------------------------------------------------------------------------------ generators

const FNAMES: [&str; 8] = ["a", "b", "c", "d", "e", "f", "g", "h"];
const LEAVES: [&str; 15] = ["bool", "i8", "i16", "i32", "i64", "u8", "u16", "u32", "u64", "f32", "f64", "char", "string", "bytes", "unit"];

fn gen_ty(rng: &mut Rng, depth: usize) -> Value {
    let k = if depth == 0 { 0 } else { rng.below(16) };
    match k {
        0..=4 => l_(*rng.pick(&LEAVES)),
        5 | 6 => opt_(gen_ty(rng, depth - 1)),
        7 | 8 => vec_(gen_ty(rng, depth - 1)),
        9 => tup_((0..rng.usize(4)).map(|_| gen_ty(rng, depth - 1)).collect()),
        10 => {
            // keys: strings, any leaf, or any type at all (enums with data need several exploration passes of the KEY)
            let key = match rng.below(3) {
                0 => l_("string"),
                1 => l_(*rng.pick(&LEAVES)),
                _ => gen_ty(rng, depth - 1),
            };
            json!({"t": "map", "k": key, "v": gen_ty(rng, depth - 1)})
        }
        11 | 12 => gen_struct(rng, depth - 1),
        13 => match rng.below(3) {
            0 => json!({"t": "tuple_struct", "n": "TS", "a": (0..rng.usize(4)).map(|_| gen_ty(rng, depth - 1)).collect::<Vec<_>>()}),
            1 => json!({"t": "newtype_struct", "n": "NS", "a": gen_ty(rng, depth - 1)}),
            _ => json!({"t": "unit_struct", "n": "US"}),
        },
        _ => gen_enum(rng, depth),
    }
}

/// an enum of 1 … 4 variants of the four kinds (a quarter: unit variants only); `depth ≥ 1`
fn gen_enum(rng: &mut Rng, depth: usize) -> Value {
    let n = 1 + rng.usize(4);
    let all_unit = rng.chance(1, 4);
    en_("E", (0..n).map(|i| {
        let name = format!("V{i}");
        match if all_unit { 0 } else { rng.below(4) } {
            0 => var_(&name, "unit", Value::Null),
            1 => var_(&name, "newtype", gen_ty(rng, depth - 1)),
            2 => var_(&name, "tuple", Value::Array((0..rng.usize(3)).map(|_| gen_ty(rng, depth - 1)).collect())),
            _ => var_(&name, "struct", Value::Array((0..rng.usize(3)).map(|j| json!([FNAMES[j], gen_ty(rng, depth - 1)])).collect())),
        }
    }).collect())
}

fn gen_struct(rng: &mut Rng, depth: usize) -> Value {
    let n = rng.usize(5);
    s_("S", (0..n).map(|i| (FNAMES[i], gen_ty(rng, depth))).collect())
}

/// number of covering samples needed (mirrors `SaModel.Trace.width`)
fn width(ty: &Value) -> usize {
    let arr = |v: &Value| v.as_array().cloned().unwrap_or_default();
    match ty["t"].as_str().unwrap() {
        "option" | "vec" | "newtype_struct" => width(&ty["a"]),
        "tuple" | "tuple_struct" => arr(&ty["a"]).iter().map(width).max().unwrap_or(1).max(1),
        "map" => width(&ty["k"]).max(width(&ty["v"])),
        "struct" => arr(&ty["f"]).iter().map(|f| width(&f[1])).max().unwrap_or(1).max(1),
        "enum" => {
            let vs = arr(&ty["v"]);
            let m = vs.iter().map(|v| match v["k"].as_str().unwrap() {
                "unit" => 1,
                "newtype" => width(&v["a"]),
                "tuple" => arr(&v["a"]).iter().map(width).max().unwrap_or(1).max(1),
                _ => arr(&v["a"]).iter().map(|f| width(&f[1])).max().unwrap_or(1).max(1),
            }).max().unwrap_or(1);
            (vs.len() * m).max(1)
        }
        _ => 1,
    }
}

/// the `k`-th covering sample (mirrors `SaModel.Trace.sampleAt`)
fn sample_at(ty: &Value, k: usize) -> Value {
    let arr = |v: &Value| v.as_array().cloned().unwrap_or_default();
    let name = ty["n"].as_str().unwrap_or("");
    match ty["t"].as_str().unwrap() {
        "unit" => sval::unit(),
        "bool" => sval::boolean(true),
        "i8" => sval::int("i8", 1), "i16" => sval::int("i16", 1), "i32" => sval::int("i32", 1), "i64" => sval::int("i64", 1),
        "u8" => sval::int("u8", 1), "u16" => sval::int("u16", 1), "u32" => sval::int("u32", 1), "u64" => sval::int("u64", 1),
        "f32" => sval::f32v(1.0), "f64" => sval::f64v(1.0),
        "char" => sval::chr('a'),
        "string" => sval::string("s"),
        "bytes" => sval::bytes(&[1]),
        "option" => sval::some(sample_at(&ty["a"], k)),
        "vec" => sval::seq(vec![sample_at(&ty["a"], k)]),
        "tuple" => sval::tuple(arr(&ty["a"]).iter().map(|t| sample_at(t, k)).collect()),
        "tuple_struct" => sval::tuple_struct(name, arr(&ty["a"]).iter().map(|t| sample_at(t, k)).collect()),
        "map" => sval::map(vec![(sample_at(&ty["k"], k), sample_at(&ty["v"], k))]),
        "struct" => sval::record(name, arr(&ty["f"]).iter().map(|f| (f[0].as_str().unwrap().to_string(), 0, sample_at(&f[1], k))).collect()),
        "newtype_struct" => sval::newtype_struct(name, sample_at(&ty["a"], k)),
        "unit_struct" => sval::unit_struct(name),
        "enum" => {
            let vs = arr(&ty["v"]);
            if vs.is_empty() {
                return sval::unit();
            }
            let i = k % vs.len();
            let kk = k / vs.len();
            let v = &vs[i];
            let vn = v["n"].as_str().unwrap();
            match v["k"].as_str().unwrap() {
                "unit" => sval::unit_variant(name, i as u32, vn),
                "newtype" => sval::newtype_variant(name, i as u32, vn, sample_at(&v["a"], kk)),
                "tuple" => sval::tuple_variant(name, i as u32, vn, arr(&v["a"]).iter().map(|t| sample_at(t, kk)).collect()),
                _ => sval::struct_variant(name, i as u32, vn, arr(&v["a"]).iter().map(|f| (f[0].as_str().unwrap().to_string(), 0, sample_at(&f[1], kk))).collect()),
            }
        }
        other => panic!("unknown type tag {other}"),
    }
}

/// (overwrite path without "$.", traced name of the node, is the node a variant of an enum or below one) for every node
/// below the root
fn collect_paths(ty: &Value, prefix: &str, in_variant: bool, out: &mut Vec<(String, String, bool)>) {
    let arr = |v: &Value| v.as_array().cloned().unwrap_or_default();
    let mut child = |name: &str, t: &Value, var: bool, out: &mut Vec<(String, String, bool)>| {
        let p = if prefix.is_empty() { name.to_string() } else { format!("{prefix}.{name}") };
        out.push((p.clone(), name.to_string(), var));
        collect_paths(t, &p, var, out);
    };
    match ty["t"].as_str().unwrap() {
        "option" | "newtype_struct" => collect_paths(&ty["a"], prefix, in_variant, out),
        "vec" => child("element", &ty["a"], in_variant, out),
        "tuple" | "tuple_struct" => {
            for (i, t) in arr(&ty["a"]).iter().enumerate() {
                child(&i.to_string(), t, in_variant, out);
            }
        }
        "map" => {
            child("key", &ty["k"], in_variant, out);
            child("value", &ty["v"], in_variant, out);
        }
        "struct" => {
            for f in arr(&ty["f"]) {
                child(f[0].as_str().unwrap(), &f[1], in_variant, out);
            }
        }
        // the variants of an enum (compare `Spec.tyPathsVariants`): every variant is a node `<path>.<Variant>` named after the
        // variant; the payload of a newtype variant lives AT the variant path (what is below it is below the payload type),
        // tuple variant elements at `<path>.<Variant>.<i>`, struct variant fields at `<path>.<Variant>.<field>`
        "enum" => {
            for v in arr(&ty["v"]) {
                let vn = v["n"].as_str().unwrap();
                match v["k"].as_str().unwrap() {
                    "unit" => child(vn, &l_("unit"), true, out),
                    "newtype" => child(vn, &v["a"], true, out),
                    "tuple" => child(vn, &tup_(arr(&v["a"])), true, out),
                    _ => child(vn, &json!({"t": "struct", "n": vn, "f": v["a"]}), true, out),
                }
            }
        }
        _ => {}
    }
}

// ------------------------------------------------------------------------------------------------ randomised covering sets

/// plain words: nothing here looks like a date / time (`guess_dates` may be on)
const WORDS: [&str; 10] = ["", "s", "foo", "bar", "hello world", "x y", "Zürich", "none", "null", "a-b"];
const KEYS: [&str; 6] = ["ka", "kb", "kc", "kd", "ke", "kf"];

fn has_empty_enum(ty: &Value) -> bool {
    let arr = |v: &Value| v.as_array().cloned().unwrap_or_default();
    match ty["t"].as_str().unwrap() {
        "option" | "vec" | "newtype_struct" => has_empty_enum(&ty["a"]),
        "tuple" | "tuple_struct" => arr(&ty["a"]).iter().any(has_empty_enum),
        "map" => has_empty_enum(&ty["k"]) || has_empty_enum(&ty["v"]),
        "struct" => arr(&ty["f"]).iter().any(|f| has_empty_enum(&f[1])),
        "enum" => {
            let vs = arr(&ty["v"]);
            vs.is_empty() || vs.iter().any(|v| match v["k"].as_str().unwrap() {
                "unit" => false,
                "newtype" => has_empty_enum(&v["a"]),
                "tuple" => arr(&v["a"]).iter().any(has_empty_enum),
                _ => arr(&v["a"]).iter().any(|f| has_empty_enum(&f[1])),
            })
        }
        _ => false,
    }
}

/// a random serde value of the type `ty` (what a derived `Serialize` of a value of the Rust type emits), in the wire form
/// of sval.rs: any `None` / `Some`, sequences and maps of 0 … 3 elements, any variant, any scalar
fn random_value(ty: &Value, r: &mut Rng, depth: usize) -> Value {
    let arr = |v: &Value| v.as_array().cloned().unwrap_or_default();
    let name = ty["n"].as_str().unwrap_or("");
    let t = ty["t"].as_str().unwrap();
    let len = |r: &mut Rng| if depth >= 3 { r.usize(2) } else { r.usize(4) };
    match t {
        "unit" => sval::unit(),
        "bool" => sval::boolean(r.bool()),
        "i8" => sval::int(t, r.range(-128, 127) as i128),
        "i16" => sval::int(t, *r.pick(&[0i128, -1, 2, 300, -32768, 32767])),
        "i32" => sval::int(t, *r.pick(&[0i128, -1, 2, 70000, i32::MIN as i128, i32::MAX as i128])),
        "i64" => sval::int(t, *r.pick(&[0i128, -1, 2, 5_000_000_000, i64::MIN as i128, i64::MAX as i128])),
        "u8" => sval::int(t, r.range(0, 255) as i128),
        "u16" => sval::int(t, *r.pick(&[0i128, 2, 300, 65535])),
        "u32" => sval::int(t, *r.pick(&[0i128, 2, 70000, u32::MAX as i128])),
        "u64" => sval::int(t, *r.pick(&[0i128, 2, 5_000_000_000, i64::MAX as i128 + 1, u64::MAX as i128])),
        "f32" => sval::f32v(*r.pick(&[0.0f32, -0.0, 1.0, -1.5, 3.25e10, f32::MAX, f32::INFINITY, f32::NAN])),
        "f64" => sval::f64v(*r.pick(&[0.0f64, -0.0, 1.0, -1.5, 3.25e100, f64::MIN, f64::NEG_INFINITY, f64::NAN])),
        "char" => sval::chr(*r.pick(&['a', 'b', 'Z', '0', ' ', 'ü', '\u{1F600}'])),
        "string" => sval::string(*r.pick(&WORDS)),
        "bytes" => sval::bytes(&(0..r.usize(4)).map(|_| r.below(256) as u8).collect::<Vec<u8>>()),
        "option" => if r.chance(1, 3) { sval::none() } else { sval::some(random_value(&ty["a"], r, depth)) },
        "vec" => sval::seq((0..len(r)).map(|_| random_value(&ty["a"], r, depth + 1)).collect()),
        "tuple" => sval::tuple(arr(&ty["a"]).iter().map(|t| random_value(t, r, depth + 1)).collect()),
        "tuple_struct" => sval::tuple_struct(name, arr(&ty["a"]).iter().map(|t| random_value(t, r, depth + 1)).collect()),
        "map" => {
            // string keys stay strings, distinct within one map (what a HashMap / BTreeMap gives)
            let n = len(r);
            let off = r.usize(KEYS.len());
            sval::map((0..n).map(|j| {
                let k = if ty["k"]["t"] == "string" { sval::string(KEYS[(off + j) % KEYS.len()]) } else { random_value(&ty["k"], r, depth + 1) };
                (k, random_value(&ty["v"], r, depth + 1))
            }).collect())
        }
        "struct" => sval::record(name, arr(&ty["f"]).iter().map(|f| (f[0].as_str().unwrap().to_string(), 0, random_value(&f[1], r, depth + 1))).collect()),
        "newtype_struct" => sval::newtype_struct(name, random_value(&ty["a"], r, depth)),
        "unit_struct" => sval::unit_struct(name),
        "enum" => {
            let vs = arr(&ty["v"]);
            if vs.is_empty() {
                return sval::unit(); // no value exists; callers skip types with an empty enum
            }
            let i = r.usize(vs.len());
            let v = &vs[i];
            let vn = v["n"].as_str().unwrap();
            match v["k"].as_str().unwrap() {
                "unit" => sval::unit_variant(name, i as u32, vn),
                "newtype" => sval::newtype_variant(name, i as u32, vn, random_value(&v["a"], r, depth + 1)),
                "tuple" => sval::tuple_variant(name, i as u32, vn, arr(&v["a"]).iter().map(|t| random_value(t, r, depth + 1)).collect()),
                _ => sval::struct_variant(name, i as u32, vn, arr(&v["a"]).iter().map(|f| (f[0].as_str().unwrap().to_string(), 0, random_value(&f[1], r, depth + 1))).collect()),
            }
        }
        other => panic!("unknown type tag {other}"),
    }
}

/// two values of the same type that TOGETHER show what `v` shows, each possibly less: a `Some(x)` becomes `Some(x)` /
/// `None` (either way round) or `Some(x1)` / `Some(x2)`; the elements of a sequence / the entries of a map are dealt to
/// the two sides (or split themselves), so one side may be empty and a side may hold two parts of one element; tuples,
/// structs and variant payloads are split position by position
fn split(v: &Value, r: &mut Rng) -> (Value, Value) {
    let mut a = v.clone();
    let mut b = v.clone();
    let pair = |xs: &[Value], r: &mut Rng| -> (Vec<Value>, Vec<Value>) { xs.iter().map(|x| split(x, r)).unzip() };
    match v["k"].as_str().unwrap() {
        "some" => match r.below(4) {
            0 => b = sval::none(),
            1 => a = sval::none(),
            _ => {
                let (x, y) = split(&v["v"], r);
                a["v"] = x;
                b["v"] = y;
            }
        },
        "newtype_struct" | "newtype_variant" => {
            let (x, y) = split(&v["v"], r);
            a["v"] = x;
            b["v"] = y;
        }
        "seq" => {
            let (mut xa, mut xb) = (Vec::new(), Vec::new());
            for it in v["v"].as_array().unwrap() {
                match r.below(4) {
                    0 => xa.push(it.clone()),
                    1 => xb.push(it.clone()),
                    2 => {
                        let (x, y) = split(it, r);
                        xa.push(x);
                        xb.push(y);
                    }
                    _ => {
                        let (x, y) = split(it, r);
                        xa.push(x);
                        xa.push(y);
                    }
                }
            }
            a["v"] = Value::Array(xa);
            b["v"] = Value::Array(xb);
        }
        "map" => {
            let (mut xa, mut xb) = (Vec::new(), Vec::new());
            for e in v["e"].as_array().unwrap() {
                match r.below(3) {
                    0 => xa.push(e.clone()),
                    1 => xb.push(e.clone()),
                    _ => {
                        let (k1, k2) = split(&e[0], r);
                        let (v1, v2) = split(&e[1], r);
                        xa.push(json!([k1, v1]));
                        xb.push(json!([k2, v2]));
                    }
                }
            }
            a["e"] = Value::Array(xa);
            b["e"] = Value::Array(xb);
        }
        "tuple" | "tuple_struct" | "tuple_variant" => {
            let (xa, xb) = pair(v["v"].as_array().unwrap(), r);
            a["v"] = Value::Array(xa);
            b["v"] = Value::Array(xb);
        }
        "struct" | "struct_variant" => {
            let fs = v["f"].as_array().unwrap();
            let (xa, xb) = pair(&fs.iter().map(|f| f[2].clone()).collect::<Vec<_>>(), r);
            a["f"] = Value::Array(fs.iter().zip(xa).map(|(f, x)| json!([f[0], f[1], x])).collect());
            b["f"] = Value::Array(fs.iter().zip(xb).map(|(f, x)| json!([f[0], f[1], x])).collect());
        }
        _ => {}
    }
    (a, b)
}

/// a randomised covering sample list: the canonical covering samples — whole, or split into two or three samples that
/// only together show what the canonical one shows —, extra random values of the type (`None`s, empty and longer
/// collections, other / repeated variants, other scalars), repetitions; shuffled
fn randomised_covering(ty: &Value, canonical: &[Value], r: &mut Rng) -> Vec<Value> {
    let mut out: Vec<Value> = Vec::new();
    let small = canonical.len() <= 32;
    for s in canonical {
        match if small { r.below(4) } else { 0 } {
            0 => out.push(s.clone()),
            1 | 2 => {
                let (a, b) = split(s, r);
                out.push(a);
                out.push(b);
            }
            _ => {
                let (a, b) = split(s, r);
                let (a1, a2) = split(&a, r);
                out.extend([a1, a2, b]);
            }
        }
    }
    for _ in 0..r.usize(5) {
        out.push(random_value(ty, r, 0));
    }
    for _ in 0..r.usize(3) {
        let x = r.pick(&out).clone();
        out.push(x);
    }
    r.shuffle(&mut out);
    out
}

// ------------------------------------------------------------------------------------------------ overwrites

const OW_LEAF_DTS: [&str; 10] = ["Int64", "LargeUtf8", "Float32", "Boolean", "Date32", "Utf8", "UInt8", "Float64", "Int32", "LargeBinary"];

fn wire_field(name: &str, dt: Value, nullable: bool) -> Value {
    json!({"name": name, "nullable": nullable, "meta": [], "dt": dt})
}

/// data type (and metadata) of an overwrite field: a leaf name of the fixed vocabulary, or — in the wire form of
/// schema_dump.rs — a Struct with children, a List / LargeList of a primitive, a Struct holding a list, a tuple-like
/// Struct tagged `TupleAsStruct`, a leaf with a metadata entry
fn gen_ow_dt(r: &mut Rng) -> (Value, Option<Value>) {
    let leaf = |r: &mut Rng| json!({"t": *r.pick(&OW_LEAF_DTS)});
    let list = |r: &mut Rng| {
        let child = wire_field(*r.pick(&["element", "item"]), json!({"t": *r.pick(&OW_LEAF_DTS)}), r.bool());
        json!({"t": *r.pick(&["List", "LargeList"]), "child": child})
    };
    match r.below(10) {
        0..=4 => (json!(*r.pick(&OW_LEAF_DTS)), None),
        5 => {
            let n = r.usize(4);
            (json!({"t": "Struct", "fields": (0..n).map(|i| wire_field(["x", "y", "z"][i], leaf(r), r.bool())).collect::<Vec<_>>()}), None)
        }
        6 => (list(r), None),
        7 => (json!({"t": "Struct", "fields": [wire_field("x", list(r), r.bool()), wire_field("y", leaf(r), r.bool())]}), None),
        8 => (json!({"t": "Struct", "fields": [wire_field("0", leaf(r), false), wire_field("1", leaf(r), r.bool())]}),
              Some(json!([["SERDE_ARROW:strategy", "TupleAsStruct"]]))),
        _ => (json!(*r.pick(&OW_LEAF_DTS)), Some(json!([["note", "n"]]))),
    }
}

/// 0 … 3 overwrites (`many`: 1 … 3): at a real path of the traced tree (variant paths and paths below variants included,
/// preferred half of the time when there are any) with the right name, a wrong name, at a path below it that does not
/// exist, or at a perturbed path; in half of the cases every overwrite is of the first kind (so that several overwrites
/// succeed together).  Two overwrites may name the same path (rarely): the later one replaces the earlier one.
fn gen_overwrites(paths: &[(String, String, bool)], r: &mut Rng, many: bool) -> Vec<Value> {
    let mut ows: Vec<Value> = Vec::new();
    if paths.is_empty() {
        return ows;
    }
    let var_paths: Vec<(String, String, bool)> = paths.iter().filter(|p| p.2).cloned().collect();
    let n = if many { 1 + r.usize(3) } else { match r.below(8) { 0..=2 => 0, 3..=5 => 1, 6 => 2, _ => 3 } };
    let all_right = r.bool();
    let mut used: Vec<String> = Vec::new();
    for _ in 0..n {
        let draw = |r: &mut Rng| if !var_paths.is_empty() && r.bool() { r.pick(&var_paths).clone() } else { r.pick(paths).clone() };
        let (mut p, mut nm, _) = draw(r);
        // mostly distinct paths; one time in eight a repeated path is let through
        for _ in 0..4 {
            if !used.contains(&p) || r.chance(1, 8) {
                break;
            }
            (p, nm, _) = draw(r);
        }
        used.push(p.clone());
        let (dt, meta) = gen_ow_dt(r);
        let mut f = match if all_right { 5 } else { r.below(6) } {
            0 => json!([p, {"name": format!("{nm}_x"), "dt": dt, "nullable": false}]),
            1 => json!([format!("{p}.nope"), {"name": "nope", "dt": dt, "nullable": true}]),
            2 => json!([format!("x{p}"), {"name": nm, "dt": dt, "nullable": true}]),
            _ => json!([p, {"name": nm, "dt": dt, "nullable": r.bool()}]),
        };
        if let Some(m) = meta {
            f[1]["meta"] = m;
        }
        ows.push(f);
    }
    ows
}

fn opts_from_mask(mask: u64) -> Value {
    let mut o = default_opts();
    for (i, k) in OPT_KEYS.iter().enumerate() {
        o[*k] = json!(mask >> i & 1 == 1);
    }
    o
}

/// `samples_rand`: a randomised covering list beside the canonical one (in `num` of 6 cases that have canonical samples),
/// drawn from the case's own sub-seed
fn add_samples_rand(case: &mut Value, sub: u64, num: u64) {
    let mut y = Rng::new(sub ^ 0xC08E_5A3D);
    let canonical = case["samples"].as_array().cloned().unwrap_or_default();
    // (a canonical list cut short is not covering)
    if canonical.is_empty() || canonical.len() != width(&case["ty"]) || has_empty_enum(&case["ty"]) || !y.chance(num, 6) {
        return;
    }
    case["samples_rand"] = Value::Array(randomised_covering(&case["ty"], &canonical, &mut y));
}

pub fn gen(ctx: &Ctx) -> Vec<Value> {
    let mut rng = Rng::new(ctx.seed ^ 0x7ace);
    let mut out = Vec::new();
    let mut id = 0usize;
    let mut push = |out: &mut Vec<Value>, mut c: Value, sub: u64| {
        c["id"] = json!(format!("tracety-{:06}", id));
        c["seed"] = json!(sub);
        id += 1;
        out.push(c);
    };
    // (0) DynRoot fidelity: every zoo type under a spread of option settings
    for name in ZOO {
        for mask in [0u64, 1, 2, 0x101, 0x1ff, 0x0a5, 0x15a, 0x003] {
            let sub = rng.fork().0;
            let ty = zoo_desc(name);
            let n = width(&ty).min(64);
            let samples: Vec<Value> = (0..n).map(|k| sample_at(&ty, k)).collect();
            let mut case = json!({"kind": "zoo", "zoo": name, "ty": ty, "opts": opts_from_mask(mask), "samples": samples, "overwrites": []});
            add_samples_rand(&mut case, sub, 6);
            push(&mut out, case, sub);
        }
    }
    // (1) random type descriptions; the options walk all 2^9 flag combinations
    let n = if ctx.thorough() { 30000 } else { 2500 };
    for c in 0..n {
        let mut r = rng.fork();
        let sub = r.0;
        let depth = 1 + r.usize(if ctx.thorough() { 4 } else { 3 });
        let ty = match r.below(10) {
            0 => gen_ty(&mut r, depth),                                   // root need not be a struct (error expected)
            1 => s_("Item", vec![("item", gen_ty(&mut r, depth))]),
            _ => gen_struct(&mut r, depth),
        };
        let mut o = opts_from_mask(c as u64 % 512);
        // budget: mostly the default, sometimes tight (documented error)
        o["from_type_budget"] = json!(match r.below(8) { 0 => 0, 1 => 1, 2 => 2, 3 => r.usize(8), _ => 100 });
        let w = width(&ty);
        let samples: Vec<Value> = if w <= 96 { (0..w).map(|k| sample_at(&ty, k)).collect() } else { vec![] };
        // overwrites: at real paths with the right name / a wrong name, below a leaf, and at perturbed paths
        let mut paths = Vec::new();
        collect_paths(&ty, "", false, &mut paths);
        let ows = gen_overwrites(&paths, &mut r, false);
        let mut case = json!({"kind": "random", "ty": ty, "opts": o, "samples": samples, "overwrites": ows});
        add_samples_rand(&mut case, sub, 5);
        let mut x = Rng::new(sub ^ 0xA91_C07E);
        if x.chance(1, 4) {
            case["api"] = json!(*x.pick(&["perm", "perm", "fields", "schemalike"]));
        }
        push(&mut out, case, sub);
    }
    // (1b) maps whose KEY needs more exploration passes than anything else in the type (and the mirror image)
    for mask in [0x100u64, 0x000, 0x1ff, 0x0a5] {
        for nk in [2usize, 3, 5] {
            for nv in [0usize, 1, 2] {
                let key = en_("K", (0..nk).map(|i| var_(&format!("K{i}"), if i % 2 == 0 { "newtype" } else { "tuple" },
                    if i % 2 == 0 { l_("i32") } else { Value::Array(vec![l_("string"), l_("bool")]) })).collect());
                let val = if nv == 0 { l_("i64") } else { en_("V", (0..nv).map(|i| var_(&format!("V{i}"), "newtype", l_("u8"))).collect()) };
                for wrap in 0..3 {
                    let m = json!({"t": "map", "k": key.clone(), "v": val.clone()});
                    let m = match wrap { 0 => m, 1 => vec_(opt_(m)), _ => opt_(m) };
                    let ty = s_("S", vec![("m", m), ("x", l_("i32"))]);
                    let w = width(&ty);
                    let samples: Vec<Value> = (0..w).map(|k| sample_at(&ty, k)).collect();
                    let sub = rng.fork().0;
                    let mut case = json!({"kind": "mapkey", "ty": ty, "opts": opts_from_mask(mask), "samples": samples, "overwrites": []});
                    add_samples_rand(&mut case, sub, 6);
                    push(&mut out, case, sub);
                }
            }
        }
    }
    // (1c) enums everywhere: structs with at least one enum field (bare, or under Option / Vec / a tuple / a map value / a
    //      newtype struct), options that mostly let `from_type` succeed, 1 … 3 overwrites that prefer variant paths and
    //      paths below variants, and always a randomised covering list
    let n = if ctx.thorough() { 12000 } else { 1200 };
    for c in 0..n {
        let mut r = rng.fork();
        let sub = r.0;
        let depth = 1 + r.usize(if ctx.thorough() { 4 } else { 3 });
        let nf = 1 + r.usize(3);
        let at = r.usize(nf);
        let fields: Vec<(&str, Value)> = (0..nf).map(|i| {
            if i != at {
                return (FNAMES[i], gen_ty(&mut r, depth - 1));
            }
            let e = gen_enum(&mut r, depth);
            (FNAMES[i], match r.below(8) {
                0 => opt_(e),
                1 => vec_(e),
                2 => tup_(vec![l_("i32"), e]),
                3 => json!({"t": "map", "k": l_("string"), "v": e}),
                4 => json!({"t": "newtype_struct", "n": "NS", "a": e}),
                5 => vec_(opt_(e)),
                _ => e,
            })
        }).collect();
        let ty = s_("S", fields);
        let mut o = opts_from_mask((c as u64).wrapping_mul(37) % 512);
        if r.chance(3, 4) {
            o["allow_null_fields"] = json!(true);
        }
        if r.chance(3, 4) {
            o["map_as_struct"] = json!(false);
        }
        if r.chance(1, 8) {
            o["from_type_budget"] = json!(r.usize(12));
        }
        let w = width(&ty);
        let samples: Vec<Value> = if w <= 96 { (0..w).map(|k| sample_at(&ty, k)).collect() } else { vec![] };
        let mut paths = Vec::new();
        collect_paths(&ty, "", false, &mut paths);
        let ows = gen_overwrites(&paths, &mut r, true);
        let mut case = json!({"kind": "enumow", "ty": ty, "opts": o, "samples": samples, "overwrites": ows});
        add_samples_rand(&mut case, sub, 6);
        push(&mut out, case, sub);
    }
    // (2) deep / recursive-like types: the depth limit and the budget
    for d in [5usize, 18, 19, 20, 21, 30] {
        let mut ty = l_("i32");
        for _ in 0..d {
            ty = vec_(ty);
        }
        let sub = rng.fork().0;
        push(&mut out, json!({"kind": "deep", "ty": s_("S", vec![("a", ty)]), "opts": default_opts(), "samples": [], "overwrites": []}), sub);
    }
    // (2b) transparent wrappers: `Option` / newtype structs add no path segment.  Finite chains around the limit of 20
    // wrappers at one position (alternating, options only, newtypes only), and RECURSIVE definitions (`recdef` / `rec`):
    // through wrappers only (`struct Node(Option<Box<Node>>)`, `struct N(Box<N>)`), through containers, and mixed
    for d in [1usize, 19, 20, 21, 22, 40] {
        for pat in 0..3 {
            let mut ty = l_("i32");
            for k in 0..d {
                ty = match pat {
                    0 => opt_(ty),
                    1 => nt_(&format!("N{k}"), ty),
                    _ => if k % 2 == 0 { opt_(ty) } else { nt_(&format!("N{k}"), ty) },
                };
            }
            let sub = rng.fork().0;
            push(&mut out, json!({"kind": "wrappers", "ty": s_("S", vec![("a", l_("u8")), ("w", ty)]), "opts": default_opts(), "samples": [], "overwrites": []}), sub);
        }
    }
    let rec_ = || json!({"t": "rec"});
    let recdef_ = |body: Value| json!({"t": "recdef", "a": body});
    let recursive: Vec<(&str, Value)> = vec![
        ("node-newtype-option", recdef_(nt_("Node", opt_(rec_())))),
        ("option-newtype", recdef_(opt_(nt_("W", rec_())))),
        ("newtype-only", recdef_(nt_("N", rec_()))),
        ("option-only", recdef_(opt_(rec_()))),
        ("two-newtypes-option", recdef_(nt_("A", nt_("B", opt_(rec_()))))),
        ("list-node", recdef_(s_("Node", vec![("value", l_("i32")), ("next", opt_(rec_()))]))),
        ("rose", recdef_(nt_("Rose", vec_(rec_())))),
        ("tree-enum", recdef_(en_("Tree", vec![var_("Leaf", "unit", Value::Null), var_("Node", "newtype", rec_())]))),
        ("mixed", recdef_(nt_("A", opt_(vec_(nt_("B", opt_(rec_()))))))),
        ("tuple", recdef_(json!({"t": "tuple", "a": [l_("u8"), opt_(rec_())]}))),
    ];
    for (name, ty) in recursive {
        for budget in [Value::Null, json!(1), json!(500)] {
            let sub = rng.fork().0;
            let mut o = default_opts();
            if !budget.is_null() {
                o["from_type_budget"] = budget;
            }
            push(&mut out, json!({"kind": "recursive", "rec": name, "ty": s_("S", vec![("a", l_("u8")), ("w", ty.clone())]), "opts": o, "samples": [], "overwrites": []}), sub);
        }
    }
    for nv in [1usize, 5, 99, 100, 101, 127, 128, 129] {
        let vs: Vec<Value> = (0..nv).map(|i| var_(&format!("V{i}"), "newtype", l_("i32"))).collect();
        let sub = rng.fork().0;
        let ty = s_("S", vec![("e", en_("E", vs))]);
        let samples: Vec<Value> = (0..nv).map(|k| sample_at(&ty, k)).collect();
        push(&mut out, json!({"kind": "budget", "ty": ty, "opts": default_opts(), "samples": samples, "overwrites": []}), sub);
    }
    {
        let sub = rng.fork().0;
        push(&mut out, json!({"kind": "budget", "ty": s_("S", vec![("e", en_("E", vec![]))]), "opts": default_opts(), "samples": [], "overwrites": []}), sub);
    }
    // the `i8` type ids: with a budget that covers the passes, 128 variants trace and 129 / 130 are the conversion error
    // (error class "more than 128 variants") for from_type and from_samples alike
    for nv in [128usize, 129, 130] {
        let vs: Vec<Value> = (0..nv).map(|i| var_(&format!("V{i}"), "newtype", l_("i32"))).collect();
        let sub = rng.fork().0;
        let ty = s_("S", vec![("e", en_("E", vs))]);
        let samples: Vec<Value> = (0..nv).map(|k| sample_at(&ty, k)).collect();
        let mut o = default_opts();
        o["from_type_budget"] = json!(200);
        push(&mut out, json!({"kind": "typeids", "ty": ty, "opts": o, "samples": samples, "overwrites": []}), sub);
    }
    // API coverage: the documented defaults, untouched (`TracingOptions::default()` / `::new()`), on every zoo type and
    // on types that show every default (maps, sequences, strings, enums without data, nullable-only fields)
    for name in ZOO {
        let sub = rng.fork().0;
        let ty = zoo_desc(name);
        let n = width(&ty).min(64);
        let samples: Vec<Value> = (0..n).map(|k| sample_at(&ty, k)).collect();
        push(&mut out, json!({"kind": "zoo", "zoo": name, "ty": ty, "opts": default_opts(), "samples": samples, "overwrites": [], "api": "defaults"}), sub);
    }
    out
}

// ------------------------------------------------------------------------------------------------ exec

fn run_from_type(ty: &Value, opts: &Value) -> Value {
    CURRENT_TY.with(|t| *t.borrow_mut() = ty.clone());
    outcome::run(|| {
        let o = build_opts(opts)?;
        let fields = Vec::<Field>::from_type::<DynRoot>(o)?;
        Ok::<Value, serde_arrow::Error>(fields_json(&fields))
    })
}

pub(crate) struct SampleRows<'a>(pub(crate) &'a [Value]);
impl Serialize for SampleRows<'_> {
    fn serialize<S: serde::Serializer>(&self, s: S) -> Result<S::Ok, S::Error> {
        let vals: Vec<SVal> = self.0.iter().map(SVal).collect();
        vals.serialize(s)
    }
}

fn run_from_samples(samples: &[Value], opts: &Value) -> Value {
    outcome::run(|| {
        let o = build_opts(opts)?;
        let fields = Vec::<Field>::from_samples(SampleRows(samples), o)?;
        Ok::<Value, serde_arrow::Error>(fields_json(&fields))
    })
}

fn marrow_of_arrow(fs: &[arrow_schema::Field]) -> Result<Value, serde_arrow::Error> {
    let out: Vec<Field> = fs.iter().map(Field::try_from).collect::<Result<_, _>>()?;
    Ok(fields_json(&out))
}

fn marrow_of_arrow2(fs: &[arrow2::datatypes::Field]) -> Result<Value, serde_arrow::Error> {
    let out: Vec<Field> = fs.iter().map(Field::try_from).collect::<Result<_, _>>()?;
    Ok(fields_json(&out))
}

/// API coverage: `[name, outcome]` lists that must repeat `impl` (`impl_api`) and `impl_samples` (`impl_samples_api`)
fn run_api(api: &str, input: &Value, samples: &[Value], case: &mut Value) {
    use serde_arrow::schema::SerdeArrowSchema;
    type ARef = arrow_schema::FieldRef;
    type AField = arrow_schema::Field;
    type A2Field = arrow2::datatypes::Field;
    let ty = &input["ty"];
    let seed = input["seed"].as_u64().unwrap_or(0);
    // the options of the runs that carry the overwrites as well, when there are any (as `impl_ow` does)
    let mut opts = input["opts"].clone();
    let mut ty_out: Vec<Value> = Vec::new();
    let mut sm_out: Vec<Value> = Vec::new();
    CURRENT_TY.with(|t| *t.borrow_mut() = ty.clone());
    let observe = |s: &SerdeArrowSchema| -> Result<Value, serde_arrow::Error> {
        marrow_of_arrow(&Vec::<AField>::try_from(s)?)
    };
    match api {
        "perm" | "fields" => {
            if let Some(ows) = input["overwrites"].as_array() {
                if !ows.is_empty() {
                    opts["overwrites"] = Value::Array(ows.clone());
                    case["api_with_overwrites"] = json!(true);
                }
            }
            let make = || if api == "perm" { build_opts_perm(&opts, seed) } else { build_opts_fields(&opts) };
            ty_out.push(json!([api, outcome::run(|| Ok::<Value, serde_arrow::Error>(fields_json(&Vec::<Field>::from_type::<DynRoot>(make()?)?)))]));
            if !samples.is_empty() {
                sm_out.push(json!([api, outcome::run(|| Ok::<Value, serde_arrow::Error>(fields_json(&Vec::<Field>::from_samples(SampleRows(samples), make()?)?)))]));
            }
        }
        "schemalike" => {
            let o = || build_opts(&opts);
            ty_out.push(json!(["SerdeArrowSchema", outcome::run(|| observe(&SerdeArrowSchema::from_type::<DynRoot>(o()?)?))]));
            ty_out.push(json!(["Vec<FieldRef>", outcome::run(|| {
                let refs = Vec::<ARef>::from_type::<DynRoot>(o()?)?;
                marrow_of_arrow(&refs.iter().map(|f| f.as_ref().clone()).collect::<Vec<_>>())
            })]));
            ty_out.push(json!(["Vec<arrow Field>", outcome::run(|| marrow_of_arrow(&Vec::<AField>::from_type::<DynRoot>(o()?)?))]));
            ty_out.push(json!(["Vec<arrow2 Field>", outcome::run(|| marrow_of_arrow2(&Vec::<A2Field>::from_type::<DynRoot>(o()?)?))]));
            if !samples.is_empty() {
                sm_out.push(json!(["SerdeArrowSchema", outcome::run(|| observe(&SerdeArrowSchema::from_samples(SampleRows(samples), o()?)?))]));
                sm_out.push(json!(["Vec<FieldRef>", outcome::run(|| {
                    let refs = Vec::<ARef>::from_samples(SampleRows(samples), o()?)?;
                    marrow_of_arrow(&refs.iter().map(|f| f.as_ref().clone()).collect::<Vec<_>>())
                })]));
                sm_out.push(json!(["Vec<arrow Field>", outcome::run(|| marrow_of_arrow(&Vec::<AField>::from_samples(SampleRows(samples), o()?)?))]));
                sm_out.push(json!(["Vec<arrow2 Field>", outcome::run(|| marrow_of_arrow2(&Vec::<A2Field>::from_samples(SampleRows(samples), o()?)?))]));
            }
        }
        "defaults" => {
            for (name, make) in [("default()", TracingOptions::default as fn() -> TracingOptions), ("new()", TracingOptions::new as fn() -> TracingOptions)] {
                ty_out.push(json!([name, outcome::run(|| Ok::<Value, serde_arrow::Error>(fields_json(&Vec::<Field>::from_type::<DynRoot>(make())?)))]));
                if !samples.is_empty() {
                    sm_out.push(json!([name, outcome::run(|| Ok::<Value, serde_arrow::Error>(fields_json(&Vec::<Field>::from_samples(SampleRows(samples), make())?)))]));
                }
            }
            case["default_fields"] = json!({"default()": opts_dump(&TracingOptions::default()), "new()": opts_dump(&TracingOptions::new()),
                "eq": TracingOptions::default() == TracingOptions::new()});
        }
        other => panic!("harness: unknown api variant {other}"),
    }
    case["impl_api"] = Value::Array(ty_out);
    case["impl_samples_api"] = Value::Array(sm_out);
}

pub fn exec(input: &Value) -> Value {
    let mut case = input.clone();
    let ty = &input["ty"];
    let opts = &input["opts"];
    case["impl"] = run_from_type(ty, opts);
    if let Some(name) = input.get("zoo").and_then(|z| z.as_str()) {
        case["real"] = outcome::run(|| {
            let o = build_opts(opts)?;
            Ok::<Value, serde_arrow::Error>(fields_json(&zoo_from_type(name, o)?))
        });
    }
    let samples = input["samples"].as_array().cloned().unwrap_or_default();
    if !samples.is_empty() {
        case["impl_samples"] = run_from_samples(&samples, opts);
    }
    if let Some(api) = input.get("api").and_then(|a| a.as_str()) {
        run_api(api, input, &samples, &mut case);
    }
    let samples_rand = input["samples_rand"].as_array().cloned().unwrap_or_default();
    if !samples_rand.is_empty() {
        case["impl_samples_rand"] = run_from_samples(&samples_rand, opts);
    }
    let ows = input["overwrites"].as_array().cloned().unwrap_or_default();
    if !ows.is_empty() {
        let mut o2 = opts.clone();
        o2["overwrites"] = Value::Array(ows);
        case["impl_ow"] = run_from_type(ty, &o2);
        if !samples.is_empty() {
            case["impl_samples_ow"] = run_from_samples(&samples, &o2);
        }
        if !samples_rand.is_empty() {
            case["impl_samples_rand_ow"] = run_from_samples(&samples_rand, &o2);
        }
    }
    case
}
