//! Dynamic serde value: `SVal(json)` implements `Serialize` by issuing exactly the serializer calls the
//! wire form names (one object per call; mirrored by lean/Driver/SValJson.lean and lean/SaModel/Data/SVal.lean).
//! Names that serde wants as `&'static str` are interned by leaking; a struct key carries an `alias` so that
//! the same content can be presented at different addresses (exercises the pointer-keyed field-name cache).
#![allow(dead_code)]
use serde::ser::{
    Serialize, SerializeMap, SerializeSeq, SerializeStruct, SerializeStructVariant, SerializeTuple, SerializeTupleStruct,
    SerializeTupleVariant, Serializer,
};
use serde_json::{json, Value};
use std::collections::HashMap;
use std::sync::Mutex;

static INTERN: Mutex<Option<HashMap<(String, u64), &'static str>>> = Mutex::new(None);

/// same (content, alias) ⇒ same address; different alias ⇒ different address (fresh allocation)
pub fn intern(s: &str, alias: u64) -> &'static str {
    let mut g = INTERN.lock().unwrap();
    let m = g.get_or_insert_with(HashMap::new);
    if let Some(r) = m.get(&(s.to_string(), alias)) {
        return r;
    }
    // alias 3: names that share ONE allocation with their "_raw" extension (`"value" = &NAMES[..5]`, `"value_raw" = NAMES`):
    // equal start address, different length — what two constants sliced from one literal look like to a
    // pointer-keyed cache.  Independent of the order in which the two names are interned.
    if alias == 3 {
        let stem = s.strip_suffix("_raw").unwrap_or(s);
        let base_key = (format!("{stem}_raw"), 3u64);
        let base: &'static str = match m.get(&base_key) {
            Some(b) => b,
            None => {
                let leaked: &'static str = Box::leak(format!("{stem}_raw").into_boxed_str());
                m.insert(base_key.clone(), leaked);
                leaked
            }
        };
        let r: &'static str = if s.ends_with("_raw") { base } else { &base[..stem.len()] };
        m.insert((s.to_string(), alias), r);
        return r;
    }
    // leak a fresh allocation (never shared between aliases, never empty-collapsed: keep one spare byte)
    let mut owned = String::with_capacity(s.len() + 1);
    owned.push_str(s);
    let leaked: &'static str = Box::leak(owned.into_boxed_str());
    m.insert((s.to_string(), alias), leaked);
    leaked
}

pub struct SVal<'a>(pub &'a Value);

fn big_i128(v: &Value) -> i128 {
    match v {
        Value::String(s) => s.parse().expect("integer string"),
        Value::Number(n) => {
            if let Some(i) = n.as_i64() {
                i as i128
            } else {
                n.as_u64().expect("integer") as i128
            }
        }
        _ => panic!("not an integer: {v}"),
    }
}

pub fn unhex(s: &str) -> Vec<u8> {
    (0..s.len() / 2).map(|i| u8::from_str_radix(&s[2 * i..2 * i + 2], 16).expect("hex")).collect()
}

pub fn hex(b: &[u8]) -> String {
    b.iter().map(|x| format!("{x:02x}")).collect()
}

impl Serialize for SVal<'_> {
    fn serialize<S: Serializer>(&self, s: S) -> Result<S::Ok, S::Error> {
        let j = self.0;
        let k = j["k"].as_str().expect("k");
        let name = || intern(j["n"].as_str().unwrap_or(""), 0);
        let vname = || intern(j["vn"].as_str().unwrap_or(""), 0);
        let idx = || j["i"].as_u64().unwrap_or(0) as u32;
        match k {
            "none" => s.serialize_none(),
            "unit" => s.serialize_unit(),
            "some" => s.serialize_some(&SVal(&j["v"])),
            "bool" => s.serialize_bool(j["v"].as_bool().unwrap()),
            "i8" => s.serialize_i8(big_i128(&j["v"]) as i8),
            "i16" => s.serialize_i16(big_i128(&j["v"]) as i16),
            "i32" => s.serialize_i32(big_i128(&j["v"]) as i32),
            "i64" => s.serialize_i64(big_i128(&j["v"]) as i64),
            "u8" => s.serialize_u8(big_i128(&j["v"]) as u8),
            "u16" => s.serialize_u16(big_i128(&j["v"]) as u16),
            "u32" => s.serialize_u32(big_i128(&j["v"]) as u32),
            "u64" => s.serialize_u64(big_i128(&j["v"]) as u64),
            "f32" => s.serialize_f32(f32::from_bits(big_i128(&j["bits"]) as u32)),
            "f64" => s.serialize_f64(f64::from_bits(big_i128(&j["bits"]) as u64)),
            "char" => s.serialize_char(char::from_u32(j["v"].as_u64().unwrap() as u32).expect("valid char")),
            "str" => s.serialize_str(j["v"].as_str().unwrap()),
            "bytes" => s.serialize_bytes(&unhex(j["v"].as_str().unwrap())),
            "seq" => {
                let items = j["v"].as_array().unwrap();
                // an optional `hint` overrides the announced length (a Serialize impl may announce any length, or none)
                let len = match j.get("hint") {
                    None => Some(items.len()),
                    Some(Value::Null) => None,
                    Some(h) => Some(h.as_u64().unwrap_or(0) as usize),
                };
                let mut q = s.serialize_seq(len)?;
                for it in items {
                    q.serialize_element(&SVal(it))?;
                }
                q.end()
            }
            "tuple" => {
                let items = j["v"].as_array().unwrap();
                let len = j.get("hint").and_then(|h| h.as_u64()).map(|h| h as usize).unwrap_or(items.len());
                let mut q = s.serialize_tuple(len)?;
                for it in items {
                    q.serialize_element(&SVal(it))?;
                }
                q.end()
            }
            "tuple_struct" => {
                let items = j["v"].as_array().unwrap();
                let len = j.get("hint").and_then(|h| h.as_u64()).map(|h| h as usize).unwrap_or(items.len());
                let mut q = s.serialize_tuple_struct(name(), len)?;
                for it in items {
                    q.serialize_field(&SVal(it))?;
                }
                q.end()
            }
            "newtype_struct" => s.serialize_newtype_struct(name(), &SVal(&j["v"])),
            "unit_struct" => s.serialize_unit_struct(name()),
            "struct" => {
                let fs = j["f"].as_array().unwrap();
                let len = j.get("hint").and_then(|h| h.as_u64()).map(|h| h as usize).unwrap_or(fs.len());
                let mut q = s.serialize_struct(name(), len)?;
                for f in fs {
                    let key = intern(f[0].as_str().unwrap(), f[1].as_u64().unwrap_or(0));
                    q.serialize_field(key, &SVal(&f[2]))?;
                }
                q.end()
            }
            "map" => {
                let es = j["e"].as_array().unwrap();
                let len = match j.get("hint") {
                    None => Some(es.len()),
                    Some(Value::Null) => None,
                    Some(h) => Some(h.as_u64().unwrap_or(0) as usize),
                };
                let mut q = s.serialize_map(len)?;
                for e in es {
                    q.serialize_key(&SVal(&e[0]))?;
                    q.serialize_value(&SVal(&e[1]))?;
                }
                q.end()
            }
            "map_raw" => {
                let ops = j["ops"].as_array().unwrap();
                let mut q = s.serialize_map(None)?;
                for o in ops {
                    if let Some(kk) = o.get("key") {
                        q.serialize_key(&SVal(kk))?;
                    } else {
                        q.serialize_value(&SVal(&o["val"]))?;
                    }
                }
                q.end()
            }
            "unit_variant" => s.serialize_unit_variant(name(), idx(), vname()),
            "newtype_variant" => s.serialize_newtype_variant(name(), idx(), vname(), &SVal(&j["v"])),
            "tuple_variant" => {
                let items = j["v"].as_array().unwrap();
                let mut q = s.serialize_tuple_variant(name(), idx(), vname(), items.len())?;
                for it in items {
                    q.serialize_field(&SVal(it))?;
                }
                q.end()
            }
            "struct_variant" => {
                let fs = j["f"].as_array().unwrap();
                let mut q = s.serialize_struct_variant(name(), idx(), vname(), fs.len())?;
                for f in fs {
                    let key = intern(f[0].as_str().unwrap(), f[1].as_u64().unwrap_or(0));
                    q.serialize_field(key, &SVal(&f[2]))?;
                }
                q.end()
            }
            other => panic!("unknown serde kind on the wire: {other}"),
        }
    }
}

/// a slice of rows presented as one `seq`
pub struct Rows<'a>(pub &'a [Value]);

impl Serialize for Rows<'_> {
    fn serialize<S: Serializer>(&self, s: S) -> Result<S::Ok, S::Error> {
        let mut q = s.serialize_seq(Some(self.0.len()))?;
        for it in self.0 {
            q.serialize_element(&SVal(it))?;
        }
        q.end()
    }
}

// ---- constructors for generators ----
pub fn none() -> Value { json!({"k": "none"}) }
pub fn unit() -> Value { json!({"k": "unit"}) }
pub fn some(v: Value) -> Value { json!({"k": "some", "v": v}) }
pub fn boolean(b: bool) -> Value { json!({"k": "bool", "v": b}) }
pub fn int(ty: &str, v: i128) -> Value {
    if v >= i64::MIN as i128 && v <= i64::MAX as i128 { json!({"k": ty, "v": v as i64}) } else { json!({"k": ty, "v": v.to_string()}) }
}
pub fn f32v(x: f32) -> Value { json!({"k": "f32", "bits": x.to_bits()}) }
pub fn f64v(x: f64) -> Value { json!({"k": "f64", "bits": x.to_bits()}) }
pub fn chr(c: char) -> Value { json!({"k": "char", "v": c as u32}) }
pub fn string(s: &str) -> Value { json!({"k": "str", "v": s}) }
pub fn bytes(b: &[u8]) -> Value { json!({"k": "bytes", "v": hex(b)}) }
pub fn seq(v: Vec<Value>) -> Value { json!({"k": "seq", "v": v}) }
pub fn tuple(v: Vec<Value>) -> Value { json!({"k": "tuple", "v": v}) }
pub fn tuple_struct(n: &str, v: Vec<Value>) -> Value { json!({"k": "tuple_struct", "n": n, "v": v}) }
pub fn newtype_struct(n: &str, v: Value) -> Value { json!({"k": "newtype_struct", "n": n, "v": v}) }
pub fn unit_struct(n: &str) -> Value { json!({"k": "unit_struct", "n": n}) }
pub fn record(n: &str, f: Vec<(String, u64, Value)>) -> Value {
    json!({"k": "struct", "n": n, "f": f.into_iter().map(|(k, a, v)| json!([k, a, v])).collect::<Vec<_>>()})
}
pub fn map(e: Vec<(Value, Value)>) -> Value { json!({"k": "map", "e": e.into_iter().map(|(k, v)| json!([k, v])).collect::<Vec<_>>()}) }
pub fn unit_variant(n: &str, i: u32, vn: &str) -> Value { json!({"k": "unit_variant", "n": n, "i": i, "vn": vn}) }
pub fn newtype_variant(n: &str, i: u32, vn: &str, v: Value) -> Value { json!({"k": "newtype_variant", "n": n, "i": i, "vn": vn, "v": v}) }
pub fn tuple_variant(n: &str, i: u32, vn: &str, v: Vec<Value>) -> Value { json!({"k": "tuple_variant", "n": n, "i": i, "vn": vn, "v": v}) }
pub fn struct_variant(n: &str, i: u32, vn: &str, f: Vec<(String, u64, Value)>) -> Value {
    json!({"k": "struct_variant", "n": n, "i": i, "vn": vn, "f": f.into_iter().map(|(k, a, v)| json!([k, a, v])).collect::<Vec<_>>()})
}
