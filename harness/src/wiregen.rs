//! Hand-made wire-form views (source (a) of the read suite): a logical column (field + LVal rows, see lgen.rs) is
//! laid out physically with every layout freedom the Arrow format leaves open and the crate's own writer never
//! uses: bitmap bit offsets, non-zero first offsets, garbage under nulls, unreferenced child ranges, unused and
//! duplicate dictionary values, several view buffers, union children in arbitrary slot order.
//! The result is the Arr wire form of dump.rs (`Owned::from_json(..).view()` hands it to the real crate).
#![allow(dead_code)]
use crate::rng::Rng;
use crate::sval::{hex, unhex};
use serde_json::{json, Value};

pub fn fmeta(field: &Value) -> Value {
    json!({"name": field["name"], "nullable": field["nullable"], "meta": field["meta"]})
}

fn t(field: &Value) -> &str {
    field["dt"]["t"].as_str().unwrap()
}

pub fn bitmap(rng: &mut Rng, bits: &[bool], free: bool) -> Value {
    let off = if free && rng.chance(2, 3) { rng.usize(11) } else { 0 };
    let total = off + bits.len();
    let extra = if free && rng.chance(1, 4) { 1 } else { 0 };
    let mut data = vec![0u8; (total + 7) / 8 + extra];
    if free {
        for b in data.iter_mut() {
            *b = rng.below(256) as u8;
        }
    }
    for (i, b) in bits.iter().enumerate() {
        let p = off + i;
        if *b {
            data[p / 8] |= 1 << (p % 8);
        } else {
            data[p / 8] &= !(1 << (p % 8));
        }
    }
    json!({"hex": hex(&data), "off": off})
}

fn validity(rng: &mut Rng, field: &Value, rows: &[Value], free: bool) -> Value {
    let nullable = field["nullable"].as_bool().unwrap_or(false);
    let any_null = rows.iter().any(|r| r.is_null());
    if !nullable && !any_null {
        if free && rng.chance(1, 6) {
            return bitmap(rng, &vec![true; rows.len()], free);
        }
        return Value::Null;
    }
    if !any_null && rng.chance(1, 4) {
        return Value::Null;
    }
    bitmap(rng, &rows.iter().map(|r| !r.is_null()).collect::<Vec<_>>(), free)
}

/// smallest valid non-null logical value of a field's type
pub fn default_value(field: &Value) -> Value {
    let dt = &field["dt"];
    match t(field) {
        "Null" => Value::Null,
        "Boolean" => json!({"bool": false}),
        "Float16" | "Float32" | "Float64" => json!({"float": "0"}),
        "Utf8" | "LargeUtf8" | "Utf8View" => json!({"str": ""}),
        "Binary" | "LargeBinary" | "BinaryView" => json!({"bin": ""}),
        "FixedSizeBinary" => json!({"bin": hex(&vec![0u8; dt["n"].as_i64().unwrap().max(0) as usize])}),
        "Struct" => json!({"struct": dt["fields"].as_array().unwrap().iter().map(|f| json!([f["name"], default_value(f)])).collect::<Vec<_>>()}),
        "List" | "LargeList" => json!({"list": []}),
        "FixedSizeList" => {
            let n = dt["n"].as_i64().unwrap().max(0) as usize;
            json!({"list": (0..n).map(|_| default_value(&dt["child"])).collect::<Vec<_>>()})
        }
        "Map" => json!({"map": []}),
        "Dictionary" => json!({"str": ""}),
        "Union" => {
            let f = &dt["fields"][0];
            json!({"union": [f[0].as_i64().unwrap().to_string(), default_value(&f[1])]})
        }
        _ => json!({"int": "0"}),
    }
}

/// value for a slot nobody may look at (under a null, outside every offset range)
fn garbage(rng: &mut Rng, field: &Value, visible: &[&Value]) -> Value {
    let cands: Vec<&&Value> = visible.iter().filter(|v| !v.is_null()).collect();
    if !cands.is_empty() && rng.chance(3, 4) {
        return (**rng.pick(&cands)).clone();
    }
    if field["nullable"].as_bool().unwrap_or(false) && rng.chance(1, 3) {
        return Value::Null;
    }
    default_value(field)
}

fn int_json(v: &Value) -> Value {
    let s = v["int"].as_str().unwrap();
    match s.parse::<i64>() {
        Ok(x) => json!(x),
        Err(_) => json!(s),
    }
}

fn bytes_of(v: &Value) -> Vec<u8> {
    if let Some(s) = v.get("str").and_then(|x| x.as_str()) {
        unhex(s)
    } else if let Some(s) = v.get("bin").and_then(|x| x.as_str()) {
        unhex(s)
    } else {
        Vec::new()
    }
}

fn rand_bytes(rng: &mut Rng, n: usize) -> Vec<u8> {
    (0..n).map(|_| rng.below(256) as u8).collect()
}

/// rows with hidden (null) slots replaced by garbage of the same type — what physically sits in the buffers
fn physical_rows(rng: &mut Rng, field: &Value, rows: &[Value], free: bool) -> Vec<Value> {
    let visible: Vec<&Value> = rows.iter().collect();
    rows.iter()
        .map(|r| {
            if r.is_null() {
                if free {
                    let g = garbage(rng, field, &visible);
                    if g.is_null() { default_value(field) } else { g }
                } else {
                    default_value(field)
                }
            } else {
                r.clone()
            }
        })
        .collect()
}

pub fn encode(rng: &mut Rng, field: &Value, rows: &[Value], free: bool) -> Value {
    let dt = &field["dt"];
    let ty = t(field);
    let n = rows.len();
    match ty {
        "Null" => json!({"a": "Null", "len": n}),
        "Boolean" => {
            let phys = physical_rows(rng, field, rows, free);
            let bits: Vec<bool> = phys.iter().map(|r| r["bool"].as_bool().unwrap_or(false)).collect();
            json!({"a": "Boolean", "len": n, "validity": validity(rng, field, rows, free), "values": bitmap(rng, &bits, free)})
        }
        "Int8" | "Int16" | "Int32" | "Int64" | "UInt8" | "UInt16" | "UInt32" | "UInt64" | "Date32" | "Date64" => {
            let phys = physical_rows(rng, field, rows, free);
            json!({"a": "Primitive", "ty": ty, "validity": validity(rng, field, rows, free), "values": phys.iter().map(int_json).collect::<Vec<_>>()})
        }
        "Float16" | "Float32" | "Float64" => {
            let phys = physical_rows(rng, field, rows, free);
            let vals: Vec<Value> = phys
                .iter()
                .map(|r| {
                    let s = r["float"].as_str().unwrap();
                    if ty == "Float64" { json!(s) } else { json!(s.parse::<u64>().unwrap()) }
                })
                .collect();
            json!({"a": "Primitive", "ty": ty, "validity": validity(rng, field, rows, free), "values": vals})
        }
        "Time32" | "Time64" | "Duration" => {
            let phys = physical_rows(rng, field, rows, free);
            json!({"a": "Time", "ty": ty, "unit": dt["unit"], "validity": validity(rng, field, rows, free), "values": phys.iter().map(int_json).collect::<Vec<_>>()})
        }
        "Timestamp" => {
            let phys = physical_rows(rng, field, rows, free);
            json!({"a": "Timestamp", "unit": dt["unit"], "tz": dt["tz"], "validity": validity(rng, field, rows, free), "values": phys.iter().map(int_json).collect::<Vec<_>>()})
        }
        "Decimal128" => {
            let phys = physical_rows(rng, field, rows, free);
            json!({"a": "Decimal128", "p": dt["p"], "s": dt["s"], "validity": validity(rng, field, rows, free),
                   "values": phys.iter().map(|r| json!(r["int"].as_str().unwrap())).collect::<Vec<_>>()})
        }
        "Utf8" | "LargeUtf8" | "Binary" | "LargeBinary" => {
            let pre = if free { rng.usize(5) } else { 0 };
            let mut data = rand_bytes(rng, pre);
            let mut offsets = vec![json!(data.len())];
            let visible: Vec<&Value> = rows.iter().collect();
            for r in rows {
                if r.is_null() {
                    if free && rng.chance(1, 2) {
                        let g = garbage(rng, field, &visible);
                        data.extend_from_slice(&bytes_of(&g));
                    }
                } else {
                    data.extend_from_slice(&bytes_of(r));
                }
                offsets.push(json!(data.len()));
            }
            if free {
                let post = rng.usize(4);
                data.extend(rand_bytes(rng, post));
            }
            json!({"a": "Bytes", "ty": ty, "validity": validity(rng, field, rows, free), "offsets": offsets, "data": hex(&data)})
        }
        "Utf8View" | "BinaryView" => {
            let nbuf = if free { 1 + rng.usize(3) } else { 1 };
            let mut buffers: Vec<Vec<u8>> = (0..nbuf).map(|_| if free { let k = rng.usize(4); rand_bytes(rng, k) } else { Vec::new() }).collect();
            let mut views = Vec::new();
            for r in rows {
                if r.is_null() {
                    views.push(json!(if free && rng.chance(1, 2) { (3u128 | (0x41_42_43u128 << 32)).to_string() } else { "0".to_string() }));
                    continue;
                }
                let b = bytes_of(r);
                let mut d: u128 = b.len() as u128;
                if b.len() <= 12 {
                    for (k, x) in b.iter().enumerate() {
                        d |= (*x as u128) << (32 + 8 * k);
                    }
                } else {
                    let bi = rng.usize(nbuf);
                    if free && rng.chance(1, 3) {
                        let k = rng.usize(3);
                        let g = rand_bytes(rng, k);
                        buffers[bi].extend(g);
                    }
                    let off = buffers[bi].len();
                    buffers[bi].extend_from_slice(&b);
                    for (k, x) in b.iter().take(4).enumerate() {
                        d |= (*x as u128) << (32 + 8 * k);
                    }
                    d |= (bi as u128) << 64;
                    d |= (off as u128) << 96;
                }
                views.push(json!(d.to_string()));
            }
            json!({"a": "BytesView", "ty": ty, "validity": validity(rng, field, rows, free), "views": views,
                   "buffers": buffers.iter().map(|b| json!(hex(b))).collect::<Vec<_>>()})
        }
        "FixedSizeBinary" => {
            let w = dt["n"].as_i64().unwrap().max(0) as usize;
            let mut data = Vec::new();
            for r in rows {
                if r.is_null() {
                    data.extend(if free { rand_bytes(rng, w) } else { vec![0u8; w] });
                } else {
                    data.extend_from_slice(&bytes_of(r));
                }
            }
            json!({"a": "FixedSizeBinary", "n": dt["n"], "validity": validity(rng, field, rows, free), "data": hex(&data)})
        }
        "Struct" => {
            let fields = dt["fields"].as_array().unwrap();
            let mut out = Vec::new();
            for (k, f) in fields.iter().enumerate() {
                let vis: Vec<Value> = rows.iter().filter(|r| !r.is_null()).map(|r| r["struct"][k][1].clone()).collect();
                let visr: Vec<&Value> = vis.iter().collect();
                let child_rows: Vec<Value> = rows
                    .iter()
                    .map(|r| {
                        if r.is_null() {
                            if free { garbage(rng, f, &visr) } else if f["nullable"].as_bool().unwrap_or(false) { Value::Null } else { default_value(f) }
                        } else {
                            r["struct"][k][1].clone()
                        }
                    })
                    .collect();
                out.push(json!([fmeta(f), encode(rng, f, &child_rows, free)]));
            }
            json!({"a": "Struct", "len": n, "validity": validity(rng, field, rows, free), "fields": out})
        }
        "List" | "LargeList" => {
            let child = &dt["child"];
            let all_items: Vec<Value> = rows.iter().filter(|r| !r.is_null()).flat_map(|r| r["list"].as_array().unwrap().clone()).collect();
            let vis: Vec<&Value> = all_items.iter().collect();
            let mut child_rows = Vec::new();
            if free {
                for _ in 0..rng.usize(3) {
                    child_rows.push(garbage(rng, child, &vis));
                }
            }
            let mut offsets = vec![json!(child_rows.len())];
            for r in rows {
                if r.is_null() {
                    if free && rng.chance(1, 2) {
                        for _ in 0..1 + rng.usize(2) {
                            child_rows.push(garbage(rng, child, &vis));
                        }
                    }
                } else {
                    child_rows.extend(r["list"].as_array().unwrap().iter().cloned());
                }
                offsets.push(json!(child_rows.len()));
            }
            if free {
                for _ in 0..rng.usize(3) {
                    child_rows.push(garbage(rng, child, &vis));
                }
            }
            json!({"a": "List", "large": ty == "LargeList", "validity": validity(rng, field, rows, free), "offsets": offsets,
                   "meta": fmeta(child), "elements": encode(rng, child, &child_rows, free)})
        }
        "FixedSizeList" => {
            let child = &dt["child"];
            let w = dt["n"].as_i64().unwrap().max(0) as usize;
            let all_items: Vec<Value> = rows.iter().filter(|r| !r.is_null()).flat_map(|r| r["list"].as_array().unwrap().clone()).collect();
            let vis: Vec<&Value> = all_items.iter().collect();
            let mut child_rows = Vec::new();
            for r in rows {
                if r.is_null() {
                    for _ in 0..w {
                        child_rows.push(if free { garbage(rng, child, &vis) } else if child["nullable"].as_bool().unwrap_or(false) { Value::Null } else { default_value(child) });
                    }
                } else {
                    child_rows.extend(r["list"].as_array().unwrap().iter().cloned());
                }
            }
            if free {
                for _ in 0..rng.usize(3) {
                    child_rows.push(garbage(rng, child, &vis));
                }
            }
            json!({"a": "FixedSizeList", "len": n, "validity": validity(rng, field, rows, free), "n": dt["n"],
                   "meta": fmeta(child), "elements": encode(rng, child, &child_rows, free)})
        }
        "Map" => {
            let entries = &dt["entries"];
            let kf = &entries["dt"]["fields"][0];
            let vf = &entries["dt"]["fields"][1];
            let all: Vec<Value> = rows.iter().filter(|r| !r.is_null()).flat_map(|r| r["map"].as_array().unwrap().clone()).collect();
            let allk: Vec<Value> = all.iter().map(|e| e[0].clone()).collect();
            let allv: Vec<Value> = all.iter().map(|e| e[1].clone()).collect();
            let visk: Vec<&Value> = allk.iter().collect();
            let visv: Vec<&Value> = allv.iter().collect();
            let mut krows = Vec::new();
            let mut vrows = Vec::new();
            let mut push_garbage = |rng: &mut Rng, krows: &mut Vec<Value>, vrows: &mut Vec<Value>| {
                let mut k = garbage(rng, kf, &visk);
                if k.is_null() {
                    k = default_value(kf);
                }
                krows.push(k);
                vrows.push(garbage(rng, vf, &visv));
            };
            if free {
                for _ in 0..rng.usize(3) {
                    push_garbage(rng, &mut krows, &mut vrows);
                }
            }
            let mut offsets = vec![json!(krows.len())];
            for r in rows {
                if r.is_null() {
                    if free && rng.chance(1, 2) {
                        push_garbage(rng, &mut krows, &mut vrows);
                    }
                } else {
                    for e in r["map"].as_array().unwrap() {
                        krows.push(e[0].clone());
                        vrows.push(e[1].clone());
                    }
                }
                offsets.push(json!(krows.len()));
            }
            if free {
                for _ in 0..rng.usize(3) {
                    push_garbage(rng, &mut krows, &mut vrows);
                }
            }
            json!({"a": "Map", "validity": validity(rng, field, rows, free), "offsets": offsets,
                   "meta": {"entries_name": entries["name"], "sorted": dt["sorted"], "keys": fmeta(kf), "values": fmeta(vf)},
                   "keys": encode(rng, kf, &krows, free), "values": encode(rng, vf, &vrows, free)})
        }
        "Dictionary" => {
            let mut values: Vec<Value> = Vec::new();
            for r in rows.iter().filter(|r| !r.is_null()) {
                if !values.contains(r) || (free && rng.chance(1, 4)) {
                    values.push(r.clone());
                }
            }
            if free {
                for _ in 0..rng.usize(3) {
                    values.push(json!({"str": hex(format!("unused{}", rng.usize(3)).as_bytes())}));
                }
                rng.shuffle(&mut values);
            }
            let key_field = json!({"name": "keys", "nullable": field["nullable"], "meta": [], "dt": dt["key"]});
            let val_field = json!({"name": "values", "nullable": false, "meta": [], "dt": dt["value"]});
            let key_rows: Vec<Value> = rows
                .iter()
                .map(|r| {
                    if r.is_null() {
                        Value::Null
                    } else {
                        let cands: Vec<usize> = values.iter().enumerate().filter(|(_, v)| *v == r).map(|(i, _)| i).collect();
                        json!({"int": rng.pick(&cands).to_string()})
                    }
                })
                .collect();
            let mut keys = encode(rng, &key_field, &key_rows, free);
            // garbage under null keys: anything, also far out of range
            if free {
                if let Some(vals) = keys["values"].as_array_mut() {
                    for (i, r) in rows.iter().enumerate() {
                        if r.is_null() && rng.chance(1, 2) {
                            vals[i] = json!(100 + rng.usize(27));
                        }
                    }
                }
            }
            let mut vals = encode(rng, &val_field, &values, free);
            vals["validity"] = Value::Null;
            json!({"a": "Dictionary", "keys": keys, "values": vals})
        }
        "Union" => {
            let fields = dt["fields"].as_array().unwrap();
            // per variant: the slots of its child (garbage slots interleaved, order arbitrary)
            let mut slots: Vec<Vec<Option<usize>>> = vec![Vec::new(); fields.len()];
            for (i, r) in rows.iter().enumerate() {
                let tid: i64 = r["union"][0].as_str().unwrap().parse().unwrap();
                let pos = fields.iter().position(|f| f[0].as_i64() == Some(tid)).unwrap();
                slots[pos].push(Some(i));
            }
            let mut types = Vec::new();
            let mut offsets = vec![json!(0); n];
            let mut children = Vec::new();
            for (pos, f) in fields.iter().enumerate() {
                let cf = &f[1];
                if free {
                    for _ in 0..rng.usize(3) {
                        slots[pos].push(None);
                    }
                    rng.shuffle(&mut slots[pos]);
                }
                let vis: Vec<Value> = slots[pos].iter().flatten().map(|i| rows[*i]["union"][1].clone()).collect();
                let visr: Vec<&Value> = vis.iter().collect();
                let mut crow = Vec::new();
                for (k, s) in slots[pos].iter().enumerate() {
                    match s {
                        Some(i) => {
                            offsets[*i] = json!(k);
                            crow.push(rows[*i]["union"][1].clone());
                        }
                        None => crow.push(garbage(rng, cf, &visr)),
                    }
                }
                children.push(json!([f[0], fmeta(cf), encode(rng, cf, &crow, free)]));
            }
            for r in rows {
                let tid: i64 = r["union"][0].as_str().unwrap().parse().unwrap();
                types.push(json!(tid));
            }
            json!({"a": "Union", "types": types, "offsets": offsets, "fields": children})
        }
        other => panic!("wiregen: unsupported type {other}"),
    }
}

// ---------------------------------------------------------------- reading targets for a column

/// the target a user would naturally write for the column
pub fn natural_target(field: &Value) -> Value {
    let dt = &field["dt"];
    let inner = match t(field) {
        "Null" => json!("unit"),
        "Boolean" => json!("bool"),
        "Int8" => json!("i8"),
        "Int16" => json!("i16"),
        "Int32" | "Date32" | "Time32" => json!("i32"),
        "Int64" | "Date64" | "Time64" | "Timestamp" | "Duration" => json!("i64"),
        "UInt8" => json!("u8"),
        "UInt16" => json!("u16"),
        "UInt32" => json!("u32"),
        "UInt64" => json!("u64"),
        "Float16" | "Float32" => json!("f32"),
        "Float64" => json!("f64"),
        "Decimal128" => json!("string"),
        "Utf8" | "LargeUtf8" | "Utf8View" | "Dictionary" => json!("string"),
        "Binary" | "LargeBinary" | "BinaryView" | "FixedSizeBinary" => json!("byte_buf"),
        "Struct" => json!({"struct": dt["fields"].as_array().unwrap().iter().map(|f| json!([f["name"], natural_target(f)])).collect::<Vec<_>>()}),
        "List" | "LargeList" | "FixedSizeList" => json!({"seq": natural_target(&dt["child"])}),
        "Map" => json!({"map": [natural_target(&dt["entries"]["dt"]["fields"][0]), natural_target(&dt["entries"]["dt"]["fields"][1])]}),
        "Union" => json!({"enum": dt["fields"].as_array().unwrap().iter().map(|f| {
            let cf = &f[1];
            let kind = if t(cf) == "Null" { json!("unit") } else { json!({"newtype": natural_target(cf)}) };
            json!([cf["name"], kind])
        }).collect::<Vec<_>>()}),
        _ => json!("any"),
    };
    if field["nullable"].as_bool().unwrap_or(false) && t(field) != "Null" {
        json!({"option": inner})
    } else {
        inner
    }
}

/// other shapes the column's reader answers (or refuses): widths, borrowed / owned, tuple / map views of structs …
pub fn variant_targets(rng: &mut Rng, field: &Value) -> Vec<Value> {
    let dt = &field["dt"];
    let mut out: Vec<Value> = Vec::new();
    let ints = ["i8", "i16", "i32", "i64", "u8", "u16", "u32", "u64"];
    match t(field) {
        "Null" => out.extend([json!("unit_struct"), json!({"option": "i32"}), json!("i32")]),
        "Boolean" => {
            out.push(json!(*rng.pick(&ints)));
            out.push(json!("string"));
        }
        "Int8" | "Int16" | "Int32" | "Int64" | "UInt8" | "UInt16" | "UInt32" | "UInt64" => {
            out.push(json!(*rng.pick(&ints)));
            out.push(json!(*rng.pick(&ints)));
            out.push(json!("bool"));
            out.push(json!("char"));
            out.push(json!("f64"));
            out.push(json!({"newtype": *rng.pick(&ints)}));
        }
        "Float16" | "Float32" | "Float64" => out.extend([json!("f32"), json!("f64"), json!("i64")]),
        "Date32" | "Date64" | "Time32" | "Time64" => out.extend([json!("i32"), json!("i64"), json!("string"), json!("u8")]),
        "Timestamp" | "Duration" => out.extend([json!("i64"), json!("i32"), json!("string")]),
        "Decimal128" => out.extend([json!("str"), json!("i64")]),
        "Utf8" | "LargeUtf8" | "Utf8View" => {
            out.extend([json!("str"), json!("bytes"), json!("byte_buf"), json!("char"), json!({"seq": "u8"})]);
            out.push(json!({"enum": [["a", "unit"], ["ab", "unit"], ["", {"newtype": "i32"}]]}));
        }
        "Dictionary" => {
            out.extend([json!("str"), json!("byte_buf")]);
            out.push(json!({"enum": [["a", "unit"], ["ab", "unit"], ["", "unit"]]}));
        }
        "Binary" | "LargeBinary" | "BinaryView" | "FixedSizeBinary" => {
            out.extend([json!("bytes"), json!({"seq": "u8"}), json!({"seq": "i8"}), json!({"seq": "any"}), json!("string"), json!({"seq": {"option": "u8"}})]);
        }
        "Struct" => {
            let fs = dt["fields"].as_array().unwrap();
            out.push(json!({"tuple": fs.iter().map(natural_target).collect::<Vec<_>>()}));
            out.push(json!({"tuple_struct": fs.iter().map(natural_target).collect::<Vec<_>>()}));
            out.push(json!({"map": ["string", "any"]}));
            out.push(json!({"map": ["any", "ignored"]}));
            // reordered, one field dropped, one extra optional and one extra required field
            let mut named: Vec<Value> = fs.iter().map(|f| json!([f["name"], natural_target(f)])).collect();
            named.reverse();
            let mut a = named.clone();
            a.push(json!(["zz_opt", {"option": "i32"}]));
            out.push(json!({"struct": a}));
            let mut b = named.clone();
            if !b.is_empty() {
                b.remove(0);
            }
            out.push(json!({"struct": b}));
            let mut c = named.clone();
            c.push(json!(["zz_req", "i32"]));
            out.push(json!({"struct": c}));
            if fs.len() > 1 {
                out.push(json!({"tuple": fs.iter().take(fs.len() - 1).map(natural_target).collect::<Vec<_>>()}));
            }
            let mut longer: Vec<Value> = fs.iter().map(natural_target).collect();
            longer.push(json!("i32"));
            out.push(json!({"tuple": longer}));
            out.push(json!({"seq": "any"}));
        }
        "List" | "LargeList" | "FixedSizeList" => {
            out.push(json!({"seq": "any"}));
            out.push(json!("byte_buf"));
            out.push(json!("bytes"));
            out.push(json!({"tuple": [natural_target(&dt["child"])]}));
            out.push(json!({"newtype": {"seq": natural_target(&dt["child"])}}));
        }
        "Map" => {
            out.push(json!({"map": ["any", "any"]}));
            out.push(json!({"seq": "any"}));
            out.push(json!({"struct": [["a", "any"]]}));
        }
        "Union" => {
            let fs = dt["fields"].as_array().unwrap();
            out.push(json!({"enum_idx": fs.iter().map(|f| json!([f[1]["name"], {"newtype": "any"}])).collect::<Vec<_>>()}));
            out.push(json!({"enum": fs.iter().rev().map(|f| json!([f[1]["name"], {"newtype": "any"}])).collect::<Vec<_>>()}));
            out.push(json!({"enum": fs.iter().skip(1).map(|f| json!([f[1]["name"], {"newtype": "any"}])).collect::<Vec<_>>()}));
            out.push(json!({"enum": fs.iter().map(|f| {
                let cf = &f[1];
                let kind = match t(cf) {
                    "Struct" => {
                        let sub = cf["dt"]["fields"].as_array().unwrap();
                        if rng.bool() {
                            json!({"struct": sub.iter().map(|g| json!([g["name"], natural_target(g)])).collect::<Vec<_>>()})
                        } else {
                            json!({"tuple": sub.iter().map(natural_target).collect::<Vec<_>>()})
                        }
                    }
                    "Null" => json!("unit"),
                    _ => json!({"newtype": natural_target(cf)}),
                };
                json!([cf["name"], kind])
            }).collect::<Vec<_>>()}));
            out.push(json!("string"));
        }
        _ => {}
    }
    out.push(json!("ignored"));
    out
}

/// the non-`Option` version of the natural target (exposes what a null slot does without the Option layer)
pub fn strip_option(ty: &Value) -> Value {
    match ty.get("option") {
        Some(inner) => inner.clone(),
        None => ty.clone(),
    }
}

/// reads are addressed to the record (root struct with the single column "c")
pub fn record_target(col_ty: &Value, name: &str, rng: &mut Rng) -> Value {
    match rng.below(10) {
        0 => json!({"tuple": [col_ty]}),
        1 => json!({"map": ["string", col_ty]}),
        2 => json!({"newtype": {"struct": [[name, col_ty]]}}),
        _ => json!({"struct": [[name, col_ty]]}),
    }
}
