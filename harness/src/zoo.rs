//! A zoo of REAL `#[derive(Serialize, Deserialize)]` types covering the quantifier of C04 (DESIGN.md 5, C04):
//! structs, tuple / newtype / unit structs, enums with unit / newtype / tuple / struct variants, Option, Vec, fixed
//! arrays and tuples, maps, strings, bytes, chars, every scalar, the self-describing serde attributes
//! (rename, rename_all, default, skip_serializing_if, transparent) and borrowed targets.
//!
//! `zoo_types!(callback)` lists every type exactly once: `callback! { (Type, "name", "type-class", [flags…]) … }`.
//! Flags state the *documented* preconditions the type has on the tracing options (checked by the driver, not
//! inferred from error messages):
//!   maps      contains a map: `from_type` needs `map_as_struct(false)` (field names are not known from the type)
//!   nulls     contains a position of Arrow type Null (`()`, unit struct, unit variant of an enum with data):
//!             needs `allow_null_fields(true)`
//!   dataless  contains an enum without data: needs `enums_without_data_as_strings(true)` or `allow_null_fields(true)`
//!   nestedopt contains `Option<Option<_>>`: the inner `None` collapses (documented), compare after `norm`
//!   unordered contains a hash map / hash set: recorded call streams are not comparable, only `==`
//!   borrowed  the target borrows from the arrays (`&'a str`, `&'a [u8]`, `Cow<'a, str>`)
//!   badroot   the type is not a root `from_type` supports (not traced to a non-nullable struct): refused under every
//!             option set (`C04_root_refused`; the driver compares the flag with the model's `recordRoot`)
#![allow(dead_code)]
use serde::{Deserialize, Serialize};
use serde_json::{json, Value};
use std::borrow::Cow;
use std::collections::{BTreeMap, BTreeSet, HashMap, HashSet, VecDeque};
use std::fmt::Debug;

/// what the `roundtrip` suite needs of a zoo type.  `'static`: values are generated from leaked data and read back
/// from arrays pinned for the duration of the comparison (see `suites/roundtrip.rs::with_static`).
pub trait ZooTy: Serialize + Deserialize<'static> + PartialEq + Debug + Describe + 'static {
    /// the documented normalisation (identity unless the type has nested Options)
    fn norm(&mut self) {}
}

/// `Some(None)` reads back as `None`
fn collapse<T>(o: &mut Option<Option<T>>) {
    if let Some(None) = o {
        *o = None;
    }
}

// ------------------------------------------------------------------------------------------------ type descriptions
/// The description of a type in the type language of the Lean model (`SaModel.Roundtrip.Ty`,
/// lean/SaModel/Roundtrip/Types.lean; wire form read by lean/Driver/TyJson.lean):
///   {"t": "bool" | "i8" … "u64" | "f32" | "f64" | "char" | "str" | "bytes" | "unit"}
///   {"t": "str_ref" | "cow_str" | "bytes_ref" | "bytes_seq"}   the BORROWED leaves (`Prim.strRef` …, see below)
///   {"t": "option" | "vec", "a": T}   {"t": "tuple", "a": [T…]}   {"t": "map", "k": T, "v": T}
///   {"t": "struct", "n": name, "f": [[field name, skip_serializing_if = Option::is_none, T]…]}
///   {"t": "tuple_struct", "n": name, "a": [T…]}   {"t": "newtype", "n": name, "a": T}   {"t": "unit_struct", "n": name}
///   {"t": "enum", "n": name, "v": [{"n": variant name, "k": "unit" | "newtype" | "tuple" | "struct", "a": …}…]}
/// Borrowed leaves (the target points into the arrays): `str_ref` = `&'de str` (`serialize_str` / `deserialize_str`, the
/// visitor takes `visit_borrowed_str` only), `cow_str` = `#[serde(borrow)] Cow<'de, str>` (`deserialize_str`, borrows when it
/// can), `bytes_ref` = `#[serde(borrow, with = "serde_bytes")] &'de [u8]` (`serialize_bytes` / `deserialize_bytes`, borrowed
/// only), `bytes_seq` = `&'de [u8]` with the std impls — ASYMMETRIC: serialized as a SEQUENCE of u8, deserialized with
/// `deserialize_bytes` (so `from_type` traces LargeBinary).  The model describes all four (`ser`, `toTraceTy`, `toTarget`,
/// `dvalOf` of lean/SaModel/Roundtrip/{Types,Bridge}.lean); they are inside the grammar of the C04 theorems.
/// Written ONCE per zoo type, by hand, beside the type; std types compose through the generic impls below.  The driver
/// checks on every case that the model's `ser` / `toTraceTy` / `toTarget` evaluated on this description reproduce what
/// the REAL derived impls did (recorded call stream, `from_type`, the `deserialize_*` / `visit_*` call log).
pub trait Describe {
    fn ty() -> Value;
}
pub fn d<T: Describe + ?Sized>() -> Value {
    T::ty()
}
fn prim(t: &str) -> Value {
    json!({ "t": t })
}
/// a field; `skip(..)` = `#[serde(skip_serializing_if = "Option::is_none")]`
fn f(name: &str, ty: Value) -> Value {
    json!([name, false, ty])
}
fn skip(name: &str, ty: Value) -> Value {
    json!([name, true, ty])
}
fn st(name: &str, fields: Vec<Value>) -> Value {
    json!({"t": "struct", "n": name, "f": fields})
}
fn tuple_struct(name: &str, tys: Vec<Value>) -> Value {
    json!({"t": "tuple_struct", "n": name, "a": tys})
}
fn newtype(name: &str, ty: Value) -> Value {
    json!({"t": "newtype", "n": name, "a": ty})
}
fn unit_struct(name: &str) -> Value {
    json!({"t": "unit_struct", "n": name})
}
fn en(name: &str, variants: Vec<Value>) -> Value {
    json!({"t": "enum", "n": name, "v": variants})
}
fn vu(name: &str) -> Value {
    json!({"n": name, "k": "unit", "a": null})
}
fn vn(name: &str, ty: Value) -> Value {
    json!({"n": name, "k": "newtype", "a": ty})
}
fn vt(name: &str, tys: Vec<Value>) -> Value {
    json!({"n": name, "k": "tuple", "a": tys})
}
fn vs(name: &str, fields: Vec<Value>) -> Value {
    json!({"n": name, "k": "struct", "a": fields})
}
/// `&'de str`: serialized as a string, deserialized with `deserialize_str` into a borrowed target
fn borrowed_str() -> Value {
    prim("str_ref")
}
/// `#[serde(borrow)] Cow<'de, str>`: `deserialize_str` with a visitor that borrows when it is handed a borrowed string
fn cow_str() -> Value {
    prim("cow_str")
}
/// `#[serde(borrow, with = "serde_bytes")] &'de [u8]`: `serialize_bytes`, `deserialize_bytes` into a borrowed target
fn borrowed_bytes() -> Value {
    prim("bytes_ref")
}
/// `#[serde(with = "serde_bytes")]` on `Vec<u8>` / `ByteBuf`: `serialize_bytes`, owned buffer back
fn byte_buf() -> Value {
    prim("bytes")
}

macro_rules! describe_prim {
    ($($t:ty => $n:expr),* $(,)?) => { $( impl Describe for $t { fn ty() -> Value { prim($n) } } )* };
}
describe_prim!(bool => "bool", i8 => "i8", i16 => "i16", i32 => "i32", i64 => "i64", u8 => "u8", u16 => "u16", u32 => "u32",
    u64 => "u64", usize => "u64", isize => "i64", f32 => "f32", f64 => "f64", char => "char", String => "str", str => "str",
    () => "unit", serde_bytes::ByteBuf => "bytes");
/// `Cow<'static, str>` WITHOUT `#[serde(borrow)]`: deserialized through `String`
impl Describe for Cow<'static, str> {
    fn ty() -> Value {
        prim("str")
    }
}
impl<'a> Describe for &'a str {
    fn ty() -> Value {
        borrowed_str()
    }
}
/// `&'de [u8]` without serde_bytes: the std `Serialize` for slices issues a SEQUENCE of u8, `Deserialize` asks for bytes
impl<'a> Describe for &'a [u8] {
    fn ty() -> Value {
        prim("bytes_seq")
    }
}
impl<T: Describe> Describe for Option<T> {
    fn ty() -> Value {
        json!({"t": "option", "a": T::ty()})
    }
}
impl<T: Describe + ?Sized> Describe for Box<T> {
    fn ty() -> Value {
        T::ty()
    }
}
macro_rules! describe_seq {
    ($($t:ident),*) => { $( impl<T: Describe> Describe for $t<T> { fn ty() -> Value { json!({"t": "vec", "a": T::ty()}) } } )* };
}
describe_seq!(Vec, VecDeque, BTreeSet, HashSet);
impl<T: Describe> Describe for [T] {
    fn ty() -> Value {
        json!({"t": "vec", "a": T::ty()})
    }
}
/// a fixed-size array is a tuple of `N` equal types to serde
impl<T: Describe, const N: usize> Describe for [T; N] {
    fn ty() -> Value {
        json!({"t": "tuple", "a": vec![T::ty(); N]})
    }
}
macro_rules! describe_tuple {
    ($(($($t:ident),+)),*) => { $( impl<$($t: Describe),+> Describe for ($($t,)+) { fn ty() -> Value { json!({"t": "tuple", "a": [$($t::ty()),+]}) } } )* };
}
describe_tuple!((A), (A, B), (A, B, C));
impl<K: Describe, V: Describe> Describe for BTreeMap<K, V> {
    fn ty() -> Value {
        json!({"t": "map", "k": K::ty(), "v": V::ty()})
    }
}
impl<K: Describe, V: Describe> Describe for HashMap<K, V> {
    fn ty() -> Value {
        json!({"t": "map", "k": K::ty(), "v": V::ty()})
    }
}
/// `Result` has a hand-written std impl: an enum `Result` with the newtype variants `Ok`, `Err`
impl<T: Describe, E: Describe> Describe for Result<T, E> {
    fn ty() -> Value {
        en("Result", vec![vn("Ok", T::ty()), vn("Err", E::ty())])
    }
}
/// `serde_arrow::utils::Item<T>` serializes / deserializes through a private derived `struct Item { item: T }`
impl<T: Describe> Describe for serde_arrow::utils::Item<T> {
    fn ty() -> Value {
        st("Item", vec![f("item", T::ty())])
    }
}

/// the model's `toTarget` (lean/SaModel/Roundtrip/Bridge.lean) on a description, in the descriptor language of dynde.rs; the
/// driver recomputes it with the Lean function and refuses a difference (`roundtrip/bridge/target-…`).
pub fn to_target(t: &Value) -> Value {
    let all = |a: &Value| -> Vec<Value> { a.as_array().map(|a| a.iter().map(to_target).collect()).unwrap_or_default() };
    let fields = |a: &Value| -> Vec<Value> {
        a.as_array().map(|a| a.iter().map(|e| json!([e[0], to_target(&e[2])])).collect()).unwrap_or_default()
    };
    match t["t"].as_str().unwrap_or("") {
        "str" => json!("string"),
        "bytes" => json!("byte_buf"),
        "str_ref" | "cow_str" => json!("str"),
        "bytes_ref" | "bytes_seq" => json!("bytes"),
        "option" => json!({"option": to_target(&t["a"])}),
        "vec" => json!({"seq": to_target(&t["a"])}),
        "tuple" => json!({"tuple": all(&t["a"])}),
        "tuple_struct" => json!({"tuple_struct": all(&t["a"])}),
        "newtype" => json!({"newtype": to_target(&t["a"])}),
        "unit_struct" => json!("unit_struct"),
        "struct" => json!({"struct": fields(&t["f"])}),
        "map" => json!({"map": [to_target(&t["k"]), to_target(&t["v"])]}),
        "enum" => {
            let vs: Vec<Value> = t["v"]
                .as_array()
                .map(|a| {
                    a.iter()
                        .map(|v| {
                            let k = match v["k"].as_str().unwrap_or("") {
                                "unit" => json!("unit"),
                                "newtype" => json!({"newtype": to_target(&v["a"])}),
                                "tuple" => json!({"tuple": all(&v["a"])}),
                                _ => json!({"struct": fields(&v["a"])}),
                            };
                            json!([v["n"], k])
                        })
                        .collect()
                })
                .unwrap_or_default();
            json!({"enum": vs})
        }
        other => json!(other), // bool, i8 … u64, f32, f64, char, unit
    }
}

// ------------------------------------------------------------------------------------------------ generic wrapper
/// the record wrapper for types that are not struct-like at the root (a real derived generic struct)
#[derive(Serialize, Deserialize, Debug, PartialEq, Clone)]
pub struct Wrap<T> {
    pub item: T,
}

impl<T: Describe> Describe for Wrap<T> {
    fn ty() -> Value {
        st("Wrap", vec![f("item", T::ty())])
    }
}

// ------------------------------------------------------------------------------------------------ structs
#[derive(Serialize, Deserialize, Debug, PartialEq, Clone)]
pub struct Scalars {
    pub b: bool,
    pub i8_: i8,
    pub i16_: i16,
    pub i32_: i32,
    pub i64_: i64,
    pub u8_: u8,
    pub u16_: u16,
    pub u32_: u32,
    pub u64_: u64,
    pub f32_: f32,
    pub f64_: f64,
    pub c: char,
    pub s: String,
}

impl Describe for Scalars {
    fn ty() -> Value {
        st("Scalars", vec![f("b", d::<bool>()), f("i8_", d::<i8>()), f("i16_", d::<i16>()), f("i32_", d::<i32>()), f("i64_", d::<i64>()), f("u8_", d::<u8>()), f("u16_", d::<u16>()), f("u32_", d::<u32>()), f("u64_", d::<u64>()), f("f32_", d::<f32>()), f("f64_", d::<f64>()), f("c", d::<char>()), f("s", d::<String>())])
    }
}

#[derive(Serialize, Deserialize, Debug, PartialEq, Clone)]
pub struct Sizes {
    pub u: usize,
    pub i: isize,
}

impl Describe for Sizes {
    fn ty() -> Value {
        st("Sizes", vec![f("u", d::<usize>()), f("i", d::<isize>())])
    }
}

#[derive(Serialize, Deserialize, Debug, PartialEq, Clone)]
pub struct Inner {
    pub x: i16,
    pub y: String,
}

impl Describe for Inner {
    fn ty() -> Value {
        st("Inner", vec![f("x", d::<i16>()), f("y", d::<String>())])
    }
}

#[derive(Serialize, Deserialize, Debug, PartialEq, Clone)]
pub struct InnerB {
    pub z: f64,
    pub deep: Inner,
}

impl Describe for InnerB {
    fn ty() -> Value {
        st("InnerB", vec![f("z", d::<f64>()), f("deep", d::<Inner>())])
    }
}

#[derive(Serialize, Deserialize, Debug, PartialEq, Clone)]
pub struct Nested {
    pub id: u32,
    pub inner: Inner,
    pub tail: InnerB,
}

impl Describe for Nested {
    fn ty() -> Value {
        st("Nested", vec![f("id", d::<u32>()), f("inner", d::<Inner>()), f("tail", d::<InnerB>())])
    }
}

#[derive(Serialize, Deserialize, Debug, PartialEq, Clone)]
pub struct TupleStruct(pub i32, pub String, pub bool);

impl Describe for TupleStruct {
    fn ty() -> Value {
        tuple_struct("TupleStruct", vec![d::<i32>(), d::<String>(), d::<bool>()])
    }
}

#[derive(Serialize, Deserialize, Debug, PartialEq, Clone)]
pub struct Newtype(pub u64);

impl Describe for Newtype {
    fn ty() -> Value {
        newtype("Newtype", d::<u64>())
    }
}

#[derive(Serialize, Deserialize, Debug, PartialEq, Clone)]
pub struct NewtypeOfStruct(pub Inner);

impl Describe for NewtypeOfStruct {
    fn ty() -> Value {
        newtype("NewtypeOfStruct", d::<Inner>())
    }
}

// ---- root kinds (C04, Props/C04Root2.lean, Props/C04RootKinds.lean): `from_type` supports every root that is traced to a
// non-nullable struct — a struct with named fields, a tuple struct, a tuple / array, a newtype struct around one of these —
// and refuses the others (flag `badroot`)

/// a newtype of a newtype of a record: the columns of `Inner`
#[derive(Serialize, Deserialize, Debug, PartialEq, Clone)]
pub struct NewtypeOfNewtype(pub NewtypeOfStruct);

impl Describe for NewtypeOfNewtype {
    fn ty() -> Value {
        newtype("NewtypeOfNewtype", d::<NewtypeOfStruct>())
    }
}

/// a newtype of a tuple struct: the columns "0", "1", "2"
#[derive(Serialize, Deserialize, Debug, PartialEq, Clone)]
pub struct NewtypeOfTuple(pub TupleStruct);

impl Describe for NewtypeOfTuple {
    fn ty() -> Value {
        newtype("NewtypeOfTuple", d::<TupleStruct>())
    }
}

/// a tuple struct root with an enum, an optional record and a nested Option
#[derive(Serialize, Deserialize, Debug, PartialEq, Clone)]
pub struct TupleStructRich(pub u8, pub DataOnly, pub Option<Inner>, pub Vec<Option<String>>);

impl Describe for TupleStructRich {
    fn ty() -> Value {
        tuple_struct("TupleStructRich", vec![d::<u8>(), d::<DataOnly>(), d::<Option<Inner>>(), d::<Vec<Option<String>>>()])
    }
}

/// an array as the root: a tuple of three equal types, columns "0", "1", "2"
pub type RootArray = [Option<i16>; 3];

/// a tuple struct without fields: zero columns, like `struct Empty {}`
#[derive(Serialize, Deserialize, Debug, PartialEq, Clone)]
pub struct EmptyTuple();

impl Describe for EmptyTuple {
    fn ty() -> Value {
        tuple_struct("EmptyTuple", vec![])
    }
}

/// roots `from_type` refuses: a newtype of a scalar (`Newtype`), a unit struct (`UnitS`), `Option<record>`, an enum
/// (`DataOnly`), a newtype of an Option of a record
#[derive(Serialize, Deserialize, Debug, PartialEq, Clone)]
pub struct NewtypeOfOption(pub Option<Inner>);

impl Describe for NewtypeOfOption {
    fn ty() -> Value {
        newtype("NewtypeOfOption", d::<Option<Inner>>())
    }
}

#[derive(Serialize, Deserialize, Debug, PartialEq, Clone)]
pub struct UnitS;

impl Describe for UnitS {
    fn ty() -> Value {
        unit_struct("UnitS")
    }
}

#[derive(Serialize, Deserialize, Debug, PartialEq, Clone)]
pub struct WithUnit {
    pub a: i32,
    pub u: (),
    pub s: UnitS,
}

impl Describe for WithUnit {
    fn ty() -> Value {
        st("WithUnit", vec![f("a", d::<i32>()), f("u", d::<()>()), f("s", d::<UnitS>())])
    }
}

#[derive(Serialize, Deserialize, Debug, PartialEq, Clone)]
pub struct Empty {}

impl Describe for Empty {
    fn ty() -> Value {
        st("Empty", vec![])
    }
}

#[derive(Serialize, Deserialize, Debug, PartialEq, Clone)]
pub struct HasEmpty {
    pub e: Empty,
    pub k: i32,
    pub oe: Option<Empty>,
}

impl Describe for HasEmpty {
    fn ty() -> Value {
        st("HasEmpty", vec![f("e", d::<Empty>()), f("k", d::<i32>()), f("oe", d::<Option<Empty>>())])
    }
}

#[derive(Serialize, Deserialize, Debug, PartialEq, Clone)]
pub struct Wide {
    pub f00: Option<i32>,
    pub f01: i8,
    pub f02: Option<String>,
    pub f03: u16,
    pub f04: Option<bool>,
    pub f05: f32,
    pub f06: Option<i64>,
    pub f07: char,
    pub f08: Option<u8>,
    pub f09: String,
    pub f10: Option<f64>,
    pub f11: u32,
    pub f12: Option<i16>,
    pub f13: bool,
    pub f14: Option<u64>,
    pub f15: i64,
    pub f16: Option<char>,
    pub f17: u8,
    pub f18: Option<Vec<i8>>,
    pub f19: (i8, u8),
}

impl Describe for Wide {
    fn ty() -> Value {
        st("Wide", vec![f("f00", d::<Option<i32>>()), f("f01", d::<i8>()), f("f02", d::<Option<String>>()), f("f03", d::<u16>()), f("f04", d::<Option<bool>>()), f("f05", d::<f32>()), f("f06", d::<Option<i64>>()), f("f07", d::<char>()), f("f08", d::<Option<u8>>()), f("f09", d::<String>()), f("f10", d::<Option<f64>>()), f("f11", d::<u32>()), f("f12", d::<Option<i16>>()), f("f13", d::<bool>()), f("f14", d::<Option<u64>>()), f("f15", d::<i64>()), f("f16", d::<Option<char>>()), f("f17", d::<u8>()), f("f18", d::<Option<Vec<i8>>>()), f("f19", d::<(i8, u8)>())])
    }
}

#[derive(Serialize, Deserialize, Debug, PartialEq, Clone)]
pub struct Boxed {
    pub b: Box<Inner>,
    pub o: Option<Box<Inner>>,
    pub v: Vec<Box<i32>>,
}

impl Describe for Boxed {
    fn ty() -> Value {
        st("Boxed", vec![f("b", d::<Box<Inner>>()), f("o", d::<Option<Box<Inner>>>()), f("v", d::<Vec<Box<i32>>>())])
    }
}

// ------------------------------------------------------------------------------------------------ enums
#[derive(Serialize, Deserialize, Debug, PartialEq, Clone)]
pub enum AllKinds {
    Unit,
    New(i32),
    Tup(i8, String),
    Struct { a: bool, b: f32 },
}

impl Describe for AllKinds {
    fn ty() -> Value {
        en("AllKinds", vec![vu("Unit"), vn("New", d::<i32>()), vt("Tup", vec![d::<i8>(), d::<String>()]), vs("Struct", vec![f("a", d::<bool>()), f("b", d::<f32>())])])
    }
}

#[derive(Serialize, Deserialize, Debug, PartialEq, Clone)]
pub enum DataOnly {
    A(i32),
    B(String),
    C { x: u8, y: Option<String> },
    D(i64, i64),
}

impl Describe for DataOnly {
    fn ty() -> Value {
        en("DataOnly", vec![vn("A", d::<i32>()), vn("B", d::<String>()), vs("C", vec![f("x", d::<u8>()), f("y", d::<Option<String>>())]), vt("D", vec![d::<i64>(), d::<i64>()])])
    }
}

#[derive(Serialize, Deserialize, Debug, PartialEq, Clone)]
pub enum Color {
    Red,
    Green,
    Blue,
}

impl Describe for Color {
    fn ty() -> Value {
        en("Color", vec![vu("Red"), vu("Green"), vu("Blue")])
    }
}

/// a "data-less" enum in the tracer's eyes although one variant carries a (unit) payload: with
/// `enums_without_data_as_strings` the tracer stores it as strings and the string builders refuse `B(())`
#[derive(Serialize, Deserialize, Debug, PartialEq, Clone)]
pub enum UnitPayload {
    A,
    B(()),
}

impl Describe for UnitPayload {
    fn ty() -> Value {
        en("UnitPayload", vec![vu("A"), vn("B", d::<()>())])
    }
}

#[derive(Serialize, Deserialize, Debug, PartialEq, Clone)]
pub struct HasUnitPayload {
    pub e: UnitPayload,
    pub n: i32,
}

impl Describe for HasUnitPayload {
    fn ty() -> Value {
        st("HasUnitPayload", vec![f("e", d::<UnitPayload>()), f("n", d::<i32>())])
    }
}

#[derive(Serialize, Deserialize, Debug, PartialEq, Clone)]
pub struct HasColor {
    pub c: Color,
    pub n: i32,
    pub cs: Vec<Color>,
}

impl Describe for HasColor {
    fn ty() -> Value {
        st("HasColor", vec![f("c", d::<Color>()), f("n", d::<i32>()), f("cs", d::<Vec<Color>>())])
    }
}

#[derive(Serialize, Deserialize, Debug, PartialEq, Clone)]
pub struct OptColor {
    pub c: Option<Color>,
    pub n: i32,
}

impl Describe for OptColor {
    fn ty() -> Value {
        st("OptColor", vec![f("c", d::<Option<Color>>()), f("n", d::<i32>())])
    }
}

#[derive(Serialize, Deserialize, Debug, PartialEq, Clone)]
pub struct EnumVec {
    pub es: Vec<DataOnly>,
}

impl Describe for EnumVec {
    fn ty() -> Value {
        st("EnumVec", vec![f("es", d::<Vec<DataOnly>>())])
    }
}

#[derive(Serialize, Deserialize, Debug, PartialEq, Clone)]
pub struct Tagged {
    pub tag: DataOnly,
    pub w: u16,
}

impl Describe for Tagged {
    fn ty() -> Value {
        st("Tagged", vec![f("tag", d::<DataOnly>()), f("w", d::<u16>())])
    }
}

#[derive(Serialize, Deserialize, Debug, PartialEq, Clone)]
pub struct EnumInStructInVec {
    pub items: Vec<Tagged>,
}

impl Describe for EnumInStructInVec {
    fn ty() -> Value {
        st("EnumInStructInVec", vec![f("items", d::<Vec<Tagged>>())])
    }
}

#[derive(Serialize, Deserialize, Debug, PartialEq, Clone)]
pub enum EnumNested {
    L(DataOnly),
    R { inner: DataOnly, k: i8 },
    P(Box<DataOnly>, Tagged),
}

impl Describe for EnumNested {
    fn ty() -> Value {
        en("EnumNested", vec![vn("L", d::<DataOnly>()), vs("R", vec![f("inner", d::<DataOnly>()), f("k", d::<i8>())]), vt("P", vec![d::<Box<DataOnly>>(), d::<Tagged>()])])
    }
}

#[derive(Serialize, Deserialize, Debug, PartialEq, Clone)]
pub enum Payloads {
    V(Vec<i32>),
    O(Option<String>),
    T((i8, i8)),
    S(Inner),
    A([u8; 3]),
    VV { rows: Vec<Vec<u8>>, names: Vec<Option<String>> },
}

impl Describe for Payloads {
    fn ty() -> Value {
        en("Payloads", vec![vn("V", d::<Vec<i32>>()), vn("O", d::<Option<String>>()), vn("T", d::<(i8, i8)>()), vn("S", d::<Inner>()), vn("A", d::<[u8; 3]>()), vs("VV", vec![f("rows", d::<Vec<Vec<u8>>>()), f("names", d::<Vec<Option<String>>>())])])
    }
}

#[derive(Serialize, Deserialize, Debug, PartialEq, Clone)]
pub enum ManyVariants {
    V0(i8),
    V1(i16),
    V2(i32),
    V3(i64),
    V4(u8),
    V5(u16),
    V6(u32),
    V7(u64),
    V8(f32),
    V9(f64),
    V10(bool),
    V11(char),
    V12(String),
    V13 { a: i8, b: i8 },
    V14(i8, i8, i8),
}

impl Describe for ManyVariants {
    fn ty() -> Value {
        en("ManyVariants", vec![vn("V0", d::<i8>()), vn("V1", d::<i16>()), vn("V2", d::<i32>()), vn("V3", d::<i64>()), vn("V4", d::<u8>()), vn("V5", d::<u16>()), vn("V6", d::<u32>()), vn("V7", d::<u64>()), vn("V8", d::<f32>()), vn("V9", d::<f64>()), vn("V10", d::<bool>()), vn("V11", d::<char>()), vn("V12", d::<String>()), vs("V13", vec![f("a", d::<i8>()), f("b", d::<i8>())]), vt("V14", vec![d::<i8>(), d::<i8>(), d::<i8>()])])
    }
}

#[derive(Serialize, Deserialize, Debug, PartialEq, Clone)]
pub struct OptEnum {
    pub e: Option<DataOnly>,
    pub k: i32,
}

impl Describe for OptEnum {
    fn ty() -> Value {
        st("OptEnum", vec![f("e", d::<Option<DataOnly>>()), f("k", d::<i32>())])
    }
}

#[derive(Serialize, Deserialize, Debug, PartialEq, Clone)]
pub enum OptPayloads {
    Segment(Option<(i32, i32)>),
    Label(Option<String>),
    Point { x: Option<i8>, y: i8 },
}

impl Describe for OptPayloads {
    fn ty() -> Value {
        en("OptPayloads", vec![vn("Segment", d::<Option<(i32, i32)>>()), vn("Label", d::<Option<String>>()), vs("Point", vec![f("x", d::<Option<i8>>()), f("y", d::<i8>())])])
    }
}

/// an `Option<enum>` whose variants wrap an `Option`: `Some(Segment(None))` must not read back as `None` (seeded change c04f)
#[derive(Serialize, Deserialize, Debug, PartialEq, Clone)]
pub struct OptEnumOptPayload {
    pub shape: Option<OptPayloads>,
    pub k: i32,
    pub shapes: Vec<Option<OptPayloads>>,
}

impl Describe for OptEnumOptPayload {
    fn ty() -> Value {
        st("OptEnumOptPayload", vec![f("shape", d::<Option<OptPayloads>>()), f("k", d::<i32>()), f("shapes", d::<Vec<Option<OptPayloads>>>())])
    }
}

#[derive(Serialize, Deserialize, Debug, PartialEq, Clone)]
pub struct ResultField {
    pub r: Result<i32, String>,
    pub rs: Vec<Result<Inner, u8>>,
}

impl Describe for ResultField {
    fn ty() -> Value {
        st("ResultField", vec![f("r", d::<Result<i32, String>>()), f("rs", d::<Vec<Result<Inner, u8>>>())])
    }
}

#[derive(Serialize, Deserialize, Debug, PartialEq, Clone)]
pub struct EnumWithUnitInVec {
    pub es: Vec<AllKinds>,
    pub k: u8,
}

impl Describe for EnumWithUnitInVec {
    fn ty() -> Value {
        st("EnumWithUnitInVec", vec![f("es", d::<Vec<AllKinds>>()), f("k", d::<u8>())])
    }
}

// ------------------------------------------------------------------------------------------------ Option / Vec
#[derive(Serialize, Deserialize, Debug, PartialEq, Clone)]
pub struct Opts {
    pub a: Option<i32>,
    pub b: Option<String>,
    pub c: Option<bool>,
    pub d: Option<f64>,
    pub e: Option<char>,
    pub f: Option<u64>,
    pub g: Option<i8>,
    pub h: Option<f32>,
}

impl Describe for Opts {
    fn ty() -> Value {
        st("Opts", vec![f("a", d::<Option<i32>>()), f("b", d::<Option<String>>()), f("c", d::<Option<bool>>()), f("d", d::<Option<f64>>()), f("e", d::<Option<char>>()), f("f", d::<Option<u64>>()), f("g", d::<Option<i8>>()), f("h", d::<Option<f32>>())])
    }
}

#[derive(Serialize, Deserialize, Debug, PartialEq, Clone)]
pub struct OptStruct {
    pub s: Option<Inner>,
    pub t: i32,
    pub n: Option<Nested>,
}

impl Describe for OptStruct {
    fn ty() -> Value {
        st("OptStruct", vec![f("s", d::<Option<Inner>>()), f("t", d::<i32>()), f("n", d::<Option<Nested>>())])
    }
}

#[derive(Serialize, Deserialize, Debug, PartialEq, Clone)]
pub struct OptVec {
    pub v: Option<Vec<i32>>,
    pub w: Option<Vec<String>>,
}

impl Describe for OptVec {
    fn ty() -> Value {
        st("OptVec", vec![f("v", d::<Option<Vec<i32>>>()), f("w", d::<Option<Vec<String>>>())])
    }
}

#[derive(Serialize, Deserialize, Debug, PartialEq, Clone)]
pub struct VecOpt {
    pub v: Vec<Option<i64>>,
    pub s: Vec<Option<String>>,
    pub t: Vec<Option<Inner>>,
}

impl Describe for VecOpt {
    fn ty() -> Value {
        st("VecOpt", vec![f("v", d::<Vec<Option<i64>>>()), f("s", d::<Vec<Option<String>>>()), f("t", d::<Vec<Option<Inner>>>())])
    }
}

#[derive(Serialize, Deserialize, Debug, PartialEq, Clone)]
pub struct NestedOpt {
    pub o: Option<Option<i32>>,
    pub k: u8,
    pub s: Option<Option<String>>,
}

impl Describe for NestedOpt {
    fn ty() -> Value {
        st("NestedOpt", vec![f("o", d::<Option<Option<i32>>>()), f("k", d::<u8>()), f("s", d::<Option<Option<String>>>())])
    }
}

#[derive(Serialize, Deserialize, Debug, PartialEq, Clone)]
pub struct NestedOptInVec {
    pub v: Vec<Option<Option<i16>>>,
}

impl Describe for NestedOptInVec {
    fn ty() -> Value {
        st("NestedOptInVec", vec![f("v", d::<Vec<Option<Option<i16>>>>())])
    }
}

#[derive(Serialize, Deserialize, Debug, PartialEq, Clone)]
pub struct VecVec {
    pub vv: Vec<Vec<u16>>,
    pub vs: Vec<Vec<String>>,
    pub vvv: Vec<Vec<Vec<bool>>>,
}

impl Describe for VecVec {
    fn ty() -> Value {
        st("VecVec", vec![f("vv", d::<Vec<Vec<u16>>>()), f("vs", d::<Vec<Vec<String>>>()), f("vvv", d::<Vec<Vec<Vec<bool>>>>())])
    }
}

#[derive(Serialize, Deserialize, Debug, PartialEq, Clone)]
pub struct VecStruct {
    pub v: Vec<Inner>,
    pub n: Vec<Nested>,
}

impl Describe for VecStruct {
    fn ty() -> Value {
        st("VecStruct", vec![f("v", d::<Vec<Inner>>()), f("n", d::<Vec<Nested>>())])
    }
}

#[derive(Serialize, Deserialize, Debug, PartialEq, Clone)]
pub struct SeqCollections {
    pub set: BTreeSet<i32>,
    pub dq: VecDeque<String>,
    pub bs: Box<[u16]>,
}

impl Describe for SeqCollections {
    fn ty() -> Value {
        st("SeqCollections", vec![f("set", d::<BTreeSet<i32>>()), f("dq", d::<VecDeque<String>>()), f("bs", d::<Box<[u16]>>())])
    }
}

#[derive(Serialize, Deserialize, Debug, PartialEq, Clone)]
pub struct HashSetField {
    pub hs: HashSet<u32>,
}

impl Describe for HashSetField {
    fn ty() -> Value {
        st("HashSetField", vec![f("hs", d::<HashSet<u32>>())])
    }
}

#[derive(Serialize, Deserialize, Debug, PartialEq, Clone)]
pub struct Deep {
    pub a: Vec<Option<Vec<Inner>>>,
    pub b: Option<Vec<Option<(i8, String)>>>,
    pub c: Vec<Vec<Option<DataOnly>>>,
}

impl Describe for Deep {
    fn ty() -> Value {
        st("Deep", vec![f("a", d::<Vec<Option<Vec<Inner>>>>()), f("b", d::<Option<Vec<Option<(i8, String)>>>>()), f("c", d::<Vec<Vec<Option<DataOnly>>>>())])
    }
}

// ------------------------------------------------------------------------------------------------ arrays / tuples
#[derive(Serialize, Deserialize, Debug, PartialEq, Clone)]
pub struct Arrays {
    pub a: [u8; 4],
    pub b: [i32; 2],
    pub c: [String; 3],
    pub d: [[i8; 2]; 2],
}

impl Describe for Arrays {
    fn ty() -> Value {
        st("Arrays", vec![f("a", d::<[u8; 4]>()), f("b", d::<[i32; 2]>()), f("c", d::<[String; 3]>()), f("d", d::<[[i8; 2]; 2]>())])
    }
}

#[derive(Serialize, Deserialize, Debug, PartialEq, Clone)]
pub struct Tuples {
    pub t: (i32, String),
    pub u: (bool,),
    pub n: ((i8, i16), (String, (u8, f32))),
}

impl Describe for Tuples {
    fn ty() -> Value {
        st("Tuples", vec![f("t", d::<(i32, String)>()), f("u", d::<(bool,)>()), f("n", d::<((i8, i16), (String, (u8, f32)))>())])
    }
}

pub type RootTuple = (i32, String, Option<bool>);

#[derive(Serialize, Deserialize, Debug, PartialEq, Clone)]
pub struct TupleInVec {
    pub v: Vec<(String, i32)>,
    pub o: Option<(u8, char)>,
    pub oa: Option<[i16; 2]>,
}

impl Describe for TupleInVec {
    fn ty() -> Value {
        st("TupleInVec", vec![f("v", d::<Vec<(String, i32)>>()), f("o", d::<Option<(u8, char)>>()), f("oa", d::<Option<[i16; 2]>>())])
    }
}

// ------------------------------------------------------------------------------------------------ maps
#[derive(Serialize, Deserialize, Debug, PartialEq, Clone)]
pub struct HMap {
    pub m: HashMap<String, i32>,
}

impl Describe for HMap {
    fn ty() -> Value {
        st("HMap", vec![f("m", d::<HashMap<String, i32>>())])
    }
}

#[derive(Serialize, Deserialize, Debug, PartialEq, Clone)]
pub struct BMapStruct {
    pub m: BTreeMap<String, Inner>,
}

impl Describe for BMapStruct {
    fn ty() -> Value {
        st("BMapStruct", vec![f("m", d::<BTreeMap<String, Inner>>())])
    }
}

#[derive(Serialize, Deserialize, Debug, PartialEq, Clone)]
pub struct BMapIntKey {
    pub m: BTreeMap<i64, String>,
    pub n: BTreeMap<u8, Option<bool>>,
}

impl Describe for BMapIntKey {
    fn ty() -> Value {
        st("BMapIntKey", vec![f("m", d::<BTreeMap<i64, String>>()), f("n", d::<BTreeMap<u8, Option<bool>>>())])
    }
}

#[derive(Serialize, Deserialize, Debug, PartialEq, Clone)]
pub struct BMapVecValues {
    pub m: BTreeMap<String, Vec<Option<i32>>>,
}

impl Describe for BMapVecValues {
    fn ty() -> Value {
        st("BMapVecValues", vec![f("m", d::<BTreeMap<String, Vec<Option<i32>>>>())])
    }
}

#[derive(Serialize, Deserialize, Debug, PartialEq, Clone)]
pub struct MapInVec {
    pub v: Vec<BTreeMap<String, u8>>,
    pub o: Option<BTreeMap<String, String>>,
}

impl Describe for MapInVec {
    fn ty() -> Value {
        st("MapInVec", vec![f("v", d::<Vec<BTreeMap<String, u8>>>()), f("o", d::<Option<BTreeMap<String, String>>>())])
    }
}

#[derive(Serialize, Deserialize, Debug, PartialEq, Clone)]
pub struct MapEnumValues {
    pub m: BTreeMap<String, DataOnly>,
}

impl Describe for MapEnumValues {
    fn ty() -> Value {
        st("MapEnumValues", vec![f("m", d::<BTreeMap<String, DataOnly>>())])
    }
}

/// a map KEY that is an enum with data: `from_type` needs several exploration passes for the key tracer
#[derive(Serialize, Deserialize, Debug, PartialEq, Eq, PartialOrd, Ord, Clone)]
pub enum KeyEnum {
    Id(i32),
    Name(String, bool),
    Anon,
    Pair { a: u8, b: i64 },
}

impl Describe for KeyEnum {
    fn ty() -> Value {
        en("KeyEnum", vec![vn("Id", d::<i32>()), vt("Name", vec![d::<String>(), d::<bool>()]), vu("Anon"), vs("Pair", vec![f("a", d::<u8>()), f("b", d::<i64>())])])
    }
}

#[derive(Serialize, Deserialize, Debug, PartialEq, Clone)]
pub struct MapEnumKeys {
    pub m: BTreeMap<KeyEnum, i32>,
    pub v: Vec<Option<BTreeMap<KeyEnum, String>>>,
}

impl Describe for MapEnumKeys {
    fn ty() -> Value {
        st("MapEnumKeys", vec![f("m", d::<BTreeMap<KeyEnum, i32>>()), f("v", d::<Vec<Option<BTreeMap<KeyEnum, String>>>>())])
    }
}

#[derive(Serialize, Deserialize, Debug, PartialEq, Clone)]
pub struct MapOfMaps {
    pub m: BTreeMap<String, BTreeMap<i32, f32>>,
}

impl Describe for MapOfMaps {
    fn ty() -> Value {
        st("MapOfMaps", vec![f("m", d::<BTreeMap<String, BTreeMap<i32, f32>>>())])
    }
}

// ------------------------------------------------------------------------------------------------ strings / bytes / chars
#[derive(Serialize, Deserialize, Debug, PartialEq, Clone)]
pub struct Strs {
    pub a: String,
    pub b: Box<str>,
    pub c: Cow<'static, str>,
    pub d: Option<Box<str>>,
    pub e: Vec<Cow<'static, str>>,
}

impl Describe for Strs {
    fn ty() -> Value {
        st("Strs", vec![f("a", d::<String>()), f("b", d::<Box<str>>()), f("c", d::<Cow<'static, str>>()), f("d", d::<Option<Box<str>>>()), f("e", d::<Vec<Cow<'static, str>>>())])
    }
}

#[derive(Serialize, Deserialize, Debug, PartialEq, Clone)]
pub struct Bytes {
    pub b: serde_bytes::ByteBuf,
    pub v: Vec<u8>,
    #[serde(with = "serde_bytes")]
    pub w: Vec<u8>,
}

impl Describe for Bytes {
    fn ty() -> Value {
        st("Bytes", vec![f("b", d::<serde_bytes::ByteBuf>()), f("v", d::<Vec<u8>>()), f("w", byte_buf())])
    }
}

#[derive(Serialize, Deserialize, Debug, PartialEq, Clone)]
pub struct BytesNested {
    pub o: Option<serde_bytes::ByteBuf>,
    pub v: Vec<serde_bytes::ByteBuf>,
    pub ov: Vec<Option<serde_bytes::ByteBuf>>,
}

impl Describe for BytesNested {
    fn ty() -> Value {
        st("BytesNested", vec![f("o", d::<Option<serde_bytes::ByteBuf>>()), f("v", d::<Vec<serde_bytes::ByteBuf>>()), f("ov", d::<Vec<Option<serde_bytes::ByteBuf>>>())])
    }
}

#[derive(Serialize, Deserialize, Debug, PartialEq, Clone)]
pub struct Chars {
    pub c: char,
    pub v: Vec<char>,
    pub o: Option<char>,
}

impl Describe for Chars {
    fn ty() -> Value {
        st("Chars", vec![f("c", d::<char>()), f("v", d::<Vec<char>>()), f("o", d::<Option<char>>())])
    }
}

// ------------------------------------------------------------------------------------------------ attributes
#[derive(Serialize, Deserialize, Debug, PartialEq, Clone)]
pub struct Renamed {
    #[serde(rename = "type")]
    pub ty: i32,
    #[serde(rename = "väl ue")]
    pub v: String,
    #[serde(rename = "")]
    pub empty_name: u8,
    pub plain: bool,
}

impl Describe for Renamed {
    fn ty() -> Value {
        st("Renamed", vec![f("type", d::<i32>()), f("väl ue", d::<String>()), f("", d::<u8>()), f("plain", d::<bool>())])
    }
}

#[derive(Serialize, Deserialize, Debug, PartialEq, Clone)]
#[serde(rename_all = "camelCase")]
pub struct Camel {
    pub first_name: String,
    pub last_login_at: i64,
    pub is_admin: Option<bool>,
}

impl Describe for Camel {
    fn ty() -> Value {
        st("Camel", vec![f("firstName", d::<String>()), f("lastLoginAt", d::<i64>()), f("isAdmin", d::<Option<bool>>())])
    }
}

#[derive(Serialize, Deserialize, Debug, PartialEq, Clone)]
#[serde(rename_all = "SCREAMING_SNAKE_CASE")]
pub struct Scream {
    pub first_name: String,
    pub retry_count: u32,
}

impl Describe for Scream {
    fn ty() -> Value {
        st("Scream", vec![f("FIRST_NAME", d::<String>()), f("RETRY_COUNT", d::<u32>())])
    }
}

#[derive(Serialize, Deserialize, Debug, PartialEq, Clone)]
#[serde(rename_all = "kebab-case")]
pub enum RenamedVariants {
    FirstCase(i32),
    SecondCase { inner_value: String },
    #[serde(rename = "3rd")]
    Third(u8, u8),
}

impl Describe for RenamedVariants {
    fn ty() -> Value {
        en("RenamedVariants", vec![vn("first-case", d::<i32>()), vs("second-case", vec![f("inner_value", d::<String>())]), vt("3rd", vec![d::<u8>(), d::<u8>()])])
    }
}

#[derive(Serialize, Deserialize, Debug, PartialEq, Clone)]
#[serde(rename_all = "snake_case")]
pub enum RenamedColor {
    DarkRed,
    LightGreen,
    #[serde(rename = "BLUE!")]
    Blue,
}

impl Describe for RenamedColor {
    fn ty() -> Value {
        en("RenamedColor", vec![vu("dark_red"), vu("light_green"), vu("BLUE!")])
    }
}

#[derive(Serialize, Deserialize, Debug, PartialEq, Clone)]
pub struct HasRenamedColor {
    pub c: RenamedColor,
    pub o: Option<RenamedColor>,
}

impl Describe for HasRenamedColor {
    fn ty() -> Value {
        st("HasRenamedColor", vec![f("c", d::<RenamedColor>()), f("o", d::<Option<RenamedColor>>())])
    }
}

fn seven() -> u8 {
    7
}

#[derive(Serialize, Deserialize, Debug, PartialEq, Clone)]
pub struct Defaults {
    #[serde(default)]
    pub a: i32,
    #[serde(default = "seven")]
    pub b: u8,
    pub c: String,
    #[serde(default)]
    pub d: Option<Inner>,
    #[serde(default)]
    pub e: Vec<i8>,
}

impl Describe for Defaults {
    fn ty() -> Value {
        st("Defaults", vec![f("a", d::<i32>()), f("b", d::<u8>()), f("c", d::<String>()), f("d", d::<Option<Inner>>()), f("e", d::<Vec<i8>>())])
    }
}

#[derive(Serialize, Deserialize, Debug, PartialEq, Clone, Default)]
#[serde(default)]
pub struct ContainerDefault {
    pub a: i32,
    pub s: String,
    pub o: Option<u16>,
}

impl Describe for ContainerDefault {
    fn ty() -> Value {
        st("ContainerDefault", vec![f("a", d::<i32>()), f("s", d::<String>()), f("o", d::<Option<u16>>())])
    }
}

#[derive(Serialize, Deserialize, Debug, PartialEq, Clone)]
pub struct Skips {
    #[serde(skip_serializing_if = "Option::is_none")]
    pub a: Option<i32>,
    pub b: String,
    #[serde(skip_serializing_if = "Option::is_none", default)]
    pub c: Option<String>,
    #[serde(skip_serializing_if = "Option::is_none")]
    pub d: Option<Inner>,
    #[serde(skip_serializing_if = "Option::is_none")]
    pub e: Option<Vec<u8>>,
}

impl Describe for Skips {
    fn ty() -> Value {
        st("Skips", vec![skip("a", d::<Option<i32>>()), f("b", d::<String>()), skip("c", d::<Option<String>>()), skip("d", d::<Option<Inner>>()), skip("e", d::<Option<Vec<u8>>>())])
    }
}

#[derive(Serialize, Deserialize, Debug, PartialEq, Clone)]
pub enum SkipsInVariant {
    S {
        #[serde(skip_serializing_if = "Option::is_none")]
        a: Option<i32>,
        b: u8,
    },
    N(i8),
}

impl Describe for SkipsInVariant {
    fn ty() -> Value {
        en("SkipsInVariant", vec![vs("S", vec![skip("a", d::<Option<i32>>()), f("b", d::<u8>())]), vn("N", d::<i8>())])
    }
}

#[derive(Serialize, Deserialize, Debug, PartialEq, Clone)]
#[serde(transparent)]
pub struct Meters(pub f64);

impl Describe for Meters {
    fn ty() -> Value {
        d::<f64>() // #[serde(transparent)]: the inner type itself
    }
}

#[derive(Serialize, Deserialize, Debug, PartialEq, Clone)]
#[serde(transparent)]
pub struct TransparentStruct {
    pub inner: Inner,
}

impl Describe for TransparentStruct {
    fn ty() -> Value {
        d::<Inner>() // #[serde(transparent)]: the inner type itself
    }
}

#[derive(Serialize, Deserialize, Debug, PartialEq, Clone)]
pub struct HasTransparent {
    pub m: Meters,
    pub om: Option<Meters>,
    pub vm: Vec<Meters>,
    pub t: TransparentStruct,
}

impl Describe for HasTransparent {
    fn ty() -> Value {
        st("HasTransparent", vec![f("m", d::<Meters>()), f("om", d::<Option<Meters>>()), f("vm", d::<Vec<Meters>>()), f("t", d::<TransparentStruct>())])
    }
}

// ------------------------------------------------------------------------------------------------ borrowed targets
#[derive(Serialize, Deserialize, Debug, PartialEq, Clone)]
pub struct BorrowStr<'a> {
    pub s: &'a str,
    pub n: i32,
}

impl<'a> Describe for BorrowStr<'a> {
    fn ty() -> Value {
        st("BorrowStr", vec![f("s", d::<&str>()), f("n", d::<i32>())])
    }
}

#[derive(Serialize, Deserialize, Debug, PartialEq, Clone)]
pub struct BorrowBytes<'a> {
    /// serialized as a sequence of u8 (std impl for slices), deserialized with `deserialize_bytes`
    pub b: &'a [u8],
    #[serde(with = "serde_bytes")]
    pub w: &'a [u8],
}

impl<'a> Describe for BorrowBytes<'a> {
    fn ty() -> Value {
        st("BorrowBytes", vec![f("b", d::<&[u8]>()), f("w", borrowed_bytes())])
    }
}

/// optional / nested borrowed byte slices: `Option<&'de [u8]>` is serialized as `some(SEQUENCE of u8)` and read with
/// `deserialize_option` → `deserialize_bytes` from a NULLABLE binary column (seeded c04h: a sequence written into a
/// nullable binary column marked null)
#[derive(Serialize, Deserialize, Debug, PartialEq, Clone)]
pub struct BorrowBytesOpt<'a> {
    #[serde(borrow)]
    pub o: Option<&'a [u8]>,
    #[serde(borrow)]
    pub v: Vec<Option<&'a [u8]>>,
    #[serde(borrow)]
    pub t: (Option<&'a [u8]>, u8),
    #[serde(borrow, with = "serde_bytes")]
    pub w: Option<&'a [u8]>,
}

impl<'a> Describe for BorrowBytesOpt<'a> {
    fn ty() -> Value {
        st(
            "BorrowBytesOpt",
            vec![
                f("o", d::<Option<&[u8]>>()),
                f("v", d::<Vec<Option<&[u8]>>>()),
                f("t", d::<(Option<&[u8]>, u8)>()),
                f("w", json!({"t": "option", "a": borrowed_bytes()})),
            ],
        )
    }
}

#[derive(Serialize, Deserialize, Debug, PartialEq, Clone)]
pub struct BorrowCow<'a> {
    #[serde(borrow)]
    pub c: Cow<'a, str>,
    #[serde(borrow)]
    pub o: Option<Cow<'a, str>>,
}

impl<'a> Describe for BorrowCow<'a> {
    fn ty() -> Value {
        // `#[serde(borrow)]` on exactly `Cow<str>`: `deserialize_str` with a visitor that borrows when it can; below an Option
        // serde does not special-case it: the std impl of `Cow` (through `String`)
        st("BorrowCow", vec![f("c", cow_str()), f("o", d::<Option<String>>())])
    }
}

#[derive(Serialize, Deserialize, Debug, PartialEq, Clone)]
pub struct BorrowNested<'a> {
    #[serde(borrow)]
    pub o: Option<&'a str>,
    #[serde(borrow)]
    pub v: Vec<&'a str>,
    #[serde(borrow)]
    pub t: (&'a str, u8),
    #[serde(borrow)]
    pub inner: BorrowStr<'a>,
}

impl<'a> Describe for BorrowNested<'a> {
    fn ty() -> Value {
        st("BorrowNested", vec![f("o", d::<Option<&str>>()), f("v", d::<Vec<&str>>()), f("t", d::<(&str, u8)>()), f("inner", d::<BorrowStr>())])
    }
}

#[derive(Serialize, Deserialize, Debug, PartialEq, Clone)]
pub enum BorrowEnum<'a> {
    S(&'a str),
    R {
        #[serde(borrow)]
        inner: BorrowStr<'a>,
    },
    N(i8),
}

impl<'a> Describe for BorrowEnum<'a> {
    fn ty() -> Value {
        en("BorrowEnum", vec![vn("S", d::<&str>()), vs("R", vec![f("inner", d::<BorrowStr>())]), vn("N", d::<i8>())])
    }
}

// ------------------------------------------------------------------------------------------------ ZooTy impls
macro_rules! plain {
    ($($t:ty),* $(,)?) => { $( impl ZooTy for $t {} )* };
}

plain!(
    Scalars, Sizes, Nested, TupleStruct, Wrap<Newtype>, NewtypeOfStruct, Wrap<UnitS>, WithUnit, Empty, HasEmpty, Wide, Boxed,
    Wrap<AllKinds>, Wrap<DataOnly>, HasColor, HasUnitPayload, OptColor, EnumVec, EnumInStructInVec, Wrap<EnumNested>, Wrap<Payloads>,
    Wrap<ManyVariants>, OptEnum, OptEnumOptPayload, ResultField, EnumWithUnitInVec, Opts, OptStruct, OptVec, VecOpt, VecVec, VecStruct,
    SeqCollections, HashSetField, Deep, Arrays, Tuples, RootTuple, TupleInVec, HMap, BMapStruct, BMapIntKey, BMapVecValues,
    MapInVec, MapEnumValues, MapEnumKeys, MapOfMaps, Strs, Bytes, BytesNested, Chars, Renamed, Camel, Scream, Wrap<RenamedVariants>,
    HasRenamedColor, Defaults, ContainerDefault, Skips, Wrap<SkipsInVariant>, Wrap<Meters>, TransparentStruct, HasTransparent,
    BorrowStr<'static>, BorrowBytes<'static>, BorrowBytesOpt<'static>, BorrowCow<'static>, BorrowNested<'static>, Wrap<BorrowEnum<'static>>,
    Wrap<i32>, Wrap<Vec<Option<String>>>, Wrap<Wrap<Inner>>, serde_arrow::utils::Item<i64>, serde_arrow::utils::Item<DataOnly>,
    NewtypeOfNewtype, NewtypeOfTuple, TupleStructRich, RootArray, EmptyTuple, Newtype, UnitS, Option<Inner>, DataOnly, NewtypeOfOption,
);

impl ZooTy for NestedOpt {
    fn norm(&mut self) {
        collapse(&mut self.o);
        collapse(&mut self.s);
    }
}

impl ZooTy for NestedOptInVec {
    fn norm(&mut self) {
        self.v.iter_mut().for_each(collapse);
    }
}

impl ZooTy for Wrap<Option<Option<bool>>> {
    fn norm(&mut self) {
        collapse(&mut self.item);
    }
}

/// every zoo type, once: `(Type, "name", "type-class", [flags…])`
#[macro_export]
macro_rules! zoo_types {
    ($cb:ident) => {
        $cb! {
            (Scalars, "Scalars", "struct-scalars", []),
            (Sizes, "Sizes", "struct-scalars", []),
            (Nested, "Nested", "struct-nested", []),
            (TupleStruct, "TupleStruct", "tuple-struct", []),
            (Wrap<Newtype>, "Wrap<Newtype>", "newtype-struct", []),
            (NewtypeOfStruct, "NewtypeOfStruct", "newtype-struct", []),
            (Wrap<UnitS>, "Wrap<UnitS>", "unit-struct", ["nulls"]),
            (WithUnit, "WithUnit", "unit-struct", ["nulls"]),
            (Empty, "Empty", "struct-empty-root", ["emptyroot"]),
            (HasEmpty, "HasEmpty", "struct-empty", []),
            (Wide, "Wide", "struct-wide", []),
            (Boxed, "Boxed", "box", []),
            (Wrap<AllKinds>, "Wrap<AllKinds>", "enum", ["nulls"]),
            (Wrap<DataOnly>, "Wrap<DataOnly>", "enum", []),
            (HasColor, "HasColor", "enum-dataless", ["dataless"]),
            (HasUnitPayload, "HasUnitPayload", "enum-unit-payload", ["dataless"]),
            (OptColor, "OptColor", "option-enum-dataless", ["dataless"]),
            (EnumVec, "EnumVec", "enum-in-vec", []),
            (EnumInStructInVec, "EnumInStructInVec", "enum-in-struct-in-vec", []),
            (Wrap<EnumNested>, "Wrap<EnumNested>", "enum-nested", []),
            (Wrap<Payloads>, "Wrap<Payloads>", "enum-payloads", []),
            (Wrap<ManyVariants>, "Wrap<ManyVariants>", "enum-wide", []),
            (OptEnum, "OptEnum", "option-enum", []),
            (OptEnumOptPayload, "OptEnumOptPayload", "option-enum-option-payload", []),
            (ResultField, "ResultField", "enum-in-vec", []),
            (EnumWithUnitInVec, "EnumWithUnitInVec", "enum-in-vec", ["nulls"]),
            (Opts, "Opts", "option-scalar", []),
            (OptStruct, "OptStruct", "option-struct", []),
            (OptVec, "OptVec", "option-vec", []),
            (VecOpt, "VecOpt", "vec-option", []),
            (NestedOpt, "NestedOpt", "nested-option", ["nestedopt"]),
            (NestedOptInVec, "NestedOptInVec", "nested-option", ["nestedopt"]),
            (Wrap<Option<Option<bool>>>, "Wrap<Option<Option<bool>>>", "nested-option", ["nestedopt"]),
            (VecVec, "VecVec", "vec-vec", []),
            (VecStruct, "VecStruct", "vec-struct", []),
            (SeqCollections, "SeqCollections", "vec", []),
            (HashSetField, "HashSetField", "vec", ["unordered"]),
            (Deep, "Deep", "deep", []),
            (Arrays, "Arrays", "array", []),
            (Tuples, "Tuples", "tuple", []),
            (RootTuple, "RootTuple", "tuple-root", []),
            (TupleInVec, "TupleInVec", "tuple-in-vec", []),
            (HMap, "HMap", "map", ["maps", "unordered"]),
            (BMapStruct, "BMapStruct", "map", ["maps"]),
            (BMapIntKey, "BMapIntKey", "map-int-key", ["maps"]),
            (BMapVecValues, "BMapVecValues", "map", ["maps"]),
            (MapInVec, "MapInVec", "map-in-vec", ["maps"]),
            (MapEnumValues, "MapEnumValues", "map-enum-values", ["maps"]),
            (MapEnumKeys, "MapEnumKeys", "map-enum-keys", ["maps", "nulls"]),
            (MapOfMaps, "MapOfMaps", "map-of-maps", ["maps"]),
            (Strs, "Strs", "strings", []),
            (Bytes, "Bytes", "bytes", []),
            (BytesNested, "BytesNested", "bytes", []),
            (Chars, "Chars", "char", []),
            (Renamed, "Renamed", "attr-rename", []),
            (Camel, "Camel", "attr-rename-all", []),
            (Scream, "Scream", "attr-rename-all", []),
            (Wrap<RenamedVariants>, "Wrap<RenamedVariants>", "attr-rename-all-enum", []),
            (HasRenamedColor, "HasRenamedColor", "attr-rename-all-enum-dataless", ["dataless"]),
            (Defaults, "Defaults", "attr-default", []),
            (ContainerDefault, "ContainerDefault", "attr-default", []),
            (Skips, "Skips", "attr-skip-none", []),
            (Wrap<SkipsInVariant>, "Wrap<SkipsInVariant>", "attr-skip-none-enum", []),
            (Wrap<Meters>, "Wrap<Meters>", "attr-transparent", []),
            (TransparentStruct, "TransparentStruct", "attr-transparent", []),
            (HasTransparent, "HasTransparent", "attr-transparent", []),
            (BorrowStr<'static>, "BorrowStr", "borrowed-str", ["borrowed"]),
            (BorrowBytes<'static>, "BorrowBytes", "borrowed-bytes", ["borrowed"]),
            (BorrowBytesOpt<'static>, "BorrowBytesOpt", "borrowed-bytes-option", ["borrowed"]),
            (BorrowCow<'static>, "BorrowCow", "borrowed-str", ["borrowed"]),
            (BorrowNested<'static>, "BorrowNested", "borrowed-str", ["borrowed"]),
            (Wrap<BorrowEnum<'static>>, "Wrap<BorrowEnum>", "borrowed-str-enum", ["borrowed"]),
            (Wrap<i32>, "Wrap<i32>", "struct-scalars", []),
            (Wrap<Vec<Option<String>>>, "Wrap<Vec<Option<String>>>", "vec-option", []),
            (Wrap<Wrap<Inner>>, "Wrap<Wrap<Inner>>", "struct-nested", []),
            (serde_arrow::utils::Item<i64>, "Item<i64>", "item-wrapper", []),
            (serde_arrow::utils::Item<DataOnly>, "Item<DataOnly>", "item-wrapper", []),
            (NewtypeOfNewtype, "NewtypeOfNewtype", "newtype-root", []),
            (NewtypeOfTuple, "NewtypeOfTuple", "newtype-root", []),
            (TupleStructRich, "TupleStructRich", "tuple-struct-root", []),
            (RootArray, "RootArray", "tuple-root", []),
            (EmptyTuple, "EmptyTuple", "struct-empty-root", ["emptyroot"]),
            (Newtype, "Newtype", "refused-root", ["badroot"]),
            (UnitS, "UnitS", "refused-root", ["badroot"]),
            (Option<Inner>, "Option<Inner>", "refused-root", ["badroot"]),
            (DataOnly, "DataOnly", "refused-root", ["badroot"]),
            (NewtypeOfOption, "NewtypeOfOption", "refused-root", ["badroot"]),
        }
    };
}
