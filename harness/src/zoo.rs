//! A zoo of REAL `#[derive(Serialize, Deserialize)]` types covering the quantifier of C04 (DESIGN.md 5, C04):
//! structs, tuple / newtype / unit structs, enums with unit / newtype / tuple / struct variants, Option, Vec, fixed
//! arrays and tuples, maps, strings, bytes, chars, every scalar, the self-describing serde attributes
//! (rename, rename_all, default, skip_serializing_if, transparent) and borrowed targets.
//!
//! `zoo_types!(callback)` lists every type exactly once: `callback! { (Type, "name", "type-class", [flags…]) … }`.
//! Flags state the *documented* preconditions the type has on the tracing options (checked by the driver, not
//! inferred from error messages):
//!   maps      contains a map: `from_type` needs `map_as_struct(false)` (field names are not known from the type)
//!   nulls     contains a position of Arrow type Null (`()`, unit struct, unit variant of an enum with data):
//!             needs `allow_null_fields(true)`
//!   dataless  contains an enum without data: needs `enums_without_data_as_strings(true)` or `allow_null_fields(true)`
//!   nestedopt contains `Option<Option<_>>`: the inner `None` collapses (documented), compare after `norm`
//!   unordered contains a hash map / hash set: recorded call streams are not comparable, only `==`
//!   borrowed  the target borrows from the arrays (`&'a str`, `&'a [u8]`, `Cow<'a, str>`)
#![allow(dead_code)]
use serde::{Deserialize, Serialize};
use std::borrow::Cow;
use std::collections::{BTreeMap, BTreeSet, HashMap, HashSet, VecDeque};
use std::fmt::Debug;

/// what the `roundtrip` suite needs of a zoo type.  `'static`: values are generated from leaked data and read back
/// from arrays pinned for the duration of the comparison (see `suites/roundtrip.rs::with_static`).
pub trait ZooTy: Serialize + Deserialize<'static> + PartialEq + Debug + 'static {
    /// the documented normalisation (identity unless the type has nested Options)
    fn norm(&mut self) {}
}

/// `Some(None)` reads back as `None`
fn collapse<T>(o: &mut Option<Option<T>>) {
    if let Some(None) = o {
        *o = None;
    }
}

// ------------------------------------------------------------------------------------------------ generic wrapper
/// the record wrapper for types that are not struct-like at the root (a real derived generic struct)
#[derive(Serialize, Deserialize, Debug, PartialEq, Clone)]
pub struct Wrap<T> {
    pub item: T,
}

// ------------------------------------------------------------------------------------------------ structs
#[derive(Serialize, Deserialize, Debug, PartialEq, Clone)]
pub struct Scalars {
    pub b: bool,
    pub i8_: i8,
    pub i16_: i16,
    pub i32_: i32,
    pub i64_: i64,
    pub u8_: u8,
    pub u16_: u16,
    pub u32_: u32,
    pub u64_: u64,
    pub f32_: f32,
    pub f64_: f64,
    pub c: char,
    pub s: String,
}

#[derive(Serialize, Deserialize, Debug, PartialEq, Clone)]
pub struct Sizes {
    pub u: usize,
    pub i: isize,
}

#[derive(Serialize, Deserialize, Debug, PartialEq, Clone)]
pub struct Inner {
    pub x: i16,
    pub y: String,
}

#[derive(Serialize, Deserialize, Debug, PartialEq, Clone)]
pub struct InnerB {
    pub z: f64,
    pub deep: Inner,
}

#[derive(Serialize, Deserialize, Debug, PartialEq, Clone)]
pub struct Nested {
    pub id: u32,
    pub inner: Inner,
    pub tail: InnerB,
}

#[derive(Serialize, Deserialize, Debug, PartialEq, Clone)]
pub struct TupleStruct(pub i32, pub String, pub bool);

#[derive(Serialize, Deserialize, Debug, PartialEq, Clone)]
pub struct Newtype(pub u64);

#[derive(Serialize, Deserialize, Debug, PartialEq, Clone)]
pub struct NewtypeOfStruct(pub Inner);

#[derive(Serialize, Deserialize, Debug, PartialEq, Clone)]
pub struct UnitS;

#[derive(Serialize, Deserialize, Debug, PartialEq, Clone)]
pub struct WithUnit {
    pub a: i32,
    pub u: (),
    pub s: UnitS,
}

#[derive(Serialize, Deserialize, Debug, PartialEq, Clone)]
pub struct Empty {}

#[derive(Serialize, Deserialize, Debug, PartialEq, Clone)]
pub struct HasEmpty {
    pub e: Empty,
    pub k: i32,
    pub oe: Option<Empty>,
}

#[derive(Serialize, Deserialize, Debug, PartialEq, Clone)]
pub struct Wide {
    pub f00: Option<i32>,
    pub f01: i8,
    pub f02: Option<String>,
    pub f03: u16,
    pub f04: Option<bool>,
    pub f05: f32,
    pub f06: Option<i64>,
    pub f07: char,
    pub f08: Option<u8>,
    pub f09: String,
    pub f10: Option<f64>,
    pub f11: u32,
    pub f12: Option<i16>,
    pub f13: bool,
    pub f14: Option<u64>,
    pub f15: i64,
    pub f16: Option<char>,
    pub f17: u8,
    pub f18: Option<Vec<i8>>,
    pub f19: (i8, u8),
}

#[derive(Serialize, Deserialize, Debug, PartialEq, Clone)]
pub struct Boxed {
    pub b: Box<Inner>,
    pub o: Option<Box<Inner>>,
    pub v: Vec<Box<i32>>,
}

// ------------------------------------------------------------------------------------------------ enums
#[derive(Serialize, Deserialize, Debug, PartialEq, Clone)]
pub enum AllKinds {
    Unit,
    New(i32),
    Tup(i8, String),
    Struct { a: bool, b: f32 },
}

#[derive(Serialize, Deserialize, Debug, PartialEq, Clone)]
pub enum DataOnly {
    A(i32),
    B(String),
    C { x: u8, y: Option<String> },
    D(i64, i64),
}

#[derive(Serialize, Deserialize, Debug, PartialEq, Clone)]
pub enum Color {
    Red,
    Green,
    Blue,
}

/// a "data-less" enum in the tracer's eyes although one variant carries a (unit) payload: with
/// `enums_without_data_as_strings` the tracer stores it as strings and the string builders refuse `B(())`
#[derive(Serialize, Deserialize, Debug, PartialEq, Clone)]
pub enum UnitPayload {
    A,
    B(()),
}

#[derive(Serialize, Deserialize, Debug, PartialEq, Clone)]
pub struct HasUnitPayload {
    pub e: UnitPayload,
    pub n: i32,
}

#[derive(Serialize, Deserialize, Debug, PartialEq, Clone)]
pub struct HasColor {
    pub c: Color,
    pub n: i32,
    pub cs: Vec<Color>,
}

#[derive(Serialize, Deserialize, Debug, PartialEq, Clone)]
pub struct OptColor {
    pub c: Option<Color>,
    pub n: i32,
}

#[derive(Serialize, Deserialize, Debug, PartialEq, Clone)]
pub struct EnumVec {
    pub es: Vec<DataOnly>,
}

#[derive(Serialize, Deserialize, Debug, PartialEq, Clone)]
pub struct Tagged {
    pub tag: DataOnly,
    pub w: u16,
}

#[derive(Serialize, Deserialize, Debug, PartialEq, Clone)]
pub struct EnumInStructInVec {
    pub items: Vec<Tagged>,
}

#[derive(Serialize, Deserialize, Debug, PartialEq, Clone)]
pub enum EnumNested {
    L(DataOnly),
    R { inner: DataOnly, k: i8 },
    P(Box<DataOnly>, Tagged),
}

#[derive(Serialize, Deserialize, Debug, PartialEq, Clone)]
pub enum Payloads {
    V(Vec<i32>),
    O(Option<String>),
    T((i8, i8)),
    S(Inner),
    A([u8; 3]),
    VV { rows: Vec<Vec<u8>>, names: Vec<Option<String>> },
}

#[derive(Serialize, Deserialize, Debug, PartialEq, Clone)]
pub enum ManyVariants {
    V0(i8),
    V1(i16),
    V2(i32),
    V3(i64),
    V4(u8),
    V5(u16),
    V6(u32),
    V7(u64),
    V8(f32),
    V9(f64),
    V10(bool),
    V11(char),
    V12(String),
    V13 { a: i8, b: i8 },
    V14(i8, i8, i8),
}

#[derive(Serialize, Deserialize, Debug, PartialEq, Clone)]
pub struct OptEnum {
    pub e: Option<DataOnly>,
    pub k: i32,
}

#[derive(Serialize, Deserialize, Debug, PartialEq, Clone)]
pub struct ResultField {
    pub r: Result<i32, String>,
    pub rs: Vec<Result<Inner, u8>>,
}

#[derive(Serialize, Deserialize, Debug, PartialEq, Clone)]
pub struct EnumWithUnitInVec {
    pub es: Vec<AllKinds>,
    pub k: u8,
}

// ------------------------------------------------------------------------------------------------ Option / Vec
#[derive(Serialize, Deserialize, Debug, PartialEq, Clone)]
pub struct Opts {
    pub a: Option<i32>,
    pub b: Option<String>,
    pub c: Option<bool>,
    pub d: Option<f64>,
    pub e: Option<char>,
    pub f: Option<u64>,
    pub g: Option<i8>,
    pub h: Option<f32>,
}

#[derive(Serialize, Deserialize, Debug, PartialEq, Clone)]
pub struct OptStruct {
    pub s: Option<Inner>,
    pub t: i32,
    pub n: Option<Nested>,
}

#[derive(Serialize, Deserialize, Debug, PartialEq, Clone)]
pub struct OptVec {
    pub v: Option<Vec<i32>>,
    pub w: Option<Vec<String>>,
}

#[derive(Serialize, Deserialize, Debug, PartialEq, Clone)]
pub struct VecOpt {
    pub v: Vec<Option<i64>>,
    pub s: Vec<Option<String>>,
    pub t: Vec<Option<Inner>>,
}

#[derive(Serialize, Deserialize, Debug, PartialEq, Clone)]
pub struct NestedOpt {
    pub o: Option<Option<i32>>,
    pub k: u8,
    pub s: Option<Option<String>>,
}

#[derive(Serialize, Deserialize, Debug, PartialEq, Clone)]
pub struct NestedOptInVec {
    pub v: Vec<Option<Option<i16>>>,
}

#[derive(Serialize, Deserialize, Debug, PartialEq, Clone)]
pub struct VecVec {
    pub vv: Vec<Vec<u16>>,
    pub vs: Vec<Vec<String>>,
    pub vvv: Vec<Vec<Vec<bool>>>,
}

#[derive(Serialize, Deserialize, Debug, PartialEq, Clone)]
pub struct VecStruct {
    pub v: Vec<Inner>,
    pub n: Vec<Nested>,
}

#[derive(Serialize, Deserialize, Debug, PartialEq, Clone)]
pub struct SeqCollections {
    pub set: BTreeSet<i32>,
    pub dq: VecDeque<String>,
    pub bs: Box<[u16]>,
}

#[derive(Serialize, Deserialize, Debug, PartialEq, Clone)]
pub struct HashSetField {
    pub hs: HashSet<u32>,
}

#[derive(Serialize, Deserialize, Debug, PartialEq, Clone)]
pub struct Deep {
    pub a: Vec<Option<Vec<Inner>>>,
    pub b: Option<Vec<Option<(i8, String)>>>,
    pub c: Vec<Vec<Option<DataOnly>>>,
}

// ------------------------------------------------------------------------------------------------ arrays / tuples
#[derive(Serialize, Deserialize, Debug, PartialEq, Clone)]
pub struct Arrays {
    pub a: [u8; 4],
    pub b: [i32; 2],
    pub c: [String; 3],
    pub d: [[i8; 2]; 2],
}

#[derive(Serialize, Deserialize, Debug, PartialEq, Clone)]
pub struct Tuples {
    pub t: (i32, String),
    pub u: (bool,),
    pub n: ((i8, i16), (String, (u8, f32))),
}

pub type RootTuple = (i32, String, Option<bool>);

#[derive(Serialize, Deserialize, Debug, PartialEq, Clone)]
pub struct TupleInVec {
    pub v: Vec<(String, i32)>,
    pub o: Option<(u8, char)>,
    pub oa: Option<[i16; 2]>,
}

// ------------------------------------------------------------------------------------------------ maps
#[derive(Serialize, Deserialize, Debug, PartialEq, Clone)]
pub struct HMap {
    pub m: HashMap<String, i32>,
}

#[derive(Serialize, Deserialize, Debug, PartialEq, Clone)]
pub struct BMapStruct {
    pub m: BTreeMap<String, Inner>,
}

#[derive(Serialize, Deserialize, Debug, PartialEq, Clone)]
pub struct BMapIntKey {
    pub m: BTreeMap<i64, String>,
    pub n: BTreeMap<u8, Option<bool>>,
}

#[derive(Serialize, Deserialize, Debug, PartialEq, Clone)]
pub struct BMapVecValues {
    pub m: BTreeMap<String, Vec<Option<i32>>>,
}

#[derive(Serialize, Deserialize, Debug, PartialEq, Clone)]
pub struct MapInVec {
    pub v: Vec<BTreeMap<String, u8>>,
    pub o: Option<BTreeMap<String, String>>,
}

#[derive(Serialize, Deserialize, Debug, PartialEq, Clone)]
pub struct MapEnumValues {
    pub m: BTreeMap<String, DataOnly>,
}

/// a map KEY that is an enum with data: `from_type` needs several exploration passes for the key tracer
#[derive(Serialize, Deserialize, Debug, PartialEq, Eq, PartialOrd, Ord, Clone)]
pub enum KeyEnum {
    Id(i32),
    Name(String, bool),
    Anon,
    Pair { a: u8, b: i64 },
}

#[derive(Serialize, Deserialize, Debug, PartialEq, Clone)]
pub struct MapEnumKeys {
    pub m: BTreeMap<KeyEnum, i32>,
    pub v: Vec<Option<BTreeMap<KeyEnum, String>>>,
}

#[derive(Serialize, Deserialize, Debug, PartialEq, Clone)]
pub struct MapOfMaps {
    pub m: BTreeMap<String, BTreeMap<i32, f32>>,
}

// ------------------------------------------------------------------------------------------------ strings / bytes / chars
#[derive(Serialize, Deserialize, Debug, PartialEq, Clone)]
pub struct Strs {
    pub a: String,
    pub b: Box<str>,
    pub c: Cow<'static, str>,
    pub d: Option<Box<str>>,
    pub e: Vec<Cow<'static, str>>,
}

#[derive(Serialize, Deserialize, Debug, PartialEq, Clone)]
pub struct Bytes {
    pub b: serde_bytes::ByteBuf,
    pub v: Vec<u8>,
    #[serde(with = "serde_bytes")]
    pub w: Vec<u8>,
}

#[derive(Serialize, Deserialize, Debug, PartialEq, Clone)]
pub struct BytesNested {
    pub o: Option<serde_bytes::ByteBuf>,
    pub v: Vec<serde_bytes::ByteBuf>,
    pub ov: Vec<Option<serde_bytes::ByteBuf>>,
}

#[derive(Serialize, Deserialize, Debug, PartialEq, Clone)]
pub struct Chars {
    pub c: char,
    pub v: Vec<char>,
    pub o: Option<char>,
}

// ------------------------------------------------------------------------------------------------ attributes
#[derive(Serialize, Deserialize, Debug, PartialEq, Clone)]
pub struct Renamed {
    #[serde(rename = "type")]
    pub ty: i32,
    #[serde(rename = "väl ue")]
    pub v: String,
    #[serde(rename = "")]
    pub empty_name: u8,
    pub plain: bool,
}

#[derive(Serialize, Deserialize, Debug, PartialEq, Clone)]
#[serde(rename_all = "camelCase")]
pub struct Camel {
    pub first_name: String,
    pub last_login_at: i64,
    pub is_admin: Option<bool>,
}

#[derive(Serialize, Deserialize, Debug, PartialEq, Clone)]
#[serde(rename_all = "SCREAMING_SNAKE_CASE")]
pub struct Scream {
    pub first_name: String,
    pub retry_count: u32,
}

#[derive(Serialize, Deserialize, Debug, PartialEq, Clone)]
#[serde(rename_all = "kebab-case")]
pub enum RenamedVariants {
    FirstCase(i32),
    SecondCase { inner_value: String },
    #[serde(rename = "3rd")]
    Third(u8, u8),
}

#[derive(Serialize, Deserialize, Debug, PartialEq, Clone)]
#[serde(rename_all = "snake_case")]
pub enum RenamedColor {
    DarkRed,
    LightGreen,
    #[serde(rename = "BLUE!")]
    Blue,
}

#[derive(Serialize, Deserialize, Debug, PartialEq, Clone)]
pub struct HasRenamedColor {
    pub c: RenamedColor,
    pub o: Option<RenamedColor>,
}

fn seven() -> u8 {
    7
}

#[derive(Serialize, Deserialize, Debug, PartialEq, Clone)]
pub struct Defaults {
    #[serde(default)]
    pub a: i32,
    #[serde(default = "seven")]
    pub b: u8,
    pub c: String,
    #[serde(default)]
    pub d: Option<Inner>,
    #[serde(default)]
    pub e: Vec<i8>,
}

#[derive(Serialize, Deserialize, Debug, PartialEq, Clone, Default)]
#[serde(default)]
pub struct ContainerDefault {
    pub a: i32,
    pub s: String,
    pub o: Option<u16>,
}

#[derive(Serialize, Deserialize, Debug, PartialEq, Clone)]
pub struct Skips {
    #[serde(skip_serializing_if = "Option::is_none")]
    pub a: Option<i32>,
    pub b: String,
    #[serde(skip_serializing_if = "Option::is_none", default)]
    pub c: Option<String>,
    #[serde(skip_serializing_if = "Option::is_none")]
    pub d: Option<Inner>,
    #[serde(skip_serializing_if = "Option::is_none")]
    pub e: Option<Vec<u8>>,
}

#[derive(Serialize, Deserialize, Debug, PartialEq, Clone)]
pub enum SkipsInVariant {
    S {
        #[serde(skip_serializing_if = "Option::is_none")]
        a: Option<i32>,
        b: u8,
    },
    N(i8),
}

#[derive(Serialize, Deserialize, Debug, PartialEq, Clone)]
#[serde(transparent)]
pub struct Meters(pub f64);

#[derive(Serialize, Deserialize, Debug, PartialEq, Clone)]
#[serde(transparent)]
pub struct TransparentStruct {
    pub inner: Inner,
}

#[derive(Serialize, Deserialize, Debug, PartialEq, Clone)]
pub struct HasTransparent {
    pub m: Meters,
    pub om: Option<Meters>,
    pub vm: Vec<Meters>,
    pub t: TransparentStruct,
}

// ------------------------------------------------------------------------------------------------ borrowed targets
#[derive(Serialize, Deserialize, Debug, PartialEq, Clone)]
pub struct BorrowStr<'a> {
    pub s: &'a str,
    pub n: i32,
}

#[derive(Serialize, Deserialize, Debug, PartialEq, Clone)]
pub struct BorrowBytes<'a> {
    /// serialized as a sequence of u8 (std impl for slices), deserialized with `deserialize_bytes`
    pub b: &'a [u8],
    #[serde(with = "serde_bytes")]
    pub w: &'a [u8],
}

#[derive(Serialize, Deserialize, Debug, PartialEq, Clone)]
pub struct BorrowCow<'a> {
    #[serde(borrow)]
    pub c: Cow<'a, str>,
    #[serde(borrow)]
    pub o: Option<Cow<'a, str>>,
}

#[derive(Serialize, Deserialize, Debug, PartialEq, Clone)]
pub struct BorrowNested<'a> {
    #[serde(borrow)]
    pub o: Option<&'a str>,
    #[serde(borrow)]
    pub v: Vec<&'a str>,
    #[serde(borrow)]
    pub t: (&'a str, u8),
    #[serde(borrow)]
    pub inner: BorrowStr<'a>,
}

#[derive(Serialize, Deserialize, Debug, PartialEq, Clone)]
pub enum BorrowEnum<'a> {
    S(&'a str),
    R {
        #[serde(borrow)]
        inner: BorrowStr<'a>,
    },
    N(i8),
}

// ------------------------------------------------------------------------------------------------ ZooTy impls
macro_rules! plain {
    ($($t:ty),* $(,)?) => { $( impl ZooTy for $t {} )* };
}

plain!(
    Scalars, Sizes, Nested, TupleStruct, Wrap<Newtype>, NewtypeOfStruct, Wrap<UnitS>, WithUnit, Empty, HasEmpty, Wide, Boxed,
    Wrap<AllKinds>, Wrap<DataOnly>, HasColor, HasUnitPayload, OptColor, EnumVec, EnumInStructInVec, Wrap<EnumNested>, Wrap<Payloads>,
    Wrap<ManyVariants>, OptEnum, ResultField, EnumWithUnitInVec, Opts, OptStruct, OptVec, VecOpt, VecVec, VecStruct,
    SeqCollections, HashSetField, Deep, Arrays, Tuples, RootTuple, TupleInVec, HMap, BMapStruct, BMapIntKey, BMapVecValues,
    MapInVec, MapEnumValues, MapEnumKeys, MapOfMaps, Strs, Bytes, BytesNested, Chars, Renamed, Camel, Scream, Wrap<RenamedVariants>,
    HasRenamedColor, Defaults, ContainerDefault, Skips, Wrap<SkipsInVariant>, Wrap<Meters>, TransparentStruct, HasTransparent,
    BorrowStr<'static>, BorrowBytes<'static>, BorrowCow<'static>, BorrowNested<'static>, Wrap<BorrowEnum<'static>>,
    Wrap<i32>, Wrap<Vec<Option<String>>>, Wrap<Wrap<Inner>>, serde_arrow::utils::Item<i64>, serde_arrow::utils::Item<DataOnly>,
);

impl ZooTy for NestedOpt {
    fn norm(&mut self) {
        collapse(&mut self.o);
        collapse(&mut self.s);
    }
}

impl ZooTy for NestedOptInVec {
    fn norm(&mut self) {
        self.v.iter_mut().for_each(collapse);
    }
}

impl ZooTy for Wrap<Option<Option<bool>>> {
    fn norm(&mut self) {
        collapse(&mut self.item);
    }
}

/// every zoo type, once: `(Type, "name", "type-class", [flags…])`
#[macro_export]
macro_rules! zoo_types {
    ($cb:ident) => {
        $cb! {
            (Scalars, "Scalars", "struct-scalars", []),
            (Sizes, "Sizes", "struct-scalars", []),
            (Nested, "Nested", "struct-nested", []),
            (TupleStruct, "TupleStruct", "tuple-struct", []),
            (Wrap<Newtype>, "Wrap<Newtype>", "newtype-struct", []),
            (NewtypeOfStruct, "NewtypeOfStruct", "newtype-struct", []),
            (Wrap<UnitS>, "Wrap<UnitS>", "unit-struct", ["nulls"]),
            (WithUnit, "WithUnit", "unit-struct", ["nulls"]),
            (Empty, "Empty", "struct-empty-root", ["emptyroot"]),
            (HasEmpty, "HasEmpty", "struct-empty", []),
            (Wide, "Wide", "struct-wide", []),
            (Boxed, "Boxed", "box", []),
            (Wrap<AllKinds>, "Wrap<AllKinds>", "enum", ["nulls"]),
            (Wrap<DataOnly>, "Wrap<DataOnly>", "enum", []),
            (HasColor, "HasColor", "enum-dataless", ["dataless"]),
            (HasUnitPayload, "HasUnitPayload", "enum-unit-payload", ["dataless"]),
            (OptColor, "OptColor", "option-enum-dataless", ["dataless"]),
            (EnumVec, "EnumVec", "enum-in-vec", []),
            (EnumInStructInVec, "EnumInStructInVec", "enum-in-struct-in-vec", []),
            (Wrap<EnumNested>, "Wrap<EnumNested>", "enum-nested", []),
            (Wrap<Payloads>, "Wrap<Payloads>", "enum-payloads", []),
            (Wrap<ManyVariants>, "Wrap<ManyVariants>", "enum-wide", []),
            (OptEnum, "OptEnum", "option-enum", []),
            (ResultField, "ResultField", "enum-in-vec", []),
            (EnumWithUnitInVec, "EnumWithUnitInVec", "enum-in-vec", ["nulls"]),
            (Opts, "Opts", "option-scalar", []),
            (OptStruct, "OptStruct", "option-struct", []),
            (OptVec, "OptVec", "option-vec", []),
            (VecOpt, "VecOpt", "vec-option", []),
            (NestedOpt, "NestedOpt", "nested-option", ["nestedopt"]),
            (NestedOptInVec, "NestedOptInVec", "nested-option", ["nestedopt"]),
            (Wrap<Option<Option<bool>>>, "Wrap<Option<Option<bool>>>", "nested-option", ["nestedopt"]),
            (VecVec, "VecVec", "vec-vec", []),
            (VecStruct, "VecStruct", "vec-struct", []),
            (SeqCollections, "SeqCollections", "vec", []),
            (HashSetField, "HashSetField", "vec", ["unordered"]),
            (Deep, "Deep", "deep", []),
            (Arrays, "Arrays", "array", []),
            (Tuples, "Tuples", "tuple", []),
            (RootTuple, "RootTuple", "tuple-root", []),
            (TupleInVec, "TupleInVec", "tuple-in-vec", []),
            (HMap, "HMap", "map", ["maps", "unordered"]),
            (BMapStruct, "BMapStruct", "map", ["maps"]),
            (BMapIntKey, "BMapIntKey", "map-int-key", ["maps"]),
            (BMapVecValues, "BMapVecValues", "map", ["maps"]),
            (MapInVec, "MapInVec", "map-in-vec", ["maps"]),
            (MapEnumValues, "MapEnumValues", "map-enum-values", ["maps"]),
            (MapEnumKeys, "MapEnumKeys", "map-enum-keys", ["maps", "nulls"]),
            (MapOfMaps, "MapOfMaps", "map-of-maps", ["maps"]),
            (Strs, "Strs", "strings", []),
            (Bytes, "Bytes", "bytes", []),
            (BytesNested, "BytesNested", "bytes", []),
            (Chars, "Chars", "char", []),
            (Renamed, "Renamed", "attr-rename", []),
            (Camel, "Camel", "attr-rename-all", []),
            (Scream, "Scream", "attr-rename-all", []),
            (Wrap<RenamedVariants>, "Wrap<RenamedVariants>", "attr-rename-all-enum", []),
            (HasRenamedColor, "HasRenamedColor", "attr-rename-all-enum-dataless", ["dataless"]),
            (Defaults, "Defaults", "attr-default", []),
            (ContainerDefault, "ContainerDefault", "attr-default", []),
            (Skips, "Skips", "attr-skip-none", []),
            (Wrap<SkipsInVariant>, "Wrap<SkipsInVariant>", "attr-skip-none-enum", []),
            (Wrap<Meters>, "Wrap<Meters>", "attr-transparent", []),
            (TransparentStruct, "TransparentStruct", "attr-transparent", []),
            (HasTransparent, "HasTransparent", "attr-transparent", []),
            (BorrowStr<'static>, "BorrowStr", "borrowed-str", ["borrowed"]),
            (BorrowBytes<'static>, "BorrowBytes", "borrowed-bytes", ["borrowed"]),
            (BorrowCow<'static>, "BorrowCow", "borrowed-str", ["borrowed"]),
            (BorrowNested<'static>, "BorrowNested", "borrowed-str", ["borrowed"]),
            (Wrap<BorrowEnum<'static>>, "Wrap<BorrowEnum>", "borrowed-str-enum", ["borrowed"]),
            (Wrap<i32>, "Wrap<i32>", "struct-scalars", []),
            (Wrap<Vec<Option<String>>>, "Wrap<Vec<Option<String>>>", "vec-option", []),
            (Wrap<Wrap<Inner>>, "Wrap<Wrap<Inner>>", "struct-nested", []),
            (serde_arrow::utils::Item<i64>, "Item<i64>", "item-wrapper", []),
            (serde_arrow::utils::Item<DataOnly>, "Item<DataOnly>", "item-wrapper", []),
        }
    };
}
