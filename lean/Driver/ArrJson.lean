import Driver.Util
import Driver.SchemaJson
import SaModel.Data.Arr
/- wire form of arrays / views (harness/src/dump.rs) and of logical values -/
namespace Driver
open Lean SaModel

def bitsOfJson (j : Json) : Except String Bits := do
  pure { data := (← unhex (← getStr j "hex")), offset := (← getNat j "off") }

def validityOfJson (j : Json) (k : String) : Except String (Option Bits) :=
  match getOpt j k with
  | none => pure none
  | some v => do pure (some (← bitsOfJson v))

def intsOfJson (j : Json) (k : String) : Except String (List Int) := do
  (← getArr j k).toList.mapM jsonInt?

def fmetaOfJson (j : Json) : Except String FieldMeta := do
  pure { name := (← getStr j "name"), nullable := (← getBool j "nullable"), metadata := (← metaOfJson (← getObj j "meta")) }

def primTyOfStr : String → Except String PrimTy
  | "Int8" => pure .int8 | "Int16" => pure .int16 | "Int32" => pure .int32 | "Int64" => pure .int64
  | "UInt8" => pure .uint8 | "UInt16" => pure .uint16 | "UInt32" => pure .uint32 | "UInt64" => pure .uint64
  | "Float16" => pure .float16 | "Float32" => pure .float32 | "Float64" => pure .float64
  | "Date32" => pure .date32 | "Date64" => pure .date64
  | s => throw s!"bad primitive type {s}"

partial def arrOfJson (j : Json) : Except String Arr := do
  let a ← getStr j "a"
  match a with
  | "Null" => pure (.null (← getNat j "len"))
  | "Boolean" => pure (.boolean (← getNat j "len") (← validityOfJson j "validity") (← bitsOfJson (← getObj j "values")))
  | "Primitive" => pure (.prim (← primTyOfStr (← getStr j "ty")) (← validityOfJson j "validity") (← intsOfJson j "values"))
  | "Time" =>
    let ty ← match (← getStr j "ty") with
      | "Time32" => pure TimeTy.time32 | "Time64" => pure TimeTy.time64 | "Duration" => pure TimeTy.duration
      | s => throw s!"bad time type {s}"
    pure (.time ty (← unitOfStr (← getStr j "unit")) (← validityOfJson j "validity") (← intsOfJson j "values"))
  | "Timestamp" =>
    let tz := match getOpt j "tz" with | some (.str s) => some s | _ => none
    pure (.timestamp (← unitOfStr (← getStr j "unit")) tz (← validityOfJson j "validity") (← intsOfJson j "values"))
  | "Decimal128" => pure (.decimal128 (← getNat j "p") (← getInt j "s") (← validityOfJson j "validity") (← intsOfJson j "values"))
  | "Bytes" =>
    let ty ← match (← getStr j "ty") with
      | "Utf8" => pure BytesTy.utf8 | "LargeUtf8" => pure BytesTy.largeUtf8
      | "Binary" => pure BytesTy.binary | "LargeBinary" => pure BytesTy.largeBinary
      | s => throw s!"bad bytes type {s}"
    pure (.bytes ty (← validityOfJson j "validity") (← intsOfJson j "offsets") (← unhex (← getStr j "data")))
  | "BytesView" =>
    let ty := if (← getStr j "ty") == "Utf8View" then ViewTy.utf8View else ViewTy.binaryView
    let views ← (← intsOfJson j "views")|>.mapM fun x => pure x.toNat
    let bufs ← (← getArr j "buffers").toList.mapM fun b => do unhex (← b.getStr?)
    pure (.bytesView ty (← validityOfJson j "validity") views bufs)
  | "FixedSizeBinary" => pure (.fixedSizeBinary (← getInt j "n") (← validityOfJson j "validity") (← unhex (← getStr j "data")))
  | "Struct" =>
    let fs ← (← getArr j "fields").toList.mapM fun e => do
      match (← e.getArr?).toList with
      | [m, c] => pure ((← fmetaOfJson m), (← arrOfJson c))
      | _ => throw "bad struct child"
    pure (.struct (← getNat j "len") (← validityOfJson j "validity") (ArrFields.ofList fs))
  | "List" => pure (.list (← getBool j "large") (← validityOfJson j "validity") (← intsOfJson j "offsets")
      (← fmetaOfJson (← getObj j "meta")) (← arrOfJson (← getObj j "elements")))
  | "FixedSizeList" => pure (.fixedSizeList (← getNat j "len") (← validityOfJson j "validity") (← getInt j "n")
      (← fmetaOfJson (← getObj j "meta")) (← arrOfJson (← getObj j "elements")))
  | "Map" =>
    let m ← getObj j "meta"
    let mm : MapMeta := { entriesName := (← getStr m "entries_name"), sorted := (← getBool m "sorted"),
                          keys := (← fmetaOfJson (← getObj m "keys")), values := (← fmetaOfJson (← getObj m "values")) }
    pure (.map (← validityOfJson j "validity") (← intsOfJson j "offsets") mm (← arrOfJson (← getObj j "keys")) (← arrOfJson (← getObj j "values")))
  | "Dictionary" => pure (.dictionary (← arrOfJson (← getObj j "keys")) (← arrOfJson (← getObj j "values")))
  | "Union" =>
    let offs ← match getOpt j "offsets" with
      | none => pure none
      | some _ => do pure (some (← intsOfJson j "offsets"))
    let fs ← (← getArr j "fields").toList.mapM fun e => do
      match (← e.getArr?).toList with
      | [i, m, c] => pure ((← i.getInt?), (← fmetaOfJson m), (← arrOfJson c))
      | _ => throw "bad union child"
    pure (.union (← intsOfJson j "types") offs (ArrUFields.ofList fs))
  | _ => throw s!"unknown array kind {a}"

def hexOf (b : Bytes) : String :=
  let d (n : Nat) : Char := if n < 10 then Char.ofNat (48 + n) else Char.ofNat (87 + n)
  String.ofList (b.flatMap fun x => [d (x.toNat / 16), d (x.toNat % 16)])

/-- compact rendering of logical values (for `why` texts and evidence samples) -/
partial def lvalToJson : LVal → Json
  | .null => Json.null
  | .bool b => Json.mkObj [("bool", b)]
  | .int v => Json.mkObj [("int", Json.str (toString v))]
  | .float b => Json.mkObj [("float", Json.str (toString b))]
  | .str b => Json.mkObj [("str", hexOf b)]
  | .bin b => Json.mkObj [("bin", hexOf b)]
  | .list xs => Json.mkObj [("list", Json.arr (xs.toList.map lvalToJson).toArray)]
  | .struct fs => Json.mkObj [("struct", Json.arr (fs.toList.map fun (n, v) => Json.arr #[Json.str n, lvalToJson v]).toArray)]
  | .map es => Json.mkObj [("map", Json.arr (es.toList.map fun (k, v) => Json.arr #[lvalToJson k, lvalToJson v]).toArray)]
  | .union t v => Json.mkObj [("union", Json.arr #[Json.str (toString t), lvalToJson v])]

end Driver
