import Driver.Util
import Driver.Registry
open Lean Driver

partial def loop (hin : IO.FS.Stream) (hout : IO.FS.Stream) : IO Unit := do
  let line ← hin.getLine
  if line.isEmpty then return ()
  let line := line.trimAscii.toString
  if line.isEmpty then loop hin hout else
  let out : Json :=
    match Json.parse line with
    | .error e => Json.mkObj [("id", "?"), ("driver_error", s!"json: {e}")]
    | .ok j =>
      let id := (getStr j "id").toOption.getD "?"
      match (getStr j "suite") with
      | .error e => Json.mkObj [("id", id), ("driver_error", e)]
      | .ok suite =>
        match Driver.dispatch suite j with
        | .ok v => v.toJson id
        | .error e => Json.mkObj [("id", id), ("driver_error", e)]
  hout.putStrLn out.compress
  loop hin hout

def main : IO Unit := do
  let hin ← IO.getStdin
  let hout ← IO.getStdout
  loop hin hout
  hout.flush
