import Driver.ReadJson
import SaModel.Spec.DecodeAt
/- shared by the reader suites (read, corrupt): run the model on one read request and compare -/
namespace Driver
open Lean SaModel SaModel.Read

structure ReadReq where
  ty : Target
  idx : Nat
  bulk : Bool := false

def parseRead (j : Json) : Except String ReadReq := do
  match getOpt j "bulk" with
  | some t => pure { ty := (← targetOfJson t), idx := 0, bulk := true }
  | none => pure { ty := (← targetOfJson (← getObj j "ty")), idx := (← getNat j "idx") }

/-- the model's answer to one read request: `none` = `Deserializer::get` has no such item -/
def modelRead (fx : Fixes) (fm : FieldMeta) (col : Arr) (r : ReadReq) : Option (R DVal) :=
  if r.bulk then
    -- `Vec<T>::deserialize(Deserializer)`: items 0 … len-1 in order (C13), stopping at the first error
    some (do
      let xs ← readRange (fun i => readAs fx r.ty (record fm col) i) 0 (vlen col)
      pure (.seq (DVals.ofList xs)))
  else readRecord fx r.ty fm col r.idx

def isNoneItem (impl : Json) : Bool := (impl.getObjVal? "none_item").isOk

inductive Cmp where
  | agree
  | differ (why : String)

def compareRead (m : Option (R DVal)) (impl : Json) : Cmp :=
  match m with
  | none => if isNoneItem impl then .agree else .differ s!"model: no such item, impl {impl.compress.take 200}"
  | some r =>
    if isNoneItem impl then .differ "impl: no such item, model has one"
    else if outcomeAgrees r impl then .agree
    else .differ s!"model {(outcomeJson r).compress.take 300}, impl {impl.compress.take 300}"

def fixVariants : List (String × Fixes) :=
  let a := Fixes.all
  [("bytesGet", { a with bytesGet := false }), ("enumTypeId", { a with enumTypeId := false }),
   ("fsbZero", { a with fsbZero := false }), ("bitAdd", { a with bitAdd := false }),
   ("fslMul", { a with fslMul := false }), ("offsetsOrder", { a with offsetsOrder := false }),
   ("structIdx", { a with structIdx := false }), ("nullLen", { a with nullLen := false })]

/-- which single reverted fix makes the model reproduce the implementation's outcome (mechanism attribution) -/
def attributeRead (fm : FieldMeta) (col : Arr) (r : ReadReq) (impl : Json) : String :=
  if (match compareRead (modelRead Fixes.all fm col r) impl with | .agree => true | _ => false) then "as-modelled" else
  match fixVariants.find? (fun (_, fx) => match compareRead (modelRead fx fm col r) impl with | .agree => true | _ => false) with
  | some (n, _) => s!"without-{n}"
  | none => "unattributed"

def attributeCtor (rec : Arr) (cls : String) : String :=
  if (new Fixes.all rec).cls == cls then "as-modelled" else
  match fixVariants.find? (fun (_, fx) => (new fx rec).cls == cls) with
  | some (n, _) => s!"without-{n}"
  | none => "unattributed"

mutual
/-- the view with the validity bitmaps of its containers removed: what a typed read into a non-`Option` target
looks at (known finding #23: struct / list / map readers do not consult validity in the typed reads) -/
partial def stripContainerValidity : Arr → Arr
  | .struct len _ fs => .struct len none (stripFields fs)
  | .list l _ offs fm el => .list l none offs fm (stripContainerValidity el)
  | .fixedSizeList len _ n fm el => .fixedSizeList len none n fm (stripContainerValidity el)
  | .map _ offs mm ks vs => .map none offs mm (stripContainerValidity ks) (stripContainerValidity vs)
  | .union t o fs => .union t o (stripUFields fs)
  | a => a
partial def stripFields : ArrFields → ArrFields
  | .nil => .nil
  | .cons fm a r => .cons fm (stripContainerValidity a) (stripFields r)
partial def stripUFields : ArrUFields → ArrUFields
  | .nil => .nil
  | .cons i fm a r => .cons i fm (stripContainerValidity a) (stripUFields r)
end

/-- first path component(s) of a corruption class, e.g. `offsets/List/mid/+1` ↦ `offsets/List` -/
def corruptionFamily (c : String) : String :=
  match c.splitOn "/" with
  | a :: b :: _ => if b == "first" || b == "mid" || b == "last" then a else s!"{a}/{b}"
  | [a] => a
  | [] => ""

end Driver
