import Driver.Util
import Driver.ArrJson
import SaModel.Read.ToD
/- wire forms of the reader family (harness/src/dynde.rs): target descriptions and the canonical value dump -/
namespace Driver
open Lean SaModel SaModel.Read

def readIntTyOfStr : String → Option IntTy
  | "i8" => some .i8 | "i16" => some .i16 | "i32" => some .i32 | "i64" => some .i64
  | "u8" => some .u8 | "u16" => some .u16 | "u32" => some .u32 | "u64" => some .u64
  | _ => none

mutual
partial def targetOfJson (j : Json) : Except String Target :=
  match j with
  | .str s =>
    match s with
    | "any" => pure .any | "ignored" => pure .ignored | "unit" => pure .unit | "unit_struct" => pure .unitStruct
    | "bool" => pure .bool | "f32" => pure .f32 | "f64" => pure .f64 | "char" => pure .char
    | "string" => pure .string | "str" => pure .str | "bytes" => pure .bytes | "byte_buf" => pure .byteBuf
    | s => match readIntTyOfStr s with
      | some t => pure (.int t)
      | none => throw s!"unknown target {s}"
  | _ => do
    if let some t := getOpt j "option" then return .option (← targetOfJson t)
    if let some t := getOpt j "newtype" then return .newtype (← targetOfJson t)
    if let some t := getOpt j "seq" then return .seq (← targetOfJson t)
    if let some t := getOpt j "tuple" then return .tuple (Targets.ofList (← (← t.getArr?).toList.mapM targetOfJson))
    if let some t := getOpt j "tuple_struct" then return .tupleStruct (Targets.ofList (← (← t.getArr?).toList.mapM targetOfJson))
    if let some t := getOpt j "map" then
      match (← t.getArr?).toList with
      | [k, v] => return .map (← targetOfJson k) (← targetOfJson v)
      | _ => throw "bad map target"
    if let some t := getOpt j "struct" then return .struct (← tfieldsOfJson t)
    if let some t := getOpt j "enum" then return .enum false (← tvariantsOfJson t)
    if let some t := getOpt j "enum_idx" then return .enum true (← tvariantsOfJson t)
    throw s!"unknown target {j.compress}"
partial def tfieldsOfJson (j : Json) : Except String TFields := do
  let fs ← (← j.getArr?).toList.mapM fun e => do
    match (← e.getArr?).toList with
    | [n, t] => pure ((← n.getStr?), (← targetOfJson t))
    | _ => throw "bad struct field target"
  pure (TFields.ofList fs)
partial def tvariantsOfJson (j : Json) : Except String TVariants := do
  let vs ← (← j.getArr?).toList.mapM fun e => do
    match (← e.getArr?).toList with
    | [n, k] =>
      let kind ← match k with
        | .str "unit" => pure VKind.unit
        | k => do
          if let some t := getOpt k "newtype" then pure (VKind.newtype (← targetOfJson t))
          else if let some t := getOpt k "tuple" then pure (VKind.tuple (Targets.ofList (← (← t.getArr?).toList.mapM targetOfJson)))
          else if let some t := getOpt k "struct" then pure (VKind.struct (← tfieldsOfJson t))
          else throw "bad variant kind"
      pure ((← n.getStr?), kind)
    | _ => throw "bad variant target"
  pure (TVariants.ofList vs)
end

def ownTag : Own → String
  | .borrowed => "b" | .transient => "t" | .owned => "o"

partial def dvalToJson : DVal → Json
  | .none => Json.null
  | .unit => Json.str "unit"
  | .ignored => Json.str "ignored"
  | .some v => Json.mkObj [("some", dvalToJson v)]
  | .bool b => Json.mkObj [("bool", b)]
  | .int ty v => Json.mkObj [("int", Json.arr #[Json.str ty.name, Json.str (toString v)])]
  | .f32 b => Json.mkObj [("f32", Json.num (JsonNumber.fromInt b))]
  | .f64 b => Json.mkObj [("f64", Json.str (toString b))]
  | .char c => Json.mkObj [("char", Json.num (JsonNumber.fromNat c))]
  | .str o b => Json.mkObj [("str", Json.arr #[Json.str (ownTag o), Json.str (hexOf b)])]
  | .bytes o b => Json.mkObj [("bytes", Json.arr #[Json.str (ownTag o), Json.str (hexOf b)])]
  | .seq xs => Json.mkObj [("seq", Json.arr (xs.toList.map dvalToJson).toArray)]
  | .map es => Json.mkObj [("map", Json.arr (es.toList.map fun (k, v) => Json.arr #[dvalToJson k, dvalToJson v]).toArray)]
  | .enum k p => Json.mkObj [("enum", Json.arr #[dvalToJson k, dvalToJson p])]

/-- is the dumped `{"f32": bits}` a NaN -/
def jsonF32IsNan (j : Json) : Bool :=
  match j.getObjVal? "f32" with
  | .ok (.num n) => n.exponent == 0 && n.mantissa ≥ 0 && SaModel.Float.isNan SaModel.Float.f32 (n.mantissa.toNat % 4294967296)
  | _ => false

/-- equality of an implementation dump with a model value; f32 NaNs are compared as a class (`f64 as f32` does not
specify the payload) -/
partial def dvalMatches (d : DVal) (j : Json) : Bool :=
  match d with
  | .f32 b => dvalToJson d == j || (SaModel.Float.isNan SaModel.Float.f32 (b.toNat % 4294967296) && jsonF32IsNan j)
  | .some v => match j.getObjVal? "some" with
    | .ok x => dvalMatches v x
    | _ => false
  | .seq xs => match j.getObjVal? "seq" with
    | .ok (.arr a) => a.size == xs.toList.length && (xs.toList.zip a.toList).all fun (x, y) => dvalMatches x y
    | _ => false
  | .map es => match j.getObjVal? "map" with
    | .ok (.arr a) => a.size == es.toList.length && (es.toList.zip a.toList).all fun ((k, v), y) =>
        match y with
        | .arr #[jk, jv] => dvalMatches k jk && dvalMatches v jv
        | _ => false
    | _ => false
  | .enum k p => match j.getObjVal? "enum" with
    | .ok (.arr #[jk, jp]) => dvalMatches k jk && dvalMatches p jp
    | _ => false
  | d => dvalToJson d == j

def outcomeJson (r : R DVal) : Json :=
  match r with
  | .ok d => Json.mkObj [("ok", dvalToJson d)]
  | .error (.err m) => Json.mkObj [("err", m)]
  | .error (.errCtx m _) => Json.mkObj [("err", m)]
  | .error (.panic m) => Json.mkObj [("panic", m)]

/-- model outcome vs implementation outcome object: same class, and on ok the same value -/
def outcomeAgrees (r : R DVal) (impl : Json) : Bool :=
  match r with
  | .ok d => match impl.getObjVal? "ok" with
    | .ok j => dvalMatches d j
    | _ => false
  | .error (.err _) => implCls impl == "err"
  | .error (.errCtx _ _) => implCls impl == "err"
  | .error (.panic _) => implCls impl == "panic"

def arrKind : Arr → String
  | .null _ => "Null" | .boolean _ _ _ => "Boolean" | .prim _ _ _ => "Primitive" | .time _ _ _ _ => "Time"
  | .timestamp _ _ _ _ => "Timestamp" | .decimal128 _ _ _ _ => "Decimal128" | .bytes _ _ _ _ => "Bytes"
  | .bytesView _ _ _ _ => "BytesView" | .fixedSizeBinary _ _ _ => "FixedSizeBinary" | .struct _ _ _ => "Struct"
  | .list _ _ _ _ _ => "List" | .fixedSizeList _ _ _ _ _ => "FixedSizeList" | .map _ _ _ _ _ => "Map"
  | .dictionary _ _ => "Dictionary" | .union _ _ _ => "Union"

partial def targetKind : Target → String
  | .any => "any" | .ignored => "ignored" | .unit => "unit" | .unitStruct => "unit_struct" | .bool => "bool"
  | .int ty => ty.name | .f32 => "f32" | .f64 => "f64" | .char => "char" | .string => "string" | .str => "str"
  | .bytes => "bytes" | .byteBuf => "byte_buf" | .option _ => "option" | .newtype _ => "newtype" | .seq _ => "seq"
  | .tuple _ => "tuple" | .tupleStruct _ => "tuple_struct" | .map _ _ => "map" | .struct _ => "struct"
  | .enum false _ => "enum" | .enum true _ => "enum_idx"

end Driver
