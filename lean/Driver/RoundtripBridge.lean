import Driver.Util
import Driver.TyJson
import Driver.SchemaJson
import Driver.SValJson
import Driver.ArrJson
import Driver.ReadJson
import Driver.Suites.Build
import SaModel.Roundtrip.Bridge
import SaModel.Trace.FromTypeG
import SaModel.Lemmas.C04Interp
import SaModel.Lemmas.C04Scope
import SaModel.Lemmas.C04FromType
import SaModel.Lemmas.C04RootKind
import SaModel.Lemmas.C01CompDefs
/-
C04, the tie of the Lean TYPE model to real derives (suite `roundtrip`, called from Driver/Suites/Roundtrip.lean).

The theorems of Props/C04.lean / Props/C04Accept.lean quantify over `t : Roundtrip.Ty` and compose
`Trace.fromType c O (toTraceTy t)`, `Build.toMarrow ext fields (vs.map (ser t))`, `readAll (toTarget t) fields arrs`
= `vs.map (dvalOf t ∘ norm t)` (Roundtrip/Bridge.lean: "three descriptions of one derive").  Every zoo type ships its
description `t` (harness/src/zoo.rs, `Describe`, written by hand beside the type); per case this file EVALUATES those
functions on it and compares with what the REAL derived impls and the real crate did:

  (a) ser      every recorded call stream of the batch is `ser t v` for a well-typed `v` (`valOfSVal`: the type-directed
               inverse, then `ser t v = row` and `wt t v` are checked);
  (b) trace    `Trace.fromType .fixed (toOptions o) (toTraceTy t)` = what `from_type::<T>` returned (same fields, or both
               errors); for a type inside the grammar `from_type` succeeds exactly when the theorems' preconditions
               `Spec.walkable`, `mappable`, `Spec.passes ≤ budget` hold;
  (c) read     `toTarget t` (in dynde's descriptor language) is what the harness drove beside the real `T::deserialize`
               over the same item deserializers: the call logs (`deserialize_*` hints with field / variant lists, `visit_*`,
               accessor calls) are equal item by item (harness, `logs_equal`); what the visitors were handed (`dvals`) equals
               the reader MODEL `readAll (toTarget t) fields implArrays` and equals `dvalOf t (norm t v)`; what came back,
               re-serialized by the real derived Serialize, is `ser t (norm t v)` (`got_rows`; also ties the per-type
               `ZooTy::norm` of the harness to the model's `norm`: `rows_expected`);
  chain        the model's whole chain — `fromType` → `toMarrow` on `vs.map (ser t)` → `readAll (toTarget t)` = `ok
               (vs.map (dvalOf t ∘ norm t))` — is `ok` exactly when the crate round-trips the case (marrow front end);
  hyps         when every hypothesis of `C04_end_to_end_root` (Props/C04Root2.lean: the end-to-end theorem for EVERY root
               kind — a struct with named fields, a tuple struct, a tuple, a newtype struct around one of these; hypotheses
               `hroot`: `rootCols o t = some F`, `hne`: `F ≠ nil`, and those of `C04_end_to_end`) holds of the case (decided
               here with the theorems' own predicates) the chain must be ok (the theorem, evaluated) — hence the crate must
               round-trip; `inScopeU` must agree with the schema-side exclusion `noneAtUnionRow` (`C04_inScopeU_row_root`,
               evaluated);
  root         `from_type` must refuse a root that is not traced to a non-nullable struct (`recordRoot t = false`:
               `C04_root_refused`, evaluated), the zoo's flag `badroot` must say the same as `recordRoot`, and for a root
               with zero columns (`rootCols o t = some nil`: `C04_empty_root_loses_records`) the traced schema is `[]`.

Every root kind is inside (tag `bridge:root:<kind>`), and so are the BORROWED targets (`&'de str`, `#[serde(borrow)] Cow<str>`,
`&'de [u8]` with and without serde_bytes: the leaves `Prim.strRef` / `cowStr` / `bytesRef` / `bytesSeq` of the type language;
coverage tags `bridge:borrowed:<leaf>`, and `bridge:lend:<column type>` for the column types the crate lent from).  A type
outside the grammar of the theorems would be tagged `bridge:outside-fragE:<reason>` (not-fragE; legacy descriptions with a
target override: borrowed-target / serialize-deserialize-asymmetric) and counted — no zoo type is.
-/
namespace Driver.RoundtripBridge
open Lean Driver SaModel SaModel.Roundtrip

structure Out where
  tags : List String := []
  /-- signature part (`roundtrip/bridge/<this>/<class>`) and explanation of the first failed check -/
  bad : Option (String × String) := none

def outsideReason (desc : Json) (t : Ty) : Option String :=
  if hasTargetOverride desc then some "borrowed-target" else
  if fragE t then none else some "not-fragE"

/-- the root kind, for the coverage tags (`refused` = not traced to a non-nullable struct: `recordRoot t = false`) -/
def rootKind (t : Ty) : String :=
  if !recordRoot t then "refused" else
  match t with
  | .struct _ .nil | .tupleStruct _ .nil | .tuple .nil => "empty"
  | .struct _ _ => "record"
  | .tupleStruct _ _ => "tuple-struct"
  | .tuple _ => "tuple"
  | .newtype _ t' =>
    match rootCore t' with
    | .struct _ _ => "newtype-of-record"
    | .tupleStruct _ _ => "newtype-of-tuple-struct"
    | _ => "newtype-of-tuple"
  | _ => "refused"

mutual
/-- the borrowed leaves of a type (coverage tags) -/
partial def borrowedLeaves : Ty → List String
  | .prim .strRef => ["str_ref"] | .prim .cowStr => ["cow_str"] | .prim .bytesRef => ["bytes_ref"] | .prim .bytesSeq => ["bytes_seq"]
  | .prim _ | .unit | .unitStruct _ => []
  | .option t | .vec t | .newtype _ t => borrowedLeaves t
  | .tuple ts | .tupleStruct _ ts => borrowedTys ts
  | .struct _ fs => borrowedFields fs
  | .map k v => (borrowedLeaves k ++ borrowedLeaves v).eraseDups
  | .enum _ vs => borrowedVariants vs
partial def borrowedTys : Tys → List String
  | .nil => []
  | .cons t r => (borrowedLeaves t ++ borrowedTys r).eraseDups
partial def borrowedFields : TFields → List String
  | .nil => []
  | .cons _ _ t r => (borrowedLeaves t ++ borrowedFields r).eraseDups
partial def borrowedVariants : Variants → List String
  | .nil => []
  | .cons _ .unit r => borrowedVariants r
  | .cons _ (.newtype t) r => (borrowedLeaves t ++ borrowedVariants r).eraseDups
  | .cons _ (.tuple ts) r => (borrowedTys ts ++ borrowedVariants r).eraseDups
  | .cons _ (.struct fs) r => (borrowedFields fs ++ borrowedVariants r).eraseDups
end

/-- the column types the borrowed leaves of `t` are traced to under `o` (what the crate has to lend from) -/
def lendColumns (o : TraceOpts) (t : Ty) : List String :=
  let ls := borrowedLeaves t
  let strCol := (if o.stringDictionaryEncoding then "Dictionary-" else "") ++ (if o.stringsAsLargeUtf8 then "LargeUtf8" else "Utf8")
  (if ls.contains "str_ref" || ls.contains "cow_str" then [strCol] else []) ++
  (if ls.contains "bytes_ref" || ls.contains "bytes_seq" then ["LargeBinary"] else [])

def firstIdx {α} (l : List α) (p : α → Bool) : Option Nat :=
  (l.zipIdx.find? fun (x, _) => p x).map (·.2)

/-- the hypotheses of `Props.C04.C04_end_to_end_root` on (type, options, batch), by name (`root`: the root is traced to a
non-nullable struct, `hne`: with at least one column; for a root `struct n fs` they are those of `C04_end_to_end`) -/
def failedHyps (ext : Build.Ext) (o : TraceOpts) (t : Ty) (vs : List Val) : List String :=
  let O := toOptions o
  (if fragE t then [] else ["fragE"]) ++
  (if sized t then [] else ["sized"]) ++
  (match rootCols o t with | none => ["root"] | some .nil => ["hne"] | some _ => []) ++
  (if vs.all (wt t) then [] else ["wt"]) ++
  (if vs.all (inScopeO o t) then [] else ["inScopeO"]) ++
  (if Trace.Spec.walkable O "$" (toTraceTy t) then [] else ["walkable"]) ++
  (if mappable o t then [] else ["mappable"]) ++
  (if Trace.Spec.passes (toTraceTy t) ≤ O.from_type_budget then [] else ["budget"]) ++
  (if ((vs.map (ser t)).map (Build.vsize ext)).sum ≤ 2147483647 then [] else ["capacity"])

def check (j : Json) (opts : TraceOpts) (rows : List SVal) (fields : List Field) (unordered badroot : Bool) : Except String Out := do
  let some desc := getOpt j "ty_desc"
    | return { tags := ["bridge:absent"], bad := some ("absent", "the case carries no description of the zoo type") }
  let t ← rtyOfJson false desc
  -- the Deserialize side (what `from_type` and the reader see); the same type except for `&'de [u8]` without serde_bytes
  let tD ← rtyOfJson true desc
  let outside := if t != tD then some "serialize-deserialize-asymmetric" else outsideReason desc t
  let inside := outside.isNone
  let borrowed := hasTargetOverride desc
  let mut tags : List String := [match outside with | none => "bridge:inside-fragE" | some r => s!"bridge:outside-fragE:{r}",
    s!"bridge:root:{rootKind tD}"] ++ (borrowedLeaves t).map (s!"bridge:borrowed:{·}")
  -- `C04_lend` evaluated: every column a borrowed leaf is traced to is one the reader lends from
  if inside && !(borrowedLeaves t).isEmpty then
    tags := tags ++ (lendColumns opts t).map (s!"bridge:lend:{·}")
  -- ---- the root kind: the flag the zoo declares is the model's `recordRoot`
  if badroot != !recordRoot tD then
    return { tags, bad := some ("root-kind", s!"the zoo declares the root {if badroot then "refused" else "supported"}, `recordRoot` of its description is {recordRoot tD}") }
  let ext := Driver.Suites.Build.extOfAux ((getObj j "aux").toOption.getD Json.null)
  let O := toOptions opts
  -- ---- (a) the recorded call streams are `ser t v` of well-typed values
  let some vs := rows.mapM (valOfSVal t)
    | return { tags, bad := some ("ser-no-preimage", s!"recorded row #{(firstIdx rows fun r => (valOfSVal t r).isNone).getD 0} is not the serialization of any value of the described type") }
  if let some i := firstIdx (vs.zip rows) fun (v, r) => ser t v != r then
    return { tags, bad := some ("ser", s!"`ser t v` differs from the call stream the derived Serialize issued (row #{i})") }
  if let some i := firstIdx vs fun v => !wt t v then
    return { tags, bad := some ("wt", s!"the value behind row #{i} is not well typed (`wt`)") }
  tags := tags ++ ["bridge:ser"]
  -- ---- (b) the tracer model on `toTraceTy t` vs `from_type::<T>`
  let ftJ := (getObj j "from_type").toOption.getD Json.null
  let ftCls := implCls ftJ
  let model := Trace.fromTypeG .fixed O (toTraceTy tD)
  if ftCls == "ok" then
    match model with
    | .ok fs => if fs != fields then return { tags, bad := some ("from_type-fields", "`Trace.fromType (toTraceTy t)` returns other fields than `from_type::<T>`") }
    | .error e => return { tags, bad := some ("from_type-class", s!"`Trace.fromType (toTraceTy t)` fails ({repr e}) where `from_type::<T>` succeeds") }
  else if ftCls == "err" then
    if model.cls != "err" then
      return { tags, bad := some ("from_type-class", s!"`Trace.fromType (toTraceTy t)` is {model.cls} where `from_type::<T>` fails") }
  tags := tags ++ [s!"bridge:from_type-{ftCls}"]
  -- `C04_root_refused`, evaluated: a root that is not traced to a non-nullable struct is refused
  if !recordRoot tD && ftCls == "ok" then
    return { tags, bad := some ("root-refused", "`from_type::<T>` accepts a root that is not traced to a non-nullable struct (`recordRoot t = false`)") }
  -- `C04_root_accepted_iff`, evaluated: the documented preconditions AND a supported root kind
  let pre := Trace.Spec.walkable O "$" (toTraceTy t) && mappable opts t && decide (Trace.Spec.passes (toTraceTy t) ≤ O.from_type_budget) &&
    recordRoot t
  -- `C04_empty_root_loses_records`, evaluated: a root with zero columns is accepted with the empty schema
  if inside && rootCols opts t == some .nil && pre && (ftCls != "ok" || !fields.isEmpty) then
    return { tags, bad := some ("empty-root", s!"a root with zero columns: from_type is {ftCls} with {fields.length} fields, the theorem says ok []") }
  if inside && (ftCls == "ok" || ftCls == "err") && pre != (ftCls == "ok") then
    return { tags, bad := some ("from_type-preconditions", s!"walkable ∧ mappable ∧ passes ≤ budget is {pre}, from_type is {ftCls}") }
  -- ---- the target
  let shipped := (getObj j "target").toOption.getD Json.null
  let target ← if borrowed then targetOfJson shipped else pure (toTarget t)
  if !borrowed && targetToJson (toTarget t) != shipped then
    return { tags, bad := some ("target", "the target the harness drove is not the model's `toTarget t`") }
  let expected : List Read.DVal := vs.map fun v => dvalOf t (norm t v)
  let normed : List SVal := vs.map fun v => ser t (norm t v)
  -- the per-type normalisation of the harness is the model's `norm`
  if !unordered then
    if let some re := getOpt j "rows_expected" then
      let re ← (← re.getArr?).toList.mapM svalOfJson
      if re != normed then
        return { tags, bad := some ("norm", "the harness' per-type normalisation of the expected values is not the model's `norm`") }
  -- ---- (c) the typed read
  let implJ := (getObj j "impl").toOption.getD Json.null
  let marrow := ((getObj j "fronts").toOption.getD Json.null).getObjVal? "marrow" |>.toOption |>.getD Json.null
  let mOk := (marrow.getObjVal? "ok").toOption
  let crateOk := ftCls == "ok" && implCls implJ == "ok" &&
    (match mOk with
     | some r => (r.getObjValAs? Bool "equal").toOption.getD false && (r.getObjValAs? Nat "n").toOption == some rows.length &&
        (match r.getObjVal? "same_rec" with | .ok (.bool b) => b | _ => true)
     | none => false)
  if ftCls == "ok" && implCls implJ == "ok" then
    if let some r := mOk then
      let typed := (r.getObjVal? "typed").toOption.getD Json.null
      match typed.getObjVal? "ok" with
      | .error _ => return { tags, bad := some ("typed-run", s!"the typed read of the harness did not run: {typed.compress}") }
      | .ok ty =>
        if (ty.getObjValAs? Bool "logs_equal").toOption != some true then
          return { tags, bad := some ("typed-log", s!"the real `T::deserialize` and `Target(toTarget t)` issue different calls: {((ty.getObjVal? "diff").toOption.getD Json.null).compress}") }
        let dv := ((ty.getObjVal? "dvals").toOption.getD Json.null).getArr?.toOption.getD #[] |>.toList
        let dvOk := dv.filterMap fun d => (d.getObjVal? "ok").toOption
        if dvOk.length != dv.length || dv.length != rows.length then
          return { tags, bad := some ("typed-count", s!"{dvOk.length} of {dv.length} typed reads succeeded for {rows.length} rows") }
        let iarrs ← (← getArr implJ "ok").toList.mapM arrOfJson
        match readAll target fields iarrs with
        | .ok ds =>
          if ds.length != dvOk.length then
            return { tags, bad := some ("reader-model", s!"the reader model returns {ds.length} records, the crate {dvOk.length}") }
          if let some i := firstIdx (ds.zip dvOk) fun (d, x) => !dvalMatches d x then
            return { tags, bad := some ("reader-model", s!"`readAll target fields arrays` differs from what the crate handed the visitors (record #{i})") }
        | .error e => return { tags, bad := some ("reader-model", s!"`readAll target fields arrays` fails ({repr e}) on arrays the crate reads") }
        tags := tags ++ ["bridge:typed-log", "bridge:reader-model"]
        if !borrowed then
          if let some i := firstIdx (expected.zip dvOk) fun (d, x) => !dvalMatches d x then
            return { tags, bad := some ("dvalOf", s!"`dvalOf t (norm t v)` differs from what the crate handed the visitors of the real derive (record #{i})") }
          tags := tags ++ ["bridge:dvalOf"]
        if let some g := getOpt r "got_rows" then
          let got ← (← g.getArr?).toList.mapM svalOfJson
          if got != normed then
            return { tags, bad := some ("got-rows", "what `from_marrow::<Vec<T>>` returned, re-serialized by the derived Serialize, is not `ser t (norm t v)`") }
          tags := tags ++ ["bridge:got-rows"]
  -- ---- the model's whole chain on the case
  let chain : R Bool := do
    let fs ← model
    let arrs ← Build.toMarrow ext fs (vs.map (ser t))
    let ds ← readAll (toTarget t) fs arrs
    pure (ds == expected)
  let chainOk := match chain with | .ok b => b | .error _ => false
  tags := tags ++ [if chainOk then "bridge:chain-ok" else s!"bridge:chain-{match chain with | .ok _ => "differs" | .error _ => chain.cls}"]
  if chainOk != crateOk then
    if inside then
      return { tags, bad := some ("chain", s!"the model's chain fromType → toMarrow → readAll (toTarget t) is {if chainOk then "ok" else "not ok"} ({chain.cls}), the crate {if crateOk then "round-trips" else "does not round-trip"} the case") }
    else tags := tags ++ ["bridge:chain-vs-crate-differs-outside"]
  -- ---- the theorem, evaluated
  if inside then
    let failed := failedHyps ext opts t vs
    tags := tags ++ (if failed.isEmpty then ["bridge:hyps"] else failed.map fun h => s!"bridge:hyp-fails:{h}")
    if failed.isEmpty && !chainOk then
      return { tags, bad := some ("theorem", "every hypothesis of C04_end_to_end_root holds of the case and the evaluated chain is not ok") }
    if ftCls == "ok" && vs.all (wt t) then
      if let some i := firstIdx (vs.zip rows) fun (v, r) => inScopeU opts t v != !noneAtUnionRow fields r then
        return { tags, bad := some ("exclusion", s!"`inScopeU` and `noneAtUnionRow` disagree on row #{i}") }
  return { tags }

end Driver.RoundtripBridge
