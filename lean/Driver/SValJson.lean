import Driver.Util
import SaModel.Data.SValTyped
/- wire form of SVal (one object per serde call; see harness/src/sval.rs).  `svalOfJson` refuses literals outside the width
of their call (`SVal.typed`, Data/SValTyped.lean): every value handed to the model satisfies the typing invariant of
`SVal` — `svalOfJson_typed` -/
namespace Driver
open Lean SaModel

def intTyOfStr : String → Option IntTy
  | "i8" => some .i8 | "i16" => some .i16 | "i32" => some .i32 | "i64" => some .i64
  | "u8" => some .u8 | "u16" => some .u16 | "u32" => some .u32 | "u64" => some .u64
  | _ => none

partial def svalOfJsonRaw (j : Json) : Except String SVal := do
  let k ← getStr j "k"
  let items (key : String) : Except String SVals := do
    pure (SVals.ofList (← (← getArr j key).toList.mapM svalOfJsonRaw))
  let fields : Except String SFields := do
    let fs ← (← getArr j "f").toList.mapM fun e => do
      match (← e.getArr?).toList with
      | [key, al, v] => pure ((← key.getStr?), (← al.getNat?), (← svalOfJsonRaw v))
      | _ => throw "bad struct field"
    pure (SFields.ofList fs)
  match k with
  | "none" => pure .none
  | "unit" => pure .unit
  | "some" => pure (.some (← svalOfJsonRaw (← getObj j "v")))
  | "bool" => pure (.bool (← getBool j "v"))
  | "f32" => pure (.f32 (← getBigInt j "bits").toNat)
  | "f64" => pure (.f64 (← getBigInt j "bits").toNat)
  | "char" => pure (.char (← getNat j "v"))
  | "str" => pure (.str (← getStr j "v"))
  | "bytes" => pure (.bytes (← unhex (← getStr j "v")))
  | "seq" => pure (.seq (← items "v"))
  | "tuple" => pure (.tuple (← items "v"))
  | "tuple_struct" => pure (.tupleStruct (← getStr j "n") (← items "v"))
  | "newtype_struct" => pure (.newtypeStruct (← getStr j "n") (← svalOfJsonRaw (← getObj j "v")))
  | "unit_struct" => pure (.unitStruct (← getStr j "n"))
  | "struct" => pure (.record (← getStr j "n") (← fields))
  | "map" =>
    let es ← (← getArr j "e").toList.mapM fun e => do
      match (← e.getArr?).toList with
      | [a, b] => pure ((← svalOfJsonRaw a), (← svalOfJsonRaw b))
      | _ => throw "bad map entry"
    pure (.map (SEntries.ofList es))
  | "map_raw" =>
    let ops ← (← getArr j "ops").toList.mapM fun e => do
      match e.getObjVal? "key" with
      | .ok kk => pure (Sum.inl (← svalOfJsonRaw kk))
      | .error _ => pure (Sum.inr (← svalOfJsonRaw (← getObj e "val")))
    pure (.mapRaw (ops.foldr (fun o acc => match o with | .inl kk => .key kk acc | .inr v => .value v acc) .nil))
  | "unit_variant" => pure (.unitVariant (← getStr j "n") (← getNat j "i") (← getStr j "vn"))
  | "newtype_variant" => pure (.newtypeVariant (← getStr j "n") (← getNat j "i") (← getStr j "vn") (← svalOfJsonRaw (← getObj j "v")))
  | "tuple_variant" => pure (.tupleVariant (← getStr j "n") (← getNat j "i") (← getStr j "vn") (← items "v"))
  | "struct_variant" => pure (.structVariant (← getStr j "n") (← getNat j "i") (← getStr j "vn") (← fields))
  | _ =>
    match intTyOfStr k with
    | some t => pure (.int t (← getBigInt j "v"))
    | none => throw s!"unknown serde kind {k}"

/-- the wire decoder: the structural decoder followed by the typing check (an `i8` literal outside −128…127, a float bit
pattern wider than its type, a `char` that is not a Unicode scalar value, a variant index beyond `u32` are refused:
`harness/src/sval.rs` could not have issued such a call) -/
def svalOfJson (j : Json) : Except String SVal := do
  let x ← svalOfJsonRaw j
  if x.typed then pure x else throw s!"ill-typed serde literal in a {x.kind} value"

/-- every value the driver hands to the model satisfies the typing invariant of `SVal` (hence `SValOK`, the row
hypothesis of `C03_wfS`: `Lemmas.C03.typed_SValOK`) -/
theorem svalOfJson_typed (j : Json) (x : SVal) (h : svalOfJson j = .ok x) : x.typed = true := by
  unfold svalOfJson at h
  cases hr : svalOfJsonRaw j with
  | error e => rw [hr] at h; cases h
  | ok y =>
    rw [hr] at h
    simp only [bind, Except.bind] at h
    split at h
    · rename_i ht; cases h; exact ht
    · cases h

end Driver
