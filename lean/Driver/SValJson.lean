import Driver.Util
import SaModel.Data.SVal
/- wire form of SVal (one object per serde call; see harness/src/sval.rs) -/
namespace Driver
open Lean SaModel

def intTyOfStr : String → Option IntTy
  | "i8" => some .i8 | "i16" => some .i16 | "i32" => some .i32 | "i64" => some .i64
  | "u8" => some .u8 | "u16" => some .u16 | "u32" => some .u32 | "u64" => some .u64
  | _ => none

partial def svalOfJson (j : Json) : Except String SVal := do
  let k ← getStr j "k"
  let items (key : String) : Except String SVals := do
    pure (SVals.ofList (← (← getArr j key).toList.mapM svalOfJson))
  let fields : Except String SFields := do
    let fs ← (← getArr j "f").toList.mapM fun e => do
      match (← e.getArr?).toList with
      | [key, al, v] => pure ((← key.getStr?), (← al.getNat?), (← svalOfJson v))
      | _ => throw "bad struct field"
    pure (SFields.ofList fs)
  match k with
  | "none" => pure .none
  | "unit" => pure .unit
  | "some" => pure (.some (← svalOfJson (← getObj j "v")))
  | "bool" => pure (.bool (← getBool j "v"))
  | "f32" => pure (.f32 (← getBigInt j "bits").toNat)
  | "f64" => pure (.f64 (← getBigInt j "bits").toNat)
  | "char" => pure (.char (← getNat j "v"))
  | "str" => pure (.str (← getStr j "v"))
  | "bytes" => pure (.bytes (← unhex (← getStr j "v")))
  | "seq" => pure (.seq (← items "v"))
  | "tuple" => pure (.tuple (← items "v"))
  | "tuple_struct" => pure (.tupleStruct (← getStr j "n") (← items "v"))
  | "newtype_struct" => pure (.newtypeStruct (← getStr j "n") (← svalOfJson (← getObj j "v")))
  | "unit_struct" => pure (.unitStruct (← getStr j "n"))
  | "struct" => pure (.record (← getStr j "n") (← fields))
  | "map" =>
    let es ← (← getArr j "e").toList.mapM fun e => do
      match (← e.getArr?).toList with
      | [a, b] => pure ((← svalOfJson a), (← svalOfJson b))
      | _ => throw "bad map entry"
    pure (.map (SEntries.ofList es))
  | "map_raw" =>
    let ops ← (← getArr j "ops").toList.mapM fun e => do
      match e.getObjVal? "key" with
      | .ok kk => pure (Sum.inl (← svalOfJson kk))
      | .error _ => pure (Sum.inr (← svalOfJson (← getObj e "val")))
    pure (.mapRaw (ops.foldr (fun o acc => match o with | .inl kk => .key kk acc | .inr v => .value v acc) .nil))
  | "unit_variant" => pure (.unitVariant (← getStr j "n") (← getNat j "i") (← getStr j "vn"))
  | "newtype_variant" => pure (.newtypeVariant (← getStr j "n") (← getNat j "i") (← getStr j "vn") (← svalOfJson (← getObj j "v")))
  | "tuple_variant" => pure (.tupleVariant (← getStr j "n") (← getNat j "i") (← getStr j "vn") (← items "v"))
  | "struct_variant" => pure (.structVariant (← getStr j "n") (← getNat j "i") (← getStr j "vn") (← fields))
  | _ =>
    match intTyOfStr k with
    | some t => pure (.int t (← getBigInt j "v"))
    | none => throw s!"unknown serde kind {k}"

end Driver
