import Driver.Util
import SaModel.Data.Schema
/-
Wire form of `Field` / `DataType` (DESIGN.md Appendix A), produced by harness/src/schema_dump.rs:
  {"name":…,"nullable":…,"meta":[[k,v]… sorted],"dt":{"t":"Int32", …parameters…}}
-/
namespace Driver
open Lean SaModel

def unitOfStr : String → Except String TimeUnit
  | "Second" => .ok .second | "Millisecond" => .ok .millisecond
  | "Microsecond" => .ok .microsecond | "Nanosecond" => .ok .nanosecond
  | s => .error s!"bad time unit {s}"

def unitToStr : TimeUnit → String
  | .second => "Second" | .millisecond => "Millisecond" | .microsecond => "Microsecond" | .nanosecond => "Nanosecond"

def metaOfJson (j : Json) : Except String Metadata := do
  let arr ← j.getArr?
  arr.toList.mapM fun kv => do
    let a ← kv.getArr?
    match a.toList with
    | [k, v] => pure (← k.getStr?, ← v.getStr?)
    | _ => throw "bad metadata entry"

mutual
partial def dataTypeOfJson (j : Json) : Except String DataType := do
  let t ← getStr j "t"
  match t with
  | "Null" => pure .null | "Boolean" => pure .boolean
  | "Int8" => pure .int8 | "Int16" => pure .int16 | "Int32" => pure .int32 | "Int64" => pure .int64
  | "UInt8" => pure .uint8 | "UInt16" => pure .uint16 | "UInt32" => pure .uint32 | "UInt64" => pure .uint64
  | "Float16" => pure .float16 | "Float32" => pure .float32 | "Float64" => pure .float64
  | "Utf8" => pure .utf8 | "LargeUtf8" => pure .largeUtf8 | "Utf8View" => pure .utf8View
  | "Binary" => pure .binary | "LargeBinary" => pure .largeBinary | "BinaryView" => pure .binaryView
  | "FixedSizeBinary" => pure (.fixedSizeBinary (← getInt j "n"))
  | "Date32" => pure .date32 | "Date64" => pure .date64
  | "Timestamp" =>
    let tz := match getOpt j "tz" with | some (.str s) => some s | _ => none
    pure (.timestamp (← unitOfStr (← getStr j "unit")) tz)
  | "Time32" => pure (.time32 (← unitOfStr (← getStr j "unit")))
  | "Time64" => pure (.time64 (← unitOfStr (← getStr j "unit")))
  | "Duration" => pure (.duration (← unitOfStr (← getStr j "unit")))
  | "Interval" =>
    match (← getStr j "unit") with
    | "YearMonth" => pure (.interval .yearMonth) | "DayTime" => pure (.interval .dayTime)
    | "MonthDayNano" => pure (.interval .monthDayNano) | s => throw s!"bad interval unit {s}"
  | "Decimal128" => pure (.decimal128 (← getNat j "p") (← getInt j "s"))
  | "Struct" =>
    let fs ← (← getArr j "fields").toList.mapM fieldOfJson
    pure (.struct (Fields.ofList fs))
  | "List" => pure (.list (← fieldOfJson (← getObj j "child")))
  | "LargeList" => pure (.largeList (← fieldOfJson (← getObj j "child")))
  | "FixedSizeList" => pure (.fixedSizeList (← fieldOfJson (← getObj j "child")) (← getInt j "n"))
  | "Map" => pure (.map (← fieldOfJson (← getObj j "entries")) (← getBool j "sorted"))
  | "Dictionary" => pure (.dictionary (← dataTypeOfJson (← getObj j "key")) (← dataTypeOfJson (← getObj j "value")))
  | "RunEndEncoded" => pure (.runEndEncoded (← fieldOfJson (← getObj j "run_ends")) (← fieldOfJson (← getObj j "values")))
  | "Union" =>
    let fs ← (← getArr j "fields").toList.mapM fun e => do
      let a ← e.getArr?
      match a.toList with
      | [i, f] => pure ((← i.getInt?), (← fieldOfJson f))
      | _ => throw "bad union field"
    let mode ← match (← getStr j "mode") with
      | "Dense" => pure UnionMode.dense | "Sparse" => pure UnionMode.sparse | s => throw s!"bad union mode {s}"
    pure (.union (UFields.ofList fs) mode)
  | _ => throw s!"unknown data type {t}"

partial def fieldOfJson (j : Json) : Except String Field := do
  pure (.mk (← getStr j "name") (← dataTypeOfJson (← getObj j "dt")) (← getBool j "nullable") (← metaOfJson (← getObj j "meta")))
end

def metaToJson (m : Metadata) : Json :=
  Json.arr (m.map fun (k, v) => Json.arr #[Json.str k, Json.str v]).toArray

mutual
partial def dataTypeToJson : DataType → Json
  | .fixedSizeBinary n => Json.mkObj [("t", "FixedSizeBinary"), ("n", Json.num (JsonNumber.fromInt n))]
  | .timestamp u tz => Json.mkObj [("t", "Timestamp"), ("unit", unitToStr u), ("tz", match tz with | some s => Json.str s | none => Json.null)]
  | .time32 u => Json.mkObj [("t", "Time32"), ("unit", unitToStr u)]
  | .time64 u => Json.mkObj [("t", "Time64"), ("unit", unitToStr u)]
  | .duration u => Json.mkObj [("t", "Duration"), ("unit", unitToStr u)]
  | .interval u => Json.mkObj [("t", "Interval"), ("unit", match u with | .yearMonth => "YearMonth" | .dayTime => "DayTime" | .monthDayNano => "MonthDayNano")]
  | .decimal128 p s => Json.mkObj [("t", "Decimal128"), ("p", p), ("s", Json.num (JsonNumber.fromInt s))]
  | .struct fs => Json.mkObj [("t", "Struct"), ("fields", Json.arr (fs.toList.map fieldToJson).toArray)]
  | .list f => Json.mkObj [("t", "List"), ("child", fieldToJson f)]
  | .largeList f => Json.mkObj [("t", "LargeList"), ("child", fieldToJson f)]
  | .fixedSizeList f n => Json.mkObj [("t", "FixedSizeList"), ("child", fieldToJson f), ("n", Json.num (JsonNumber.fromInt n))]
  | .map f s => Json.mkObj [("t", "Map"), ("entries", fieldToJson f), ("sorted", s)]
  | .dictionary k v => Json.mkObj [("t", "Dictionary"), ("key", dataTypeToJson k), ("value", dataTypeToJson v)]
  | .runEndEncoded a b => Json.mkObj [("t", "RunEndEncoded"), ("run_ends", fieldToJson a), ("values", fieldToJson b)]
  | .union fs m => Json.mkObj [("t", "Union"),
      ("fields", Json.arr (fs.toList.map fun (i, f) => Json.arr #[Json.num (JsonNumber.fromInt i), fieldToJson f]).toArray),
      ("mode", match m with | .dense => "Dense" | .sparse => "Sparse")]
  | d => Json.mkObj [("t", d.ctor)]

partial def fieldToJson : Field → Json
  | .mk n d nl m => Json.mkObj [("name", n), ("nullable", nl), ("meta", metaToJson m), ("dt", dataTypeToJson d)]
end

end Driver
